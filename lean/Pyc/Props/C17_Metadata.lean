import Pyc.Proofs.Metadata
import Pyc.Props.C17

/-! # C17 (extension) — the auxiliary-data hash is the BLAKE2b-256 digest of exactly the bytes `AuxiliaryData.to_cbor()` writes

Property theorems only.  The hash function `H : Nat → Bytes → Bytes` is a universally quantified parameter, as in
`Props/C17.lean`; there the auxiliary data is an arbitrary item, here it is the item the modelled serializer
(`Model/Metadata.lean`) produces for an `AuxiliaryData` object. -/

namespace Pyc.C17.Metadata
open Pyc Pyc.Cbor Pyc.Codec Pyc.Custom Pyc.Metadata Pyc.Ids

variable {N : Type}

/-- **the preimage**: `AuxiliaryData.hash()` is `H 32` of `encode (toItem aux)` — the bytes of `to_cbor()`, nothing else -/
theorem aux_hash_preimage (H : Nat → Bytes → Bytes) (L : Leaf N) (a : Aux N) :
    (auxHashId L a).len = 32 ∧ (auxHashId L a).pre = encAux L a ∧ auxHash H L a = H 32 (encAux L a) :=
  ⟨rfl, rfl, rfl⟩

/-- … which is the identifier the specification (`Spec/Ids.lean`: BLAKE2b-256 over the serialized auxiliary data) assigns -/
theorem aux_hash_spec (L : Leaf N) (a : Aux N) : auxHashId L a = Spec.Ids.idOf (.auxData (itemAux L a)) := by
  have h32 : Spec.Ids.octets Spec.Ids.HASH = 32 := by decide
  simp only [auxHashId, auxId, Spec.Ids.idOf, AUXILIARY_DATA_HASH_SIZE, h32]

/-- **the builder**: in the transaction `TransactionBuilder` ships, body key 7 is present iff auxiliary data is shipped, and
it is the hash (32, `to_cbor()`) of the very object in the transaction's last position -/
theorem aux_hash_in_built_tx (H : Nat → Bytes → Bytes) (L : Leaf N) (r : BodyRest) (ws : Item) (aux : Option (Aux N))
    (hb : lookupKey 7 r.before = none) (ha : lookupKey 7 r.after = none) :
    ∃ kvs, txParts (buildTx H r ws (aux.map (itemAux L))) = some (.map kvs, ws, .simple 21, itemOptAux L aux) ∧
      (aux = none → lookupKey 7 kvs = none) ∧
      (∀ a, aux = some a → lookupKey 7 kvs = some (.bytes (auxHash H L a))) := by
  obtain ⟨kvs, shipped, h1, h2, h3⟩ := C17.aux_hash_shipped H r ws (aux.map (itemAux L)) hb ha (by
    intro x hx
    cases aux with
    | none => cases hx
    | some a => cases hx; cases a <;> rfl)
  cases aux with
  | none =>
    have hs : shipped = .simple 22 := by
      simp only [Option.map, buildTx, txParts] at h1
      exact ((Prod.mk.inj (Prod.mk.inj (Prod.mk.inj (Option.some.inj h1)).2).2).2).symm
    subst hs
    exact ⟨kvs, h1, fun _ => (h2 rfl).2, fun a ha => by cases ha⟩
  | some a =>
    have hs : shipped = itemAux L a := by
      simp only [Option.map, buildTx, txParts] at h1
      exact ((Prod.mk.inj (Prod.mk.inj (Prod.mk.inj (Option.some.inj h1)).2).2).2).symm
    subst hs
    have hn : isNull (itemAux L a) = false := by cases a <;> rfl
    refine ⟨kvs, h1, (fun h => by cases h), ?_⟩
    intro a' ha'
    cases ha'
    exact (h3 hn).2.1

/-- **decoding does not change the hash**: the decoded object (label maps in wire order) hashes to the same digest -/
theorem aux_hash_decoded (H : Nat → Bytes → Bytes) (L : Leaf N) (a : Aux N) : auxHash H L (canonAux a) = auxHash H L a := by
  simp only [auxHash, auxHashId, itemAux_canonAux]

/-- **insertion order of the labels does not change the hash** -/
theorem aux_hash_order_independent (H : Nat → Bytes → Bytes) (L : Leaf N) (a₁ a₂ : Aux N) (h : AuxOk a₁)
    (hw : AuxLabelsWF a₁) (hp : PermAux a₁ a₂) : auxHash H L a₁ = auxHash H L a₂ := by
  simp only [auxHash, auxHashId, itemAux_perm L a₁ a₂ h hw hp]

/-- different (CBOR-representable) serializations have different preimages: for an `H` that does not collide on them the
hashes differ -/
theorem aux_hash_binds (H : Nat → Bytes → Bytes) (L : Leaf N) (a₁ a₂ : Aux N) (h1 : Cbor.WF (itemAux L a₁))
    (h2 : Cbor.WF (itemAux L a₂)) (hne : itemAux L a₁ ≠ itemAux L a₂)
    (hc : C17.NoCollision H 32 (encAux L a₁) (encAux L a₂)) : auxHash H L a₁ ≠ auxHash H L a₂ := by
  intro he
  exact hne (encode_injective _ _ h1 h2 (hc he))

/-! ## non-vacuity -/

def natLeaf : Leaf Nat := ⟨fun n => .uint n, fun i => match i with | .uint n => .ok n | _ => .deser⟩

def exMeta : Metadata := [(674, .map [(.text [109, 115, 103], .list [.text [104, 105]])]), (0, .int (-5))]
def exAux : Aux Nat := .alonzo { metadata := some exMeta, native := some [3] }

-- the preimage, byte by byte: d9 0103 a2 00 a2 00 24 19 02a2 a1 63 6d7367 81 62 6869 01 81 03
example : (auxHashId natLeaf exAux).pre =
    [0xd9, 0x01, 0x03, 0xa2, 0x00, 0xa2, 0x00, 0x24, 0x19, 0x02, 0xa2, 0xa1, 0x63, 0x6d, 0x73, 0x67, 0x81, 0x62, 0x68, 0x69,
     0x01, 0x81, 0x03] := by decide +kernel
example : lookupKey 7 [(Item.uint 0, Item.array []), (.uint 1, .array []), (.uint 2, .uint 170000)] = none ∧
    lookupKey 7 [(Item.uint 9, Item.map [])] = none := by decide
-- a body built around it carries, under key 7, the digest (here `H` = identity) of the bytes shipped in the last position
example :
    (match txParts (buildTx (fun _ b => b) ⟨[(.uint 2, .uint 5)], []⟩ (.map []) ((some exAux).map (itemAux natLeaf))) with
      | some (.map kvs, _, _, shipped) =>
        (match lookupKey 7 kvs with
          | some (.bytes b) => b == encode shipped && b == encAux natLeaf exAux
          | _ => false)
      | _ => false) = true := by decide +kernel

end Pyc.C17.Metadata

#print axioms Pyc.C17.Metadata.aux_hash_preimage
#print axioms Pyc.C17.Metadata.aux_hash_spec
#print axioms Pyc.C17.Metadata.aux_hash_in_built_tx
#print axioms Pyc.C17.Metadata.aux_hash_decoded
#print axioms Pyc.C17.Metadata.aux_hash_order_independent
#print axioms Pyc.C17.Metadata.aux_hash_binds
