import Pyc.Proofs.Metadata

/-! # C02 (extension) — emitted metadata / auxiliary data conforms to the ledger CDDL

Property theorems only.  Specification: `Pyc/Spec/Metadata.lean` (the CDDL rules `transaction_metadatum`, `metadata`,
`auxiliary_data` transliterated as recognisers over CBOR items, and as an encoder from content, independently of the
model); model: `Pyc/Model/Metadata.lean`.  `native_script` is a parameter: a recogniser `native` that accepts what the leaf
codec writes. -/

namespace Pyc.C02.Metadata
open Pyc Pyc.Cbor Pyc.Codec Pyc.Custom Pyc.Metadata

variable {N : Type}

/-- **metadatum**: a value in the CDDL ranges (64-bit integers, no booleans, strings of at most 64 bytes in every
position) is written as a `transaction_metadatum` -/
theorem metadatum_conforms (v : Md) (h : specOkV v = true) : Spec.Metadata.metadatum (itemMd v) = true :=
  metadatum_itemMd v h

/-- … and exactly as the specification's encoder writes the same content: `toItem x = spec x` -/
theorem metadatum_spec_enc (s : Spec.Metadata.TxMd) (h : s.ok = true) : itemMd (ofSpec s) = Spec.Metadata.encMd s :=
  itemMd_ofSpec s h

/-- every model value in the CDDL ranges is the image of a specification value (so the statement above covers them all) -/
theorem metadatum_spec_surjective (v : Md) (h : specOkV v = true) :
    ∃ s : Spec.Metadata.TxMd, s.ok = true ∧ ofSpec s = v ∧ itemMd v = Spec.Metadata.encMd s := by
  obtain ⟨h1, h2⟩ := toSpec_spec v h
  exact ⟨toSpec v, h1, h2, by rw [← h2, itemMd_ofSpec _ h1, h2]⟩

/-- **metadata**: `uint` labels and values in the CDDL ranges are written as
`{ * transaction_metadatum_label => transaction_metadatum }` -/
theorem metadata_conforms (m : Metadata) (h : specOkM m = true) : Spec.Metadata.metadata (itemMetadata m) = true :=
  metadata_itemMetadata m h

/-- … namely as the specification's encoder writes the same entries listed in canonical order -/
theorem metadata_spec_enc (m : Metadata) (h : specOkM m = true) :
    itemMetadata m = Spec.Metadata.encMetadata (specContent (canonSortInt m)) := itemMetadata_spec m h

/-- **auxiliary_data**: the three forms — every subset of the Alonzo fields, the Shelley-MA form with a script list — are
written as the CDDL prescribes -/
theorem aux_conforms (L : Leaf N) (native : Item → Bool) (hn : ∀ n, native (L.enc n) = true) (a : Aux N)
    (h : AuxSpecOk a) : Spec.Metadata.auxiliary_data native (itemAux L a) = true :=
  auxiliary_data_itemAux L native hn a h

/-- … in particular whatever the constructors make of their arguments (`normAux`: a Shelley-MA form without a script
list is given the empty list), as soon as the metadata is in the CDDL ranges -/
theorem constructed_conforms_partial (L : Leaf N) (native : Item → Bool) (hn : ∀ n, native (L.enc n) = true) (a : Aux N)
    (h : AuxMdSpecOk a) :
    Spec.Metadata.auxiliary_data native (itemAux L (normAux a)) = true ∧
    (∀ m, a = .shelley m → validate m = true) := by
  refine ⟨aux_conforms L native hn (normAux a) (auxSpecOk_normAux a h), ?_⟩
  intro m hm
  subst hm
  simp only [AuxMdSpecOk, specOkM, List.all_eq_true, Bool.and_eq_true] at h
  simp only [validate, List.all_eq_true]
  exact fun p hp => validV_of_spec p.2 (h p hp).2

/-- the full statement — "whatever the constructors accept is written as the CDDL prescribes" — is FALSE of the code:
`_validate` lets through values that are not a `transaction_metadatum` -/
def constructed_conforms_goal : Prop :=
  ∀ (native : Item → Bool) (L : Leaf Nat), (∀ n, native (L.enc n) = true) →
    ∀ a : Aux Nat, AuxOk a → (∀ m, (a = .shelley m ∨ (∃ ns, a = .shelleyMa ⟨m, ns⟩) ∨ ∃ b, a = .alonzo b ∧ b.metadata = some m) →
      validate m = true) → Spec.Metadata.auxiliary_data native (itemAux L (normAux a)) = true

def natLeaf : Leaf Nat := ⟨fun n => .uint n, fun i => match i with | .uint n => .ok n | _ => .deser⟩
def natRule : Item → Bool
  | .uint _ => true
  | _ => false

/-- witnesses (each accepted by the constructors): a `True` value is written `f5`; `2^64` as a bignum tag; a 65-byte key
of a nested map; a negative label -/
theorem constructed_conforms_counterexample : ¬ constructed_conforms_goal := by
  intro h
  have := h natRule natLeaf (fun _ => rfl) (.shelley [(0, .bool true)]) ⟨by simp [labels], by decide⟩
    (by intro m hm; rcases hm with hm | ⟨_, hm⟩ | ⟨_, hm, _⟩ <;> cases hm; decide)
  revert this
  decide

/-! ## non-vacuity -/

def exMd : Md :=
  .map [(.text [107], .list [.int 0, .int (-1), .int 18446744073709551615, .int (-18446744073709551616)]),
        (.int 7, .bytes (List.replicate 64 9)), (.list [.int 1], .map [(.map [], .text (List.replicate 64 97))])]
def exMeta : Metadata := [(4294967296, exMd), (24, .text []), (0, .int 5), (18446744073709551615, .list [])]

example : specOkV exMd = true ∧ specOkM exMeta = true := by decide +kernel
example : Spec.Metadata.metadata (itemMetadata exMeta) = true := metadata_conforms exMeta (by decide +kernel)
example : ([.shelley exMeta, .shelleyMa ⟨exMeta, some [1, 2]⟩, .alonzo {}, .alonzo { metadata := some exMeta, v2 := some [[1]] },
    .alonzo { native := some [], v1 := some [], v3 := some [[], [7]] }] : List (Aux Nat)).all
      (fun a => auxSpecOkB a && Spec.Metadata.auxiliary_data natRule (itemAux natLeaf a)) = true := by decide +kernel
-- the recogniser refuses what the counterexamples write
example : ([.shelley [(0, .bool true)], .shelley [(0, .int 18446744073709551616)], .shelley [(-1, .int 0)],
    .shelley [(0, .map [(.bytes (List.replicate 65 0), .int 0)])]] : List (Aux Nat)).all
      (fun a => !Spec.Metadata.auxiliary_data natRule (itemAux natLeaf (normAux a))) = true := by decide +kernel
-- the Shelley-MA form without a script list conforms once constructed; `null` in its place (a foreign stream) does not
example : Spec.Metadata.auxiliary_data natRule (itemAux natLeaf (normAux (.shelleyMa ⟨exMeta, Option.none⟩))) = true ∧
    Spec.Metadata.auxiliary_data natRule (itemAux natLeaf (.shelleyMa ⟨exMeta, Option.none⟩)) = false := by decide +kernel
-- … and is not trivially true: wrong tag, a sixth key, a repeated key, a text label
example : ([.tag 258 (.map []), .tag 259 (.map [(.uint 5, .array [])]), .tag 259 (.map [(.uint 2, .array []), (.uint 2, .array [])]),
    .map [(.text [97], .uint 1)], .array [.map []], .tag 259 (.array [])] : List Item).all
      (fun i => !Spec.Metadata.auxiliary_data natRule i) = true := by decide +kernel

end Pyc.C02.Metadata

#print axioms Pyc.C02.Metadata.metadatum_conforms
#print axioms Pyc.C02.Metadata.metadatum_spec_enc
#print axioms Pyc.C02.Metadata.metadatum_spec_surjective
#print axioms Pyc.C02.Metadata.metadata_conforms
#print axioms Pyc.C02.Metadata.metadata_spec_enc
#print axioms Pyc.C02.Metadata.aux_conforms
#print axioms Pyc.C02.Metadata.constructed_conforms_partial
#print axioms Pyc.C02.Metadata.constructed_conforms_counterexample
