import Pyc.Proofs.Builder

/-! # C08 — built outputs are ledger-valid; otherwise the builder refuses

Models: `Pyc/Model/Output.lean` (`TransactionOutput` serialization, `min_lovelace_post_alonzo`, the negative-quantity
refusal) and `Pyc/Model/Builder.lean` (`_calc_change`, token packing). -/

namespace Pyc.C08
open Pyc Pyc.Builder Pyc.Cbor

/-- the amount the utility prices: an output holding 0 lovelace is priced as if it held 1 ADA -/
def priced (v : Value) : Value := if v.coin = 0 then ⟨1000000, v.ma⟩ else v

/-- **minimum-ADA formula**: (160 + size of the output serialized in map form) × coins per byte -/
theorem minAda_formula (cpb : Int) (o : Output) :
    minLovelace cpb o
      = (160 + ((Output.enc { o with amount := priced o.amount, postAlonzo := true }).length : Int)) * cpb := by
  unfold minLovelace priced Output.enc Output.item Output.usesMap
  simp

theorem head0_len (n : Nat) (h1 : 65536 ≤ n) (h2 : n < 4294967296) : (head 0 n).length = 5 := by
  unfold head
  have : ¬ n < 24 := by omega
  have : ¬ n < 256 := by omega
  have : ¬ n < 65536 := by omega
  simp [*, beBytes]

theorem ofInt_len (c : Int) (h1 : 65536 ≤ c) (h2 : c < 4294967296) : (encode (ofInt c)).length = 5 := by
  unfold ofInt
  have h0 : 0 ≤ c := by omega
  have h3 : c.toNat < 2 ^ 64 := by omega
  simp only [h0, h3, if_true]
  rw [encode]
  exact head0_len _ (by omega) (by omega)

theorem itemValue_len (c₁ c₂ : Int) (m : MultiAsset) (h1 : 65536 ≤ c₁ ∧ c₁ < 4294967296)
    (h2 : 65536 ≤ c₂ ∧ c₂ < 4294967296) :
    (encode (itemValue ⟨c₁, m⟩)).length = (encode (itemValue ⟨c₂, m⟩)).length := by
  unfold itemValue
  simp only
  split
  · rw [ofInt_len _ h1.1 h1.2, ofInt_len _ h2.1 h2.2]
  · simp only [encode, encodeList, List.length_append, List.length_cons, List.length_nil]
    rw [ofInt_len _ h1.1 h1.2, ofInt_len _ h2.1 h2.2]

/-- the minimum ADA of an output does not depend on its coin as long as the coin is encoded in the same CBOR width
as the 1-ADA placeholder (5 bytes: 65 536 ≤ coin < 2^32) — so an output funded with exactly the computed minimum
meets its own requirement -/
theorem minAda_indep_coin (cpb : Int) (addr : Bytes) (m : MultiAsset) (c : Int) (h1 : 65536 ≤ c) (h2 : c < 4294967296) :
    minLovelace cpb { addr := addr, amount := ⟨c, m⟩ } = minLovelace cpb { addr := addr, amount := ⟨0, m⟩ } := by
  unfold minLovelace
  have hc : ¬ c = 0 := by omega
  simp only [hc, if_false, if_true]
  congr 2
  simp only [Output.itemMap, Output.datumOption, encode, encodePairs, List.length_append, List.length_cons,
    List.cons_append, List.nil_append, List.append_nil]
  rw [itemValue_len c 1000000 m ⟨h1, h2⟩ ⟨by omega, by omega⟩]

/-- **change outputs hold their minimum ADA** (when the check is not disabled by `merge_change`): every change
output holds at least the minimum computed for its bundle with the 1-ADA placeholder, ADA-only change at least its
exact minimum -/
theorem changeLoop_min_ada (P : Params) (addr : Bytes) (ms : List MultiAsset) (ch : Value) (outs : List Output)
    (h : changeLoop P addr true ms ch = .ok outs) :
    ∀ o ∈ outs, minAda P addr ⟨0, o.amount.ma⟩ ≤ o.amount.coin := by
  induction ms generalizing ch outs with
  | nil => simp [changeLoop] at h; subst h; simp
  | cons m rest ih =>
    simp only [changeLoop] at h
    split at h
    · simp at h
    · rename_i hchk
      split at h
      · simp at h
      · rename_i outs' hloop
        simp only [Except.ok.injEq] at h
        subst h
        intro o ho
        simp only [List.mem_cons] at ho
        rcases ho with ho | ho
        · subst ho
          simp only [Bool.true_and, decide_eq_true_eq] at hchk
          by_cases hr : rest.isEmpty = true
          · simp only [hr, if_true]; omega
          · simp only [hr]; simp
        · exact ih _ _ hloop o ho

theorem change_min_ada (P : Params) (a : ChangeArgs) (cs : List Output) (h : calcChange P a = .ok cs) (hr : a.respect = true) :
    ∀ o ∈ cs, (o.amount.ma = [] ∧ minAda P a.addr o.amount ≤ o.amount.coin) ∨
              minAda P a.addr ⟨0, o.amount.ma⟩ ≤ o.amount.coin := by
  unfold calcChange at h
  simp only [hr] at h
  split at h
  · simp at h
  · generalize Value.sub (provided a) (requested a) = ch0 at h
    generalize (if ch0.ma.isEmpty = true then ch0 else ⟨ch0.coin, posFilter ch0.ma⟩ : Value) = ch at h
    split at h
    · rename_i hempty
      split at h
      · simp at h
      · rename_i hchk
        simp only [Except.ok.injEq] at h; subst h
        intro o ho; simp at ho; subst ho
        left
        refine ⟨rfl, ?_⟩
        simp only [Bool.true_and, decide_eq_true_eq] at hchk
        have he : ch = ⟨ch.coin, []⟩ := by
          cases ch with | mk c m => simp at hempty; simp [hempty]
        rw [← he]; simp only; omega
    · intro o ho; right; exact changeLoop_min_ada P a.addr _ _ cs h o ho

/-- **the change outputs `_add_change_and_fee` ADDS hold their minimum ADA**: the final output list is either the
requested outputs with the single change merged into the output found at the change address, or the requested outputs
followed by change outputs each holding at least its minimum ADA — also when `merge_change` is set and the change
comes out split over several outputs -/
theorem final_added_min_ada (P : Params) (outs fo : List Output) (a : ChangeArgs) (mc : Bool)
    (h : finalOutputs P outs a mc = .ok fo) :
    (∃ (i : Nat) (c : Output), mergeIndex outs a mc = some i ∧ fo = addAt c.amount i outs) ∨
    ∃ cs, fo = outs ++ cs ∧ ∀ o ∈ cs, (o.amount.ma = [] ∧ minAda P a.addr o.amount ≤ o.amount.coin) ∨
              minAda P a.addr ⟨0, o.amount.ma⟩ ≤ o.amount.coin := by
  unfold finalOutputs at h
  split at h
  · simp at h
  · rename_i cs hfin
    simp only [Except.ok.injEq] at h
    subst h
    obtain ⟨r, hcalc, hnone, hlen⟩ := Builder.finalChanges_calc P outs cs a mc hfin
    have hmin : r = true → ∀ o ∈ cs, (o.amount.ma = [] ∧ minAda P a.addr o.amount ≤ o.amount.coin) ∨
              minAda P a.addr ⟨0, o.amount.ma⟩ ≤ o.amount.coin := by
      intro hr
      have := change_min_ada P (withRespect (finalArgs outs a mc) r) cs hcalc (by simp [withRespect, hr])
      simpa [withRespect, finalArgs] using this
    cases hm : mergeIndex outs a mc with
    | none =>
      right
      exact ⟨cs, by unfold mergeChanges; rfl, hmin (hnone hm)⟩
    | some i =>
      by_cases hl : cs.length = 1
      · left
        match cs, hl with
        | [c], _ => exact ⟨i, c, rfl, by unfold mergeChanges; rfl⟩
      · right
        refine ⟨cs, ?_, hmin (hlen hl)⟩
        unfold mergeChanges
        match cs, hl with
        | [], _ => rfl
        | _ :: _ :: _, _ => rfl

/-- special case: no output to merge into (merge_change off, or on without an output at the change address) -/
theorem final_change_min_ada (P : Params) (outs fo : List Output) (a : ChangeArgs) (mc : Bool)
    (h : finalOutputs P outs a mc = .ok fo) (hn : mergeIndex outs a mc = none) :
    ∃ cs, fo = outs ++ cs ∧ ∀ o ∈ cs, (o.amount.ma = [] ∧ minAda P a.addr o.amount ≤ o.amount.coin) ∨
              minAda P a.addr ⟨0, o.amount.ma⟩ ≤ o.amount.coin := by
  rcases final_added_min_ada P outs fo a mc h with ⟨i, c, hi, _⟩ | h'
  · rw [hn] at hi; cases hi
  · exact h'

/-- with merge_change off there is never a merge target -/
theorem no_merge_target_when_off (outs : List Output) (a : ChangeArgs) : mergeIndex outs a false = none := by
  simp [mergeIndex]

def exP0 : Params := { cpb := 4310, maxValSize := 5000, keyDeposit := 2000000, poolDeposit := 500000000 }
def exBurn : ChangeArgs :=
  { fee := 170000
    inputs := [⟨9000000, []⟩]
    outputs := []
    mint := [([1, 1], [([7], -5)])]
    withdrawals := []
    deposits := 0
    addr := [0x60, 1, 2]
    respect := true }

/-- the refusal branches of `_calc_change` are exactly: requested not strictly below provided; ADA-only change
below its minimum ADA (unless disabled); a bundle's minimum ADA not covered by the ADA left (unless disabled) -/
theorem refuses_invalid_iff (P : Params) (a : ChangeArgs) :
    calcChange P a = .error .invalidTx ↔ Value.lt (requested a) (provided a) = false := by
  unfold calcChange
  simp only
  constructor
  · intro h
    cases hl : Value.lt (requested a) (provided a) with
    | false => rfl
    | true =>
      simp only [hl, Bool.not_true, Bool.false_eq_true, if_false] at h
      exfalso
      repeat' (split at h)
      all_goals (first | (simp at h; done) | skip)
      -- the change loop never produces `invalidTx`
      have noInv : ∀ (ms : List MultiAsset) (ch : Value), changeLoop P a.addr a.respect ms ch ≠ .error .invalidTx := by
        intro ms
        induction ms with
        | nil => intro ch; simp [changeLoop]
        | cons m rest ih =>
          intro ch hc
          simp only [changeLoop] at hc
          split at hc
          · simp at hc
          · split at hc
            · rename_i e he; simp only [Except.error.injEq] at hc; subst hc; exact ih _ he
            · simp at hc
      exact noInv _ _ h
  · intro h; simp [h]

/-- no change is produced without the amounts being covered: a result implies `requested < provided` held -/
theorem result_implies_covered (P : Params) (a : ChangeArgs) (cs : List Output) (h : calcChange P a = .ok cs) :
    Value.lt (requested a) (provided a) = true := by
  cases hl : Value.lt (requested a) (provided a) with
  | true => rfl
  | false => rw [(refuses_invalid_iff P a).2 hl] at h; simp at h

/-- `requested < provided` read on contents: `<` is `<=` and not `==`, and `<=` is the component-wise order for all
operands (`Pyc.C05.le_iff`, after the repair of KF-C05-le-negative) — the refusal is exact: `_calc_change` raises
`InvalidTransactionException` exactly when some requested amount (ADA or any asset, a burn of an asset the inputs do
not hold included) is not covered by what is provided, or the two values are `==` -/
theorem refuses_invalid_iff_componentwise (P : Params) (a : ChangeArgs) :
    calcChange P a = .error .invalidTx ↔
      ¬ (((requested a).coin ≤ (provided a).coin ∧
          ∀ p n, Value.qty (requested a) p n ≤ Value.qty (provided a) p n) ∧
         Value.eq (requested a) (provided a) = false) := by
  rw [refuses_invalid_iff, ← Value.lt_iff_le_ne]
  simp

/-- no change is produced without every amount being covered: a result implies `requested ≤ provided` in ADA and in
every asset (and `requested != provided`) — for all arguments -/
theorem result_implies_covered_componentwise (P : Params) (a : ChangeArgs) (cs : List Output)
    (h : calcChange P a = .ok cs) :
    ((requested a).coin ≤ (provided a).coin ∧
      ∀ p n, Value.qty (requested a) p n ≤ Value.qty (provided a) p n) ∧
    Value.eq (requested a) (provided a) = false :=
  (Value.lt_iff_le_ne _ _).1 (result_implies_covered P a cs h)

/-- a burn of 5 units of an asset the inputs do not hold: `requested = Value(fee)`, `provided = inputs + mint` stores
−5; while `<=` was key-directed `requested < provided` held and change was computed, now the builder refuses -/
example : (match calcChange exP0 exBurn with | .error .invalidTx => true | _ => false) = true := by decide +kernel

/-- token packing loses and duplicates nothing (shared with C06) -/
theorem pack_preserves (P : Params) (addr : Bytes) (ch : Value) (hw : MultiAsset.WF ch.ma)
    (hnb : (packTokens P addr ch).2 = false) (p n : Bytes) :
    sumQty (packTokens P addr ch).1 p n = MultiAsset.qty ch.ma p n :=
  packTokens_preserves P addr ch hw hnb p n

/-! ## serialization refuses negative quantities at every nesting level -/

theorem foldl_count_ge (f : Nat → Bytes × Int → Bool) (a : Asset) (c : Nat) :
    c ≤ a.foldl (fun c q => if f c q then c + 1 else c) c := by
  induction a generalizing c with
  | nil => simp
  | cons q r ih =>
    simp only [List.foldl_cons]
    split
    · exact Nat.le_trans (Nat.le_succ c) (ih _)
    · exact ih _

/-- `MultiAsset.count` is positive exactly when some stored entry satisfies the criterion -/
theorem count_pos_iff (m : MultiAsset) (crit : Bytes → Bytes → Int → Bool) :
    0 < MultiAsset.count m crit ↔ ∃ pa ∈ m, ∃ q ∈ pa.2, crit pa.1 q.1 q.2 = true := by
  unfold MultiAsset.count
  -- generalise the running counter
  suffices ∀ c : Nat, c < m.foldl (fun c p => p.2.foldl (fun c q => if crit p.1 q.1 q.2 then c + 1 else c) c) c ↔
      ∃ pa ∈ m, ∃ q ∈ pa.2, crit pa.1 q.1 q.2 = true from this 0
  have inner : ∀ (p : Bytes) (a : Asset) (c : Nat),
      (c < a.foldl (fun c q => if crit p q.1 q.2 then c + 1 else c) c ↔ ∃ q ∈ a, crit p q.1 q.2 = true) ∧
      c ≤ a.foldl (fun c q => if crit p q.1 q.2 then c + 1 else c) c := by
    intro p a
    induction a with
    | nil => intro c; simp
    | cons q r ih =>
      intro c
      simp only [List.foldl_cons, List.mem_cons, exists_eq_or_imp]
      by_cases hq : crit p q.1 q.2 = true
      · simp only [hq, if_true, true_or, iff_true]
        have := (ih (c + 1)).2
        exact ⟨by omega, by omega⟩
      · simp only [hq, Bool.false_eq_true, if_false, false_or]
        exact ih c
  have mono : ∀ (l : MultiAsset) (c : Nat),
      c ≤ l.foldl (fun c p => p.2.foldl (fun c q => if crit p.1 q.1 q.2 then c + 1 else c) c) c := by
    intro l
    induction l with
    | nil => intro c; simp
    | cons pa r ih => intro c; simp only [List.foldl_cons]; exact Nat.le_trans (inner pa.1 pa.2 c).2 (ih _)
  induction m with
  | nil => intro c; simp
  | cons pa r ih =>
    intro c
    simp only [List.foldl_cons, List.mem_cons, exists_eq_or_imp]
    have hin := inner pa.1 pa.2 c
    by_cases hex : ∃ q ∈ pa.2, crit pa.1 q.1 q.2 = true
    · simp only [hex, true_or, iff_true]
      have h1 := hin.1.2 hex
      have h2 := mono r (pa.2.foldl (fun c q => if crit pa.1 q.1 q.2 then c + 1 else c) c)
      omega
    · simp only [hex, false_or]
      have heq : pa.2.foldl (fun c q => if crit pa.1 q.1 q.2 then c + 1 else c) c = c := by
        have h1 := hin.1
        have h2 := hin.2
        have : ¬ c < pa.2.foldl (fun c q => if crit pa.1 q.1 q.2 then c + 1 else c) c := fun hc => hex (h1.1 hc)
        omega
      rw [heq]
      exact ih c

/-- an output is refused by serialization exactly when its ADA or some stored asset quantity is negative -/
theorem negative_iff (o : Output) :
    Output.negative o = true ↔ o.amount.coin < 0 ∨ ∃ pa ∈ o.amount.ma, ∃ q ∈ pa.2, q.2 < 0 := by
  unfold Output.negative
  simp only [Bool.or_eq_true, decide_eq_true_eq, gt_iff_lt]
  rw [count_pos_iff]
  simp

/-- … and a body / transaction is refused exactly when some nested output (requested, change, or collateral return)
is: no nesting level hides a negative quantity -/
theorem body_refuses_iff (outs : List Output) (cr : Option Output) :
    bodyRefuses outs cr = true ↔ (∃ o ∈ outs, Output.negative o = true) ∨ (∃ o, cr = some o ∧ Output.negative o = true) := by
  unfold bodyRefuses
  simp only [Bool.or_eq_true, List.any_eq_true]
  cases cr <;> simp

/-- non-vacuity: a two-policy bundle with little ADA under a small value-size limit is split into two change
outputs, each holding its minimum ADA; evaluated by the kernel -/
def exP : Params := { cpb := 4310, maxValSize := 22, keyDeposit := 2000000, poolDeposit := 500000000 }
def exArgs : ChangeArgs :=
  { fee := 170000
    inputs := [⟨9000000, [([1, 1], [([7], 3), ([8], 4)]), ([2, 2], [([9, 9, 9], 5)])]⟩]
    outputs := []
    mint := []
    withdrawals := []
    deposits := 0
    addr := [0x60, 1, 2]
    respect := true }

example : (match calcChange exP exArgs with
    | .ok cs => cs.length == 2 && cs.all (fun o => decide (minAda exP exArgs.addr ⟨0, o.amount.ma⟩ ≤ o.amount.coin))
    | .error _ => false) = true := by decide +kernel

end Pyc.C08

#print axioms Pyc.C08.minAda_formula
#print axioms Pyc.C08.head0_len
#print axioms Pyc.C08.ofInt_len
#print axioms Pyc.C08.itemValue_len
#print axioms Pyc.C08.minAda_indep_coin
#print axioms Pyc.C08.changeLoop_min_ada
#print axioms Pyc.C08.change_min_ada
#print axioms Pyc.C08.refuses_invalid_iff
#print axioms Pyc.C08.result_implies_covered
#print axioms Pyc.C08.refuses_invalid_iff_componentwise
#print axioms Pyc.C08.result_implies_covered_componentwise
#print axioms Pyc.C08.pack_preserves
#print axioms Pyc.C08.foldl_count_ge
#print axioms Pyc.C08.count_pos_iff
#print axioms Pyc.C08.negative_iff
#print axioms Pyc.C08.body_refuses_iff
#print axioms Pyc.C08.final_change_min_ada
#print axioms Pyc.C08.no_merge_target_when_off
#print axioms Pyc.C08.final_added_min_ada
