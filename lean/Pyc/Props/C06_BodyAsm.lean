import Pyc.Proofs.BodyAsm
import Pyc.Props.C06
import Pyc.Props.C11

/-! # C06 (extension `BodyAsm`) — the body carries exactly the builder's state, so conservation transfers to the body

Model: `Pyc/Model/BodyAsm.lean` — `BState` (what `TransactionBuilder._build_tx_body` reads), `Body` (the
`TransactionBody` it returns, CDDL keys 0..22), `buildBody` (the method, argument by argument), `finalizeState` (the tail
of `build()` that fixes body-relevant state) and `Ledger.*` (the ledger's consumed / produced on a body and a UTxO map).

The C06 theorems (`conserves_ada`, `conserves_assets`, `Props/C06.lean`) are about the accounting sub-model: inputs,
withdrawals, mint, deposits as the builder STATE holds them, and the output list `_add_change_and_fee` leaves.  The ledger
evaluates its balance equation on the BODY.  This file closes the gap:

* **faithfulness** — every field of `buildBody s` is the state's, none dropped, defaulted or taken from elsewhere
  (`scalars_faithful` … `keys_written`); which fields are written as *empty* rather than omitted is stated as the code has it
  (`passed_absent_iff_empty_goal` is FALSE: `mint`, `certificates`, `withdrawals` are passed through);
* **reference inputs** are exactly the gathered references, each once; they are NOT made disjoint from the spent inputs
  (`reference_inputs_disjoint_goal` is FALSE);
* **bridge** — `Ledger.consumed*` / `Ledger.produced*` of `buildBody s` are the expressions the accounting reads off `s`
  (`ledger_consumed_coin_eq` …), provided the spent inputs are pairwise distinct references (`bridge_needs_distinct_counterexample`:
  without that the body, an `OrderedSet`, holds fewer inputs than the accounting added up); with C06's theorems this gives the
  ledger's equation on the body itself (`body_conserves_ada`, `body_conserves_assets`). -/

namespace Pyc.C06.BodyAsm
open Pyc Pyc.Builder Pyc.BodyAsm Pyc.BodyAsm.Ledger

/-! ## faithfulness, field by field -/

/-- fee, outputs, validity interval, collateral return / total: the state's values as they are; `update` and `network_id`
are never written -/
theorem scalars_faithful (s : BState) :
    (buildBody s).fee = s.fee ∧ (buildBody s).outputs = s.outputs ∧ (buildBody s).ttl = s.ttl ∧
    (buildBody s).validityStart = s.validityStart ∧ (buildBody s).collateralReturn = s.collateralReturn ∧
    (buildBody s).totalCollateral = s.totalCollateral ∧ (buildBody s).update = none ∧ (buildBody s).networkId = none :=
  ⟨rfl, rfl, rfl, rfl, rfl, rfl, rfl, rfl⟩

/-- the inputs of the body are a set with exactly the references of the builder's inputs, in the builder's order (each at
its first occurrence) -/
theorem inputs_faithful (s : BState) :
    (buildBody s).inputs.Nodup ∧ (∀ r, r ∈ (buildBody s).inputs ↔ ∃ u ∈ s.inputs, u.ref = r) ∧
    (buildBody s).inputs.Sublist (s.inputs.map (·.ref)) := by
  refine ⟨nodup_oset _, ?_, oset_sublist _⟩
  intro r
  show r ∈ oset (s.inputs.map (·.ref)) ↔ _
  rw [mem_oset]; simp

/-- … and the very list of references when the builder's inputs are pairwise distinct -/
theorem inputs_exact (s : BState) (h : (s.inputs.map (·.ref)).Nodup) :
    (buildBody s).inputs = s.inputs.map (·.ref) := oset_of_nodup _ h

/-- the same two views C11 states its theorems about (`Rd.bodyInputs`, `Rd.bodyPolicies`): the body's inputs are
`Rd.bodyInputs` of the builder's, and the policies of the mint field as written are `Rd.bodyPolicies` of the stored mint -/
theorem c11_views_agree (s : BState) :
    (buildBody s).inputs = Rd.bodyInputs (s.inputs.map (·.ref)) ∧
    Dict.keys (((buildBody s).wireMint).getD []) = Rd.bodyPolicies (s.mint.getD []) := by
  refine ⟨oset_eq_bodyInputs _, ?_⟩
  show Dict.keys ((s.mint.map MultiAsset.normalize).getD []) = _
  cases h : s.mint with
  | none => simp [Rd.bodyPolicies, MultiAsset.normalize, Dict.keys]
  | some m => simp [Rd.bodyPolicies]

/-- `mint`, `certificates`, `withdrawals` are handed to the body as the builder holds them — also when they are empty
but not `None` -/
theorem passed_through (s : BState) :
    (buildBody s).mint = s.mint ∧ (buildBody s).certificates = s.certificates ∧
    (buildBody s).withdrawals = s.withdrawals := ⟨rfl, rfl, rfl⟩

/-- the goal "a field is omitted exactly when the builder holds nothing for it", for the three passed-through fields
(`mint` as written: zero quantities and emptied policies are dropped by `MultiAsset.to_primitive`) -/
def passed_absent_iff_empty_goal : Prop :=
  ∀ s : BState,
    (((buildBody s).wireMint = none ∨ (buildBody s).wireMint = some []) → (buildBody s).mint = none) ∧
    ((buildBody s).certificates = none ↔ s.certificates.getD [] = []) ∧
    ((buildBody s).withdrawals = none ↔ s.withdrawals.getD [] = [])

/-- the hypothesis under which it holds: the builder does not hold an empty-but-not-`None` collection -/
def noEmptyHeld (s : BState) : Bool :=
  (match s.mint with
   | some m => !(MultiAsset.normalize m).isEmpty
   | none => true) &&
  (match s.certificates with
   | some l => !l.isEmpty
   | none => true) &&
  (match s.withdrawals with
   | some l => !l.isEmpty
   | none => true)

theorem passed_absent_iff_empty_partial (s : BState) (h : noEmptyHeld s = true) :
    (((buildBody s).wireMint = none ∨ (buildBody s).wireMint = some []) → (buildBody s).mint = none) ∧
    ((buildBody s).certificates = none ↔ s.certificates.getD [] = []) ∧
    ((buildBody s).withdrawals = none ↔ s.withdrawals.getD [] = []) := by
  simp only [noEmptyHeld, Bool.and_eq_true] at h
  obtain ⟨⟨hm, hc⟩, hw⟩ := h
  refine ⟨?_, ?_, ?_⟩
  · show ((s.mint.map MultiAsset.normalize) = none ∨ (s.mint.map MultiAsset.normalize) = some []) → s.mint = none
    cases hs : s.mint with
    | none => intro _; rfl
    | some m =>
      rw [hs] at hm
      intro h'
      rcases h' with h' | h'
      · simp at h'
      · simp only [Option.map_some, Option.some.injEq] at h'
        simp [h'] at hm
  · show s.certificates = none ↔ _
    cases hs : s.certificates with
    | none => simp
    | some l =>
      rw [hs] at hc
      cases l with
      | nil => simp at hc
      | cons a t => simp
  · show s.withdrawals = none ↔ _
    cases hs : s.withdrawals with
    | none => simp
    | some l =>
      rw [hs] at hw
      cases l with
      | nil => simp at hw
      | cons a t => simp

/-- the witness state: `builder.certificates = []` (everything else default) — the body carries `certificates = []`, which
`to_cbor()` writes as key 4 with an empty array -/
def emptyCerts : BState := { certificates := some [] }

theorem passed_absent_iff_empty_counterexample : ¬ passed_absent_iff_empty_goal := by
  intro h
  have := (h emptyCerts).2.1
  have hc : (buildBody emptyCerts).certificates = some [] := rfl
  rw [hc] at this
  have h2 : emptyCerts.certificates.getD [] = [] := rfl
  exact absurd (this.2 h2) (by simp)

/-- the guarded fields (`X if X else None`): omitted exactly when the builder holds nothing (an empty list / set / dict, zero) -/
theorem guarded_absent_iff_empty (s : BState) :
    ((buildBody s).requiredSigners = none ↔ s.requiredSigners.getD [] = []) ∧
    ((buildBody s).collateral = none ↔ s.collaterals = []) ∧
    ((buildBody s).referenceInputs = none ↔ s.referenceInputs = []) ∧
    ((buildBody s).voting = none ↔ s.voting.getD [] = []) ∧
    ((buildBody s).proposals = none ↔ s.proposals.getD [] = []) ∧
    ((buildBody s).treasury = none ↔ s.treasury.getD 0 = 0) ∧
    ((buildBody s).donation = none ↔ s.donation.getD 0 = 0) := by
  refine ⟨?_, ?_, ?_, ?_, ?_, ?_, ?_⟩
  · rw [body_requiredSigners, Option.map_eq_none_iff]; exact truthyList_eq_none _
  · rw [body_collateral]; exact whenNonEmpty_eq_none _ _
  · rw [body_referenceInputs]; exact whenNonEmpty_eq_none _ _
  · rw [body_voting]; exact truthyList_eq_none _
  · rw [body_proposals]; exact truthyList_eq_none _
  · rw [body_treasury]; exact truthyInt_eq_none _
  · rw [body_donation]; exact truthyInt_eq_none _

/-- … and when written they hold the builder's content: required signers and collateral as duplicate-free sets in the
builder's order, votes / proposals / treasury value / donation as they are -/
theorem guarded_content (s : BState) :
    (buildBody s).requiredSigners.getD [] = oset (s.requiredSigners.getD []) ∧
    (buildBody s).collateral.getD [] = oset (s.collaterals.map (·.ref)) ∧
    (buildBody s).voting.getD [] = s.voting.getD [] ∧
    (buildBody s).proposals.getD [] = s.proposals.getD [] ∧
    (buildBody s).treasury.getD 0 = s.treasury.getD 0 ∧
    (buildBody s).donation.getD 0 = s.donation.getD 0 := by
  refine ⟨?_, body_collateral_getD s, ?_, ?_, ?_, ?_⟩
  · rw [body_requiredSigners]
    cases h : s.requiredSigners with
    | none => rfl
    | some l => cases l <;> rfl
  · rw [body_voting]; exact truthyList_getD _
  · rw [body_proposals]; exact truthyList_getD _
  · rw [body_treasury]; exact truthyInt_getD _
  · rw [body_donation]; exact truthyInt_getD _

/-- a non-zero donation / treasury value is written as it is (never dropped, never defaulted) -/
theorem donation_written (s : BState) (d : Int) :
    ((buildBody s).donation = some d ↔ s.donation = some d ∧ d ≠ 0) ∧
    ((buildBody s).treasury = some d ↔ s.treasury = some d ∧ d ≠ 0) :=
  ⟨by rw [body_donation]; exact truthyInt_eq_some _ _, by rw [body_treasury]; exact truthyInt_eq_some _ _⟩

/-- **reference inputs**: exactly the references the code gathers (`reference_inputs`: explicit ones and the UTxOs
carrying reference scripts), each once whether it was registered as a `UTxO`, as a bare `TransactionInput`, or both -/
theorem reference_inputs_exact (s : BState) :
    ((buildBody s).referenceInputs.getD []).Nodup ∧
    (∀ r, r ∈ (buildBody s).referenceInputs.getD [] ↔ ∃ e ∈ s.referenceInputs, e.ref = r) ∧
    ((buildBody s).referenceInputs = none ↔ s.referenceInputs = []) := by
  have hg := body_referenceInputs_getD s
  refine ⟨by rw [hg]; exact nodup_oset _, ?_, by rw [body_referenceInputs]; exact whenNonEmpty_eq_none _ _⟩
  intro r; rw [hg, mem_oset]; simp

/-- the goal "a reference input is never also a spent input" (the Conway ledger refuses a transaction in which the two
sets meet, protocol versions 9 and 10) -/
def reference_inputs_disjoint_goal : Prop :=
  ∀ s : BState, ∀ r ∈ (buildBody s).referenceInputs.getD [], r ∉ (buildBody s).inputs

/-- what the code gives: disjoint in the body iff disjoint in the builder — nothing is filtered -/
theorem reference_inputs_disjoint_partial (s : BState)
    (h : ∀ e ∈ s.referenceInputs, ∀ u ∈ s.inputs, e.ref ≠ u.ref) :
    ∀ r ∈ (buildBody s).referenceInputs.getD [], r ∉ (buildBody s).inputs := by
  intro r hr hi
  obtain ⟨e, he, her⟩ := ((reference_inputs_exact s).2.1 r).1 hr
  obtain ⟨u, hu, hur⟩ := ((inputs_faithful s).2.1 r).1 hi
  exact h e he u hu (her.trans hur.symm)

/-- the witness: one UTxO both spent and registered as a reference input (`add_script_input(u, script=v)` together with
`add_input(v)`, or a script-carrying UTxO found at the script address that is itself spent) -/
def spentAndReferenced : BState :=
  { inputs := [{ ref := ⟨[0xaa], 0⟩, amount := ⟨5000000, []⟩ }], referenceInputs := [.utxo ⟨[0xaa], 0⟩] }

theorem reference_inputs_disjoint_counterexample : ¬ reference_inputs_disjoint_goal := by
  intro h
  exact h spentAndReferenced ⟨[0xaa], 0⟩ (by decide) (by decide)

/-- the hashes are taken of what the builder holds: the auxiliary data itself; redeemers / datums / language views, present
exactly when there are redeemers or datums -/
theorem hashes_faithful (s : BState) :
    (buildBody s).auxHashPre = s.auxData ∧
    ((buildBody s).scriptDataPre = none ↔ (s.sdh.datums = [] ∧ s.sdh.redeemers = [])) := by
  refine ⟨rfl, ?_⟩
  show sdhPre s.sdh = none ↔ _
  unfold sdhPre
  cases hd : s.sdh.datums <;> cases hr : s.sdh.redeemers <;> simp

/-- which keys `to_cbor()` writes: 0, 1, 2 always; an optional key exactly when the state gives it content (or, for the three
passed-through fields, is not `None`); 6 and 15 never -/
theorem keys_written (s : BState) :
    (∀ k ∈ [0, 1, 2], k ∈ (buildBody s).keys) ∧ 6 ∉ (buildBody s).keys ∧ 15 ∉ (buildBody s).keys ∧
    (3 ∈ (buildBody s).keys ↔ s.ttl.isSome) ∧ (8 ∈ (buildBody s).keys ↔ s.validityStart.isSome) ∧
    (4 ∈ (buildBody s).keys ↔ s.certificates.isSome) ∧ (5 ∈ (buildBody s).keys ↔ s.withdrawals.isSome) ∧
    (9 ∈ (buildBody s).keys ↔ s.mint.isSome) ∧ (7 ∈ (buildBody s).keys ↔ s.auxData.isSome) ∧
    (21 ∈ (buildBody s).keys ↔ s.treasury.getD 0 ≠ 0) ∧ (22 ∈ (buildBody s).keys ↔ s.donation.getD 0 ≠ 0) := by
  have e : (buildBody s).update = none ∧ (buildBody s).networkId = none ∧ (buildBody s).ttl = s.ttl
      ∧ (buildBody s).validityStart = s.validityStart ∧ (buildBody s).certificates = s.certificates
      ∧ (buildBody s).withdrawals = s.withdrawals ∧ (buildBody s).mint = s.mint ∧ (buildBody s).auxHashPre = s.auxData
      ∧ (buildBody s).treasury = truthyInt s.treasury ∧ (buildBody s).donation = truthyInt s.donation :=
    ⟨rfl, rfl, rfl, rfl, rfl, rfl, rfl, rfl, rfl, rfl⟩
  obtain ⟨e1, e2, e3, e4, e5, e6, e7, e8, e9, e10⟩ := e
  refine ⟨?_, ?_, ?_, ?_, ?_, ?_, ?_, ?_, ?_, ?_, ?_⟩
  · intro k hk
    simp only [List.mem_cons, List.not_mem_nil, or_false] at hk
    rw [mem_keys]
    rcases hk with h | h | h <;> simp [h]
  all_goals (rw [mem_keys]; simp [e1, e2, e3, e4, e5, e6, e7, e8, e9, e10, isSome_truthyInt])

/-! ## building twice -/

/-- the method writes nothing: the state after the call is the state before it, and a second call gives the same body -/
theorem build_twice_same (s : BState) :
    (buildBodyM s).2 = s ∧ (buildBodyM (buildBodyM s).2).1 = (buildBodyM s).1 := ⟨rfl, rfl⟩

/-- a builder that holds, for its set-valued fields, the very sets of the body it built -/
def absorb (s : BState) : BState :=
  { s with requiredSigners := (buildBody s).requiredSigners
           referenceInputs := ((buildBody s).referenceInputs.getD []).map RefEntry.input }

/-- the normalisations (`OrderedSet`, omitted-when-empty) are idempotent: assembling from the body's own sets gives them again -/
theorem rebuild_fixed (s : BState) :
    (buildBody (absorb s)).requiredSigners = (buildBody s).requiredSigners ∧
    (buildBody (absorb s)).referenceInputs = (buildBody s).referenceInputs := by
  constructor
  · rw [body_requiredSigners, body_requiredSigners]
    show (truthyList ((truthyList s.requiredSigners).map oset)).map oset = _
    cases h : s.requiredSigners with
    | none => rfl
    | some l =>
      cases l with
      | nil => rfl
      | cons a t =>
        have hne : oset (a :: t) ≠ [] := fun h0 => by simpa using (oset_eq_nil (a :: t)).1 h0
        have : truthyList (some (oset (a :: t))) = some (oset (a :: t)) := by
          cases h' : oset (a :: t) with
          | nil => exact absurd h' hne
          | cons b u => rfl
        show (truthyList (some (oset (a :: t)))).map oset = some (oset (a :: t))
        rw [this]; simp [oset_idem]
  · rw [body_referenceInputs, body_referenceInputs]
    show whenNonEmpty (((buildBody s).referenceInputs.getD []).map RefEntry.input) _ = _
    rw [body_referenceInputs_getD]
    have hmm : ∀ l : List Ref, (l.map RefEntry.input).map RefEntry.ref = l := by
      intro l; induction l with
      | nil => rfl
      | cons a t ih => simp [RefEntry.ref, ih]
    cases hl : s.referenceInputs with
    | nil => rfl
    | cons a t =>
      have hne : oset ((a :: t).map RefEntry.ref) ≠ [] := fun h0 => by simpa using (oset_eq_nil _).1 h0
      cases h' : oset ((a :: t).map RefEntry.ref) with
      | nil => exact absurd h' hne
      | cons b u =>
        simp only [whenNonEmpty, List.map_cons, List.isEmpty_cons, Bool.false_eq_true, if_false]
        have h2 := hmm (b :: u)
        simp only [List.map_cons] at h2
        rw [h2]
        have h3 : oset (b :: u) = b :: u := by rw [← h', oset_idem]
        rw [h3]
        simp only [List.map_cons] at h'
        rw [h']

/-! ## the tail of `build()` -/

theorem finalize_inputs (o : BuildOpts) (sel : List UTxO) (s : BState) :
    (finalizeState o sel s).inputs = isort utxoLe sel := by
  unfold finalizeState; split <;> rfl

/-- sorting re-orders the selection, nothing else: the same UTxOs (so every sum over them is unchanged) -/
theorem finalize_inputs_perm (o : BuildOpts) (sel : List UTxO) (s : BState) :
    (finalizeState o sel s).inputs.Perm sel := by
  rw [finalize_inputs]; exact isort_perm _ _

theorem finalize_inputs_sum (o : BuildOpts) (sel : List UTxO) (s : BState) (f : UTxO → Int) :
    ((finalizeState o sel s).inputs.map f).sum = (sel.map f).sum :=
  sum_map_perm f (finalize_inputs_perm o sel s)

/-- **canonical order**: the inputs of the body built from the finalized state are the references of the selection, each
once, in the ledger's order (transaction id bytes, index) -/
theorem finalize_body_inputs_canonical (o : BuildOpts) (sel : List UTxO) (s : BState) :
    (buildBody (finalizeState o sel s)).inputs.Pairwise (fun a b => Spec.Ranks.inLt b.toPair a.toPair = false) ∧
    (buildBody (finalizeState o sel s)).inputs.Nodup ∧
    (∀ r, r ∈ (buildBody (finalizeState o sel s)).inputs ↔ ∃ u ∈ sel, u.ref = r) := by
  have key : (isort utxoLe sel).map (·.ref) = Rd.sortInputs (sel.map (·.ref)) :=
    map_isort utxoLe Rd.keyLe (·.ref) (fun a b => rfl) sel
  rw [body_inputs, finalize_inputs, key]
  refine ⟨(C11.sortInputs_sorted _).sublist (oset_sublist _), nodup_oset _, ?_⟩
  intro r
  rw [mem_oset]
  unfold Rd.sortInputs
  rw [mem_isort]; simp

/-- a validity interval / signer list the caller gave is kept -/
theorem finalize_keeps_given (o : BuildOpts) (sel : List UTxO) (s : BState) :
    (∀ t, s.ttl = some t → (finalizeState o sel s).ttl = some t) ∧
    (∀ v, s.validityStart = some v → (finalizeState o sel s).validityStart = some v) ∧
    (∀ l, s.requiredSigners = some l → (finalizeState o sel s).requiredSigners = some l) := by
  refine ⟨?_, ?_, ?_⟩
  · intro t h; unfold finalizeState; split <;> simp [withInterval, Rd.autoInterval, h]
  · intro v h; unfold finalizeState; split <;> simp [withInterval, Rd.autoInterval, h]
  · intro l h
    unfold finalizeState
    split
    · rename_i hc; simp [autoSignersApply, withInterval, h] at hc
    · simp [withInterval, h]

/-- the automatic values: for a transaction that involves scripts (or when an offset is passed) an interval around the last
slot; for a transaction that involves scripts, unless switched off, the payment key hashes of the sorted inputs and the
collateral given so far, each once -/
theorem finalize_auto (o : BuildOpts) (sel : List UTxO) (s : BState) :
    (s.ttl = none → (o.isSmart = true ∨ o.offTtl.isSome = true) →
      (finalizeState o sel s).ttl = some (max 0 (o.slot + o.offTtl.getD 10000))) ∧
    (s.validityStart = none → (o.isSmart = true ∨ o.offStart.isSome = true) →
      (finalizeState o sel s).validityStart = some (max 0 (o.slot + o.offStart.getD (-1000)))) ∧
    (s.requiredSigners = none → o.isSmart = true → o.autoSigners ≠ some false →
      ∃ l, (finalizeState o sel s).requiredSigners = some l ∧ l.Nodup ∧
        ∀ h, h ∈ l ↔ ∃ u, (u ∈ sel ∨ u ∈ s.collaterals) ∧ u.payKey = some h) := by
  refine ⟨?_, ?_, ?_⟩
  · intro h hc
    unfold finalizeState
    split <;> (rcases hc with hc | hc <;> simp [withInterval, Rd.autoInterval, h, hc])
  · intro h hc
    unfold finalizeState
    split <;> (rcases hc with hc | hc <;> simp [withInterval, Rd.autoInterval, h, hc])
  · intro h hs ha
    have hb : (o.autoSigners != some false) = true := by simpa using ha
    have happ : autoSignersApply o (withInterval o sel s) = true := by
      simp [autoSignersApply, withInterval, hs, hb, h]
    unfold finalizeState
    rw [if_pos happ]
    refine ⟨_, rfl, nodup_oset _, ?_⟩
    intro k
    unfold inputVkeyHashes
    rw [mem_oset]
    simp only [List.mem_filterMap, List.mem_append]
    constructor
    · rintro ⟨u, hu | hu, hk⟩
      · exact ⟨u, Or.inl ((mem_isort _ _ _).1 hu), hk⟩
      · exact ⟨u, Or.inr hu, hk⟩
    · rintro ⟨u, hu | hu, hk⟩
      · exact ⟨u, Or.inl ((mem_isort _ _ _).2 hu), hk⟩
      · exact ⟨u, Or.inr hu, hk⟩

/-- nothing else of the state is touched by these steps -/
theorem finalize_frame (o : BuildOpts) (sel : List UTxO) (s : BState) :
    (finalizeState o sel s).outputs = s.outputs ∧ (finalizeState o sel s).fee = s.fee ∧
    (finalizeState o sel s).mint = s.mint ∧ (finalizeState o sel s).certificates = s.certificates ∧
    (finalizeState o sel s).withdrawals = s.withdrawals ∧ (finalizeState o sel s).proposals = s.proposals ∧
    (finalizeState o sel s).donation = s.donation ∧ (finalizeState o sel s).treasury = s.treasury ∧
    (finalizeState o sel s).collaterals = s.collaterals ∧ (finalizeState o sel s).referenceInputs = s.referenceInputs ∧
    (finalizeState o sel s).auxData = s.auxData ∧ (finalizeState o sel s).voting = s.voting := by
  unfold finalizeState; split <;> exact ⟨rfl, rfl, rfl, rfl, rfl, rfl, rfl, rfl, rfl, rfl, rfl, rfl⟩

/-! ## the bridge: the ledger's reading of the body = the accounting's reading of the state -/

/-- what the accounting adds up on the consumed side: the amounts of `self.inputs`, the withdrawals, the refunds -/
def stateConsumedCoin (P : Params) (s : BState) : Int :=
  (s.inputs.map fun u => u.amount.coin).sum + ((s.withdrawals.getD []).map (·.2)).sum
    + ((certsD s).map (certRefund P)).sum

/-- … and on the produced side: the outputs, the fee, deposits of certificates and proposals, the donation -/
def stateProducedCoin (P : Params) (initialPool : Bool) (s : BState) : Int :=
  sumCoin s.outputs + s.fee + ((certsD s).map (certDeposit P initialPool)).sum
    + ((s.proposals.getD []).map (·.deposit)).sum + s.donation.getD 0

/-- the builder's view of its inputs is the chain's, and no reference occurs twice among them -/
structure InputsOk (utxo : Ref → Option Value) (s : BState) : Prop where
  distinct : (s.inputs.map (·.ref)).Nodup
  known : ∀ u ∈ s.inputs, utxo u.ref = some u.amount

theorem ledger_consumed_coin_eq (P : Params) (utxo : Ref → Option Value) (s : BState) (h : InputsOk utxo s) :
    consumedCoin P utxo (buildBody s) = stateConsumedCoin P s := by
  unfold consumedCoin stateConsumedCoin certsD
  rw [inputs_exact s h.distinct, List.map_map, List.map_map]
  have hi : (s.inputs.map ((fun r => (resolve utxo r).coin) ∘ fun u => u.ref)).sum
      = (s.inputs.map fun u => u.amount.coin).sum := by
    apply sum_map_congr
    intro u hu
    simp [resolve, h.known u hu]
  rw [hi]
  rfl

theorem ledger_produced_coin_eq (P : Params) (initialPool : Bool) (s : BState) :
    producedCoin P initialPool (buildBody s) = stateProducedCoin P initialPool s := by
  unfold producedCoin stateProducedCoin certsD sumCoin
  rw [(guarded_content s).2.2.2.1, (guarded_content s).2.2.2.2.2, List.map_map]
  rfl

theorem ledger_assets_eq (utxo : Ref → Option Value) (s : BState) (h : InputsOk utxo s)
    (hw : MultiAsset.WF (s.mint.getD [])) (p n : Bytes) :
    consumedAsset utxo (buildBody s) p n
      = (s.inputs.map fun u => MultiAsset.qty u.amount.ma p n).sum + posPart (MultiAsset.qty (s.mint.getD []) p n) ∧
    producedAsset (buildBody s) p n = sumAsset s.outputs p n + negPart (MultiAsset.qty (s.mint.getD []) p n) := by
  have hm : mintQty (buildBody s) p n = MultiAsset.qty (s.mint.getD []) p n := by
    show MultiAsset.qty ((s.mint.map MultiAsset.normalize).getD []) p n = _
    cases hs : s.mint with
    | none => rfl
    | some m =>
      rw [hs] at hw
      exact MultiAsset.qty_normalize m p n hw
  constructor
  · unfold consumedAsset
    rw [hm, inputs_exact s h.distinct, List.map_map]
    congr 1
    apply sum_map_congr
    intro u hu
    simp [resolve, h.known u hu]
  · unfold producedAsset sumAsset
    rw [hm]; rfl

/-- the net deposit the builder subtracts (`_get_total_key_deposit`) is what the certificates pay minus what they release,
provided no credential / pool is registered twice in the transaction (C06 `deposit_spec`) -/
theorem deposits_net (P : Params) (ip : Bool) (s : BState)
    (h1 : (regCreds (certsD s)).Nodup) (h2 : (poolOps (certsD s)).Nodup) :
    totalKeyDeposit P (certsD s) ip
      = ((certsD s).map (certDeposit P ip)).sum - ((certsD s).map (certRefund P)).sum := by
  rw [C06.deposit_spec P (certsD s) ip h1 h2, ← sum_map_sub]
  apply sum_map_congr
  intro c _
  cases c <;> simp [C06.specDeposit, certDeposit, certRefund]

/-- **conservation on the body, ADA**: when the accounting (C06) returned the output list the state now holds, the
ledger's `consumed = produced` holds for the body `_build_tx_body` assembles from that state -/
theorem body_conserves_ada (P : Params) (ip : Bool) (utxo : Ref → Option Value) (s : BState) (addr : Bytes)
    (outs : List Output) (mc : Bool)
    (hfin : finalOutputs P outs (argsOf P ip s addr) mc = .ok s.outputs)
    (hy : ∀ r, C06.Hyp P (withRespect (finalArgs outs (argsOf P ip s addr) mc) r))
    (ho : ∀ o ∈ outs, MultiAsset.WF o.amount.ma)
    (hin : InputsOk utxo s)
    (h1 : (regCreds (certsD s)).Nodup) (h2 : (poolOps (certsD s)).Nodup) :
    consumedCoin P utxo (buildBody s) = producedCoin P ip (buildBody s) := by
  have hc := C06.conserves_ada P outs s.outputs (argsOf P ip s addr) mc hfin hy ho
  rw [ledger_consumed_coin_eq P utxo s hin, ledger_produced_coin_eq P ip s]
  have hd := deposits_net P ip s h1 h2
  simp only [argsOf, stateDeposits, List.map_map] at hc
  have e1 : (s.inputs.map ((fun x => x.coin) ∘ fun x => x.amount)).sum = (s.inputs.map fun u => u.amount.coin).sum := rfl
  rw [e1] at hc
  unfold stateConsumedCoin stateProducedCoin
  omega

/-- **conservation on the body, every native asset** (minted on the consumed side, burned on the produced side) -/
theorem body_conserves_assets (P : Params) (ip : Bool) (utxo : Ref → Option Value) (s : BState) (addr : Bytes)
    (outs : List Output) (mc : Bool)
    (hfin : finalOutputs P outs (argsOf P ip s addr) mc = .ok s.outputs)
    (hy : ∀ r, C06.Hyp P (withRespect (finalArgs outs (argsOf P ip s addr) mc) r))
    (ho : ∀ o ∈ outs, MultiAsset.WF o.amount.ma)
    (hin : InputsOk utxo s) (p n : Bytes) :
    consumedAsset utxo (buildBody s) p n = producedAsset (buildBody s) p n := by
  have hc := C06.conserves_assets P outs s.outputs (argsOf P ip s addr) mc hfin hy ho p n
  have hw : MultiAsset.WF (s.mint.getD []) := (hy true).wf.2.2
  obtain ⟨ea, eb⟩ := ledger_assets_eq utxo s hin hw p n
  rw [ea, eb]
  simp only [argsOf, List.map_map] at hc
  have e1 : (s.inputs.map ((fun v => MultiAsset.qty v.ma p n) ∘ fun x => x.amount)).sum
      = (s.inputs.map fun u => MultiAsset.qty u.amount.ma p n).sum := rfl
  rw [e1] at hc
  unfold posPart negPart
  split <;> split <;> omega

/-- the goal without "the spent inputs are pairwise distinct" -/
def bridge_without_distinct_goal : Prop :=
  ∀ (P : Params) (utxo : Ref → Option Value) (s : BState),
    (∀ u ∈ s.inputs, utxo u.ref = some u.amount) → consumedCoin P utxo (buildBody s) = stateConsumedCoin P s

/-- the witness: the same UTxO twice among `builder.inputs` (`builder.inputs.append(u)`; `add_input` itself refuses a
repetition).  The body, an `OrderedSet`, has ONE input of 5 ADA; the accounting added up 10. -/
def twiceTheSame : BState :=
  { inputs := [{ ref := ⟨[0xaa], 0⟩, amount := ⟨5000000, []⟩ }, { ref := ⟨[0xaa], 0⟩, amount := ⟨5000000, []⟩ }] }

theorem bridge_needs_distinct_counterexample : ¬ bridge_without_distinct_goal := by
  intro h
  have := h ⟨0, 0, 0, 0⟩ (fun _ => some ⟨5000000, []⟩) twiceTheSame (by
    intro u hu
    simp only [twiceTheSame, List.mem_cons, List.not_mem_nil, or_false, or_self] at hu
    subst hu; rfl)
  revert this
  decide

/-! ## non-vacuity: a state with every field populated, and a balanced one -/

def exUtxoA : UTxO := { ref := ⟨[0xaa, 1], 0⟩, amount := ⟨5000000, [([1], [([7], 3)])]⟩, payKey := some [0x11] }
def exUtxoB : UTxO := { ref := ⟨[0x0b], 2⟩, amount := ⟨4000000, []⟩, payKey := some [0x22] }

/-- everything except the outputs (which the accounting produces) -/
def exCore : BState :=
  { inputs := [exUtxoB, exUtxoA]
    fee := 170000
    ttl := some 12000
    mint := some [([2], [([8], 10)])]
    auxData := some [0xa1, 0x00, 0x01]
    sdh := { redeemers := [⟨0, 1, [0x05], 1000, 2000⟩], datums := [[0x07]], versions := [2] }
    requiredSigners := some [[0x11], [0x22], [0x11]]
    collaterals := [exUtxoB, exUtxoB]
    certificates := some [⟨[0x82, 0x00], .stakeReg [0x33]⟩]
    withdrawals := some [([0xe0, 0x44], 1000)]
    totalCollateral := some 300000
    referenceInputs := [.utxo ⟨[0xcc], 1⟩, .input ⟨[0xcc], 1⟩, .input ⟨[0xdd], 0⟩]
    voting := some [([0x01], [0x02])]
    proposals := some []
    treasury := some 0
    donation := none }

def exAddr : Bytes := [0x60, 1, 2]
def exFinal : List Output :=
  match finalOutputs C06.exP C06.exOuts (argsOf C06.exP false exCore exAddr) false with
  | .ok fo => fo
  | .error _ => []
def exState : BState := { exCore with outputs := exFinal }
def exChain : Ref → Option Value := fun r =>
  if r = exUtxoA.ref then some exUtxoA.amount else if r = exUtxoB.ref then some exUtxoB.amount else none

-- the body of the populated state: sets de-duplicated, the empty proposal list and the zero treasury value omitted
example :
    (buildBody exState).inputs = [⟨[0x0b], 2⟩, ⟨[0xaa, 1], 0⟩] ∧
    (buildBody exState).requiredSigners = some [[0x11], [0x22]] ∧
    (buildBody exState).collateral = some [⟨[0x0b], 2⟩] ∧
    (buildBody exState).referenceInputs = some [⟨[0xcc], 1⟩, ⟨[0xdd], 0⟩] ∧
    (buildBody exState).keys = [0, 1, 2, 3, 4, 5, 7, 9, 11, 13, 14, 17, 18, 19] := by
  decide +kernel

-- the hypotheses of `body_conserves_ada` / `body_conserves_assets` are met by it, and the conclusions evaluate to `true`
example :
    (match finalOutputs C06.exP C06.exOuts (argsOf C06.exP false exState exAddr) false with
     | .ok fo => fo.length == 2 | .error _ => false) = true ∧
    (exState.inputs.map (·.ref)).Nodup ∧
    (∀ u ∈ exState.inputs, exChain u.ref = some u.amount) ∧
    (regCreds (certsD exState)).Nodup ∧ (poolOps (certsD exState)).Nodup ∧
    consumedCoin C06.exP exChain (buildBody exState) = producedCoin C06.exP false (buildBody exState) ∧
    consumedAsset exChain (buildBody exState) [2] [8] = producedAsset (buildBody exState) [2] [8] ∧
    consumedAsset exChain (buildBody exState) [1] [7] = producedAsset (buildBody exState) [1] [7] := by
  decide +kernel

example : finalOutputs C06.exP C06.exOuts (argsOf C06.exP false exState exAddr) false = .ok exState.outputs := by
  have h0 : argsOf C06.exP false exState exAddr = argsOf C06.exP false exCore exAddr := rfl
  rw [h0]
  show _ = Except.ok exFinal
  unfold exFinal
  cases h : finalOutputs C06.exP C06.exOuts (argsOf C06.exP false exCore exAddr) false with
  | ok fo => rfl
  | error e =>
    have : (match finalOutputs C06.exP C06.exOuts (argsOf C06.exP false exCore exAddr) false with
      | .ok _ => true | .error _ => false) = true := by decide +kernel
    rw [h] at this; cases this

example : noEmptyHeld exState = true := by decide +kernel

end Pyc.C06.BodyAsm

#print axioms Pyc.C06.BodyAsm.scalars_faithful
#print axioms Pyc.C06.BodyAsm.inputs_faithful
#print axioms Pyc.C06.BodyAsm.inputs_exact
#print axioms Pyc.C06.BodyAsm.c11_views_agree
#print axioms Pyc.C06.BodyAsm.passed_through
#print axioms Pyc.C06.BodyAsm.passed_absent_iff_empty_partial
#print axioms Pyc.C06.BodyAsm.passed_absent_iff_empty_counterexample
#print axioms Pyc.C06.BodyAsm.guarded_absent_iff_empty
#print axioms Pyc.C06.BodyAsm.guarded_content
#print axioms Pyc.C06.BodyAsm.donation_written
#print axioms Pyc.C06.BodyAsm.reference_inputs_exact
#print axioms Pyc.C06.BodyAsm.reference_inputs_disjoint_partial
#print axioms Pyc.C06.BodyAsm.reference_inputs_disjoint_counterexample
#print axioms Pyc.C06.BodyAsm.hashes_faithful
#print axioms Pyc.C06.BodyAsm.keys_written
#print axioms Pyc.C06.BodyAsm.build_twice_same
#print axioms Pyc.C06.BodyAsm.rebuild_fixed
#print axioms Pyc.C06.BodyAsm.finalize_inputs
#print axioms Pyc.C06.BodyAsm.finalize_inputs_perm
#print axioms Pyc.C06.BodyAsm.finalize_inputs_sum
#print axioms Pyc.C06.BodyAsm.finalize_body_inputs_canonical
#print axioms Pyc.C06.BodyAsm.finalize_keeps_given
#print axioms Pyc.C06.BodyAsm.finalize_auto
#print axioms Pyc.C06.BodyAsm.finalize_frame
#print axioms Pyc.C06.BodyAsm.ledger_consumed_coin_eq
#print axioms Pyc.C06.BodyAsm.ledger_produced_coin_eq
#print axioms Pyc.C06.BodyAsm.ledger_assets_eq
#print axioms Pyc.C06.BodyAsm.deposits_net
#print axioms Pyc.C06.BodyAsm.body_conserves_ada
#print axioms Pyc.C06.BodyAsm.body_conserves_assets
#print axioms Pyc.C06.BodyAsm.bridge_needs_distinct_counterexample
