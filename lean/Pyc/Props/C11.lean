import Pyc.Proofs.Redeemers

/-! # C11 — redeemers point at the items they unlock; scripts and datums are supplied

Model: `Pyc/Model/Redeemers.lean` (the sort of the selected inputs, `_set_redeemer_index`, the `add_*` methods,
`all_scripts` / `scripts` / `build_witness_set`, the automatic validity interval).  Specification:
`Pyc/Spec/Ranks.lean` (`rank` = number of strictly smaller elements in the ledger's order of the body field).

`build net st sel ev` is the part of `TransactionBuilder.build` after coin selection: `st` is the builder state after
the `add_*` calls, `sel` the additionally selected inputs, `ev` the evaluated execution units.  `bodyInputs st'.inputs`
and `bodyPolicies st'.mint` are what `_build_tx_body` makes the ledger see of the final state `st'`.

The model mirrors the code after two repairs (findings KF-C11-duplicate-input, KF-C11-zero-mint-policy): `add_input` /
`add_script_input` do not append a UTxO that is already an input, and `_set_redeemer_index` ranks the minting policies
over the normalised mint.  `spend_index_body` and `mint_index_body` are therefore stated for every call sequence and
every stored mint; `spend_index_needs_nodup` / `mint_index_needs_minted` keep the regression witnesses. -/

namespace Pyc.C11
open Pyc Pyc.Rd Pyc.Spec.Ranks

/-- lexicographic order of the lowercase-hex strings `str(transaction_id)` = bytewise order of the ids -/
theorem hex_order_iff_byte_order (a b : Bytes) : strLt (hexChars a) (hexChars b) = bytesLt a b :=
  Rd.hex_order_iff_byte_order a b

/-- the builder's sort key `(str(transaction_id), index)` induces the ledger's order of `TxIn` -/
theorem input_key_is_ledger_order (a b : TxIn) : keyLt a b = inLt a.toPair b.toPair := keyLt_eq_ledger a b

theorem sortInputs_perm (l : List TxIn) : (sortInputs l).Perm l := isort_perm _ _

/-- the inputs come out in non-decreasing ledger order -/
theorem sortInputs_sorted (l : List TxIn) :
    (sortInputs l).Pairwise (fun a b => inLt b.toPair a.toPair = false) := by
  have := sortBy_sorted keyLt id keyLt_strictTotal l
  simp only [id, keyLt_eq_ledger] at this
  exact this

/-- policy ids are hashes of one length (28 bytes), so their CBOR encodings share the head `58 1c`: the order of the
sort keys `x.to_cbor()` is the bytewise order of the hashes -/
theorem policy_key_order (a b : Bytes) (hl : a.length = b.length) :
    bytesLt (policyKey a) (policyKey b) = bytesLt a b := policyKey_order a b hl

/-- after `build`, the redeemer attached to input `u` carries the rank of `u` among *all* inputs of the transaction
(added by hand or selected), in the ledger's order — for any builder state whose input list together with the selection
names no UTxO twice (`hn`).  `spend_index_body` discharges `hn` for every state the calls can produce. -/
theorem spend_index (net : Nat) (st st' : St) (sel : List TxIn) (ev : Nat → Nat → Option (Int × Int))
    (hb : build net st sel ev = some st') (hn : (st.inputs ++ sel).Nodup) (u : TxIn) (r : Rdm)
    (hr : (u, r) ∈ st'.inRedeemers) (hu : u ∈ st.inputs ++ sel) :
    r.index = rank inLt u.toPair ((st.inputs ++ sel).map TxIn.toPair) := by
  obtain ⟨st1, h1, h2⟩ := build_steps net st st' sel ev hb
  obtain ⟨r1, hm1, he⟩ := updateExUnits_in ev st1 st' h2 u r hr
  have hidx : r.index = r1.index := by
    have := congrArg Rdm.index he; simpa [eraseU] using this
  unfold setRedeemerIndex at h1
  split at h1
  · simp only [Option.some.injEq] at h1; subst h1
    simp only at hm1
    obtain ⟨r0, _, h0⟩ := setSpend_mem _ _ u r1 hm1
    rw [spendIndex_sorted _ hn u hu] at h0
    simp only at h0
    rw [hidx, h0]
  · simp at h1

/-- **every call sequence keeps `self.inputs` free of repetitions** (repaired `add_input` / `add_script_input`):
whatever is added, however often and through whichever of the two methods -/
theorem inputs_nodup (ops : List Op) (st : St) (hr : run {} ops = some st) : st.inputs.Nodup :=
  (run_inputs {} st ops hr).1 (by simp)

/-- … and holds exactly the UTxOs that were added -/
theorem inputs_mem (ops : List Op) (st : St) (hr : run {} ops = some st) (u : TxIn) :
    u ∈ st.inputs ↔ u ∈ ops.flatMap opInputs := by
  rw [(run_inputs {} st ops hr).2 u]; simp

/-- every spending redeemer of the state belongs to an input: `add_script_input` registers the UTxO it is given -/
theorem redeemer_inputs (ops : List Op) (st : St) (hr : run {} ops = some st) :
    ∀ p ∈ st.inRedeemers, p.1 ∈ st.inputs :=
  run_inRedeemers {} st ops hr (by simp)

/-- **spending redeemers, for every call sequence**: after any `add_*` calls `ops` (a UTxO may be added any number of
times, by `add_input`, by `add_script_input`, or both) and `build`, every spending redeemer of the final state belongs
to an input of the body and carries the rank of that input among the inputs the body shows, in the ledger's order.
`hs` / `hd` describe the selection, not the calls: `build` offers the selectors a duplicate-free pool from which the
UTxOs already in `self.inputs` are removed (C09: `Pyc.C09.pool_spec`), and a selector returns a duplicate-free part of
its pool (`Pyc.C09.chain_ok`). -/
theorem spend_index_body (net : Nat) (ops : List Op) (st st' : St) (sel : List TxIn)
    (ev : Nat → Nat → Option (Int × Int)) (hr : run {} ops = some st) (hb : build net st sel ev = some st')
    (hs : sel.Nodup) (hd : ∀ u ∈ sel, u ∉ st.inputs) (u : TxIn) (r : Rdm) (hm : (u, r) ∈ st'.inRedeemers) :
    u ∈ bodyInputs st'.inputs ∧ r.index = rank inLt u.toPair ((bodyInputs st'.inputs).map TxIn.toPair) := by
  have hn : (st.inputs ++ sel).Nodup := by
    rw [List.nodup_append]
    exact ⟨inputs_nodup ops st hr, hs, fun a ha b hb e => hd b hb (e ▸ ha)⟩
  have hp : (sortInputs (st.inputs ++ sel)).Perm (st.inputs ++ sel) := sortInputs_perm _
  have hu : u ∈ st.inputs ++ sel := by
    obtain ⟨st1, h1, h2⟩ := build_steps net st st' sel ev hb
    obtain ⟨r1, hm1, _⟩ := updateExUnits_in ev st1 st' h2 u r hm
    unfold setRedeemerIndex at h1
    split at h1
    · simp only [Option.some.injEq] at h1; subst h1
      obtain ⟨r0, h0, _⟩ := setSpend_mem _ _ u r1 hm1
      exact List.mem_append_left _ (redeemer_inputs ops st hr (u, r0) h0)
    · simp at h1
  rw [build_inputs net st st' sel ev hb, bodyInputs_of_nodup _ (hp.symm.nodup hn)]
  refine ⟨hp.symm.subset hu, ?_⟩
  rw [rank_perm _ _ _ _ (hp.map TxIn.toPair)]
  exact spend_index net st st' sel ev hb hn u r hm hu

/-- regression witness of KF-C11-duplicate-input: `_set_redeemer_index` itself still numbers by position in the list,
so the statement rests on the list being free of repetitions.  On `[k, k, u]` (what `add_input(k)` twice and a script
input `u` after `k` left behind before the repair) the index is the list position 2, the body has two inputs and the
rank of `u` is 1. -/
theorem spend_index_needs_nodup :
    ¬ ∀ (l : List TxIn) (u : TxIn), u ∈ l →
      spendIndex u (sortInputs l) = some (rank inLt u.toPair ((bodyInputs l).map TxIn.toPair)) := by
  intro h
  have := h [⟨[0], 1⟩, ⟨[0], 1⟩, ⟨[0x5c], 0⟩] ⟨[0x5c], 0⟩ (by simp)
  revert this
  decide +kernel

/-- **minting redeemers, for every stored mint**: the index is the rank of the script's policy among the policies of
the body's mint field — the stored `self.mint` may hold policies without any non-zero quantity (assigned directly),
they are neither in the body nor counted.  `hw`: `self.mint` is a dict (distinct keys); `hl`: its keys are 28-byte
hashes (`ScriptHash`).  A minting redeemer whose policy the body does not mint makes `build` fail (`ValueError`), so
`build … = some st'` also yields that the policy is minted. -/
theorem mint_index (net : Nat) (st st' : St) (sel : List TxIn) (ev : Nat → Nat → Option (Int × Int))
    (hb : build net st sel ev = some st') (hw : Dict.WF st.mint) (hl : ∀ k ∈ Dict.keys st.mint, k.length = 28)
    (s : Script) (r : Rdm) (hr : (s, some r) ∈ st'.minting) :
    s.hash ∈ bodyPolicies st.mint ∧ r.index = rank policyLt s.hash (bodyPolicies st.mint) := by
  obtain ⟨st1, h1, h2⟩ := build_steps net st st' sel ev hb
  obtain ⟨r1, hm1, he⟩ := updateExUnits_minting ev st1 st' h2 s r hr
  have hidx : r.index = r1.index := by
    have := congrArg Rdm.index he; simpa [eraseU] using this
  unfold setRedeemerIndex at h1
  split at h1
  · rename_i m w hm hw'
    simp only [Option.some.injEq] at h1; subst h1
    simp only at hm1 hm
    obtain ⟨hi, _⟩ := setIdx_mem _ _ _ hm s r1 hm1
    have hmem : s.hash ∈ bodyPolicies st.mint :=
      (isort_perm _ _).subset (indexOf?_mem _ _ _ hi)
    refine ⟨hmem, ?_⟩
    rw [mintIndex_rank 28 (bodyPolicies st.mint) (bodyPolicies_nodup _ hw)
      (fun k hk => hl k ((bodyPolicies_sublist st.mint).subset hk)) s.hash hmem] at hi
    simp only [Option.some.injEq] at hi
    rw [hidx, ← hi]
  · simp at h1

/-- the same against the final state, whose `mint` field is what `_build_tx_body` hands to the body -/
theorem mint_index_body (net : Nat) (st st' : St) (sel : List TxIn) (ev : Nat → Nat → Option (Int × Int))
    (hb : build net st sel ev = some st') (hw : Dict.WF st.mint) (hl : ∀ k ∈ Dict.keys st.mint, k.length = 28)
    (s : Script) (r : Rdm) (hr : (s, some r) ∈ st'.minting) :
    s.hash ∈ bodyPolicies st'.mint ∧ r.index = rank policyLt s.hash (bodyPolicies st'.mint) := by
  rw [build_mint net st st' sel ev hb]
  exact mint_index net st st' sel ev hb hw hl s r hr

/-- the insertion order of the stored mint and its zero-quantity entries do not matter: two stored mints with the same
entries in any order give every policy the same index -/
theorem mint_index_insertion_order (m₁ m₂ : MultiAsset) (hp : m₁.Perm m₂) (hw : Dict.WF m₁)
    (hl : ∀ k ∈ Dict.keys m₁, k.length = 28) (h : Bytes) (hh : h ∈ bodyPolicies m₁) :
    mintIndex (bodyPolicies m₁) h = mintIndex (bodyPolicies m₂) h := by
  have pb := bodyPolicies_perm m₁ m₂ hp
  have pk : (Dict.keys m₁).Perm (Dict.keys m₂) := hp.map _
  have hw2 : Dict.WF m₂ := pk.nodup_iff.1 hw
  have hl2 : ∀ k ∈ Dict.keys m₂, k.length = 28 := fun k hk => hl k (pk.symm.subset hk)
  rw [mintIndex_rank 28 _ (bodyPolicies_nodup _ hw) (fun k hk => hl k ((bodyPolicies_sublist m₁).subset hk)) h hh,
    mintIndex_rank 28 _ (bodyPolicies_nodup _ hw2) (fun k hk => hl2 k ((bodyPolicies_sublist m₂).subset hk)) h
      (pb.subset hh),
    rank_perm _ _ _ _ pb]

/-- regression witness of KF-C11-zero-mint-policy: ranking over the *stored* keys (`sorted(self.mint.keys())`, the
expression before the repair) is not the rank in the body — a stored policy `01…` with quantity 0 is counted but is not
in the body, so the redeemer of policy `02…` would get index 1 instead of rank 0 -/
theorem mint_index_needs_minted :
    ¬ ∀ (mint : MultiAsset) (h : Bytes), Dict.WF mint → h ∈ bodyPolicies mint →
      mintIndex (Dict.keys mint) h = some (rank policyLt h (bodyPolicies mint)) := by
  intro h
  have := h [(List.replicate 28 1, [([0x61], 0)]), (List.replicate 28 2, [([0x61], 5)])] (List.replicate 28 2)
    (by unfold Dict.WF Dict.keys; decide +kernel) (by decide +kernel)
  revert this
  decide +kernel

/-- **reward redeemers**: the index is the rank of the script's reward account among *all* withdrawal keys in
bytewise order (which is the ledger's order when all accounts have one credential kind, see `Spec/Ranks.lean`) -/
theorem reward_index (net : Nat) (st st' : St) (sel : List TxIn) (ev : Nat → Nat → Option (Int × Int))
    (hb : build net st sel ev = some st') (hn : st.wdrlKeys.Nodup)
    (s : Script) (r : Rdm) (hr : (s, some r) ∈ st'.withdrawal) :
    rewardAccount net s.hash ∈ st.wdrlKeys ∧ r.index = rank accountLt (rewardAccount net s.hash) st.wdrlKeys := by
  obtain ⟨st1, h1, h2⟩ := build_steps net st st' sel ev hb
  obtain ⟨r1, hm1, he⟩ := updateExUnits_withdrawal ev st1 st' h2 s r hr
  have hidx : r.index = r1.index := by
    have := congrArg Rdm.index he; simpa [eraseU] using this
  unfold setRedeemerIndex at h1
  split at h1
  · rename_i m w hm hw
    simp only [Option.some.injEq] at h1; subst h1
    simp only at hm1 hw
    obtain ⟨hi, _⟩ := setIdx_mem _ _ _ hw s r1 hm1
    have hmem : rewardAccount net s.hash ∈ st.wdrlKeys :=
      (isort_perm _ _).subset (indexOf?_mem _ _ _ hi)
    refine ⟨hmem, ?_⟩
    rw [rewardIndex_rank net st.wdrlKeys hn s.hash hmem] at hi
    simp only [Option.some.injEq] at hi
    rw [hidx, ← hi]
  · simp at h1

/-- nothing is lost: every minting / withdrawal redeemer that was attached is present after `_set_redeemer_index` -/
theorem redeemers_kept (net : Nat) (st st' : St) (h : setRedeemerIndex net st = some st')
    (s : Script) (ra : Rdm) :
    ((s, some ra) ∈ st.minting → ∃ i, (s, some { ra with index := i }) ∈ st'.minting) ∧
    ((s, some ra) ∈ st.withdrawal → ∃ i, (s, some { ra with index := i }) ∈ st'.withdrawal) := by
  unfold setRedeemerIndex at h
  split at h
  · rename_i m w hm hw
    simp only [Option.some.injEq] at h; subst h
    constructor
    · intro hmem; obtain ⟨i, _, h2⟩ := setIdx_mem' _ _ _ hm s ra hmem; exact ⟨i, h2⟩
    · intro hmem; obtain ⟨i, _, h2⟩ := setIdx_mem' _ _ _ hw s ra hmem; exact ⟨i, h2⟩
  · simp at h

/-- **certificate redeemers**: after any sequence of calls and `build`, the certificate redeemers (execution units
blanked) are exactly `certTrace`: the k-th `add_certificate_script` redeemer points at the certificate that was the
last one when the call was made (`certTrace_at` spells this out) -/
theorem cert_index (net : Nat) (ops : List Op) (st st' : St) (sel : List TxIn)
    (ev : Nat → Nat → Option (Int × Int)) (hr : run {} ops = some st) (hb : build net st sel ev = some st') :
    eraseUnits st'.certificate = certTrace 0 ops := by
  obtain ⟨st1, h1, h2⟩ := build_steps net st st' sel ev hb
  have f1 := (setRedeemerIndex_frame net _ st1 h1).1
  have f2 := (updateExUnits_frame ev st1 st' h2).1
  rw [f2, f1]
  have := run_certTrace {} st ops hr
  simpa [eraseUnits] using this

/-- reading of `certTrace`: a call `add_certificate_script(s, redeemer)` made after the calls `pre` contributes the
entry number `|certificate-script calls in pre|` with index `(number of certificates appended in pre) - 1`; a run
in which such a call is made with no certificate present does not exist (`run` fails, the Python asserts) -/
theorem certTrace_at (pre post : List Op) (s : Script) (ref : Option TxIn) (rd : Rdm) :
    certTrace 0 (pre ++ .certificateScript s ref (some rd) :: post) =
      certTrace 0 pre ++
        (s, some { tag := 2, index := pre.countP opIsCert - 1, data := rd.data, mem := 0, steps := 0 }) ::
        certTrace (pre.countP opIsCert) post := by
  rw [certTrace_append]; simp [certTrace]

theorem cert_needs_certificate (st : St) (s : Script) (ref : Option TxIn) (rd : Rdm) (h : st.nCerts = 0) :
    apply st (.certificateScript s ref (some rd)) = none := by
  simp [apply, h]

/-- **order independence**: any permutation of the calls leaves the set of inputs and accounts — hence every spend /
reward index — unchanged; a permutation that keeps the relative order of the assignments to `builder.mint` (the last
one wins) leaves every mint index unchanged (`mint_index_insertion_order`: so does re-ordering the entries of the
mint); a permutation that keeps the relative order of the certificate-related calls also leaves the certificate
redeemers unchanged -/
theorem order_indep (ops₁ ops₂ : List Op) (hp : ops₁.Perm ops₂) (s₁ s₂ : St)
    (h1 : run {} ops₁ = some s₁) (h2 : run {} ops₂ = some s₂) (sel : List TxIn) (net : Nat)
    (hs : sel.Nodup) (hd : ∀ u ∈ sel, u ∉ s₁.inputs) :
    (∀ u ∈ s₁.inputs ++ sel,
        spendIndex u (sortInputs (s₁.inputs ++ sel)) = spendIndex u (sortInputs (s₂.inputs ++ sel))) ∧
    (ops₁.filter isMintSet = ops₂.filter isMintSet →
        ∀ h, mintIndex (bodyPolicies s₁.mint) h = mintIndex (bodyPolicies s₂.mint) h) ∧
    (∀ h, rewardAccount net h ∈ s₁.wdrlKeys → rewardIndex net s₁.wdrlKeys h = rewardIndex net s₂.wdrlKeys h) ∧
    (ops₁.filter certRelated = ops₂.filter certRelated →
        eraseUnits s₁.certificate = eraseUnits s₂.certificate) := by
  have n1 := inputs_nodup ops₁ s₁ h1
  have n2 := inputs_nodup ops₂ s₂ h2
  have pi : s₁.inputs.Perm s₂.inputs := by
    rw [List.perm_ext_iff_of_nodup n1 n2]
    intro u; rw [inputs_mem ops₁ s₁ h1, inputs_mem ops₂ s₂ h2, (hp.flatMap_right opInputs).mem_iff]
  have pin : (s₁.inputs ++ sel).Perm (s₂.inputs ++ sel) := pi.append_right sel
  have hn : (s₁.inputs ++ sel).Nodup := by
    rw [List.nodup_append]
    exact ⟨n1, hs, fun a ha b hb e => hd b hb (e ▸ ha)⟩
  obtain ⟨w1, v1⟩ := run_wdrlKeys {} s₁ ops₁ h1
  obtain ⟨w2, v2⟩ := run_wdrlKeys {} s₂ ops₂ h2
  have pw : s₁.wdrlKeys.Perm s₂.wdrlKeys := by
    rw [List.perm_ext_iff_of_nodup (w1 (by simp)) (w2 (by simp))]
    intro k; rw [v1 k, v2 k, (hp.flatMap_right opWdrl).mem_iff]
  refine ⟨?_, ?_, ?_, ?_⟩
  · intro u hu
    rw [spendIndex_sorted _ hn u hu, spendIndex_sorted _ (pin.nodup_iff.1 hn) u (pin.subset hu)]
    rw [rank_perm _ _ _ _ (pin.map TxIn.toPair)]
  · intro hf h
    have m1 := run_mint {} s₁ ops₁ h1
    have m2 := run_mint {} s₂ ops₂ h2
    rw [m1, m2, ← mintTrace_filter _ ops₁, ← mintTrace_filter _ ops₂, hf]
  · intro h hh
    rw [rewardIndex_rank net _ (w1 (by simp)) h hh, rewardIndex_rank net _ (w2 (by simp)) h (pw.subset hh),
      rank_perm _ _ _ _ pw]
  · intro hf
    have c1 := run_certTrace {} s₁ ops₁ h1
    have c2 := run_certTrace {} s₂ ops₂ h2
    rw [c1, c2, ← certTrace_filter _ ops₁, ← certTrace_filter _ ops₂, hf]

/-- **every needed script exactly once**: a script hash the transaction needs (`all_scripts`) is in the witness set
exactly once — under the language list of its own kind — unless a reference input or (with `remove_dup_script`, as
`build_and_sign` calls it) a spent input carries it, in which case it is not in the witness set at all -/
theorem script_once (st : St) (useMap removeDup : Bool) (carried : TxIn → Option Script) (h : Bytes)
    (hh : Dict.has (allScripts st) h = true) :
    let w := buildWitnessSet st useMap removeDup carried
    (w.hashes.count h =
      if (st.refScripts.any fun s => s.hash == h) || (carriedHashes st removeDup carried).contains h then 0 else 1) ∧
    (∀ s ∈ w.native, s.kind = .native) ∧ (∀ s ∈ w.v1, s.kind = .v1 ∨ s.kind = .raw) ∧
    (∀ s ∈ w.v2, s.kind = .v2) ∧ (∀ s ∈ w.v3, s.kind = .v3) := by
  refine ⟨witness_count st useMap removeDup carried h hh, ?_, ?_, ?_, ?_⟩ <;>
    intro s hs <;> simp only [buildWitnessSet, List.mem_filter] at hs <;> simpa using hs.2

/-- **datums supplied**: the datum passed to any `add_script_input` call is a key of the datum dict of the final
state, and that dict is what the witness set ships under key 4 -/
theorem datums_present (net : Nat) (ops : List Op) (st st' : St) (sel : List TxIn)
    (ev : Nat → Nat → Option (Int × Int)) (hr : run {} ops = some st) (hb : build net st sel ev = some st')
    (u : TxIn) (s : Script) (src : Src) (d : Bytes × Bytes) (r : Option Rdm)
    (hop : .scriptInput u s src (some d) r ∈ ops) (useMap removeDup : Bool) (carried : TxIn → Option Script) :
    Dict.has st'.datums d.1 = true ∧
      (buildWitnessSet st' useMap removeDup carried).plutusData = some (encDatums st'.datums) := by
  obtain ⟨st1, h1, h2⟩ := build_steps net st st' sel ev hb
  have f1 := (setRedeemerIndex_frame net _ st1 h1).2.1
  have f2 := (updateExUnits_frame ev st1 st' h2).2.2.2.1
  have hd : Dict.has st.datums d.1 = true := by
    obtain ⟨pre, post, rfl⟩ := List.append_of_mem hop
    rw [run_append] at hr
    cases hp : run {} pre with
    | none => simp [hp] at hr
    | some sp =>
      simp only [hp, run] at hr
      cases ha : apply sp (.scriptInput u s src (some d) r) with
      | none => simp [ha] at hr
      | some sa =>
        simp only [ha] at hr
        apply run_datums sa st post hr
        simp only [apply] at ha
        split at ha
        · simp at ha
        · simp only [Option.some.injEq] at ha; subst ha
          simp only
          rw [Dict.has_set]; simp
  have hd' : Dict.has st'.datums d.1 = true := by rw [f2, f1]; exact hd
  refine ⟨hd', ?_⟩
  have hne : st'.datums.isEmpty = false := by
    cases hx : st'.datums with
    | nil => rw [hx] at hd'; simp [Dict.has] at hd'
    | cons _ _ => rfl
  simp [buildWitnessSet, hne]

/-- **validity interval**: set automatically (smart transaction, nothing given by the user) it is
`[max 0 (slot - 1000), slot + 10000]` and contains the current slot -/
theorem validity_contains_slot (slot : Int) (hs : 0 ≤ slot) :
    ∃ a b, autoInterval true none none none none slot = (some a, some b) ∧
      a = max 0 (slot - 1000) ∧ b = slot + 10000 ∧ a ≤ slot ∧ slot ≤ b := by
  refine ⟨max 0 (slot - 1000), slot + 10000, ?_, rfl, rfl, by omega, by omega⟩
  simp only [autoInterval, Bool.true_or, Option.isNone_none, Bool.and_self, if_true, Option.getD_none]
  have : max 0 (slot + 10000) = slot + 10000 := by omega
  rw [this]; rfl

/-- with user-supplied offsets the slot is still inside as long as the start offset is ≤ 0 ≤ the ttl offset -/
theorem validity_contains_slot_offsets (isSmart : Bool) (slot oS oT : Int) (hs : 0 ≤ slot) (h1 : oS ≤ 0) (h2 : 0 ≤ oT) :
    ∃ a b, autoInterval isSmart none none (some oS) (some oT) slot = (some a, some b) ∧ a ≤ slot ∧ slot ≤ b := by
  refine ⟨max 0 (slot + oS), max 0 (slot + oT), ?_, by omega, by omega⟩
  simp [autoInterval]

/-- the interval is set exactly for smart transactions: `is_smart = bool(all_scripts)` -/
theorem validity_only_smart (slot : Int) : autoInterval false none none none none slot = (none, none) := by
  simp [autoInterval]

/-! ## non-vacuity: a concrete run with three inputs whose call order differs from the ledger order, a key input in
between that is added twice, a script input that is first added as a plain input, a stored mint with two minted policies
and one zero-quantity policy that sorts first, two withdrawals and a certificate script -/

def exScript (k : Kind) (b : UInt8) : Script := ⟨k, List.replicate 28 b⟩
def exIn (b : UInt8) (i : Nat) : TxIn := ⟨List.replicate 32 b, i⟩
def exR (d : UInt8) : Rdm := ⟨0, 0, [d], 0, 0⟩

def exOps : List Op :=
  [ .addInput (exIn 0x5c 0), .addInput (exIn 0xab 1),
    .scriptInput (exIn 0xab 1) (exScript .v2 1) .witness (some ([7], [0x18, 0x2a])) (some (exR 1)),
    .mintSet [(List.replicate 28 9, [([0x61], 2)]), (List.replicate 28 1, [([0x7a], 0)]),
              (List.replicate 28 3, [([], 0), ([0x62], -1)])],
    .addInput (exIn 0x5c 0),
    .mintingScript (exScript .v1 9) none (some (exR 2)),
    .scriptInput (exIn 0x0f 2) (exScript .v3 2) (.ref (exIn 0x77 0)) none (some (exR 3)),
    .withdraw (rewardAccount 0 (List.replicate 28 8)), .withdraw (rewardAccount 0 (List.replicate 28 4)),
    .withdrawalScript (exScript .v2 8) none (some (exR 4)),
    .cert, .cert, .certificateScript (exScript .v2 1) none (some (exR 5)) ]

def exResult : Option (List (List Nat)) :=
  match run {} exOps with
  | none => none
  | some st =>
    match build 0 st [exIn 0xab 0] (fun _ _ => some (10, 20)) with
    | none => none
    | some st' =>
      some [st'.inRedeemers.flatMap (fun p => [p.1.ix, p.2.index]), st'.minting.map (fun p => (p.2.map (·.index)).getD 99),
            st'.withdrawal.map (fun p => (p.2.map (·.index)).getD 99),
            st'.certificate.map (fun p => (p.2.map (·.index)).getD 99),
            (redeemerList st').flatMap (fun r => [r.mem.toNat, r.steps.toNat]),
            (buildWitnessSet st' true true (fun _ => none)).hashes.map (fun h => (h.headD 0).toNat)]

/-- the run succeeds, the hypotheses of `spend_index_body` / `mint_index_body` / `reward_index` hold for it, and the
indices are the ranks: inputs in ledger order are 0f…#2, 5c…#0 (key input, added twice, one input), ab…#0 (selected),
ab…#1 (added by `add_input` and by `add_script_input`, one input); minted policies are 03…, 09… (01… holds only a zero) -/
example : exResult = some [[1, 3, 2, 0], [1], [1], [1], [10, 20, 10, 20, 10, 20, 10, 20, 10, 20], [9, 1, 8]] := by
  decide +kernel

example : ∃ st, run {} exOps = some st ∧ st.inputs.length = 3 ∧ [exIn 0xab 0].Nodup ∧
    (∀ u ∈ [exIn 0xab 0], u ∉ st.inputs) ∧ Dict.WF st.mint ∧ (∀ k ∈ Dict.keys st.mint, k.length = 28) ∧
    bodyPolicies st.mint = [List.replicate 28 9, List.replicate 28 3] ∧ st.wdrlKeys.Nodup ∧ st.nCerts = 2 := by
  refine ⟨_, rfl, ?_, ?_, ?_, ?_, ?_, ?_, ?_, ?_⟩ <;> (try unfold Dict.WF Dict.keys) <;> decide +kernel

/-- the recorded witnesses of the two repaired findings, as call sequences (harness: `DUPLICATE_INPUT`,
`ZERO_MINT_POLICY`): `add_input(0a…#1)` twice, then the script input `5c…#0`, then `ff…#0` — the body has three inputs
and the redeemer says 1; a stored mint `{01…: {7a: 0}, 02…: {61: 1}}` and the policy script `02…` — the redeemer says 0 -/
def exWitness : Option (List Nat × List Nat) :=
  match run {} [ .addInput (exIn 0x0a 1), .addInput (exIn 0x0a 1),
                 .scriptInput (exIn 0x5c 0) (exScript .v2 1) .witness (some ([7], [0x18, 0x2a])) (some (exR 1)),
                 .addInput (exIn 0xff 0),
                 .mintSet [(List.replicate 28 1, [([0x7a], 0)]), (List.replicate 28 2, [([0x61], 1)])],
                 .mintingScript (exScript .v2 2) none (some (exR 2)) ] with
  | none => none
  | some st =>
    match build 0 st [] (fun _ _ => some (10, 20)) with
    | none => none
    | some st' =>
      some ((bodyInputs st'.inputs).map (·.ix) ++ st'.inRedeemers.map (·.2.index),
            [(bodyPolicies st'.mint).length] ++ st'.minting.map (fun p => (p.2.map (·.index)).getD 99))

example : exWitness = some ([1, 0, 0, 1], [1, 0]) := by decide +kernel

end Pyc.C11

#print axioms Pyc.C11.hex_order_iff_byte_order
#print axioms Pyc.C11.input_key_is_ledger_order
#print axioms Pyc.C11.sortInputs_perm
#print axioms Pyc.C11.sortInputs_sorted
#print axioms Pyc.C11.policy_key_order
#print axioms Pyc.C11.spend_index
#print axioms Pyc.C11.inputs_nodup
#print axioms Pyc.C11.inputs_mem
#print axioms Pyc.C11.redeemer_inputs
#print axioms Pyc.C11.spend_index_body
#print axioms Pyc.C11.spend_index_needs_nodup
#print axioms Pyc.C11.mint_index
#print axioms Pyc.C11.mint_index_body
#print axioms Pyc.C11.mint_index_insertion_order
#print axioms Pyc.C11.mint_index_needs_minted
#print axioms Pyc.C11.reward_index
#print axioms Pyc.C11.redeemers_kept
#print axioms Pyc.C11.cert_index
#print axioms Pyc.C11.certTrace_at
#print axioms Pyc.C11.cert_needs_certificate
#print axioms Pyc.C11.order_indep
#print axioms Pyc.C11.script_once
#print axioms Pyc.C11.datums_present
#print axioms Pyc.C11.validity_contains_slot
#print axioms Pyc.C11.validity_contains_slot_offsets
#print axioms Pyc.C11.validity_only_smart
