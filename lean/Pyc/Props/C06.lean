import Pyc.Proofs.Builder

/-! # C06 — built transactions conserve value

Model: `Pyc/Model/Builder.lean` (deposit totals, `_calc_change`, `_pack_tokens_for_change`, `_merge_changes`,
the final output list of `_add_change_and_fee`).  The fee is universally quantified: conservation does not depend on
how it was estimated.  `sumCoin` / `sumAsset` add up a list of outputs; `MultiAsset.qty` is the content of a bundle.

Ledger equation (Conway): inputs + withdrawals + mint⁺ + refunds = outputs + fee + mint⁻ + deposits + donation.
With `mint` signed and `deposits` net of refunds (+ proposal deposits + donation) this is
`inputs + withdrawals + mint = outputs + fee + deposits`, which is what the theorems state. -/

namespace Pyc.C06
open Pyc Pyc.Builder

/-- ledger-side net deposit of one certificate (specification) -/
def specDeposit (P : Params) (initialPool : Bool) : CertD → Int
  | .stakeReg _ => P.keyDeposit
  | .stakeDereg => -P.keyDeposit
  | .explicitDeposit k => k
  | .explicitRefund k => -k
  | .poolReg _ => if initialPool then P.poolDeposit else 0
  | .other => 0


theorem dedup_of_nodup (l : List Bytes) (h : l.Nodup) : dedup l = l := by
  induction l with
  | nil => rfl
  | cons x xs ih =>
    rw [List.nodup_cons] at h
    have : xs.contains x = false := by simpa using h.1
    simp [dedup, this, ih h.2, h.1]

/-- the builder's deposit total is the ledger's: every certificate pays / returns what the ledger charges /
refunds, provided no credential is registered twice in the same transaction (which the ledger refuses anyway) -/
theorem deposit_spec (P : Params) (certs : List CertD) (ip : Bool)
    (h1 : (regCreds certs).Nodup) (h2 : (poolOps certs).Nodup) :
    totalKeyDeposit P certs ip = (certs.map (specDeposit P ip)).sum := by
  unfold totalKeyDeposit
  rw [dedup_of_nodup _ h1, dedup_of_nodup _ h2]
  clear h1 h2
  unfold regCreds poolOps
  induction certs with
  | nil => simp
  | cons c r ih =>
    cases c <;> cases ip <;>
      simp only [explicitOf, refundOf, List.filterMap_cons, List.map_cons, List.sum_cons, List.length_cons, specDeposit, if_true, if_false,
        Bool.false_eq_true, Int.natCast_add, Int.natCast_one, Int.mul_add, Int.mul_one, Int.mul_zero] at ih ⊢ <;> omega

/-- the hypotheses under which the accounting is exact: operands are legal dicts, and the packing loop's size `break`
is not taken.  That the selected inputs (plus mint) cover what is requested in every asset, and that nothing is burned
that the inputs do not hold, is no longer a hypothesis: `_calc_change` returns a result only behind its guard
`requested < provided`, and `<=` on values is the component-wise order for all operands (`Pyc.C05.le_iff`, after the
repair of KF-C05-le-negative) — `calcChange_covers` below.  (While `<=` was key-directed the guard let a burn of an
asset the inputs do not hold through, and the field `cover` was needed.) -/
structure Hyp (P : Params) (a : ChangeArgs) : Prop where
  wf : ArgsWF a
  noBreak : (packTokens P a.addr (changeValue a)).2 = false

/-- whenever `_calc_change` returns change outputs, what is requested (outputs + fee) is covered by what is provided
(inputs + mint + withdrawals − deposits), in ADA and in every asset — for all arguments, no hypothesis -/
theorem calcChange_covers (P : Params) (a : ChangeArgs) (cs : List Output) (h : calcChange P a = .ok cs) :
    (requested a).coin ≤ (provided a).coin ∧
    ∀ p n, MultiAsset.qty (requested a).ma p n ≤ MultiAsset.qty (provided a).ma p n :=
  Builder.calcChange_covered P a cs h

/-- change = provided − requested, in ADA and in every asset -/
theorem calcChange_sum (P : Params) (a : ChangeArgs) (cs : List Output) (h : calcChange P a = .ok cs) (hy : Hyp P a) :
    sumCoin cs = (provided a).coin - (requested a).coin ∧
    ∀ p n, sumAsset cs p n = MultiAsset.qty (provided a).ma p n - MultiAsset.qty (requested a).ma p n :=
  Builder.calcChange_sum P a cs h hy.wf hy.noBreak

/-- token packing preserves the bundle: nothing lost, nothing duplicated -/
theorem pack_preserves (P : Params) (addr : Bytes) (ch : Value) (hw : MultiAsset.WF ch.ma)
    (hnb : (packTokens P addr ch).2 = false) (p n : Bytes) :
    sumQty (packTokens P addr ch).1 p n = MultiAsset.qty ch.ma p n :=
  packTokens_preserves P addr ch hw hnb p n

/-- **C06**: whenever the accounting returns an output list, the balance equation holds exactly — for ADA … -/
theorem conserves_ada (P : Params) (outs fo : List Output) (a : ChangeArgs) (mc : Bool)
    (h : finalOutputs P outs a mc = .ok fo)
    (hy : ∀ r, Hyp P (withRespect (finalArgs outs a mc) r))
    (ho : ∀ o ∈ outs, MultiAsset.WF o.amount.ma) :
    (a.inputs.map (·.coin)).sum + a.withdrawals.sum = sumCoin fo + a.fee + a.deposits := by
  unfold finalOutputs at h
  split at h
  · simp at h
  · rename_i cs hfin
    simp only [Except.ok.injEq] at h
    subst h
    obtain ⟨r, hcalc, _, _⟩ := Builder.finalChanges_calc P outs cs a mc hfin
    have hs := calcChange_sum P _ cs hcalc (hy r)
    have hm := mergeChanges_sum outs (mergeIndex outs a mc) cs
      (by intro i hi; unfold mergeIndex at hi; split at hi
          · exact changeIndex_lt _ _ _ hi
          · simp at hi)
      (calcChange_wf P _ cs hcalc) ho
    rw [hm.1, hs.1, provided_coin, requested_coin]
    simp only [withRespect, finalArgs, List.map_map, sumCoin]
    have : (List.map ((fun x => x.coin) ∘ fun x => x.amount) outs).sum = (List.map (fun o => o.amount.coin) outs).sum := rfl
    rw [this]; omega

/-- … and for every native asset (mint signed: positive = minted, negative = burned) -/
theorem conserves_assets (P : Params) (outs fo : List Output) (a : ChangeArgs) (mc : Bool)
    (h : finalOutputs P outs a mc = .ok fo)
    (hy : ∀ r, Hyp P (withRespect (finalArgs outs a mc) r))
    (ho : ∀ o ∈ outs, MultiAsset.WF o.amount.ma) (p n : Bytes) :
    (a.inputs.map (fun v => MultiAsset.qty v.ma p n)).sum + MultiAsset.qty a.mint p n = sumAsset fo p n := by
  unfold finalOutputs at h
  split at h
  · simp at h
  · rename_i cs hfin
    simp only [Except.ok.injEq] at h
    subst h
    obtain ⟨r, hcalc, _, _⟩ := Builder.finalChanges_calc P outs cs a mc hfin
    have hs := calcChange_sum P _ cs hcalc (hy r)
    have hm := mergeChanges_sum outs (mergeIndex outs a mc) cs
      (by intro i hi; unfold mergeIndex at hi; split at hi
          · exact changeIndex_lt _ _ _ hi
          · simp at hi)
      (calcChange_wf P _ cs hcalc) ho
    rw [hm.2 p n, hs.2 p n, provided_qty _ (hy r).wf, requested_qty _ (hy r).wf]
    simp only [withRespect, finalArgs, List.map_map, sumAsset]
    have : (List.map ((fun v => v.ma.qty p n) ∘ fun x => x.amount) outs).sum
        = (List.map (fun o => o.amount.ma.qty p n) outs).sum := rfl
    rw [this]; omega

/-- non-vacuity: a concrete multi-asset scenario (two inputs, one output, a mint, a withdrawal, a deposit) for which
the accounting returns outputs and the no-break hypothesis holds — evaluated by the kernel -/
def exP : Params := { cpb := 4310, maxValSize := 5000, keyDeposit := 2000000, poolDeposit := 500000000 }
def exOuts : List Output := [{ addr := [0x60, 9], amount := ⟨1500000, [([1], [([7], 1)])]⟩ }]
def exArgs : ChangeArgs :=
  { fee := 170000
    inputs := [⟨5000000, [([1], [([7], 3)])]⟩, ⟨4000000, []⟩]
    outputs := exOuts.map (·.amount)
    mint := [([2], [([8], 10)])]
    withdrawals := [1000]
    deposits := 2000000
    addr := [0x60, 1, 2]
    respect := true }

example : (match finalOutputs exP exOuts exArgs false with | .ok fo => fo.length == 2 | .error _ => false) = true ∧
    (packTokens exP exArgs.addr (changeValue exArgs)).2 = false := by
  decide +kernel

end Pyc.C06

#print axioms Pyc.C06.deposit_spec
#print axioms Pyc.C06.calcChange_covers
#print axioms Pyc.C06.calcChange_sum
#print axioms Pyc.C06.pack_preserves
#print axioms Pyc.C06.dedup_of_nodup
#print axioms Pyc.C06.conserves_ada
#print axioms Pyc.C06.conserves_assets
