import Pyc.Proofs.AddrLeaf
import Pyc.Proofs.NativeScript

/-! # C01 (extension) — the leaf codecs of `TransactionOutput`, closed

`output_roundtrip` (Props/C01.lean) is stated over abstract leaf codecs for the address, the inline datum and the native
script of an output, ASSUMED lawful.  Here the address leaf is the real one: the model of `Address.to_primitive` /
`Address.from_primitive` (Pyc/Model/Addr.lean, tied to /repo by C15's differential run and by C01's output run), and
its lawfulness is a theorem.  The inline datum is carried as the primitive the implementation restores it to
(`Leaf.raw`, lawful by `rfl`). -/

namespace Pyc.C01.Leaves
open Pyc Pyc.Cbor Pyc.Codec Pyc.Custom Pyc.Addr Pyc.AddrLeaf

/-- every address object (all ten Shelley kinds, both networks, pointers of any size, any 28-byte credentials) is
restored from the primitive it writes -/
theorem addr_leaf_lawful : addrLeaf.Lawful := addrLeaf_lawful

/-- the decoder of the leaf is `Address.from_primitive` itself, on every CBOR item (bytes, text, anything else) -/
theorem addr_leaf_faithful (i : Item) :
    (match addrLeaf.dec i with | .ok x => Res.ok x.1 | .deser => .deser | .crash => .crash) = addrDec i :=
  addrLeaf_dec_faithful i

/-- whatever `Address.from_primitive` accepts is an address that its constructor would have built -/
theorem addr_decoded_valid (i : Item) (a : Address) (h : addrDec i = .ok a) : validB a = true := addrDec_valid i a h

/-- an item that is neither a byte string nor a text string is refused with `DeserializeException` (so that a `Union`
moves on), a Byron header too -/
theorem addr_refuses_other_kinds (i : Item) (h1 : ∀ b, i ≠ .bytes b) (h2 : ∀ s, i ≠ .text s) : addrDec i = .deser := by
  cases i <;> first | rfl | exact absurd rfl (h1 _) | exact absurd rfl (h2 _)

/-- the leaves of an output with the REAL address codec; the datum is carried as its primitive -/
def realLeaves {N : Type} (Ln : Leaf N) : Leaves VAddr Item N := ⟨addrLeaf, Leaf.raw, Ln⟩

theorem realLeaves_lawful {N : Type} (Ln : Leaf N) (hn : Ln.Lawful) : (realLeaves Ln).Lawful :=
  ⟨addrLeaf_lawful, ⟨fun _ => rfl⟩, hn⟩

/-- `TransactionOutput` round trip with the real address codec: no assumption about addresses is left -/
theorem output_roundtrip_real_address {N : Type} (Ln : Leaf N) (hn : Ln.Lawful) (o : Output VAddr Item N)
    (h : OutputOk (realLeaves Ln) o) :
    decOutput (realLeaves Ln) (itemOutput (realLeaves Ln) o) = .ok (decodedOutput o) :=
  decOutput_itemOutput (realLeaves Ln) (realLeaves_lawful Ln hn) o h

/-- **`TransactionOutput` round trip with NO assumed leaf**: the address codec is the model of `Address.to_primitive` /
`from_primitive`, the native-script codec is the model of `NativeScript.to_primitive` / `from_primitive`
(Pyc/Model/NativeScript.lean), the inline datum is the primitive the implementation restores it to.  Every well-formed
output — legacy or map form, datum hash / inline datum / reference script of any language, any address kind, native
scripts of any depth — decodes to `decodedOutput o` (= `o` with the amount normalised, for a constructed output). -/
theorem output_roundtrip_closed (o : Output VAddr Item Pyc.NativeScript.WScript)
    (h : OutputOk (realLeaves Pyc.NativeScript.nsLeaf) o) :
    decOutput (realLeaves Pyc.NativeScript.nsLeaf) (itemOutput (realLeaves Pyc.NativeScript.nsLeaf) o) = .ok (decodedOutput o) :=
  output_roundtrip_real_address Pyc.NativeScript.nsLeaf ⟨Pyc.NativeScript.nsLeaf_rt⟩ o h

/-- … and re-encoding the decoded output reproduces the bytes (C03's `output_reencode`, closed the same way) -/
theorem output_reencode_closed (o : Output VAddr Item Pyc.NativeScript.WScript)
    (h : OutputOk (realLeaves Pyc.NativeScript.nsLeaf) o) :
    ∃ o', decOutput (realLeaves Pyc.NativeScript.nsLeaf) (itemOutput (realLeaves Pyc.NativeScript.nsLeaf) o) = .ok o' ∧
      itemOutput (realLeaves Pyc.NativeScript.nsLeaf) o' = itemOutput (realLeaves Pyc.NativeScript.nsLeaf) o :=
  ⟨decodedOutput o, output_roundtrip_closed o h, itemOutput_decodedOutput (realLeaves Pyc.NativeScript.nsLeaf) o⟩

/-! non-vacuity: a base address on mainnet and a script-pointer address on testnet are valid, and are restored -/
def exBase : Address := ⟨.vkh (List.replicate 28 7), .sh (List.replicate 28 9), .mainnet⟩
def exPtr : Address := ⟨.sh (List.replicate 28 1), .ptr (2 ^ 40) 129 0, .testnet⟩
example : validB exBase = true ∧ validB exPtr = true := by decide +kernel
def isOk (r : Res Address) (a : Address) : Bool := match r with | .ok x => x == a | _ => false
def cls (r : Res Address) : Nat := match r with | .ok _ => 0 | .deser => 1 | .crash => 2
example : isOk (addrDec (addrEnc exBase)) exBase = true ∧ isOk (addrDec (addrEnc exPtr)) exPtr = true := by decide +kernel
example : cls (addrDec (.bytes [0x80])) = 1 ∧ cls (addrDec (.bytes [])) = 2 ∧ cls (addrDec (.uint 3)) = 1 := by decide +kernel

end Pyc.C01.Leaves

#print axioms Pyc.C01.Leaves.addr_leaf_lawful
#print axioms Pyc.C01.Leaves.addr_leaf_faithful
#print axioms Pyc.C01.Leaves.addr_decoded_valid
#print axioms Pyc.C01.Leaves.addr_refuses_other_kinds
#print axioms Pyc.C01.Leaves.realLeaves_lawful
#print axioms Pyc.C01.Leaves.output_roundtrip_real_address
#print axioms Pyc.C01.Leaves.output_roundtrip_closed
#print axioms Pyc.C01.Leaves.output_reencode_closed
