import Pyc.Model.SchemaCheck
import Pyc.Spec.Conway
import Pyc.Generated.Schema

/-! # C02 — emitted CBOR conforms to the Conway ledger wire format (table part)

`repoSchema` is regenerated from /repo's live classes on every run (harness/extract_schema.py); `specSchema` is the
Conway CDDL transliterated by hand (Pyc/Spec/Conway.lean).  The obligations below are re-checked by the kernel
whenever the generated data changes: a changed body key, certificate code, witness-set key, optional flag, field
order, union alternative or hash size makes them false.  Rules with their own encoding logic are compared by the
differential harness against the independent reference encoder (harness/ref/conway.py). -/

namespace Pyc.C02
open Pyc.Schema Pyc.Generated Pyc.Spec.Conway

/-- every struct rule of the Conway CDDL is implemented by the class of that name with the prescribed codec kind /
type code, and field by field the prescribed map key or array position, optionality and wire type -/
theorem repo_refines : refines repoSchema specSchema = true := by decide +kernel

/-- diagnostics: the list of specification classes not refined is empty -/
theorem repo_refine_failures : refineFailures repoSchema specSchema = [] := by decide +kernel

def unionsMatch (R S : List (String × Ty)) : Bool :=
  S.all (fun s => match R.find? (fun r => r.1 == s.1) with
    | some r => tyMatch r.2 s.2
    | none => false)

/-- the certificate (17 kinds), governance-action (7 kinds) and redeemers unions dispatch over exactly the
alternatives the CDDL lists -/
theorem repo_unions : unionsMatch repoUnions specUnions = true := by decide +kernel

/-- what `refines` means, class by class -/
theorem refines_sound (R S : List ClassDef) (h : refines R S = true) (s : ClassDef) (hs : s ∈ S) :
    ∃ r, lookup R s.name = some r ∧ classMatch r s = true := by
  unfold refines at h
  rw [List.all_eq_true] at h
  have := h s hs
  split at this
  · rename_i r hr; exact ⟨r, hr, this⟩
  · simp at this

/-- a mismatch in a single key is enough to falsify the obligation (non-vacuity of the check itself) -/
example : refines
    [{ name := "T", kind := .map, overrides := [], fields := [{ name := "a", key := .int 8, optional := true, init := true, hook := false, ty := .int }] }]
    [{ name := "T", kind := .map, overrides := [], fields := [{ name := "a", key := .int 9, optional := true, init := true, hook := false, ty := .int }] }]
    = false := by decide

end Pyc.C02

#print axioms Pyc.C02.repo_refines
#print axioms Pyc.C02.repo_refine_failures
#print axioms Pyc.C02.repo_unions
#print axioms Pyc.C02.refines_sound
