import Pyc.Proofs.Ids

/-! # C17 — identifiers are the specified BLAKE2b digests of the exact bytes

Property theorems only.  Model: `Pyc/Model/Ids.lean` (every identifier as `(digest length, preimage)`; the hash function
`H : Nat → Bytes → Bytes` is a universally quantified parameter — no theorem depends on what BLAKE2b computes).
Specification: `Pyc/Spec/Ids.lean` (ledger spec / CDDL / CIP-14, written independently).  The serializers of bodies,
datums and auxiliary data are not re-modelled here: an object of these kinds is represented by the CBOR item it
serializes to (`Pyc/Model/Cbor.lean`), the native-script serializer is modelled in full. -/

namespace Pyc.C17
open Pyc Pyc.Cbor Pyc.Ids

/-! ## the table -/

/-- for every identifier kind and every object the specification speaks about, the model's digest length and preimage
are the specified ones: tx id (32, enc body), datum hash (32, enc datum), aux-data hash (32, enc aux), key hash
(28, the 32-byte public key — for extended keys the payload without its chain code), script hash (28, language tag ‖
script bytes; native scripts: tag 0 and the CDDL bytes), policy id and script-address credential = script hash, CIP-14
fingerprint (20, policy ‖ name) -/
theorem id_table (o : Obj) (h : Spec.Ids.Valid o) : idOf o = Spec.Ids.idOf o := by
  have native : ∀ s : NScript, Spec.Ids.ValidNative s → scriptId (.native s) = Spec.Ids.hashScript (.native s) := by
    intro s hs
    simp [scriptId, scriptPreimage, Spec.Ids.hashScript, Spec.Ids.scriptBytes, NScript.cbor, native_cbor_spec s hs]
    exact ⟨rfl, rfl⟩
  have plutus : ∀ s : Script, (∀ n, s ≠ .native n) → scriptId s = Spec.Ids.hashScript s := by
    intro s hs
    cases s with
    | native n => exact absurd rfl (hs n)
    | plutus l b =>
      cases l <;> simp [scriptId, scriptPreimage, Spec.Ids.hashScript, Spec.Ids.scriptBytes] <;> exact ⟨rfl, rfl⟩
    | raw b => simp [scriptId, scriptPreimage, Spec.Ids.hashScript, Spec.Ids.scriptBytes]; exact ⟨rfl, rfl⟩
  have script : ∀ s : Script, (∀ n, s = .native n → Spec.Ids.ValidNative n) →
      scriptId s = Spec.Ids.hashScript s := by
    intro s hs
    cases s with
    | native n => exact native n (hs n rfl)
    | plutus l b => exact plutus _ (by intro n hn; cases hn)
    | raw b => exact plutus _ (by intro n hn; cases hn)
  cases o with
  | txBody b => simp [idOf, txId, Spec.Ids.idOf]; decide
  | datum d => simp [idOf, datumId, Spec.Ids.idOf]; decide
  | auxData a => simp [idOf, auxId, Spec.Ids.idOf]; decide
  | vkey p => simp [idOf, vkeyId, Spec.Ids.idOf]; decide
  | xvkey p =>
    simp only [Spec.Ids.Valid] at h
    simp [idOf, xvkeyId, vkeyId, toNonExtended, Spec.Ids.idOf, Spec.Ids.publicKeyOfExtended, h]
    decide
  | asset p n => simp [idOf, fingerprintId, Spec.Ids.idOf]; decide
  | script s =>
    simp only [idOf, Spec.Ids.idOf]
    exact script s (by intro n hn; subst hn; exact h)
  | policy s =>
    simp only [idOf, Spec.Ids.idOf]
    exact script s (by intro n hn; subst hn; exact h)
  | scriptAddr s =>
    simp only [idOf, Spec.Ids.idOf]
    exact script s (by intro n hn; subst hn; exact h)

/-- the fixed sizes of every `ConstrainedBytes` hash class of hash.py are the specified widths; the CIP-14 prefix -/
theorem size_table : (∀ e ∈ Spec.Ids.sizeTable, constrainedSize e.1 = some (Spec.Ids.octets e.2)) ∧
    fingerprintHrp = Spec.Ids.fingerprintHrp := by
  constructor
  · decide
  · decide

/-! ## preimages determine the object -/

/-- language tag of a script as the library hashes it -/
def tagOf : Script → UInt8
  | .native _ => 0x00
  | .plutus l _ => l.prefixByte
  | .raw _ => 0x01

/-- the bytes the script object holds / serializes to -/
def heldBytes : Script → Bytes
  | .native s => s.cbor
  | .plutus _ b => b
  | .raw b => b

/-- script preimages are equal exactly when the language tags and the held bytes are equal (for all byte strings):
the same bytes under another language, or other bytes under the same language, give a different preimage; and the
three Plutus prefixes and the native prefix are pairwise different -/
theorem preimage_injective_scripts (s t : Script) :
    (scriptPreimage s = scriptPreimage t ↔ (tagOf s = tagOf t ∧ heldBytes s = heldBytes t)) ∧
    (∀ l₁ l₂ : Lang, l₁.prefixByte = l₂.prefixByte → l₁ = l₂) ∧ (∀ l : Lang, l.prefixByte ≠ 0x00) := by
  refine ⟨?_, ?_, ?_⟩
  · cases s <;> cases t <;> simp [scriptPreimage, tagOf, heldBytes]
  · intro l₁ l₂; cases l₁ <;> cases l₂ <;> decide
  · intro l; cases l <;> decide

/-- Plutus scripts: other language or other bytes ⇒ other preimage -/
theorem preimage_injective_plutus (l₁ l₂ : Lang) (b₁ b₂ : Bytes) :
    scriptPreimage (.plutus l₁ b₁) = scriptPreimage (.plutus l₂ b₂) ↔ (l₁ = l₂ ∧ b₁ = b₂) := by
  constructor
  · intro h
    simp [scriptPreimage] at h
    exact ⟨(preimage_injective_scripts (.plutus l₁ b₁) (.plutus l₂ b₂)).2.1 l₁ l₂ h.1, h.2⟩
  · rintro ⟨rfl, rfl⟩; rfl

/-- a native script never shares a preimage with a Plutus script or a plain byte string -/
theorem preimage_native_ne_plutus (n : NScript) (l : Lang) (b : Bytes) :
    scriptPreimage (.native n) ≠ scriptPreimage (.plutus l b) ∧ scriptPreimage (.native n) ≠ scriptPreimage (.raw b) := by
  constructor
  · intro h; simp [scriptPreimage] at h; exact (preimage_injective_scripts (.raw b) (.raw b)).2.2 l h.1.symm
  · intro h; simp [scriptPreimage] at h

/-- different well-formed items have different encodings (from the round trip `decode_encode`) -/
theorem preimage_injective_cbor (x y : Item) (hx : WF x) (hy : WF y) (h : x ≠ y) : encode x ≠ encode y :=
  fun he => h (encode_injective x y hx hy he)

/-- hence different bodies / datums / auxiliary data have different preimages -/
theorem preimage_injective_objects (x y : Item) (hx : WF x) (hy : WF y) (h : x ≠ y) :
    (txId x).pre ≠ (txId y).pre ∧ (datumId x).pre ≠ (datumId y).pre ∧ (auxId x).pre ≠ (auxId y).pre :=
  ⟨preimage_injective_cbor x y hx hy h, preimage_injective_cbor x y hx hy h, preimage_injective_cbor x y hx hy h⟩

/-- hence different native script trees (within the CDDL ranges) have different preimages -/
theorem preimage_injective_native (s t : NScript) (hs : Spec.Ids.ValidNative s) (ht : Spec.Ids.ValidNative t)
    (h : scriptPreimage (.native s) = scriptPreimage (.native t)) : s = t := by
  simp [scriptPreimage, NScript.cbor] at h
  exact item_inj s t hs ht (encode_injective _ _ (item_wf s hs) (item_wf t ht) h)

/-! ## hashing -/

/-- `H` does not collide on the pair `a`, `b` at digest length `n` (an explicit idealisation of BLAKE2b) -/
def NoCollision (H : Nat → Bytes → Bytes) (n : Nat) (a b : Bytes) : Prop := H n a = H n b → a = b

/-- equal bytes ⇒ equal identifier, for any `H`; and for an `H` that does not collide on the two preimages, different
preimages ⇒ different identifiers -/
theorem hash_respects_preimage (H : Nat → Bytes → Bytes) (i j : Id) :
    (i = j → i.digest H = j.digest H) ∧
    (i.len = j.len → NoCollision H i.len i.pre j.pre → i.pre ≠ j.pre → i.digest H ≠ j.digest H) := by
  constructor
  · intro h; rw [h]
  · intro hl hc hne he
    apply hne
    apply hc
    simp only [Id.digest] at he
    rw [he, hl]

/-- the script hash depends on nothing but language tag and held bytes; two scripts a collision-free `H` maps to the
same hash have the same language tag and the same bytes -/
theorem script_hash_binds (H : Nat → Bytes → Bytes) (s t : Script)
    (hc : NoCollision H 28 (scriptPreimage s) (scriptPreimage t)) :
    scriptHash H s = scriptHash H t ↔ (tagOf s = tagOf t ∧ heldBytes s = heldBytes t) := by
  rw [← (preimage_injective_scripts s t).1]
  constructor
  · intro h; exact hc h
  · intro h; simp [scriptHash, scriptId, Id.digest, h]

/-! ## the builder's script gate -/

/-- the gate is exactly hash equality with the input's payment credential -/
theorem script_gate (H : Nat → Bytes → Bytes) (s : Script) (cred : Bytes) :
    acceptsScript (scriptHash H s) cred = true ↔ scriptHash H s = cred := by
  simp [acceptsScript]

/-- an offered (truthy) script for an input that carries no script of its own is accepted iff its hash is the input's
payment credential, whatever else lives at the address -/
theorem script_gate_offered (H : Nat → Bytes → Bytes) (s : Script) (cred : Bytes) (atAddr : List (Option Script))
    (ht : s.truthy = true) :
    (addScriptInput Script.truthy (scriptHash H) cred none atAddr (.script s) = .ok (s, .offered) ↔
      scriptHash H s = cred) ∧
    (addScriptInput Script.truthy (scriptHash H) cred none atAddr (.script s) = .error .noValidScript ↔
      scriptHash H s ≠ cred) := by
  by_cases h : scriptHash H s = cred <;>
    simp [addScriptInput, candidates, ownCandidate, ht, firstMatch, acceptsScript, h]

/-- success returns the *first* candidate, in the search order, whose hash is the credential; nothing is accepted
whose hash differs -/
theorem script_gate_first {σ : Type} (truthy : σ → Bool) (hash : σ → Bytes) (cred : Bytes) (own : Option σ)
    (atAddr : List (Option σ)) (offer : Offer σ) (c : σ × Src)
    (h : addScriptInput truthy hash cred own atAddr offer = .ok c) :
    ∃ cs pre post, candidates truthy own atAddr offer = some cs ∧ cs = pre ++ c :: post ∧ hash c.1 = cred ∧
      ∀ d ∈ pre, hash d.1 ≠ cred := by
  unfold addScriptInput at h
  cases hc : candidates truthy own atAddr offer with
  | none => simp [hc] at h
  | some cs =>
    simp only [hc] at h
    cases hf : firstMatch hash cred cs with
    | none => simp [hf] at h
    | some d =>
      simp only [hf] at h
      injection h with h
      subst h
      obtain ⟨pre, post, h1, h2, h3⟩ := firstMatch_some hash cred cs d hf
      exact ⟨cs, pre, post, rfl, h1, h2, h3⟩

/-- the call is refused exactly when a reference UTxO without script was offered, or no candidate hashes to the
credential -/
theorem script_gate_reject {σ : Type} (truthy : σ → Bool) (hash : σ → Bytes) (cred : Bytes) (own : Option σ)
    (atAddr : List (Option σ)) (offer : Offer σ) :
    (addScriptInput truthy hash cred own atAddr offer = .error .noValidScript ↔
      ∃ cs, candidates truthy own atAddr offer = some cs ∧ ∀ d ∈ cs, hash d.1 ≠ cred) ∧
    (addScriptInput truthy hash cred own atAddr offer = .error .refWithoutScript ↔
      candidates truthy own atAddr offer = none) := by
  unfold addScriptInput
  cases hc : candidates truthy own atAddr offer with
  | none => simp
  | some cs =>
    cases hf : firstMatch hash cred cs with
    | none =>
      have := (firstMatch_none hash cred cs).1 hf
      simp [hf]
      exact fun a b hab => this (a, b) hab
    | some d =>
      obtain ⟨pre, post, h1, h2, _⟩ := firstMatch_some hash cred cs d hf
      simp [hf]
      exact ⟨d.1, ⟨d.2, by rw [h1]; simp⟩, h2⟩

/-- the search order: the script on the spent UTxO alone when there is one; else, without a (truthy) offer, the scripts
found at the address in the order the chain context returns them; else the offered reference UTxO's script; else the
offered script -/
theorem script_search_order {σ : Type} (truthy : σ → Bool) (own : Option σ) (atAddr : List (Option σ))
    (offer : Offer σ) :
    (∀ s, own = some s → truthy s = true → candidates truthy own atAddr offer = some [(s, .own)]) ∧
    ((∀ s, own = some s → truthy s = false) →
      (offer = .none → candidates truthy own atAddr offer = some (addrCandidates truthy 0 atAddr)) ∧
      (∀ s, offer = .refUtxo (some s) → candidates truthy own atAddr offer = some [(s, .offeredRef)]) ∧
      (offer = .refUtxo none → candidates truthy own atAddr offer = none) ∧
      (∀ s, offer = .script s → truthy s = true → candidates truthy own atAddr offer = some [(s, .offered)])) := by
  constructor
  · intro s hs ht; subst hs; simp [candidates, ownCandidate, ht]
  · intro hown
    have hf : ownCandidate truthy own = none := by
      cases own with
      | none => rfl
      | some s => simp [ownCandidate, hown s rfl]
    refine ⟨?_, ?_, ?_, ?_⟩
    · intro ho; subst ho; simp [candidates, hf]
    · intro s ho; subst ho; simp [candidates, hf]
    · intro ho; subst ho; simp [candidates, hf]
    · intro s ho ht; subst ho; simp [candidates, hf, ht]

/-! ## auxiliary data -/

/-- in the transaction the builder ships, body key 7 is present iff auxiliary data is shipped, and it is the hash
(32, encoding) of the very auxiliary-data item in the transaction's last position -/
theorem aux_hash_shipped (H : Nat → Bytes → Bytes) (r : BodyRest) (ws : Item) (aux : Option Item)
    (hb : lookupKey 7 r.before = none) (ha : lookupKey 7 r.after = none)
    (hn : ∀ a, aux = some a → isNull a = false) :
    ∃ kvs shipped, txParts (buildTx H r ws aux) = some (.map kvs, ws, .simple 21, shipped) ∧
      (isNull shipped = true → aux = none ∧ lookupKey 7 kvs = none) ∧
      (isNull shipped = false → aux = some shipped ∧
        lookupKey 7 kvs = some (.bytes ((auxId shipped).digest H)) ∧ (auxId shipped).len = 32 ∧
        (auxId shipped).pre = encode shipped) := by
  cases aux with
  | none =>
    refine ⟨_, _, rfl, ?_, ?_⟩
    · intro _; simp [lookupKey_append, hb, ha]
    · intro h; simp [isNull] at h
  | some a =>
    refine ⟨_, _, rfl, ?_, ?_⟩
    · intro h; simp [hn a rfl] at h
    · intro _
      simp [lookupKey_append, hb, lookupKey, auxId, AUXILIARY_DATA_HASH_SIZE]

/-! ## keys -/

/-- ordinary (32-byte) and extended (public key ‖ chain code) verification keys: the preimage is the first 32 bytes,
the digest 28 bytes; an extended key and its non-extended form have the same key hash -/
theorem key_hash_trim (H : Nat → Bytes → Bytes) (p : Bytes) :
    (xvkeyId p).pre = p.take 32 ∧ (xvkeyId p).len = 28 ∧ (vkeyId p).len = 28 ∧
    (p.length = 32 → (vkeyId p).pre = p.take 32) ∧
    (xvkeyId p).digest H = (vkeyId (toNonExtended p)).digest H ∧
    (∀ cc₁ cc₂ : Bytes, p.length = 32 → (xvkeyId (p ++ cc₁)).digest H = (xvkeyId (p ++ cc₂)).digest H) := by
  refine ⟨rfl, rfl, rfl, ?_, rfl, ?_⟩
  · intro h; simp [vkeyId, ← h]
  · intro c1 c2 h
    simp [xvkeyId, vkeyId, toNonExtended, Id.digest, h]

/-! ## non-vacuity -/

/-- a nested native script of all six kinds is within the specification's ranges, its model preimage is the CDDL
bytes after a zero byte, and its primitive form is a well-formed item -/
example :
    let s : NScript := .nofk 2 [.pubkey [1, 2, 3], .all [.any [.before 5, .hereafter 70000]], .all []]
    Spec.Ids.ValidNative s ∧ WF s.item ∧
    scriptPreimage (.native s) = [0x00, 0x83, 0x03, 0x02, 0x83, 0x82, 0x00, 0x43, 1, 2, 3, 0x82, 0x01, 0x81, 0x82, 0x02,
      0x82, 0x82, 0x04, 0x05, 0x82, 0x05, 0x1a, 0x00, 0x01, 0x11, 0x70, 0x82, 0x01, 0x80] := by
  intro s
  have hv : Spec.Ids.ValidNative s := by
    simp [s, Spec.Ids.ValidNative, Spec.Ids.ValidNatives]
  exact ⟨hv, item_wf s hv, by decide⟩

/-- `NoCollision` is satisfiable (here by an injective stand-in) and the gate both accepts and rejects -/
example :
    let H : Nat → Bytes → Bytes := fun _ b => b
    (∀ n a b, NoCollision H n a b) ∧
    addScriptInput Script.truthy (scriptHash H) [0x02, 7] none [some (.plutus .v3 [7]), some (.plutus .v2 [7])] .none
      = .ok (.plutus .v2 [7], .atAddress 1) ∧
    addScriptInput Script.truthy (scriptHash H) [0x02, 7] none [] (.script (.plutus .v3 [7])) = .error .noValidScript ∧
    addScriptInput Script.truthy (scriptHash H) [0x02, 7] (some (.plutus .v1 [7])) [] (.script (.plutus .v2 [7]))
      = .error .noValidScript := by
  intro H
  refine ⟨fun n a b h => h, rfl, rfl, rfl⟩

/-- the hypotheses of `aux_hash_shipped` hold for a body with inputs, outputs, fee and a mint field -/
example : lookupKey 7 [(Item.uint 0, Item.array []), (.uint 1, .array []), (.uint 2, .uint 170000)] = none ∧
    lookupKey 7 [(Item.uint 9, Item.map [])] = none ∧ isNull (.tag 259 (.map [])) = false := by decide

end Pyc.C17

#print axioms Pyc.C17.id_table
#print axioms Pyc.C17.size_table
#print axioms Pyc.C17.preimage_injective_scripts
#print axioms Pyc.C17.preimage_injective_plutus
#print axioms Pyc.C17.preimage_native_ne_plutus
#print axioms Pyc.C17.preimage_injective_cbor
#print axioms Pyc.C17.preimage_injective_objects
#print axioms Pyc.C17.preimage_injective_native
#print axioms Pyc.C17.hash_respects_preimage
#print axioms Pyc.C17.script_hash_binds
#print axioms Pyc.C17.script_gate
#print axioms Pyc.C17.script_gate_offered
#print axioms Pyc.C17.script_gate_first
#print axioms Pyc.C17.script_gate_reject
#print axioms Pyc.C17.script_search_order
#print axioms Pyc.C17.aux_hash_shipped
#print axioms Pyc.C17.key_hash_trim
