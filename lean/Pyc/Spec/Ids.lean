import Pyc.Model.Ids

/-! # Identifiers of the Cardano ledger and of CIP-14 (specification, written from the ledger documents)

Only the *object types* of `Pyc/Model/Ids.lean` (`NScript`, `Script`, `Lang`, `Obj`, `Id`) and the RFC 8949 head
(`Cbor.head`) are used here; none of the model's identifier functions.

Sources.
* Shelley ledger spec, "Cryptographic primitives": `hash` is BLAKE2b-256, `ADDRHASH` (key hashes, script hashes — hence
  policy ids and address credentials) is BLAKE2b-224.  `txid tx = hash (tx body)`, computed over the serialized bytes
  the transaction carries.  A verification key is the 32-byte Ed25519 public key; a BIP32-Ed25519 extended verification
  key is `public key ‖ chain code` (32 + 32 bytes) and is hashed without its chain code.
* Alonzo / Babbage / Conway ledger specs, `hashScript`: BLAKE2b-224 over one language tag byte followed by the script
  bytes; the tag is the position of the language in `[native (timelock), PlutusV1, PlutusV2, PlutusV3]`.  For a native
  script the bytes are its CBOR (CDDL `native_script`), for a Plutus script the flat-encoded program bytes as carried in
  the witness set.  `hashData` and the auxiliary-data hash are BLAKE2b-256 over the serialized bytes.
* Conway CDDL: `native_script = [script_pubkey // script_all // script_any // script_n_of_k // invalid_before //
  invalid_hereafter]`, `script_pubkey = (0, addr_keyhash)`, `script_all = (1, [* native_script])`,
  `script_any = (2, [* native_script])`, `script_n_of_k = (3, n : int64, [* native_script])`,
  `invalid_before = (4, slot_no)`, `invalid_hereafter = (5, slot_no)`, `slot_no = uint .size 8`.
* CIP-14: `fingerprint = bech32("asset", blake2b-160(policy_id ‖ asset_name))`.
* CIP-19: the payment credential of a script address is the script hash. -/

namespace Pyc.Spec.Ids
open Pyc Pyc.Cbor Pyc.Ids

/-- digest widths in bits -/
def HASH : Nat := 256
def ADDRHASH : Nat := 224
def FINGERPRINT : Nat := 160

def octets (bits : Nat) : Nat := bits / 8

inductive Language where
  | native | plutusV1 | plutusV2 | plutusV3
  deriving DecidableEq, Repr

/-- the ledger's enumeration order -/
def languages : List Language := [.native, .plutusV1, .plutusV2, .plutusV3]

/-- language tag = position in the enumeration -/
def languageTag (l : Language) : Nat := languages.idxOf l

/-! ## CDDL `native_script`, written out as bytes -/

/-- CDDL `int64` / `uint` with the shortest head -/
def intBytes (i : Int) : Bytes := if 0 ≤ i then head 0 i.toNat else head 1 (-(i + 1)).toNat

mutual
def nativeBytes : NScript → Bytes
  | .pubkey kh => head 4 2 ++ (head 0 0 ++ (head 2 kh.length ++ kh))
  | .all xs => head 4 2 ++ (head 0 1 ++ (head 4 xs.length ++ nativeSeq xs))
  | .any xs => head 4 2 ++ (head 0 2 ++ (head 4 xs.length ++ nativeSeq xs))
  | .nofk n xs => head 4 3 ++ (head 0 3 ++ (intBytes n ++ (head 4 xs.length ++ nativeSeq xs)))
  | .before s => head 4 2 ++ (head 0 4 ++ intBytes s)
  | .hereafter s => head 4 2 ++ (head 0 5 ++ intBytes s)
def nativeSeq : List NScript → Bytes
  | [] => []
  | x :: xs => nativeBytes x ++ nativeSeq xs
end

mutual
/-- the CDDL ranges: `addr_keyhash` is a byte string, `n : int64`, `slot_no = uint .size 8`, arrays countable by a
CBOR head -/
def ValidNative : NScript → Prop
  | .pubkey kh => kh.length < 2^64
  | .all xs => xs.length < 2^64 ∧ ValidNatives xs
  | .any xs => xs.length < 2^64 ∧ ValidNatives xs
  | .nofk n xs => (-(2^63 : Int) ≤ n ∧ n < 2^63) ∧ xs.length < 2^64 ∧ ValidNatives xs
  | .before s => 0 ≤ s ∧ s < 2^64
  | .hereafter s => 0 ≤ s ∧ s < 2^64
def ValidNatives : List NScript → Prop
  | [] => True
  | x :: xs => ValidNative x ∧ ValidNatives xs
end

/-- language and script bytes of a script object.  A script handed over as a plain byte string is, by the library's
documented convention, a Plutus V1 script. -/
def languageOf : Script → Language
  | .native _ => .native
  | .plutus .v1 _ => .plutusV1
  | .plutus .v2 _ => .plutusV2
  | .plutus .v3 _ => .plutusV3
  | .raw _ => .plutusV1

def scriptBytes : Script → Bytes
  | .native s => nativeBytes s
  | .plutus _ b => b
  | .raw b => b

/-- `hashScript` -/
def hashScript (s : Script) : Id := ⟨octets ADDRHASH, UInt8.ofNat (languageTag (languageOf s)) :: scriptBytes s⟩

/-- the Ed25519 public key of an extended verification key: everything but the trailing 32-byte chain code -/
def publicKeyOfExtended (xvk : Bytes) : Bytes := xvk.take (xvk.length - 32)

def idOf : Obj → Id
  | .txBody b => ⟨octets HASH, encode b⟩
  | .datum d => ⟨octets HASH, encode d⟩
  | .auxData a => ⟨octets HASH, encode a⟩
  | .vkey vk => ⟨octets ADDRHASH, vk⟩
  | .xvkey xvk => ⟨octets ADDRHASH, publicKeyOfExtended xvk⟩
  | .script s => hashScript s
  | .policy s => hashScript s
  | .scriptAddr s => hashScript s
  | .asset p n => ⟨octets FINGERPRINT, p ++ n⟩

/-- objects the specification speaks about -/
def Valid : Obj → Prop
  | .vkey vk => vk.length = 32
  | .xvkey xvk => xvk.length = 64
  | .script (.native s) => ValidNative s
  | .policy (.native s) => ValidNative s
  | .scriptAddr (.native s) => ValidNative s
  | _ => True

/-- CIP-14 human-readable part -/
def fingerprintHrp : List Char := ['a', 's', 's', 'e', 't']

/-- widths, in bits, of the fixed-size byte strings of the ledger CDDL by pycardano class name: `$hash28` / `$hash32`,
`reward_account` = one header byte followed by a 28-byte credential -/
def sizeTable : List (String × Nat) :=
  [("VerificationKeyHash", ADDRHASH), ("ScriptHash", ADDRHASH), ("PolicyHash", ADDRHASH), ("PolicyId", ADDRHASH),
   ("ScriptDataHash", HASH), ("TransactionId", HASH), ("DatumHash", HASH), ("AuxiliaryDataHash", HASH),
   ("PoolKeyHash", ADDRHASH), ("PoolMetadataHash", HASH), ("VrfKeyHash", HASH),
   ("RewardAccountHash", 8 + ADDRHASH), ("AnchorDataHash", HASH)]

end Pyc.Spec.Ids
