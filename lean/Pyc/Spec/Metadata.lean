import Pyc.Model.Cbor

/-! # Transaction metadata and auxiliary data: the ledger CDDL (conway.cddl), transliterated as recognisers over CBOR items

```
transaction_metadatum =
    { * transaction_metadatum => transaction_metadatum }
  / [ * transaction_metadatum ]
  / int
  / bytes .size (0..64)
  / text .size (0..64)
transaction_metadatum_label = uint
metadata = { * transaction_metadatum_label => transaction_metadatum }
auxiliary_data =
    metadata                                                              ; Shelley
  / [ transaction_metadata : metadata, auxiliary_scripts : [ * native_script ] ]   ; Shelley-MA
  / #6.259({ ? 0 => metadata, ? 1 => [ * native_script ], ? 2 => [ * plutus_v1_script ],
             ? 3 => [ * plutus_v2_script ], ? 4 => [ * plutus_v3_script ] })      ; Alonzo and later
plutus_v1_script = bytes      (likewise v2, v3)
int = uint / nint             (RFC 8610: major types 0 and 1, i.e. -2^64 .. 2^64-1; no bignum tags)
```

Only `Cbor.Item` is used (the RFC 8949 data model of `Model/Cbor.lean`); nothing of `Model/Metadata.lean`.  `native_script`
has its own rule (another module): it is a parameter.  An array may be written with definite or indefinite length; text
is measured in UTF-8 bytes (RFC 8610 `.size` on a text string counts bytes). -/

namespace Pyc.Spec.Metadata
open Pyc Pyc.Cbor

def U64 : Nat := 18446744073709551616

mutual
def metadatum : Item → Bool
  | .map kvs => metadatumPairs kvs
  | .array xs => metadatumList xs
  | .arrayIndef xs => metadatumList xs
  | .uint n => decide (n < U64)
  | .nint n => decide (n < U64)
  | .bytes b => decide (b.length ≤ 64)
  | .text b => decide (b.length ≤ 64)
  | .bytesChunked _ => false
  | .tag _ _ => false
  | .simple _ => false
def metadatumList : List Item → Bool
  | [] => true
  | x :: xs => metadatum x && metadatumList xs
def metadatumPairs : List (Item × Item) → Bool
  | [] => true
  | (k, v) :: r => metadatum k && metadatum v && metadatumPairs r
end

/-- `transaction_metadatum_label = uint` -/
def label : Item → Bool
  | .uint n => decide (n < U64)
  | _ => false

def metadataPairs : List (Item × Item) → Bool
  | [] => true
  | (k, v) :: r => label k && metadatum v && metadataPairs r

/-- `metadata = { * transaction_metadatum_label => transaction_metadatum }` -/
def metadata : Item → Bool
  | .map kvs => metadataPairs kvs
  | _ => false

/-- `[ * a ]` -/
def listOf (a : Item → Bool) : Item → Bool
  | .array xs => xs.all a
  | .arrayIndef xs => xs.all a
  | _ => false

/-- `bytes` -/
def isBytes : Item → Bool
  | .bytes _ => true
  | .bytesChunked _ => true
  | _ => false

/-- one entry of the Alonzo map: `? 0 => metadata`, `? 1 => [* native_script]`, `? 2 / 3 / 4 => [* plutus_vN_script]` -/
def alonzoEntry (native : Item → Bool) (p : Item × Item) : Bool :=
  match p.1 with
  | .uint k =>
    if k = 0 then metadata p.2
    else if k = 1 then listOf native p.2
    else if k = 2 then listOf isBytes p.2
    else if k = 3 then listOf isBytes p.2
    else if k = 4 then listOf isBytes p.2
    else false
  | _ => false

def keyNat : Item → Nat
  | .uint k => k
  | _ => 0

/-- each `? k` at most once -/
def nodupNat : List Nat → Bool
  | [] => true
  | a :: l => !l.contains a && nodupNat l

def alonzoMap (native : Item → Bool) : Item → Bool
  | .map kvs => kvs.all (alonzoEntry native) && nodupNat (kvs.map (fun p => keyNat p.1))
  | _ => false

def shelleyMa (native : Item → Bool) : List Item → Bool
  | [m, s] => metadata m && listOf native s
  | _ => false

/-- `auxiliary_data` -/
def auxiliary_data (native : Item → Bool) : Item → Bool
  | .map kvs => metadataPairs kvs
  | .array xs => shelleyMa native xs
  | .arrayIndef xs => shelleyMa native xs
  | .tag t x => if t = 259 then alonzoMap native x else false
  | _ => false

/-! ## the same rule as a function from content to item (the encoder the CDDL prescribes for a given content) -/

inductive TxMd where
  | map (kvs : List (TxMd × TxMd))
  | list (xs : List TxMd)
  | int (i : Int)
  | bytes (b : Bytes)
  | text (b : Bytes)
  deriving Repr, Inhabited

mutual
-- the CDDL ranges
def TxMd.ok : TxMd → Bool
  | .map kvs => TxMd.okPairs kvs
  | .list xs => TxMd.okList xs
  | .int i => decide (-(18446744073709551616 : Int) ≤ i) && decide (i < 18446744073709551616)
  | .bytes b => decide (b.length ≤ 64)
  | .text b => decide (b.length ≤ 64)
def TxMd.okList : List TxMd → Bool
  | [] => true
  | x :: xs => TxMd.ok x && TxMd.okList xs
def TxMd.okPairs : List (TxMd × TxMd) → Bool
  | [] => true
  | (k, v) :: r => TxMd.ok k && TxMd.ok v && TxMd.okPairs r
end

/-- `int = uint / nint` -/
def encInt (i : Int) : Item := if 0 ≤ i then .uint i.toNat else .nint (-(i + 1)).toNat

mutual
def encMd : TxMd → Item
  | .map kvs => .map (encMdPairs kvs)
  | .list xs => .array (encMdList xs)
  | .int i => encInt i
  | .bytes b => .bytes b
  | .text b => .text b
def encMdList : List TxMd → List Item
  | [] => []
  | x :: xs => encMd x :: encMdList xs
def encMdPairs : List (TxMd × TxMd) → List (Item × Item)
  | [] => []
  | (k, v) :: r => (encMd k, encMd v) :: encMdPairs r
end

/-- `metadata` for labels and values listed in the order they are to be written -/
def encMetadata (m : List (Nat × TxMd)) : Item := .map (m.map (fun p => (Item.uint p.1, encMd p.2)))

end Pyc.Spec.Metadata
