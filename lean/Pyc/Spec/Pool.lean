import Pyc.Model.Cbor

/-! # Conway CDDL: stake-pool registration and retirement (hand transliteration, independent of the model)

```
pool_registration = (3, pool_params)
pool_retirement   = (4, pool_keyhash, epoch)             ; epoch = uint .size 8
pool_params = ( operator:       pool_keyhash             ; hash28
              , vrf_keyhash:    vrf_keyhash              ; hash32
              , pledge:         coin                     ; uint
              , cost:           coin
              , margin:         unit_interval            ; #6.30([uint, uint])
              , reward_account: reward_account           ; bytes (header byte + hash28)
              , pool_owners:    set<addr_keyhash>        ; #6.258([* a]) / [* a]
              , relays:         [* relay]
              , pool_metadata:  pool_metadata / null )
relay = [ single_host_addr // single_host_name // multi_host_name ]
single_host_addr = (0, port / null, ipv4 / null, ipv6 / null)    ; port = uint .le 65535, ipv4 = bytes .size 4,
single_host_name = (1, port / null, dns_name)                    ; ipv6 = bytes .size 16, dns_name = text .size (0..128)
multi_host_name  = (2, dns_name)
pool_metadata = [url, pool_metadata_hash]                        ; url = text .size (0..128), hash32
```
A certificate is an array whose items are the group.  Two formulations: `enc…` writes the item of a content value
(definite lengths, shortest heads — the choices the CDDL leaves open are the tag of the owner set and nothing else);
`is…` recognises the items the grammar admits. -/

namespace Pyc.Spec.Pool
open Pyc Pyc.Cbor

inductive Relay where
  | singleHostAddr (port : Option Nat) (ipv4 : Option Bytes) (ipv6 : Option Bytes)
  | singleHostName (port : Option Nat) (dns : Bytes)
  | multiHostName (dns : Bytes)
  deriving Repr, DecidableEq

structure PoolMetadata where
  url : Bytes
  hash : Bytes
  deriving Repr, DecidableEq

structure PoolParams where
  operator : Bytes
  vrfKeyhash : Bytes
  pledge : Nat
  cost : Nat
  marginNum : Nat
  marginDen : Nat
  rewardAccount : Bytes
  poolOwners : List Bytes
  ownersTagged : Bool                 -- wire choice of `set<a>`
  relays : List Relay
  poolMetadata : Option PoolMetadata
  deriving Repr, DecidableEq

def nil : Item := .simple 22

def orNull {α : Type} (f : α → Item) : Option α → Item
  | some a => f a
  | none => nil

def encRelay : Relay → Item
  | .singleHostAddr p a b => .array [.uint 0, orNull .uint p, orNull .bytes a, orNull .bytes b]
  | .singleHostName p d => .array [.uint 1, orNull .uint p, .text d]
  | .multiHostName d => .array [.uint 2, .text d]

def encSet (tagged : Bool) (xs : List Item) : Item := if tagged then .tag 258 (.array xs) else .array xs

def encUnitInterval (n d : Nat) : Item := .tag 30 (.array [.uint n, .uint d])

def encPoolMetadata (m : PoolMetadata) : Item := .array [.text m.url, .bytes m.hash]

/-- the nine items of the group `pool_params` -/
def encPoolParams (p : PoolParams) : List Item :=
  [.bytes p.operator, .bytes p.vrfKeyhash, .uint p.pledge, .uint p.cost, encUnitInterval p.marginNum p.marginDen,
   .bytes p.rewardAccount, encSet p.ownersTagged (p.poolOwners.map .bytes), .array (p.relays.map encRelay),
   orNull encPoolMetadata p.poolMetadata]

def encPoolRegistration (p : PoolParams) : Item := .array (.uint 3 :: encPoolParams p)

def encPoolRetirement (poolKeyhash : Bytes) (epoch : Nat) : Item := .array [.uint 4, .bytes poolKeyhash, .uint epoch]

/-! ## the content constraints of the grammar -/

def portIn : Option Nat → Bool
  | some n => decide (n ≤ 65535)
  | none => true

def sizeIs (k : Nat) : Option Bytes → Bool
  | some x => x.length == k
  | none => true

/-- sizes of the fixed-size byte strings (`ipv4 = bytes .size 4`, `ipv6 = bytes .size 16`) -/
def relaySizes : Relay → Bool
  | .singleHostAddr _ a b => sizeIs 4 a && sizeIs 16 b
  | _ => true

/-- value ranges (`port = uint .le 65535`, `dns_name = text .size (0 .. 128)`) -/
def relayRanges : Relay → Bool
  | .singleHostAddr p _ _ => portIn p
  | .singleHostName p d => portIn p && decide (d.length ≤ 128)
  | .multiHostName d => decide (d.length ≤ 128)

def relayOk (r : Relay) : Bool := relaySizes r && relayRanges r

def mdSizes : Option PoolMetadata → Bool
  | some m => m.hash.length == 32
  | none => true

def mdRanges : Option PoolMetadata → Bool
  | some m => decide (m.url.length ≤ 128)
  | none => true

def sizesOk (p : PoolParams) : Bool :=
  p.operator.length == 28 && p.vrfKeyhash.length == 32 && p.poolOwners.all (fun h => h.length == 28) &&
  p.relays.all relaySizes && mdSizes p.poolMetadata

def rangesOk (p : PoolParams) : Bool :=
  decide (p.pledge < 2^64) && decide (p.cost < 2^64) && decide (p.marginNum < 2^64) && decide (p.marginDen < 2^64) &&
  p.relays.all relayRanges && mdRanges p.poolMetadata

def paramsOk (p : PoolParams) : Bool := sizesOk p && rangesOk p

/-! ## the grammar as a recogniser of items -/

def isNull : Item → Bool
  | .simple n => n == 22
  | _ => false

def isUint (max : Nat) : Item → Bool
  | .uint n => decide (n ≤ max)
  | _ => false

def isBytesOf (n : Nat) : Item → Bool
  | .bytes b => b.length == n
  | _ => false

def isTextUpTo (n : Nat) : Item → Bool
  | .text t => decide (t.length ≤ n)
  | _ => false

def orNullB (f : Item → Bool) (i : Item) : Bool := isNull i || f i

def isRelay : Item → Bool
  | .array [c, p, a, b] =>
    (match c with | .uint k => k == 0 | _ => false) && orNullB (isUint 65535) p && orNullB (isBytesOf 4) a && orNullB (isBytesOf 16) b
  | .array [c, p, d] => (match c with | .uint k => k == 1 | _ => false) && orNullB (isUint 65535) p && isTextUpTo 128 d
  | .array [c, d] => (match c with | .uint k => k == 2 | _ => false) && isTextUpTo 128 d
  | _ => false

def isUnitInterval : Item → Bool
  | .tag t (.array [n, d]) => t == 30 && isUint (2^64 - 1) n && isUint (2^64 - 1) d
  | _ => false

def isSetOf (f : Item → Bool) : Item → Bool
  | .tag t (.array xs) => t == 258 && xs.all f
  | .array xs => xs.all f
  | _ => false

def isPoolMetadata : Item → Bool
  | .array [u, h] => isTextUpTo 128 u && isBytesOf 32 h
  | _ => false

def isRewardAccount : Item → Bool
  | .bytes _ => true
  | _ => false

def isPoolParams : List Item → Bool
  | [op, vrf, pledge, cost, margin, ra, owners, relays, md] =>
    isBytesOf 28 op && isBytesOf 32 vrf && isUint (2^64 - 1) pledge && isUint (2^64 - 1) cost && isUnitInterval margin &&
    isRewardAccount ra && isSetOf (isBytesOf 28) owners &&
    (match relays with | .array rs => rs.all isRelay | _ => false) && orNullB isPoolMetadata md
  | _ => false

def isPoolRegistration : Item → Bool
  | .array (c :: rest) => (match c with | .uint k => k == 3 | _ => false) && isPoolParams rest
  | _ => false

def isPoolRetirement : Item → Bool
  | .array [c, k, e] => (match c with | .uint n => n == 4 | _ => false) && isBytesOf 28 k && isUint (2^64 - 1) e
  | _ => false

end Pyc.Spec.Pool
