import Pyc.Model.Cbor

/-! Conway-era CDDL (cardano-ledger `conway.cddl`) for the witness side of a transaction, transliterated rule by rule
as functions from spec-level content to the CBOR item tree.  Written from the CDDL text alone: nothing here refers to
the model of pycardano (`Model/WitnessCodec.lean`).

```
transaction_witness_set =
  { ? 0 : nonempty_set<vkeywitness>      , ? 1 : nonempty_set<native_script>
  , ? 2 : nonempty_set<bootstrap_witness>, ? 3 : nonempty_set<plutus_v1_script>
  , ? 4 : nonempty_set<plutus_data>      , ? 5 : redeemers
  , ? 6 : nonempty_set<plutus_v2_script> , ? 7 : nonempty_set<plutus_v3_script> }
nonempty_set<a0> = #6.258([+ a0]) / [+ a0]
vkeywitness      = [vkey, signature]            vkey = bytes .size 32      signature = bytes .size 64
redeemers        = [+ [tag : redeemer_tag, index : uint .size 4, data : plutus_data, ex_units : ex_units]]
                 / {+ [tag : redeemer_tag, index : uint .size 4] => [data : plutus_data, ex_units : ex_units]}
redeemer_tag     = 0 ; spend / 1 ; mint / 2 ; cert / 3 ; reward / 4 ; voting / 5 ; proposing
ex_units         = [mem : uint, steps : uint]
plutus_vN_script = bytes
```
`native_script`, `bootstrap_witness` and `plutus_data` have rules of their own (Spec/PlutusData.lean, ref/conway.py):
here they are given as the items those rules produce.  A CDDL group `{ ? k : v … }` does not prescribe the order of the
entries; the deterministic encoding (RFC 8949 §4.2.1, which the ledger's own writer and `ref/conway.py` follow) writes
the keys of a struct map in ascending order, and that is the order of `structMap`. -/

namespace Pyc.Spec.WitnessCodec
open Pyc Pyc.Cbor

/-- `nonempty_set<a0> = #6.258([+ a0]) / [+ a0]`: the two wire forms -/
inductive SetForm where
  | tagged
  | bare
  deriving DecidableEq, Repr

def nonemptySet (f : SetForm) (xs : List Item) : Item :=
  match f with
  | .tagged => .tag 258 (.array xs)
  | .bare => .array xs

/-- `vkeywitness = [vkey, signature]` -/
structure VKeyWitness where
  vkey : Bytes
  signature : Bytes
  deriving DecidableEq, Repr

def vkeywitness (w : VKeyWitness) : Item := .array [.bytes w.vkey, .bytes w.signature]

/-- `vkey = bytes .size 32`, `signature = bytes .size 64` -/
def VKeyWitness.Ok (w : VKeyWitness) : Prop := w.vkey.length = 32 ∧ w.signature.length = 64

/-- `redeemer_tag = 0 / 1 / 2 / 3 / 4 / 5` -/
inductive RedeemerTag where
  | spend | mint | cert | reward | voting | proposing
  deriving DecidableEq, Repr

def redeemerTag : RedeemerTag → Item
  | .spend => .uint 0
  | .mint => .uint 1
  | .cert => .uint 2
  | .reward => .uint 3
  | .voting => .uint 4
  | .proposing => .uint 5

/-- `ex_units = [mem : uint, steps : uint]` -/
structure ExUnits where
  mem : Nat
  steps : Nat
  deriving DecidableEq, Repr

def exUnits (e : ExUnits) : Item := .array [.uint e.mem, .uint e.steps]

/-- one redeemer: purpose, index, Plutus data (as its item), execution units -/
structure RedeemerEntry where
  tag : RedeemerTag
  index : Nat
  data : Item
  ex : ExUnits

/-- `index : uint .size 4`, `mem`, `steps : uint` -/
def RedeemerEntry.Ok (r : RedeemerEntry) : Prop := r.index < 2 ^ 32 ∧ r.ex.mem < 2 ^ 64 ∧ r.ex.steps < 2 ^ 64

inductive RedeemersForm where
  | array      -- `[+ [tag, index, data, ex_units]]`
  | map        -- `{+ [tag, index] => [data, ex_units]}`
  deriving DecidableEq, Repr

def redeemerArrayEntry (r : RedeemerEntry) : Item := .array [redeemerTag r.tag, .uint r.index, r.data, exUnits r.ex]

def redeemerMapEntry (r : RedeemerEntry) : Item × Item :=
  (.array [redeemerTag r.tag, .uint r.index], .array [r.data, exUnits r.ex])

/-- `redeemers`, the entries in the order given -/
def redeemers (f : RedeemersForm) (rs : List RedeemerEntry) : Item :=
  match f with
  | .array => .array (rs.map redeemerArrayEntry)
  | .map => .map (rs.map redeemerMapEntry)

/-- the content of a witness set: for each key, absent or the wire form chosen and the elements in order -/
structure WitnessSet where
  vkeys : Option (SetForm × List VKeyWitness)
  native : Option (SetForm × List Item)
  bootstrap : Option (SetForm × List Item)
  v1 : Option (SetForm × List Bytes)
  data : Option (SetForm × List Item)
  redeemers : Option (RedeemersForm × List RedeemerEntry)
  v2 : Option (SetForm × List Bytes)
  v3 : Option (SetForm × List Bytes)

/-- a struct map `{ ? k : v … }`: the entries present, keys ascending as listed in the table -/
def structMap (table : List (Nat × Option Item)) : Item :=
  .map (table.filterMap (fun e => e.2.map (fun v => (Item.uint e.1, v))))

def setOf {α : Type} (f : α → Item) (s : Option (SetForm × List α)) : Option Item :=
  s.map (fun p => nonemptySet p.1 (p.2.map f))

/-- `transaction_witness_set` -/
def transactionWitnessSet (w : WitnessSet) : Item :=
  structMap [
    (0, setOf vkeywitness w.vkeys),
    (1, setOf id w.native),
    (2, setOf id w.bootstrap),
    (3, setOf Item.bytes w.v1),
    (4, setOf id w.data),
    (5, w.redeemers.map (fun p => redeemers p.1 p.2)),
    (6, setOf Item.bytes w.v2),
    (7, setOf Item.bytes w.v3)]

/-- `[+ a0]`: at least one element; sizes of keys, signatures, indices and execution units -/
structure WitnessSet.Ok (w : WitnessSet) : Prop where
  vkeys : ∀ p, w.vkeys = some p → p.2 ≠ [] ∧ ∀ x ∈ p.2, x.Ok
  native : ∀ p, w.native = some p → p.2 ≠ []
  bootstrap : ∀ p, w.bootstrap = some p → p.2 ≠ []
  v1 : ∀ p, w.v1 = some p → p.2 ≠ []
  data : ∀ p, w.data = some p → p.2 ≠ []
  redeemers : ∀ p, w.redeemers = some p → p.2 ≠ [] ∧ ∀ r ∈ p.2, r.Ok
  v2 : ∀ p, w.v2 = some p → p.2 ≠ []
  v3 : ∀ p, w.v3 = some p → p.2 ≠ []

end Pyc.Spec.WitnessCodec
