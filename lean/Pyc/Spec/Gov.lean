import Pyc.Model.Cbor

/-! Conway-era CDDL (cardano-ledger `conway.cddl`) for credentials and governance items, transliterated by hand and
independently of `Model/Gov.lean` (nothing of the model is imported).  Each rule is given twice:

* as an ENCODER from the rule's abstract syntax (one constructor per alternative of the rule) to the CBOR item the rule
  denotes, in the deterministic encoding the ledger types are written in (definite lengths);
* as a RECOGNISER of the items that match the rule.

```
credential        = [0, addr_keyhash // 1, script_hash]
drep              = [0, addr_keyhash // 1, script_hash // 2 // 3]          ; 2 always abstain, 3 always no confidence
voter             = [0, addr_keyhash // 1, script_hash // 2, addr_keyhash // 3, script_hash // 4, addr_keyhash]
                    ; 0 / 1 constitutional committee hot key / script, 2 / 3 drep key / script, 4 stake pool operator
anchor            = [anchor_url : url, anchor_data_hash : $hash32]         ; url = text .size (0 .. 128)
vote              = 0 .. 2                                                  ; no, yes, abstain
voting_procedure  = [vote, anchor / nil]
gov_action_id     = [transaction_id : $hash32, gov_action_index : uint .size 2]
voting_procedures = {+ voter => {+ gov_action_id => voting_procedure}}
hard_fork_initiation_action = (1, gov_action_id / nil, protocol_version)
protocol_version  = [major_protocol_version, uint]                          ; major_protocol_version = 0 .. 12
addr_keyhash = script_hash = $hash28 = bytes .size 28;   $hash32 = bytes .size 32
```
(`major_protocol_version` was `1 .. 10` in the revision the library follows; the recogniser takes the wider range.)
A CBOR map has no repeated key; the CDDL does not prescribe an order of the entries. -/

namespace Pyc.Spec.Gov
open Pyc Pyc.Cbor

/-! ## abstract syntax and encoders -/

inductive Credential where
  | keyHash (h : Bytes)
  | scriptHash (h : Bytes)
  deriving DecidableEq, Repr

def Credential.enc : Credential → Item
  | .keyHash h => .array [.uint 0, .bytes h]
  | .scriptHash h => .array [.uint 1, .bytes h]

def Credential.ok : Credential → Bool
  | .keyHash h => h.length == 28
  | .scriptHash h => h.length == 28

inductive DRep where
  | keyHash (h : Bytes)
  | scriptHash (h : Bytes)
  | alwaysAbstain
  | alwaysNoConfidence
  deriving DecidableEq, Repr

def DRep.enc : DRep → Item
  | .keyHash h => .array [.uint 0, .bytes h]
  | .scriptHash h => .array [.uint 1, .bytes h]
  | .alwaysAbstain => .array [.uint 2]
  | .alwaysNoConfidence => .array [.uint 3]

def DRep.ok : DRep → Bool
  | .keyHash h => h.length == 28
  | .scriptHash h => h.length == 28
  | _ => true

inductive Voter where
  | committeeKey (h : Bytes)
  | committeeScript (h : Bytes)
  | drepKey (h : Bytes)
  | drepScript (h : Bytes)
  | stakePool (h : Bytes)
  deriving DecidableEq, Repr

def Voter.enc : Voter → Item
  | .committeeKey h => .array [.uint 0, .bytes h]
  | .committeeScript h => .array [.uint 1, .bytes h]
  | .drepKey h => .array [.uint 2, .bytes h]
  | .drepScript h => .array [.uint 3, .bytes h]
  | .stakePool h => .array [.uint 4, .bytes h]

def Voter.hash : Voter → Bytes
  | .committeeKey h => h
  | .committeeScript h => h
  | .drepKey h => h
  | .drepScript h => h
  | .stakePool h => h

def Voter.ok (v : Voter) : Bool := v.hash.length == 28

structure Anchor where
  url : Bytes            -- UTF-8
  dataHash : Bytes
  deriving DecidableEq, Repr

def Anchor.enc (a : Anchor) : Item := .array [.text a.url, .bytes a.dataHash]
def Anchor.ok (a : Anchor) : Bool := decide (a.url.length ≤ 128) && a.dataHash.length == 32

inductive Vote where
  | no | yes | abstain
  deriving DecidableEq, Repr

def Vote.enc : Vote → Item
  | .no => .uint 0
  | .yes => .uint 1
  | .abstain => .uint 2

structure VotingProcedure where
  vote : Vote
  anchor : Option Anchor
  deriving DecidableEq, Repr

def VotingProcedure.enc (p : VotingProcedure) : Item :=
  match p.anchor with
  | some a => .array [p.vote.enc, a.enc]
  | none => .array [p.vote.enc, .simple 22]

def VotingProcedure.ok (p : VotingProcedure) : Bool :=
  match p.anchor with
  | some a => a.ok
  | none => true

structure GovActionId where
  txid : Bytes
  index : Nat
  deriving DecidableEq, Repr

def GovActionId.enc (g : GovActionId) : Item := .array [.bytes g.txid, .uint g.index]
def GovActionId.ok (g : GovActionId) : Bool := g.txid.length == 32 && decide (g.index < 65536)

structure HardFork where
  prev : Option GovActionId
  major : Nat
  minor : Nat
  deriving DecidableEq, Repr

def HardFork.enc (h : HardFork) : Item :=
  .array [.uint 1, (match h.prev with | some g => g.enc | none => .simple 22), .array [.uint h.major, .uint h.minor]]

def HardFork.ok (h : HardFork) : Bool :=
  (match h.prev with | some g => g.ok | none => true) && decide (h.major ≤ 12) && decide (h.minor < 2 ^ 64)

/-! ## recognisers -/

/-- `bytes .size n` -/
def isBytesN (n : Nat) : Item → Bool
  | .bytes b => b.length == n
  | _ => false

def isCredential : Item → Bool
  | .array [.uint c, h] => (c == 0 || c == 1) && isBytesN 28 h
  | _ => false

def isDRep : Item → Bool
  | .array [.uint c, h] => (c == 0 || c == 1) && isBytesN 28 h
  | .array [.uint c] => c == 2 || c == 3
  | _ => false

def isVoter : Item → Bool
  | .array [.uint c, h] => decide (c ≤ 4) && isBytesN 28 h
  | _ => false

def isAnchor : Item → Bool
  | .array [.text u, h] => decide (u.length ≤ 128) && isBytesN 32 h
  | _ => false

def isVote : Item → Bool
  | .uint v => decide (v ≤ 2)
  | _ => false

def isNil : Item → Bool
  | .simple n => n == 22
  | _ => false

def isVotingProcedure : Item → Bool
  | .array [v, a] => isVote v && (isAnchor a || isNil a)
  | _ => false

def isGovActionId : Item → Bool
  | .array [t, .uint i] => isBytesN 32 t && decide (i < 65536)
  | _ => false

def isHardFork : Item → Bool
  | .array [.uint c, p, .array [.uint ma, .uint mi]] =>
    c == 1 && (isGovActionId p || isNil p) && decide (ma ≤ 12) && decide (mi < 2 ^ 64)
  | _ => false

/-- no two entries of a map have the same key (compared by their deterministic encoding) -/
def keysDistinct : List (Item × Item) → Bool
  | [] => true
  | (k, _) :: r => r.all (fun q => encode q.1 != encode k) && keysDistinct r

/-- `{+ k => v}` -/
def isTable (isK isV : Item → Bool) : Item → Bool
  | .map kvs => !kvs.isEmpty && kvs.all (fun q => isK q.1 && isV q.2) && keysDistinct kvs
  | _ => false

def isVotingProcedures : Item → Bool := isTable isVoter (isTable isGovActionId isVotingProcedure)

end Pyc.Spec.Gov
