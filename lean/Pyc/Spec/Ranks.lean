import Pyc.Model.Cbor
import Pyc.Model.Canonical

/-! # Specification side of C11 / C12 (independent of `Pyc/Model/Redeemers.lean`)

* Redeemer pointers (Alonzo ledger specification, section 4.1 "indexof"; Conway `AlonzoScriptPurpose`): the index of
  a redeemer is the position of the item it unlocks in the *ledger's* order of the corresponding body field —
  `Set TxIn` ordered by `(TxId, TxIx)`, `Map PolicyID …` ordered by the policy hash bytes, `Map RewardAccount …`.
  Position in an ordered duplicate-free collection = number of strictly smaller elements: `rank`.
* Language views (alonzo.cddl / conway.cddl `script_data_hash` comment, `Cardano.Ledger.Alonzo.PParams.encodeLangViews`):
  the map of language views is encoded canonically (keys by length of their encoding, then bytewise — "shortLex");
  Plutus V1 (language id 0) has its key encoded as the byte string of the CBOR of 0 (`41 00`) and its value as the
  byte string of the indefinite-length list of the cost-model values in ascending parameter-name order; language
  id n ≥ 1 has the plain integer key and a definite-length list of the values in the order of the cost model. -/

namespace Pyc.Spec.Ranks
open Pyc Pyc.Cbor

/-- number of elements of `xs` strictly smaller than `x` -/
def rank {α : Type} (lt : α → α → Bool) (x : α) (xs : List α) : Nat := (xs.filter fun y => lt y x).length

/-- ledger order of transaction inputs `(transaction id bytes, output index)` -/
def inLt (a b : Bytes × Nat) : Bool := bytesLt a.1 b.1 || (a.1 == b.1 && decide (a.2 < b.2))

/-- ledger order of policy ids: the 28 hash bytes -/
def policyLt (a b : Bytes) : Bool := bytesLt a b

/-- order of reward accounts by their 29 bytes.  Among accounts of one credential kind and one network this is the
ledger's order of `Map RewardAccount Coin`; for a mix of key and script credentials it is *not* asserted to be. -/
def accountLt (a b : Bytes) : Bool := bytesLt a b

/-! ## language views -/

/-- parameter names compared as UTF-8 byte strings -/
def nameLe (a b : Bytes × Int) : Bool := !bytesLt b.1 a.1

/-- Plutus V1: `{ h'00' : h'9f … ff' }` -/
def viewV1 (cm : List (Bytes × Int)) : Bytes × Bytes :=
  ([0x41, 0x00], encode (.bytes (encode (.arrayIndef ((isort nameLe cm).map fun p => ofInt p.2)))))

/-- Plutus Vn, n ≥ 2, language id `l = n - 1`: `{ l : [ values ] }` -/
def viewVn (l : Nat) (vals : List Int) : Bytes × Bytes := (encode (.uint l), encode (.array (vals.map ofInt)))

def view (l : Nat) (cm : List (Bytes × Int)) : Bytes × Bytes :=
  if l = 0 then viewV1 cm else viewVn l (cm.map (·.2))

/-- canonical ("shortLex") order of encoded keys -/
def shortLexLe (a b : Bytes × Bytes) : Bool :=
  a.1.length < b.1.length || (a.1.length == b.1.length && !bytesLt b.1 a.1)

/-- the language views of a set of language ids (a duplicate-free list, any order): canonical map -/
def languageViews (langs : List Nat) (pp : Nat → List (Bytes × Int)) : Bytes :=
  let es := isort shortLexLe (langs.map fun l => view l (pp l))
  head 5 es.length ++ es.flatMap fun e => e.1 ++ e.2

end Pyc.Spec.Ranks
