import Pyc.Model.Schema

/-! Conway-era CDDL (cardano-ledger `conway.cddl`), transliterated rule by rule into the schema-table language.
Each entry names the pycardano class that implements the rule (comparison is by that name) and gives the CDDL
rule in the comment.  Struct rules are rows; rules with their own encoding logic (`transaction_output`, `value`,
`address`, `plutus_data`, `auxiliary_data`, `native_script`, relays, `drep`, `voter`) are `custom` here and are
specified as functions elsewhere (Pyc/Spec/*, harness/ref/conway.py).

Conventions: `set<a>` = `oset a false` (`#6.258([* a]) / [* a]`), `nonempty_set<a>` = `oset a true`,
`a / null` = `union [a, none]`, `? k : a` = optional field, `unit_interval` / rationals = `frac` (`#6.30([n, d])`),
`coin`, `epoch`, `uint` … = `int`. -/

namespace Pyc.Spec.Conway
open Pyc.Schema

private def c (n : String) : Ty := .cls n
private def nullable (t : Ty) : Ty := .union [t, .none]

/-- positional field -/
private def p (name : String) (t : Ty) : FieldDef :=
  { name := name, key := .pos, optional := false, init := true, hook := false, ty := t }
/-- trailing optional positional field -/
private def po (name : String) (t : Ty) : FieldDef :=
  { name := name, key := .pos, optional := true, init := true, hook := false, ty := t }
/-- required map entry `k : t` -/
private def k (key : Int) (name : String) (t : Ty) : FieldDef :=
  { name := name, key := .int key, optional := false, init := true, hook := false, ty := t }
/-- optional map entry `? k : t` -/
private def ko (key : Int) (name : String) (t : Ty) : FieldDef :=
  { name := name, key := .int key, optional := true, init := true, hook := false, ty := t }

private def cls (name : String) (kind : Kind) (fields : List FieldDef) : ClassDef :=
  { name := name, kind := kind, overrides := [], fields := fields }

private def hash (name : String) (n : Nat) : ClassDef := cls name (.cbytes n n) []

private def certificate : Ty := .union [
  c "StakeRegistration", c "StakeDeregistration", c "StakeDelegation", c "PoolRegistration", c "PoolRetirement",
  c "StakeRegistrationConway", c "StakeDeregistrationConway", c "VoteDelegation", c "StakeAndVoteDelegation",
  c "StakeRegistrationAndDelegation", c "StakeRegistrationAndVoteDelegation",
  c "StakeRegistrationAndDelegationAndVoteDelegation", c "AuthCommitteeHotCertificate",
  c "ResignCommitteeColdCertificate", c "RegDRepCert", c "UnregDRepCertificate", c "UpdateDRepCertificate"]

private def govAction : Ty := .union [
  c "ParameterChangeAction", c "HardForkInitiationAction", c "TreasuryWithdrawalsAction", c "NoConfidence",
  c "UpdateCommittee", c "NewConstitution", c "InfoAction"]

private def credential : Ty := .union [c "VerificationKeyHash", c "ScriptHash"]

def specSchema : List ClassDef := [
  -- hashes: $hash28 / $hash32, reward accounts are 29 bytes
  hash "TransactionId" 32, hash "DatumHash" 32, hash "AuxiliaryDataHash" 32, hash "ScriptDataHash" 32,
  hash "AnchorDataHash" 32, hash "PoolMetadataHash" 32, hash "VrfKeyHash" 32,
  hash "VerificationKeyHash" 28, hash "ScriptHash" 28, hash "PoolKeyHash" 28, hash "PolicyHash" 28,
  hash "RewardAccountHash" 29,
  cls "AssetName" (.cbytes 0 32) [],

  -- transaction = [transaction_body, transaction_witness_set, bool, auxiliary_data / null]
  cls "Transaction" .array [p "transaction_body" (c "TransactionBody"), p "transaction_witness_set" (c "TransactionWitnessSet"),
    p "valid" .bool, p "auxiliary_data" (nullable (c "AuxiliaryData"))],

  -- transaction_input = [transaction_id : $hash32, index : uint]
  cls "TransactionInput" .array [p "transaction_id" (c "TransactionId"), p "index" .int],

  -- transaction_body = { 0 : set<transaction_input>, 1 : [* transaction_output], 2 : coin, ? 3 : uint, ? 4 : certificates,
  --   ? 5 : withdrawals, ? 7 : auxiliary_data_hash, ? 8 : uint, ? 9 : mint, ? 11 : script_data_hash,
  --   ? 13 : nonempty_set<transaction_input>, ? 14 : required_signers, ? 15 : network_id, ? 16 : transaction_output,
  --   ? 17 : coin, ? 18 : nonempty_set<transaction_input>, ? 19 : voting_procedures, ? 20 : proposal_procedures,
  --   ? 21 : coin, ? 22 : positive_coin }        (key 6 `update` is pre-Conway and kept by the library as opaque)
  cls "TransactionBody" .map [
    k 0 "inputs" (.oset (c "TransactionInput") false),
    k 1 "outputs" (.list (c "TransactionOutput")),
    k 2 "fee" .int,
    ko 3 "ttl" .int,
    ko 4 "certificates" (.oset certificate true),   -- certificates = nonempty_oset<certificate>
    ko 5 "withdraws" (c "Withdrawals"),
    ko 6 "update" .any,
    ko 7 "auxiliary_data_hash" (c "AuxiliaryDataHash"),
    ko 8 "validity_start" .int,
    ko 9 "mint" (c "MultiAsset"),
    ko 11 "script_data_hash" (c "ScriptDataHash"),
    ko 13 "collateral" (.oset (c "TransactionInput") true),
    ko 14 "required_signers" (.oset (c "VerificationKeyHash") true),
    ko 15 "network_id" (c "Network"),
    ko 16 "collateral_return" (c "TransactionOutput"),
    ko 17 "total_collateral" .int,
    ko 18 "reference_inputs" (.oset (c "TransactionInput") true),
    ko 19 "voting_procedures" (c "VotingProcedures"),
    ko 20 "proposal_procedures" (.oset (c "ProposalProcedure") true),
    ko 21 "current_treasury_value" .int,
    ko 22 "donation" .int],

  -- transaction_witness_set = { ? 0 : nonempty_set<vkeywitness>, ? 1 : nonempty_set<native_script>, ? 2 : bootstrap,
  --   ? 3 : nonempty_set<plutus_v1_script>, ? 4 : [* plutus_data], ? 5 : redeemers, ? 6 : …v2, ? 7 : …v3 }
  cls "TransactionWitnessSet" .map [
    ko 0 "vkey_witnesses" (.oset (c "VerificationKeyWitness") true),
    ko 1 "native_scripts" (.oset (c "NativeScript") true),
    ko 2 "bootstrap_witness" (.oset .any true),   -- nonempty_set<bootstrap_witness>
    ko 3 "plutus_v1_script" (.oset (c "PlutusV1Script") true),
    ko 4 "plutus_data" (.oset .any true),   -- nonempty_set<plutus_data>
    ko 5 "redeemer" (.union [.list (c "Redeemer"), c "RedeemerMap"]),
    ko 6 "plutus_v2_script" (.oset (c "PlutusV2Script") true),
    ko 7 "plutus_v3_script" (.oset (c "PlutusV3Script") true)],

  -- post-Alonzo output = { 0 : address, 1 : value, ? 2 : datum_option, ? 3 : script_ref };  legacy = [address, value, ? hash32]
  cls "_TransactionOutputPostAlonzo" .map [k 0 "address" (c "Address"), k 1 "amount" (.union [.int, c "Value"]),
    ko 2 "datum" (c "_DatumOption"), ko 3 "script_ref" (c "_ScriptRef")],
  cls "_TransactionOutputLegacy" .array [p "address" (c "Address"), p "amount" (.union [.int, c "Value"]),
    po "datum_hash" (c "DatumHash")],

  -- multiasset<a> = { * policy_id => { * asset_name => a } };  withdrawals = { * reward_account => coin }
  cls "MultiAsset" (.dict (c "ScriptHash") (c "Asset")) [],
  cls "Asset" (.dict (c "AssetName") .int) [],
  cls "Withdrawals" (.dict .bytes .int) [],

  -- credential = [0, addr_keyhash // 1, script_hash]   (the code is computed from the credential's class)
  cls "StakeCredential" .array [p "credential" credential],
  cls "DRepCredential" .array [p "credential" credential],
  cls "CommitteeColdCredential" .array [p "credential" credential],
  -- anchor = [anchor_url : url, anchor_data_hash : $hash32]
  cls "Anchor" .array [p "url" .text, p "data_hash" (c "AnchorDataHash")],

  -- certificates
  cls "StakeRegistration" (.coded 0) [p "stake_credential" (c "StakeCredential")],          -- (0, stake_credential)
  cls "StakeDeregistration" (.coded 1) [p "stake_credential" (c "StakeCredential")],        -- (1, stake_credential)
  cls "StakeDelegation" (.coded 2) [p "stake_credential" (c "StakeCredential"), p "pool_keyhash" (c "PoolKeyHash")],
  cls "PoolRetirement" (.coded 4) [p "pool_keyhash" (c "PoolKeyHash"), p "epoch" .int],      -- (4, pool_keyhash, epoch)
  cls "StakeRegistrationConway" (.coded 7) [p "stake_credential" (c "StakeCredential"), p "coin" .int],
  cls "StakeDeregistrationConway" (.coded 8) [p "stake_credential" (c "StakeCredential"), p "coin" .int],
  cls "VoteDelegation" (.coded 9) [p "stake_credential" (c "StakeCredential"), p "drep" (c "DRep")],
  cls "StakeAndVoteDelegation" (.coded 10) [p "stake_credential" (c "StakeCredential"), p "pool_keyhash" (c "PoolKeyHash"),
    p "drep" (c "DRep")],
  cls "StakeRegistrationAndDelegation" (.coded 11) [p "stake_credential" (c "StakeCredential"),
    p "pool_keyhash" (c "PoolKeyHash"), p "coin" .int],
  cls "StakeRegistrationAndVoteDelegation" (.coded 12) [p "stake_credential" (c "StakeCredential"), p "drep" (c "DRep"),
    p "coin" .int],
  cls "StakeRegistrationAndDelegationAndVoteDelegation" (.coded 13) [p "stake_credential" (c "StakeCredential"),
    p "pool_keyhash" (c "PoolKeyHash"), p "drep" (c "DRep"), p "coin" .int],
  cls "AuthCommitteeHotCertificate" (.coded 14) [p "committee_cold_credential" (c "StakeCredential"),
    p "committee_hot_credential" (c "StakeCredential")],
  cls "ResignCommitteeColdCertificate" (.coded 15) [p "committee_cold_credential" (c "StakeCredential"),
    p "anchor" (nullable (c "Anchor"))],
  cls "RegDRepCert" (.coded 16) [p "drep_credential" (c "DRepCredential"), p "coin" .int, p "anchor" (nullable (c "Anchor"))],
  cls "UnregDRepCertificate" (.coded 17) [p "drep_credential" (c "DRepCredential"), p "coin" .int],
  cls "UpdateDRepCertificate" (.coded 18) [p "drep_credential" (c "DRepCredential"), p "anchor" (nullable (c "Anchor"))],

  -- pool_params = (operator, vrf_keyhash, pledge, cost, margin : unit_interval, reward_account, set<addr_keyhash>,
  --                [* relay], pool_metadata / null)      (flattened into the certificate `(3, pool_params)`)
  cls "PoolMetadata" .array [p "url" .text, p "pool_metadata_hash" (c "PoolMetadataHash")],

  -- governance
  cls "GovActionId" .array [p "transaction_id" (c "TransactionId"), p "gov_action_index" .int],
  -- parameter_change_action = (0, gov_action_id / null, protocol_param_update, policy_hash / null)
  cls "ParameterChangeAction" (.coded 0) [p "gov_action_id" (nullable (c "GovActionId")),
    p "protocol_param_update" (c "ProtocolParamUpdate"), p "policy_hash" (nullable (c "PolicyHash"))],
  -- treasury_withdrawals_action = (2, { * reward_account => coin }, policy_hash / null)
  cls "TreasuryWithdrawalsAction" (.coded 2) [p "withdrawals" (c "TreasuryWithdrawal"), p "policy_hash" (nullable (c "PolicyHash"))],
  cls "TreasuryWithdrawal" (.dict .bytes .int) [],
  cls "NoConfidence" (.coded 3) [p "gov_action_id" (nullable (c "GovActionId"))],           -- (3, gov_action_id / null)
  -- update_committee = (4, gov_action_id / null, set<committee_cold_credential>, { * cold_credential => epoch }, unit_interval)
  cls "UpdateCommittee" (.coded 4) [p "gov_action_id" (nullable (c "GovActionId")),
    p "committee_cold_credentials" (.oset (c "CommitteeColdCredential") false),
    p "committee_expiration" (c "CommitteeColdCredentialEpochMap"), p "quorum" .frac],
  cls "CommitteeColdCredentialEpochMap" (.dict (c "CommitteeColdCredential") .int) [],
  -- new_constitution = (5, gov_action_id / null, constitution = [anchor, script_hash / null])
  cls "NewConstitution" (.coded 5) [p "gov_action_id" (nullable (c "GovActionId")),
    p "constitution" (.tuple [c "Anchor", nullable (c "ScriptHash")])],
  cls "InfoAction" (.coded 6) [],                                                           -- (6)
  -- proposal_procedure = [deposit : coin, reward_account, gov_action, anchor]
  cls "ProposalProcedure" .array [p "deposit" .int, p "reward_account" .bytes, p "gov_action" govAction, p "anchor" (c "Anchor")],
  -- voting_procedures = { + voter => { + gov_action_id => voting_procedure } }
  cls "VotingProcedures" (.dict (c "Voter") (c "GovActionIdToVotingProcedure")) [],
  cls "GovActionIdToVotingProcedure" (.dict (c "GovActionId") (c "VotingProcedure")) [],

  -- protocol_param_update = { ? 0 : coin … ? 33 : nonnegative_interval }
  cls "ProtocolParamUpdate" .map [
    ko 0 "min_fee_a" .int, ko 1 "min_fee_b" .int, ko 2 "max_block_body_size" .int, ko 3 "max_transaction_size" .int,
    ko 4 "max_block_header_size" .int, ko 5 "key_deposit" .int, ko 6 "pool_deposit" .int, ko 7 "maximum_epoch" .int,
    ko 8 "n_opt" .int, ko 9 "pool_pledge_influence" .frac, ko 10 "expansion_rate" .frac, ko 11 "treasury_growth_rate" .frac,
    ko 16 "min_pool_cost" .int, ko 17 "ada_per_utxo_byte" .int, ko 18 "cost_models" (.dict .any .any),
    ko 19 "execution_costs" (c "ExUnitPrices"), ko 20 "max_tx_ex_units" (c "ExecutionUnits"),
    ko 21 "max_block_ex_units" (c "ExecutionUnits"), ko 22 "max_value_size" .int, ko 23 "collateral_percentage" .int,
    ko 24 "max_collateral_inputs" .int, ko 25 "pool_voting_thresholds" (c "PoolVotingThresholds"),
    ko 26 "drep_voting_thresholds" (c "DRepVotingThresholds"), ko 27 "min_committee_size" .int,
    ko 28 "committee_term_limit" .int, ko 29 "governance_action_validity_period" .int,
    ko 30 "governance_action_deposit" .int, ko 31 "drep_deposit" .int, ko 32 "drep_inactivity_period" .int,
    ko 33 "min_fee_ref_script_cost" .frac],
  cls "ExUnitPrices" .array [p "mem_price" .frac, p "step_price" .frac],                   -- [mem_price, step_price]
  cls "ExecutionUnits" .array [p "mem" .int, p "steps" .int],                               -- [mem : uint, steps : uint]
  -- pool_voting_thresholds = [5 × unit_interval];  drep_voting_thresholds = [10 × unit_interval]
  cls "PoolVotingThresholds" .array [p "motion_no_confidence" .frac, p "committee_normal" .frac,
    p "committee_no_confidence" .frac, p "hard_fork_initiation" .frac, p "ppec_voting_threshold" .frac],
  cls "DRepVotingThresholds" .array [p "motion_no_confidence" .frac, p "committee_normal" .frac,
    p "committee_no_confidence" .frac, p "update_constitution" .frac, p "hard_fork_initiation" .frac,
    p "pp_network_group" .frac, p "pp_economic_group" .frac, p "pp_technical_group" .frac,
    p "pp_governance_group" .frac, p "treasury_withdrawal" .frac],

  -- redeemers: [* [tag, index, data, ex_units]]  /  { + [tag, index] => [data, ex_units] }
  cls "RedeemerKey" .array [p "tag" (c "RedeemerTag"), p "index" .int],
  cls "RedeemerValue" .array [p "data" .any, p "ex_units" (c "ExecutionUnits")],
  cls "RedeemerMap" (.dict (c "RedeemerKey") (c "RedeemerValue")) [],
  cls "RedeemerTag" (.enum [0, 1, 2, 3, 4, 5]) [],          -- spend, mint, cert, reward, voting, proposing
  cls "Vote" (.enum [0, 1, 2]) [],                           -- no, yes, abstain
  cls "DRepKind" (.enum [0, 1, 2, 3]) [],                    -- key hash, script hash, always abstain, always no confidence
  cls "Network" (.enum [0, 1]) [],                           -- network_id = 0 / 1

  -- metadata: { * transaction_metadatum_label => transaction_metadatum };  [metadata, [* native_script]]
  cls "Metadata" (.dict .int .any) [],
  cls "ShelleyMarryMetadata" .array [p "metadata" (c "Metadata"), p "native_scripts" (nullable (.list (c "NativeScript")))],

  -- native scripts: script_pubkey = (0, addr_keyhash), script_all = (1, [* native_script]), script_any = (2, …),
  --   script_n_of_k = (3, n, [* native_script]), invalid_before = (4, slot), invalid_hereafter = (5, slot)
  -- (the type codes are `_TYPE` fields handled by NativeScript.from_primitive; the payload fields are checked here)
  cls "ScriptPubkey" .array [p "key_hash" (c "VerificationKeyHash")],
  cls "InvalidBefore" .array [p "before" .int],
  cls "InvalidHereAfter" .array [p "after" .int],

  -- vkeywitness = [vkey, signature]
  cls "VerificationKeyWitness" .array [p "vkey" (.union [c "VerificationKey", c "ExtendedVerificationKey"]), p "signature" .bytes],

  -- rules with their own encoding logic (specified as functions, compared by the differential harness)
  cls "Address" .custom [], cls "TransactionOutput" .custom [], cls "AuxiliaryData" .custom [], cls "_ScriptRef" .custom []
]

/-- the unions the restorer dispatches on, as sets of alternatives -/
def specUnions : List (String × Ty) := [("Certificate", certificate), ("GovAction", govAction),
  ("Redeemers", .union [.list (c "Redeemer"), c "RedeemerMap"])]

end Pyc.Spec.Conway
