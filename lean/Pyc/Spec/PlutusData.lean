import Pyc.Model.Cbor
import Pyc.Model.Canonical

/-! # Specification: the ledger's Plutus `Data` CBOR codec (`PlutusCore.Data.encodeData`)

Written from the property statement and the Haskell codec, independently of pycardano:

* `Constr i ds`: `0 ≤ i < 7 ↦ tag (121 + i)`, `7 ≤ i < 128 ↦ tag (1280 + (i − 7))`, otherwise
  `tag 102 [i, ds]` (a definite two-element array, `i` as an unsigned integer);
* every list of `Data` (a `List` node, the fields of a constructor, also inside tag 102) goes through the `Serialise [a]`
  instance: empty ↦ definite `80`, non-empty ↦ indefinite `9f … ff`;
* `Map`: definite map head, entries in the order given (an association list: duplicates and any key kind allowed);
* `B b`: `b` itself when at most 64 bytes, otherwise an indefinite byte string of 64-byte chunks (the last one shorter
  or equal, never empty);
* `I i`: CBOR integer when it fits 64 bits, otherwise bignum tag 2 / 3 whose payload (minimal big-endian magnitude) is
  encoded as a `B` — hence chunked beyond 64 bytes. -/

namespace Pyc.Plutus
open Pyc Pyc.Cbor

inductive PData where
  | constr (id : Nat) (fields : List PData)
  | list (xs : List PData)
  | map (kvs : List (PData × PData))
  | int (i : Int)
  | bytes (b : Bytes)
  deriving Repr, Inhabited

/-- `to64ByteChunks b | length b > 64 = take 64 b : to64ByteChunks (drop 64 b) | otherwise = [b]` (fuel = an upper
bound of the number of chunks) -/
def specChunksAux : Nat → Bytes → List Bytes
  | 0, b => [b]
  | fuel+1, b => if b.length ≤ 64 then [b] else b.take 64 :: specChunksAux fuel (b.drop 64)

def specChunks (b : Bytes) : List Bytes := specChunksAux b.length b

/-- `encodeBs` -/
def specBytes (b : Bytes) : Item :=
  if b.length ≤ 64 then .bytes b else .bytesChunked (specChunks b)

/-- `encodeInteger` -/
def specInt (i : Int) : Item :=
  if 0 ≤ i then
    if i.toNat < 2^64 then .uint i.toNat else .tag 2 (specBytes (natBytes i.toNat))
  else
    if (-1 - i).toNat < 2^64 then .nint (-1 - i).toNat else .tag 3 (specBytes (natBytes (-1 - i).toNat))

/-- `Serialise [a]`: `encodeListLen 0` for the empty list, `encodeListLenIndef … encodeBreak` otherwise -/
def specSeq (xs : List Item) : Item :=
  if xs.isEmpty then .array [] else .arrayIndef xs

/-- the constructor alternative: compact tags, or tag 102 with the explicit index -/
def specConstr (c : Nat) (fields : Item) : Item :=
  if c < 7 then .tag (121 + c) fields
  else if c < 128 then .tag (1280 + (c - 7)) fields
  else .tag 102 (.array [ofInt c, fields])

mutual
def specItem : PData → Item
  | .constr c fs => specConstr c (specSeq (specList fs))
  | .list xs => specSeq (specList xs)
  | .map kvs => .map (specPairs kvs)
  | .int i => specInt i
  | .bytes b => specBytes b
def specList : List PData → List Item
  | [] => []
  | x :: xs => specItem x :: specList xs
def specPairs : List (PData × PData) → List (Item × Item)
  | [] => []
  | (k, v) :: r => (specItem k, specItem v) :: specPairs r
end

/-- the canonical bytes of a datum -/
def specBytesOf (d : PData) : Bytes := encode (specItem d)

end Pyc.Plutus
