import Pyc.Model.Ids

/-! # CDDL rule `native_script` of the Conway ledger specification, as CBOR items

Written from the CDDL (conway.cddl), independently of the model's serializer: only the object type `Pyc.Ids.NScript`
and the CBOR item tree `Pyc.Cbor.Item` are used (definite-length arrays are `Item.array`, unsigned / negative integers
`Item.uint` / `Item.nint`; `Cbor.encode` writes every head in its shortest form).

```
native_script = [ script_pubkey // script_all // script_any // script_n_of_k // invalid_before // invalid_hereafter ]
script_pubkey     = (0, addr_keyhash)              addr_keyhash = hash28 = bytes .size 28
script_all        = (1, [* native_script])
script_any        = (2, [* native_script])
script_n_of_k     = (3, n : int64, [* native_script])
invalid_before    = (4, slot_no)                   slot_no = uint .size 8
invalid_hereafter = (5, slot_no)
```
`InvalidBefore(before)` is `invalid_before`, `InvalidHereAfter(after)` is `invalid_hereafter`. -/

namespace Pyc.Spec.NativeScript
open Pyc Pyc.Cbor Pyc.Ids

/-- `int64`: an unsigned or a negative integer item -/
def int64Item (n : Int) : Item := if 0 ≤ n then .uint n.toNat else .nint (-(n + 1)).toNat

/-- `slot_no = uint .size 8` -/
def slotItem (s : Int) : Item := .uint s.toNat

mutual
/-- the item the CDDL prescribes for a script -/
def specNS : NScript → Item
  | .pubkey h => .array [.uint 0, .bytes h]
  | .all xs => .array [.uint 1, .array (specNSs xs)]
  | .any xs => .array [.uint 2, .array (specNSs xs)]
  | .nofk n xs => .array [.uint 3, int64Item n, .array (specNSs xs)]
  | .before s => .array [.uint 4, slotItem s]
  | .hereafter s => .array [.uint 5, slotItem s]
def specNSs : List NScript → List Item
  | [] => []
  | x :: xs => specNS x :: specNSs xs
end

mutual
/-- the ranges of the CDDL: `hash28`, `int64`, `uint .size 8`; array lengths a CBOR head can count -/
def inRangeB : NScript → Bool
  | .pubkey h => h.length == 28
  | .all xs => decide (xs.length < 2^64) && inRangeBs xs
  | .any xs => decide (xs.length < 2^64) && inRangeBs xs
  | .nofk n xs => decide (-(2^63 : Int) ≤ n) && decide (n < 2^63) && decide (xs.length < 2^64) && inRangeBs xs
  | .before s => decide (0 ≤ s) && decide (s < 2^64)
  | .hereafter s => decide (0 ≤ s) && decide (s < 2^64)
def inRangeBs : List NScript → Bool
  | [] => true
  | x :: xs => inRangeB x && inRangeBs xs
end

/-- `n : int64` as an item -/
def isInt64 : Item → Bool
  | .uint n => decide (n < 2^63)
  | .nint n => decide (n < 2^63)
  | _ => false

/-- recogniser of the rule `native_script` on items (fuel: one unit per nesting level) -/
def matchNS : Nat → Item → Bool
  | 0, _ => false
  | f+1, .array (.uint c :: rest) =>
    if c = 0 then (match rest with | [.bytes h] => h.length == 28 | _ => false)
    else if c = 1 ∨ c = 2 then (match rest with | [.array ys] => ys.all (matchNS f) | _ => false)
    else if c = 3 then (match rest with | [n, .array ys] => isInt64 n && ys.all (matchNS f) | _ => false)
    else if c = 4 ∨ c = 5 then (match rest with | [.uint s] => decide (s < 2^64) | _ => false)
    else false
  | _+1, _ => false

-- "definite lengths": no indefinite-length array or byte string anywhere in the item
mutual
def definiteB : Item → Bool
  | .bytesChunked _ => false
  | .arrayIndef _ => false
  | .array xs => definiteBs xs
  | .map kvs => definitePairs kvs
  | .tag _ x => definiteB x
  | .uint _ => true
  | .nint _ => true
  | .bytes _ => true
  | .text _ => true
  | .simple _ => true
def definiteBs : List Item → Bool
  | [] => true
  | x :: xs => definiteB x && definiteBs xs
def definitePairs : List (Item × Item) → Bool
  | [] => true
  | (k, v) :: r => definiteB k && definiteB v && definitePairs r
end

end Pyc.Spec.NativeScript
