import Pyc.Model.Basic

/-! # Specification: BIP32-Ed25519 child key derivation and the CIP-3 (Icarus) master key

Written from the texts, on **integers**, independently of `Pyc/Model/Bip32.lean`:

* D. Khovratovich, J. Law, *BIP32-Ed25519: Hierarchical Deterministic Keys over a Non-linear Keyspace*, sect. V
  (with the Cardano "V2" conventions: all integers little-endian, `kL' = 8·ZL + kL` with `ZL` the first 28 bytes of `Z`,
  `kR' = ZR + kR mod 2^256`, chain code = right half of the second HMAC);
* CIP-3 "Icarus": `data = PBKDF2-HMAC-SHA512(password, salt = entropy, 4096 iterations, 96 bytes)`, then on the
  first 32 bytes (a little-endian scalar) clear the lowest 3 bits, clear the highest bit, clear the third highest bit,
  set the second highest bit.

Only `Bytes`, `leBytes`, `fromLE` of `Pyc.Model.Basic` are shared with the model. -/

namespace Pyc.Spec.Bip32Ed25519

/-- what the specification is parametric in -/
structure Setting (P : Type) where
  /-- HMAC-SHA512: key → message → 64 bytes -/
  H : Bytes → Bytes → Bytes
  /-- PBKDF2-HMAC-SHA512, 4096 iterations, 96 bytes: password → salt → bytes -/
  kdf : Bytes → Bytes → Bytes
  /-- `n ↦ n·B` -/
  B : Nat → P
  add : P → P → P
  /-- 32-byte point encoding -/
  enc : P → Bytes
  /-- order `n` of the base point -/
  order : Nat

variable {P : Type}

/-- extended private key `((kL, kR), c)` as integers below `2^256` and a 32-byte chain code -/
structure XPrv where
  kL : Nat
  kR : Nat
  c : Bytes
deriving DecidableEq, Repr

/-- extended public key `(A, c)` -/
structure XPub (P : Type) where
  A : P
  c : Bytes

/-- `ser256` / `ser32`: little-endian serialisations -/
def ser256 (n : Nat) : Bytes := leBytes 32 n
def ser32 (i : Nat) : Bytes := leBytes 4 i

def hardened (i : Nat) : Prop := 2 ^ 31 ≤ i
instance (i : Nat) : Decidable (hardened i) := inferInstanceAs (Decidable (2 ^ 31 ≤ i))

/-- the public key of a private key -/
def neuter (S : Setting P) (k : XPrv) : XPub P := ⟨S.B k.kL, k.c⟩

/-- data fed to the two HMACs for child `i` of a private parent (without the tag byte) -/
def privData (S : Setting P) (k : XPrv) (i : Nat) : Bytes :=
  if hardened i then ser256 k.kL ++ ser256 k.kR ++ ser32 i
  else S.enc (S.B k.kL) ++ ser32 i

/-- private parent → private child `i` (`i < 2^32`) -/
def childPriv (S : Setting P) (k : XPrv) (i : Nat) : Option XPrv :=
  let tagZ : UInt8 := if hardened i then 0x00 else 0x02
  let tagC : UInt8 := if hardened i then 0x01 else 0x03
  let Z := S.H k.c (tagZ :: privData S k i)
  let C := S.H k.c (tagC :: privData S k i)
  let zL := fromLE (Z.take 28)
  let zR := fromLE ((Z.drop 32).take 32)
  let kL' := 8 * zL + k.kL
  if kL' % S.order = 0 then none                   -- "the child does not exist"
  else some ⟨kL', (zR + k.kR) % 2 ^ 256, (C.drop 32).take 32⟩

/-- public parent → public child `i`; defined for non-hardened `i` only -/
def childPub (S : Setting P) (k : XPub P) (i : Nat) : Option (XPub P) :=
  if hardened i then none
  else
    let Z := S.H k.c ((0x02 : UInt8) :: (S.enc k.A ++ ser32 i))
    let C := S.H k.c ((0x03 : UInt8) :: (S.enc k.A ++ ser32 i))
    let zL := fromLE (Z.take 28)
    some ⟨S.add k.A (S.B (8 * zL)), (C.drop 32).take 32⟩

/-- CIP-3 `tweakBits` on the little-endian scalar: bits 0,1,2 cleared, bit 255 cleared, bit 253 cleared, bit 254
set, every other bit kept -/
def clamp (n : Nat) : Nat := n % 2 ^ 253 / 8 * 8 + 2 ^ 254

/-- bit-level reading of the same rule (proved equivalent to `clamp` in Proofs/Bip32.lean) -/
def IsClampOf (k n : Nat) : Prop :=
  ∀ j, k.testBit j =
    if j < 3 then false else if j = 254 then true else if j = 253 ∨ 255 ≤ j then false else n.testBit j

/-- CIP-3 Icarus master key from entropy and password -/
def master (S : Setting P) (entropy password : Bytes) : XPrv :=
  let data := S.kdf password entropy
  ⟨clamp (fromLE (data.take 32)), fromLE ((data.drop 32).take 32), (data.drop 64).take 32⟩

/-- a derivation path is a list of child numbers; private derivation along it -/
def derivePath (S : Setting P) : XPrv → List Nat → Option XPrv
  | k, [] => some k
  | k, i :: r => match childPriv S k i with
    | none => none
    | some k' => derivePath S k' r

end Pyc.Spec.Bip32Ed25519
