/-! # CIP-19 / CIP-5: what a Shelley address looks like (specification, independent of the model)

CIP-19, "Binary format": an address is `header ‖ payload`.  Header bits 7..4 are the address type, bits 3..0 the
network tag (0 testnet, 1 mainnet).

* Shelley payment addresses, types 0..7: bit 4 says whether the payment credential is a script hash; bits 6..5 say
  what the delegation part is: `00` stake key hash, `01` script hash, `10` pointer, `11` none (enterprise).
* Reward (stake) addresses: type 14 = stake key hash, type 15 = script hash.
* Credentials are 28-byte hashes.  A pointer is three variable-length naturals (slot, tx index, cert index):
  base-128 digits, most significant first, bit 7 of a byte set iff another byte follows.

CIP-5: prefix `addr` (payment) or `stake` (reward), with `_test` appended off mainnet. -/

namespace Pyc.Spec.Cip19

inductive Cred
  | key
  | script
  deriving DecidableEq, Repr

inductive Deleg
  | key
  | script
  | pointer
  | none
  deriving DecidableEq, Repr

/-- type nibble of a payment address -/
def paymentType (p : Cred) (d : Deleg) : Nat :=
  (match d with
    | .key => 0b000
    | .script => 0b010
    | .pointer => 0b100
    | .none => 0b110) +
  (match p with
    | .key => 0
    | .script => 1)

/-- type nibble of a reward address -/
def rewardType : Cred → Nat
  | .key => 0b1110
  | .script => 0b1111

/-- header byte: type in the high nibble, network tag in the low nibble -/
def header (type net : Nat) : Nat := type * 16 + net

def hashLength : Nat := 28

/-- the natural number denoted by a variable-length byte string -/
def varnatValue (bs : List Nat) : Nat := bs.foldl (fun a b => a * 128 + b % 128) 0

/-- `bs` is the (unique, minimal) variable-length encoding of `n` -/
def IsVarnat (n : Nat) (bs : List Nat) : Prop :=
  bs ≠ [] ∧
  (∀ b ∈ bs.dropLast, 128 ≤ b ∧ b < 256) ∧          -- continuation flag on every byte but the last
  (∀ b ∈ bs.getLast?, b < 128) ∧                     -- … and not on the last
  varnatValue bs = n ∧
  bs.head? ≠ some 128                                -- no leading zero digit: minimal length

/-- CIP-5 human-readable prefix -/
def prefixOf (reward : Bool) (net : Nat) : String :=
  (if reward then "stake" else "addr") ++ (if net = 1 then "" else "_test")

end Pyc.Spec.Cip19
