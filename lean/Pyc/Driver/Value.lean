import Pyc.Driver.Util
import Pyc.Model.Value

namespace Pyc.Driver
open Lean

def jAsset : Json → R Asset := jList (jPair jBytes jInt)
def jMultiAsset : Json → R MultiAsset := jList (jPair jBytes jAsset)
def jValue (j : Json) : R Value := do
  pure ⟨← getInt j "coin", ← jMultiAsset (← j.getObjVal? "ma")⟩

def ofAsset : Asset → Json := ofList (ofPair ofBytes ofInt)
def ofMultiAsset : MultiAsset → Json := ofList (ofPair ofBytes ofAsset)
def ofValue (v : Value) : Json := Json.mkObj [("coin", ofInt v.coin), ("ma", ofMultiAsset v.ma)]

/-- criteria the harness can name for `filter` / `count` -/
def crit (name : String) (thr : Int) : Bytes → Bytes → Int → Bool :=
  match name with
  | "pos" => fun _ _ v => decide (v > 0)
  | "neg" => fun _ _ v => decide (v < 0)
  | "gt" => fun _ _ v => decide (v > thr)
  | "evenname" => fun _ n _ => n.length % 2 == 0
  | "polfirst" => fun p _ _ => (p.headD 0).toNat % 2 == 0
  | _ => fun _ _ _ => true

def handleValue (op : String) (j : Json) : R Json := do
  match op with
  | "value.add" => pure (ofValue (Value.add (← jValue (← j.getObjVal? "a")) (← jValue (← j.getObjVal? "b"))))
  | "value.sub" => pure (ofValue (Value.sub (← jValue (← j.getObjVal? "a")) (← jValue (← j.getObjVal? "b"))))
  | "value.eq" => pure (Json.bool (Value.eq (← jValue (← j.getObjVal? "a")) (← jValue (← j.getObjVal? "b"))))
  | "value.le" => pure (Json.bool (Value.le (← jValue (← j.getObjVal? "a")) (← jValue (← j.getObjVal? "b"))))
  | "value.lt" => pure (Json.bool (Value.lt (← jValue (← j.getObjVal? "a")) (← jValue (← j.getObjVal? "b"))))
  | "ma.add" => pure (ofMultiAsset (MultiAsset.add (← jMultiAsset (← j.getObjVal? "a")) (← jMultiAsset (← j.getObjVal? "b"))))
  | "ma.sub" => pure (ofMultiAsset (MultiAsset.sub (← jMultiAsset (← j.getObjVal? "a")) (← jMultiAsset (← j.getObjVal? "b"))))
  | "ma.eq" => pure (Json.bool (MultiAsset.eq (← jMultiAsset (← j.getObjVal? "a")) (← jMultiAsset (← j.getObjVal? "b"))))
  | "ma.le" => pure (Json.bool (MultiAsset.le (← jMultiAsset (← j.getObjVal? "a")) (← jMultiAsset (← j.getObjVal? "b"))))
  | "ma.normalize" => pure (ofMultiAsset (MultiAsset.normalize (← jMultiAsset (← j.getObjVal? "a"))))
  | "ma.filter" =>
    let c := crit (← getStr j "crit") (← getInt j "thr")
    pure (ofMultiAsset (MultiAsset.filter (← jMultiAsset (← j.getObjVal? "a")) c))
  | "ma.count" =>
    let c := crit (← getStr j "crit") (← getInt j "thr")
    pure (ofNat (MultiAsset.count (← jMultiAsset (← j.getObjVal? "a")) c))
  | "asset.add" => pure (ofAsset (Asset.add (← jAsset (← j.getObjVal? "a")) (← jAsset (← j.getObjVal? "b"))))
  | "asset.sub" => pure (ofAsset (Asset.sub (← jAsset (← j.getObjVal? "a")) (← jAsset (← j.getObjVal? "b"))))
  | "asset.eq" => pure (Json.bool (Asset.eq (← jAsset (← j.getObjVal? "a")) (← jAsset (← j.getObjVal? "b"))))
  | "asset.le" => pure (Json.bool (Asset.le (← jAsset (← j.getObjVal? "a")) (← jAsset (← j.getObjVal? "b"))))
  | _ => throw s!"unknown op {op}"

end Pyc.Driver
