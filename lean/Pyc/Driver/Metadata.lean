import Pyc.Driver.Util
import Pyc.Model.Metadata
import Pyc.Spec.Metadata

/-! Driver ops `md.*` for `Model/Metadata.lean` (and the recogniser of `Spec/Metadata.lean`).

JSON: a metadatum is `{"i": "<int>"} | {"t": bool} | {"b": hex} | {"s": hex of the UTF-8 bytes} | {"l": [md…]} |
{"m": [[md, md]…]} | {"raw": hex of a CBOR item}`; a label map is `[["<int>", md]…]` (insertion order); auxiliary data is
`{"k": "shelley", "md": map} | {"k": "shelley_ma", "md": map, "native": null | [hex…]} |
{"k": "alonzo", "md": null | map, "native": null | [hex…], "v1" / "v2" / "v3": null | [hex…]}`; a native script is the CBOR
the implementation wrote for it.  The native-script leaf of the driver restores the item itself and classifies foreign
input as far as the FIRST LEVEL of `NativeScript.from_primitive` goes (not a list: `DeserializeException`; empty list:
`IndexError`; unknown type code: `DeserializeException`); the harness feeds it library-made scripts or first-level damage. -/

namespace Pyc.Driver
open Lean Pyc Pyc.Cbor Pyc.Codec Pyc.Custom Pyc.Metadata

def mdItemHex (j : Json) : R Item := do
  let b ← jBytes j
  match decodeAll b with
  | some i => pure i
  | none => throw "not a single well-formed CBOR item"

partial def jMd (j : Json) : R Md := do
  if let some v := getOpt j "i" then return .int (← jInt v)
  if let some v := getOpt j "t" then return .bool (← jBool v)
  if let some v := getOpt j "b" then return .bytes (← jBytes v)
  if let some v := getOpt j "s" then return .text (← jBytes v)
  if let some v := getOpt j "l" then return .list (← jList jMd v)
  if let some v := getOpt j "m" then return .map (← jList (jPair jMd jMd) v)
  if let some v := getOpt j "raw" then return .raw (← mdItemHex v)
  throw s!"bad metadatum {j.compress}"

partial def ofMd : Md → Json
  | .int i => Json.mkObj [("i", ofInt i)]
  | .bool b => Json.mkObj [("t", Json.bool b)]
  | .bytes b => Json.mkObj [("b", ofBytes b)]
  | .text b => Json.mkObj [("s", ofBytes b)]
  | .list xs => Json.mkObj [("l", Json.arr (xs.map ofMd).toArray)]
  | .map kvs => Json.mkObj [("m", Json.arr (kvs.map (fun kv => Json.arr #[ofMd kv.1, ofMd kv.2])).toArray)]
  | .raw i => Json.mkObj [("raw", ofBytes (encode i))]

def mdJMetadata (j : Json) : R Metadata := jList (jPair jInt jMd) j
def mdOfMetadata (m : Metadata) : Json := ofList (ofPair ofInt ofMd) m

def mdNsDec : Item → Res Item
  | .array [] => .crash
  | .array (t :: rest) =>
    match itemInt? t with
    | some c => if 0 ≤ c ∧ c ≤ 5 then .ok (.array (t :: rest)) else .deser
    | Option.none => .deser
  | _ => .deser

def mdNsLeaf : Leaf Item := ⟨id, mdNsDec⟩

def mdNsRule (i : Item) : Bool := match mdNsDec i with | .ok _ => true | _ => false

def mdOptList {α} (f : Json → R α) (j : Json) (k : String) : R (Option (List α)) :=
  match getOpt j k with
  | some v => do pure (some (← jList f v))
  | none => pure Option.none

def mdJAux (j : Json) : R (Aux Item) := do
  let k ← getStr j "k"
  if k == "shelley" then return .shelley (← mdJMetadata (← j.getObjVal? "md"))
  if k == "shelley_ma" then
    return .shelleyMa ⟨← mdJMetadata (← j.getObjVal? "md"), ← mdOptList mdItemHex j "native"⟩
  if k == "alonzo" then
    let md ← match getOpt j "md" with
      | some v => do pure (some (← mdJMetadata v))
      | none => pure Option.none
    return .alonzo { metadata := md, native := ← mdOptList mdItemHex j "native", v1 := ← mdOptList jBytes j "v1", v2 := ← mdOptList jBytes j "v2", v3 := ← mdOptList jBytes j "v3" }
  throw s!"bad auxiliary data form {k}"

def mdOfOpt {α} (f : α → Json) : Option α → Json
  | some a => f a
  | none => Json.null

def mdItemHexOf (i : Item) : Json := ofBytes (encode i)

def mdOfAux : Aux Item → Json
  | .shelley m => Json.mkObj [("k", "shelley"), ("md", mdOfMetadata m)]
  | .shelleyMa s => Json.mkObj [("k", "shelley_ma"), ("md", mdOfMetadata s.metadata), ("native", mdOfOpt (ofList mdItemHexOf) s.native)]
  | .alonzo a => Json.mkObj [("k", "alonzo"), ("md", mdOfOpt mdOfMetadata a.metadata), ("native", mdOfOpt (ofList mdItemHexOf) a.native),
      ("v1", mdOfOpt (ofList ofBytes) a.v1), ("v2", mdOfOpt (ofList ofBytes) a.v2), ("v3", mdOfOpt (ofList ofBytes) a.v3)]

def mdErr (e : String) : Json := Json.mkObj [("err", Json.str e)]

def mdMetadataOf : Aux Item → Option Metadata
  | .shelley m => some m
  | .shelleyMa s => some s.metadata
  | .alonzo a => a.metadata

def mdAuxRes (r : Res (Aux Item)) : Json :=
  match r with
  | .ok a => Json.mkObj [("val", mdOfAux a), ("reenc", ofBytes (encAux mdNsLeaf a)),
      ("valid", match mdMetadataOf a with | some m => Json.bool (validate m) | none => Json.null)]
  | .deser => mdErr "deser"
  | .crash => mdErr "crash"

def handleMetadata (op : String) (j : Json) : R Json := do
  match op with
  | "md.validate" =>
    -- `Metadata(d)`: does the constructor accept the dict `d` (keys of any kind)?
    pure (Json.bool (validateArgs (← jList (jPair jMd jMd) (← j.getObjVal? "args"))))
  | "md.enc" =>
    -- "aux" holds the constructor ARGUMENTS; the constructed object is `normAux` of them (`__post_init__`)
    let a := normAux (← mdJAux (← j.getObjVal? "aux"))
    let i := itemAux mdNsLeaf a
    pure (Json.mkObj [("hex", ofBytes (encode i)), ("inscope", Json.bool (auxOkB a)), ("specok", Json.bool (auxSpecOkB a)),
      ("conforms", Json.bool (Spec.Metadata.auxiliary_data mdNsRule i)), ("canon", mdOfAux (canonAux a)), ("constructed", mdOfAux a),
      ("hash_len", ofNat (auxHashId mdNsLeaf a).len), ("hash_pre", ofBytes (auxHashId mdNsLeaf a).pre),
      ("valid", match mdMetadataOf a with | some m => Json.bool (validate m) | none => Json.null)])
  | "md.dec" =>
    let b ← getBytes j "hex"
    let form ← getStr j "as"
    match decodeAll b with
    | none => pure (mdErr "crash")
    | some i =>
      if form == "aux" then pure (mdAuxRes (decAux mdNsLeaf i))
      else if form == "metadata" then
        pure (mdAuxRes (match decMetadata i with | .ok m => .ok (.shelley m) | .deser => .deser | .crash => .crash))
      else if form == "shelley_ma" then
        pure (mdAuxRes (match decShelleyMa mdNsLeaf i with | .ok s => .ok (.shelleyMa s) | .deser => .deser | .crash => .crash))
      else if form == "alonzo" then
        pure (mdAuxRes (match decAlonzo mdNsLeaf i with | .ok a => .ok (.alonzo a) | .deser => .deser | .crash => .crash))
      else if form == "optaux" then
        match decOptAux mdNsLeaf i with
        | .ok (some a) => pure (mdAuxRes (.ok a))
        | .ok Option.none => pure (Json.mkObj [("val", Json.null), ("reenc", ofBytes (encode (itemOptAux mdNsLeaf Option.none)))])
        | .deser => pure (mdErr "deser")
        | .crash => pure (mdErr "crash")
      else throw s!"bad form {form}"
  | "md.conforms" =>
    -- the CDDL recogniser of `Spec/Metadata.lean` on an arbitrary item
    match decodeAll (← getBytes j "hex") with
    | none => pure (mdErr "cbor")
    | some i => pure (Json.bool (Spec.Metadata.auxiliary_data mdNsRule i))
  | _ => throw s!"unknown op {op}"

end Pyc.Driver
