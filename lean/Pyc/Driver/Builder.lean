import Pyc.Driver.Output
import Pyc.Model.Builder

namespace Pyc.Driver
open Lean Pyc.Builder

def bldParams (j : Json) : R Params := do
  pure { cpb := ← getInt j "cpb", maxValSize := ← getNat j "max_val_size",
         keyDeposit := ← getInt j "key_deposit", poolDeposit := ← getInt j "pool_deposit" }

def bldCert (j : Json) : R CertD := do
  let k ← getStr j "k"
  match k with
  | "stake_reg" => pure (.stakeReg (← getBytes j "cred"))
  | "stake_dereg" => pure .stakeDereg
  | "deposit" => pure (.explicitDeposit (← getInt j "coin"))
  | "refund" => pure (.explicitRefund (← getInt j "coin"))
  | "pool_reg" => pure (.poolReg (← getBytes j "cred"))
  | _ => pure .other

def bldDeposits (p : Params) (j : Json) : R Int := do
  let certs ← jList bldCert (← j.getObjVal? "certs")
  let props ← jList jInt (← j.getObjVal? "proposals")
  pure (totalKeyDeposit p certs (← getBool j "initial_pool") + props.sum + (← getInt j "donation"))

def bldArgs (p : Params) (j : Json) : R ChangeArgs := do
  pure { fee := ← getInt j "fee", inputs := ← jList jValue (← j.getObjVal? "inputs"),
         outputs := [], mint := ← jMultiAsset (← j.getObjVal? "mint"),
         withdrawals := ← jList jInt (← j.getObjVal? "withdrawals"),
         deposits := ← bldDeposits p j, addr := ← getBytes j "addr", respect := true }

def ofOutput (o : Output) : Json :=
  Json.mkObj [("addr", ofBytes o.addr), ("amount", ofValue o.amount)]

def ofErr : Err → Json
  | .invalidTx => Json.mkObj [("err", "invalid-tx")]
  | .insufficient => Json.mkObj [("err", "selection")]

def handleBuilder (op : String) (j : Json) : R Json := do
  let p ← bldParams (← j.getObjVal? "p")
  match op with
  | "builder.deposit" => pure (ofInt (← bldDeposits p j))
  | "builder.pack" =>
    let r := packTokens p (← getBytes j "addr") (← jValue (← j.getObjVal? "change"))
    pure (Json.mkObj [("arr", ofList ofMultiAsset r.1), ("break", Json.bool r.2)])
  | "builder.final" =>
    let a ← bldArgs p j
    let outs ← jList jOutput (← j.getObjVal? "outs")
    match finalOutputs p outs a (← getBool j "merge_change") with
    | .ok os => pure (Json.mkObj [("outs", ofList ofOutput os)])
    | .error e => pure (ofErr e)
  | "builder.change" =>
    let a ← bldArgs p j
    let outs ← jList jValue (← j.getObjVal? "out_values")
    match calcChange p { a with outputs := outs, respect := ← getBool j "respect" } with
    | .ok os => pure (Json.mkObj [("outs", ofList ofOutput os)])
    | .error e => pure (ofErr e)
  | _ => throw s!"unknown op {op}"

end Pyc.Driver
