import Pyc.Driver.Util
import Pyc.Driver.Value
import Pyc.Model.Backends

/-! Driver for the chain-context adapter model (C20).

A model JSON tree `J` crosses the pipe order-preserving and tagged: `null`, `true/false`, strings and arrays as
themselves, integers as `{"i": "<decimal>"}`, objects as `{"o": [[key, value], ...]}`. -/

namespace Pyc.Driver
open Lean Pyc.Backends

partial def jTree (j : Json) : R J :=
  match j with
  | .null => pure .null
  | .bool b => pure (.bool b)
  | .str s => pure (.str s)
  | .arr a => do pure (.arr (← a.toList.mapM jTree))
  | .num _ => throw "bare number in a tree (use {\"i\": ...})"
  | .obj _ =>
    match j.getObjVal? "i" with
    | .ok v => do pure (.num (← jInt v))
    | .error _ => do
      let kvs ← j.getObjVal? "o"
      let l ← jList (jPair (fun k => k.getStr?) jTree) kvs
      pure (.obj l)

partial def ofTree (t : J) : Json :=
  match t with
  | .null => .null
  | .bool b => .bool b
  | .num n => Json.mkObj [("i", ofInt n)]
  | .str s => .str s
  | .arr xs => .arr (xs.map ofTree).toArray
  | .obj kvs => Json.mkObj [("o", .arr (kvs.map fun kv => Json.arr #[.str kv.1, ofTree kv.2]).toArray)]

def jOptBytes (j : Json) (k : String) : R (Option Bytes) :=
  match getOpt j k with
  | some v => do pure (some (← jBytes v))
  | none => pure none

def jPayload (j : Json) : R Payload :=
  match getOpt j "bytes" with
  | some b => do pure (.bytes (← jBytes b))
  | none => do pure (.json (← jTree (← j.getObjVal? "json")))

def ofPayload : Payload → Json
  | .bytes b => Json.mkObj [("bytes", ofBytes b)]
  | .json j => Json.mkObj [("json", ofTree j)]

def jUTxO (j : Json) : R UTxOModel := do
  let datum ← match getOpt j "datum" with
    | some d => do pure (some (← jPayload d))
    | none => pure none
  let script ← match getOpt j "script" with
    | some s => do pure (some (ScriptM.mk (← getNat s "lang") (← jPayload (← s.getObjVal? "body"))))
    | none => pure none
  pure ⟨← getBytes j "txid", ← getInt j "index", ← getStr j "address", ← getInt j "coin",
        ← jMultiAsset (← j.getObjVal? "ma"), ← jOptBytes j "datum_hash", datum, script⟩

def ofOptBytes : Option Bytes → Json
  | some b => ofBytes b
  | none => .null

def ofUTxO (u : UTxOModel) : Json :=
  Json.mkObj [("txid", ofBytes u.txId), ("index", ofInt u.index), ("address", .str u.address),
    ("coin", ofInt u.coin), ("ma", ofMultiAsset u.ma), ("datum_hash", ofOptBytes u.datumHash),
    ("datum", match u.datum with
      | some p => ofPayload p
      | none => .null),
    ("script", match u.script with
      | some s => Json.mkObj [("lang", ofNat s.lang), ("body", ofPayload s.body)]
      | none => .null)]

def jAux (j : Json) : R Aux := do
  let nativeJson ← match getOpt j "native_json" with
    | some t => jTree t
    | none => pure .null
  pure ⟨← getBytes j "inline_hash", ← getBytes j "script_hash", nativeJson⟩

def jTable (j : Json) (k : String) : R (List (String × J)) :=
  match getOpt j k with
  | some s => jList (jPair (fun k => k.getStr?) jTree) s
  | none => pure []

def jSide (j : Json) : R Side :=
  match getOpt j "side" with
  | some s => do pure ⟨← jTable s "datums", ← jTable s "scripts"⟩
  | none => pure ⟨[], []⟩

def ofTable (s : List (String × J)) : Json :=
  .arr (s.map fun kv => Json.arr #[.str kv.1, ofTree kv.2]).toArray

def ofSide (s : Side) : Json := Json.mkObj [("datums", ofTable s.datums), ("scripts", ofTable s.scripts)]

def errName : Err → String
  | .key => "key"
  | .type => "type"
  | .value => "value"
  | .assertion => "assertion"

def ofRes (r : Res (Option UTxOModel)) : Json :=
  match r with
  | .ok (some u) => Json.mkObj [("ok", ofUTxO u)]
  | .ok none => Json.mkObj [("ok", .null)]
  | .error e => Json.mkObj [("err", .str (errName e))]

def handleBackend (op : String) (j : Json) : R Json := do
  let adapter ← getStr j "adapter"
  match op with
  | "backend.render" =>
    let u ← jUTxO (← j.getObjVal? "u")
    let aux ← jAux (← j.getObjVal? "aux")
    match adapter with
    | "blockfrost" =>
      let (m, s) := render_blockfrost aux u
      pure (Json.mkObj [("main", ofTree m), ("side", ofSide s)])
    | "kupo" =>
      let (m, s) := render_kupo aux u
      pure (Json.mkObj [("main", ofTree m), ("side", ofSide s)])
    | "ogmios_v5" => pure (Json.mkObj [("main", ofTree (render_ogmios_v5 u)), ("side", ofSide ⟨[], []⟩)])
    | "ogmios_v6" => pure (Json.mkObj [("main", ofTree (render_ogmios_v6 aux u)), ("side", ofSide ⟨[], []⟩)])
    | "cardano_cli" =>
      let (k, m) := render_cardano_cli aux u
      pure (Json.mkObj [("main", ofTree m), ("side", ofSide ⟨[], []⟩), ("key", .str k)])
    | _ => throw s!"unknown adapter {adapter}"
  | "backend.parse" =>
    let m ← jTree (← j.getObjVal? "main")
    let side ← jSide j
    match adapter with
    | "blockfrost" => pure (ofRes ((parse_blockfrost (← getStr j "addr") side m).map some))
    | "kupo" => pure (ofRes (parse_kupo (← getStr j "addr") side m))
    | "ogmios_v5" => pure (ofRes ((parse_ogmios_v5 m).map some))
    | "ogmios_v6" => pure (ofRes ((parse_ogmios_v6 m).map some))
    | "cardano_cli" => pure (ofRes ((parse_cardano_cli (← getStr j "key") m).map some))
    | _ => throw s!"unknown adapter {adapter}"
  | _ => throw s!"unknown op {op}"

end Pyc.Driver
