import Pyc.Driver.Util
import Pyc.Driver.Value
import Pyc.Model.Redeemers

/-! Driver ops of C11 / C12: `ranks`, `sdh.preimage`, `views`, `rd.build` (the whole model pipeline: the `add_*`
calls, the input sort, `_set_redeemer_index`, `_update_execution_units`, witness set and hash preimage). -/

namespace Pyc.Driver
open Lean Pyc Pyc.Rd

def rdTxIn (j : Json) : R TxIn := do
  let p ← jPair jBytes jNat j
  pure ⟨p.1, p.2⟩

def rdOfTxIn (i : TxIn) : Json := .arr #[ofBytes i.txid, ofNat i.ix]

def rdKind (s : String) : R Kind :=
  match s with
  | "native" => pure .native
  | "v1" => pure .v1
  | "v2" => pure .v2
  | "v3" => pure .v3
  | "raw" => pure .raw
  | _ => throw s!"bad script kind {s}"

/-- `[kind, hash]` -/
def rdScript (j : Json) : R Script := do
  let a ← j.getArr?
  if h : a.size = 2 then
    pure ⟨← rdKind (← a[0].getStr?), ← jBytes a[1]⟩
  else throw "script = [kind, hash]"

def rdOpt {α} (f : Json → R α) (j : Json) : R (Option α) :=
  match j with
  | .null => pure none
  | _ => do pure (some (← f j))

def rdGetOpt {α} (f : Json → R α) (j : Json) (k : String) : R (Option α) :=
  match getOpt j k with
  | none => pure none
  | some v => do pure (some (← f v))

/-- a fresh redeemer `[data cbor, mem, steps]` (tag unset, index 0) -/
def rdFresh (j : Json) : R Rdm := do
  let a ← j.getArr?
  if h : a.size = 3 then
    pure ⟨0, 0, ← jBytes a[0], ← jInt a[1], ← jInt a[2]⟩
  else throw "redeemer = [data, mem, steps]"

/-- a final redeemer `[tag, index, data cbor, mem, steps]` -/
def rdFull (j : Json) : R Rdm := do
  let a ← j.getArr?
  if h : a.size = 5 then
    pure ⟨← jNat a[0], ← jNat a[1], ← jBytes a[2], ← jInt a[3], ← jInt a[4]⟩
  else throw "redeemer = [tag, index, data, mem, steps]"

def rdOfRdm (r : Rdm) : Json := .arr #[ofNat r.tag, ofNat r.index, ofBytes r.data, ofInt r.mem, ofInt r.steps]

def rdSrc (j : Json) : R Src :=
  match j with
  | .str "witness" => pure .witness
  | .str "own" => pure .own
  | _ => do pure (.ref (← rdTxIn j))

def rdOp (j : Json) : R Op := do
  let k ← getStr j "k"
  match k with
  | "add_input" => pure (.addInput (← rdTxIn (← j.getObjVal? "u")))
  | "script_input" =>
    pure (.scriptInput (← rdTxIn (← j.getObjVal? "u")) (← rdScript (← j.getObjVal? "script"))
      (← rdSrc (← j.getObjVal? "src")) (← rdGetOpt (jPair jBytes jBytes) j "datum") (← rdGetOpt rdFresh j "red"))
  | "minting_script" =>
    pure (.mintingScript (← rdScript (← j.getObjVal? "script")) (← rdGetOpt rdTxIn j "ref") (← rdGetOpt rdFresh j "red"))
  | "withdrawal_script" =>
    pure (.withdrawalScript (← rdScript (← j.getObjVal? "script")) (← rdGetOpt rdTxIn j "ref") (← rdGetOpt rdFresh j "red"))
  | "certificate_script" =>
    pure (.certificateScript (← rdScript (← j.getObjVal? "script")) (← rdGetOpt rdTxIn j "ref") (← rdGetOpt rdFresh j "red"))
  | "cert" => pure .cert
  | "mint_set" => pure (.mintSet (← jMultiAsset (← j.getObjVal? "m")))
  | "withdraw" => pure (.withdraw (← getBytes j "a"))
  | "native_script" => pure (.nativeScript (← rdScript (← j.getObjVal? "script")))
  | "output_datum" => pure (.outputDatum (← jPair jBytes jBytes (← j.getObjVal? "d")))
  | _ => throw s!"unknown builder call {k}"

/-- cost-model tables `[[lang, [[name hex, value], …]], …]` as a function (absent language ↦ empty table) -/
def rdCostModels (j : Json) : R (Nat → CostModel) := do
  let l ← jList (jPair jNat (jList (jPair jBytes jInt))) j
  pure fun n => match l.find? (·.1 == n) with
    | some p => p.2
    | none => []

def rdEv (j : Json) : R (Nat → Nat → Option (Int × Int)) := do
  let l ← jList (fun x => do
    let a ← x.getArr?
    if h : a.size = 4 then pure ((← jNat a[0], ← jNat a[1]), (← jInt a[2], ← jInt a[3]))
    else throw "ev = [tag, index, mem, steps]") j
  pure fun t i => (l.find? (fun p => p.1 == (t, i))).map (·.2)

def rdCarried (j : Json) : R (TxIn → Option Script) := do
  let l ← jList (jPair rdTxIn rdScript) j
  pure fun i => (l.find? (fun p => p.1 == i)).map (·.2)

def rdOptBytes : Option Bytes → Json
  | some b => ofBytes b
  | none => .null

def rdOptNat : Option Nat → Json
  | some n => ofNat n
  | none => .null

def handleRedeemers (op : String) (j : Json) : R Json := do
  match op with
  | "ranks" =>
    -- inputs (any order), the stored mint `[[policy, [[name, qty], …]], …]`, withdrawal accounts as the builder holds
    -- them; queried items
    let inputs ← jList rdTxIn (← j.getObjVal? "inputs")
    let mint ← jMultiAsset (← j.getObjVal? "mint")
    let wdrl ← jList jBytes (← j.getObjVal? "wdrl")
    let net ← getNat j "net"
    let sorted := sortInputs inputs
    let spend ← jList rdTxIn (← j.getObjVal? "spend")
    let mintq ← jList jBytes (← j.getObjVal? "mintq")
    let rewardq ← jList jBytes (← j.getObjVal? "rewardq")
    pure (Json.mkObj [
      ("sorted", ofList rdOfTxIn sorted),
      ("spend", ofList (fun u => rdOptNat (spendIndex u sorted)) spend),
      ("mint", ofList (fun h => rdOptNat (mintIndex (bodyPolicies mint) h)) mintq),
      ("reward", ofList (fun h => rdOptNat (rewardIndex net wdrl h)) rewardq)])
  | "views" =>
    let langs ← jList jNat (← j.getObjVal? "langs")
    let pp ← rdCostModels (← j.getObjVal? "cost_models")
    pure (ofBytes (langViews langs pp))
  | "sdh.preimage" =>
    -- final redeemers in `_redeemer_list` order, map/list mode, datum cbor list, versions of `all_scripts`
    let reds ← jList rdFull (← j.getObjVal? "redeemers")
    let useMap ← getBool j "use_map"
    let datums ← jList jBytes (← j.getObjVal? "datums")
    let versions ← jList jNat (← j.getObjVal? "versions")
    let pp ← rdCostModels (← j.getObjVal? "cost_models")
    let dflt ← getBytes j "dflt"
    -- a state that has exactly these redeemers, datums and scripts
    let st : St := {
      certificate := reds.map fun r => (⟨.native, []⟩, some r),
      datums := datums.zipIdx.map fun p => (Pyc.Cbor.head 0 p.2, p.1),
      nativeScripts := versions.zipIdx.map fun p =>
        ⟨(if p.1 = 1 then .v1 else if p.1 = 2 then .v2 else .v3), Pyc.Cbor.head 0 p.2⟩ }
    pure (rdOptBytes (sdhPreimage st useMap pp dflt))
  | "rd.build" =>
    let ops ← jList rdOp (← j.getObjVal? "ops")
    let net ← getNat j "net"
    let sel ← jList rdTxIn (← j.getObjVal? "selected")
    let ev ← rdEv (← j.getObjVal? "ev")
    let useMap ← getBool j "use_map"
    let removeDup ← getBool j "remove_dup"
    let carried ← rdCarried (← j.getObjVal? "carried")
    let pp ← rdCostModels (← j.getObjVal? "cost_models")
    let dflt ← getBytes j "dflt"
    match run {} ops with
    | none => pure (Json.mkObj [("error", "ops")])
    | some st =>
      match build net st sel ev with
      | none => pure (Json.mkObj [("error", "build")])
      | some st' =>
        let w := buildWitnessSet st' useMap removeDup carried
        let hs := fun (l : List Script) => ofList (fun s => ofBytes s.hash) l
        pure (Json.mkObj [
          ("inputs", ofList rdOfTxIn st'.inputs),
          ("redeemers", ofList rdOfRdm (redeemerList st')),
          ("ref_inputs", ofList rdOfTxIn st'.refInputs),
          ("native", hs w.native), ("v1", hs w.v1), ("v2", hs w.v2), ("v3", hs w.v3),
          ("wit_redeemer", rdOptBytes w.redeemer), ("wit_datums", rdOptBytes w.plutusData),
          ("sdh", rdOptBytes (sdhPreimage st' useMap pp dflt)),
          ("smart", .bool (isSmart st')),
          ("langs", ofList ofNat (sortLangs (usedLangs st')))])
  | _ => throw s!"unknown op {op}"

end Pyc.Driver
