import Pyc.Driver.Value
import Pyc.Model.Output
import Pyc.Model.FeeLoop

namespace Pyc.Driver
open Lean

def optBytesField (j : Json) (k : String) : R (Option Bytes) :=
  match getOpt j k with
  | none => pure none
  | some v => do pure (some (← jBytes v))

def jOutput (j : Json) : R Output := do
  let datum ← match getOpt j "datum" with
    | none => pure none
    | some v => do
      let p ← jPair jBytes jBool v
      pure (some p)
  pure { addr := ← getBytes j "addr", amount := ← jValue (← j.getObjVal? "amount"),
         datumHash := ← optBytesField j "datum_hash", datum := datum, script := ← optBytesField j "script",
         postAlonzo := (← getBool j "post_alonzo") }

def jRat (j : Json) : R Rat' := do
  let p ← jPair jInt jNat j
  if p.2 = 0 then throw "zero denominator" else pure ⟨p.1, p.2⟩

def jFeeParams (j : Json) : R FeeParams := do
  let rs ← match getOpt j "ref" with
    | none => pure none
    | some v => do
      pure (some (← jRat (← v.getObjVal? "base"), ← getNat v "range", ← jRat (← v.getObjVal? "mult"), ← getInt v "max"))
  pure { a := ← jRat (← j.getObjVal? "a"), b := ← jRat (← j.getObjVal? "b"),
         priceStep := ← jRat (← j.getObjVal? "price_step"), priceMem := ← jRat (← j.getObjVal? "price_mem"),
         maxTxSize := ← getInt j "max_tx_size", maxTxExSteps := ← getInt j "max_steps", maxTxExMem := ← getInt j "max_mem",
         refScript := rs }

def ofOptInt : Option Int → Json
  | some i => ofInt i
  | none => Json.mkObj [("err", "value-error")]

def handleOutput (op : String) (j : Json) : R Json := do
  match op with
  | "out.enc" => pure (ofBytes (Output.enc (← jOutput (← j.getObjVal? "o"))))
  | "out.negative" => pure (Json.bool (Output.negative (← jOutput (← j.getObjVal? "o"))))
  | "out.minada" => pure (ofInt (minLovelace (← getInt j "cpb") (← jOutput (← j.getObjVal? "o"))))
  | "fee.fee" =>
    pure (ofOptInt (fee (← jFeeParams (← j.getObjVal? "p")) (← getInt j "length") (← getInt j "steps") (← getInt j "mem") (← getInt j "ref")))
  | "fee.loop" =>
    -- the final loop of _add_change_and_fee over a recorded estimator table [[f, est f], ...] (absent f ↦ f: a fixed point)
    let tab ← jList (jPair jInt jInt) (← j.getObjVal? "table")
    let est : Int → Int := fun f => match tab.find? (·.1 == f) with | some p => p.2 | none => f
    pure (match Pyc.FeeLoop.loop est (tab.length + 1) (← getInt j "f") with
      | some f => ofInt f
      | none => Json.null)
  | "fee.max" => pure (ofOptInt (maxTxFee (← jFeeParams (← j.getObjVal? "p")) (← getInt j "ref")))
  | "fee.tier" => pure (ofOptInt (tierFee (← jFeeParams (← j.getObjVal? "p")) (← getInt j "ref")))
  | _ => throw s!"unknown op {op}"

end Pyc.Driver
