import Pyc.Driver.Builder
import Pyc.Driver.Redeemers
import Pyc.Model.BodyAsm

/-! Driver ops of the C06 extension `bodyasm`: `basm.body` (state → body, the keys written, the ledger's balance on the
body), `basm.finalize` (the tail of `build()` that fixes body-relevant state), `basm.oset`. -/

namespace Pyc.Driver
open Lean Pyc Pyc.BodyAsm Pyc.Builder

def baOpt {α} (f : Json → R α) (j : Json) (k : String) : R (Option α) :=
  match getOpt j k with
  | none => pure none
  | some v => do pure (some (← f v))

/-- `[[txid, ix], value, pay key | null]` -/
def baUTxO (j : Json) : R UTxO := do
  let a ← j.getArr?
  if h : a.size = 3 then
    let pk ← match a[2] with
      | .null => pure none
      | v => do pure (some (← jBytes v))
    pure { ref := ← rdTxIn a[0], amount := ← jValue a[1], payKey := pk }
  else throw "utxo = [ref, value, paykey]"

/-- `["utxo" | "input", [txid, ix]]` -/
def baRefEntry (j : Json) : R RefEntry := do
  let a ← j.getArr?
  if h : a.size = 2 then
    let r ← rdTxIn a[1]
    match a[0] with
    | .str "utxo" => pure (.utxo r)
    | .str "input" => pure (.input r)
    | _ => throw "reference entry kind"
  else throw "reference entry = [kind, ref]"

def baCert (j : Json) : R Cert := do
  let p ← jPair jBytes bldCert j
  pure ⟨p.1, p.2⟩

def baProposal (j : Json) : R Proposal := do
  let p ← jPair jBytes jInt j
  pure ⟨p.1, p.2⟩

def baSdh (j : Json) : R SdhIn := do
  pure { redeemers := ← jList rdFull (← j.getObjVal? "redeemers"),
         datums := ← jList jBytes (← j.getObjVal? "datums"),
         versions := ← jList jNat (← j.getObjVal? "versions"),
         useMap := ← getBool j "use_map",
         costModels := ← jList (jPair jNat (jList (jPair jBytes jInt))) (← j.getObjVal? "cost_models"),
         dflt := ← getBytes j "dflt" }

def baState (j : Json) : R BState := do
  pure { inputs := ← jList baUTxO (← j.getObjVal? "inputs"),
         outputs := ← jList jOutput (← j.getObjVal? "outputs"),
         fee := ← getInt j "fee",
         ttl := ← baOpt jInt j "ttl",
         validityStart := ← baOpt jInt j "validity_start",
         mint := ← baOpt jMultiAsset j "mint",
         auxData := ← baOpt jBytes j "aux",
         sdh := ← baSdh (← j.getObjVal? "sdh"),
         requiredSigners := ← baOpt (jList jBytes) j "required_signers",
         collaterals := ← jList baUTxO (← j.getObjVal? "collaterals"),
         certificates := ← baOpt (jList baCert) j "certificates",
         withdrawals := ← baOpt (jList (jPair jBytes jInt)) j "withdrawals",
         collateralReturn := ← baOpt jOutput j "collateral_return",
         totalCollateral := ← baOpt jInt j "total_collateral",
         referenceInputs := ← jList baRefEntry (← j.getObjVal? "reference_inputs"),
         voting := ← baOpt (jList (jPair jBytes jBytes)) j "voting",
         proposals := ← baOpt (jList baProposal) j "proposals",
         treasury := ← baOpt jInt j "treasury",
         donation := ← baOpt jInt j "donation" }

def baOfOpt {α} (f : α → Json) : Option α → Json
  | some a => f a
  | none => .null

def baOfBody (b : Body) : Json :=
  Json.mkObj [
    ("keys", ofList ofNat b.keys),
    ("inputs", ofList rdOfTxIn b.inputs),
    ("outputs", ofList (fun o => ofBytes (Output.enc o)) b.outputs),
    ("fee", ofInt b.fee),
    ("ttl", baOfOpt ofInt b.ttl),
    ("certificates", baOfOpt (ofList fun c => ofBytes c.raw) b.certificates),
    ("withdrawals", baOfOpt (ofList (ofPair ofBytes ofInt)) b.withdrawals),
    ("aux_pre", baOfOpt ofBytes b.auxHashPre),
    ("validity_start", baOfOpt ofInt b.validityStart),
    ("mint", baOfOpt ofMultiAsset b.wireMint),
    ("sdh_pre", baOfOpt ofBytes b.scriptDataPre),
    ("collateral", baOfOpt (ofList rdOfTxIn) b.collateral),
    ("required_signers", baOfOpt (ofList ofBytes) b.requiredSigners),
    ("collateral_return", baOfOpt (fun o => ofBytes (Output.enc o)) b.collateralReturn),
    ("total_collateral", baOfOpt ofInt b.totalCollateral),
    ("reference_inputs", baOfOpt (ofList rdOfTxIn) b.referenceInputs),
    ("voting", baOfOpt (ofList (ofPair ofBytes ofBytes)) b.voting),
    ("proposals", baOfOpt (ofList fun p => ofBytes p.raw) b.proposals),
    ("treasury", baOfOpt ofInt b.treasury),
    ("donation", baOfOpt ofInt b.donation)]

def handleBodyAsm (op : String) (j : Json) : R Json := do
  match op with
  | "basm.body" =>
    let s ← baState (← j.getObjVal? "state")
    let b := buildBody s
    let again := (buildBodyM (buildBodyM s).2).1
    let base := baOfBody b
    let base := base.setObjVal! "again_same_keys" (.bool (again.keys == b.keys))
    match getOpt j "ledger" with
    | none => pure base
    | some l =>
      let P ← bldParams (← l.getObjVal? "p")
      let ip ← getBool l "initial_pool"
      let tab ← jList (jPair rdTxIn jValue) (← l.getObjVal? "utxo")
      let utxo : Ref → Option Value := fun r => (tab.find? (fun p => p.1 == r)).map (·.2)
      let assets ← jList (jPair jBytes jBytes) (← l.getObjVal? "assets")
      pure (base.setObjVal! "ledger" (Json.mkObj [
        ("consumed_coin", ofInt (Ledger.consumedCoin P utxo b)),
        ("produced_coin", ofInt (Ledger.producedCoin P ip b)),
        ("state_deposits", ofInt (stateDeposits P ip s)),
        ("assets", ofList (fun a => Json.arr #[ofBytes a.1, ofBytes a.2, ofInt (Ledger.consumedAsset utxo b a.1 a.2),
                                               ofInt (Ledger.producedAsset b a.1 a.2)]) assets)]))
  | "basm.finalize" =>
    let s ← baState (← j.getObjVal? "state")
    let sel ← jList baUTxO (← j.getObjVal? "selected")
    let o : BuildOpts := {
      isSmart := ← getBool j "is_smart", offStart := ← baOpt jInt j "off_start", offTtl := ← baOpt jInt j "off_ttl",
      slot := ← getInt j "slot", autoSigners := ← baOpt jBool j "auto_signers" }
    let s' := finalizeState o sel s
    pure (Json.mkObj [
      ("inputs", ofList (fun u => rdOfTxIn u.ref) s'.inputs),
      ("ttl", baOfOpt ofInt s'.ttl), ("validity_start", baOfOpt ofInt s'.validityStart),
      ("required_signers", baOfOpt (ofList ofBytes) s'.requiredSigners)])
  | "basm.oset" =>
    pure (ofList ofBytes (oset (← jList jBytes (← j.getObjVal? "items"))))
  | _ => throw s!"unknown op {op}"

end Pyc.Driver
