import Pyc.Driver.Util
import Pyc.Model.Pool
import Pyc.Spec.Pool

/-! Driver ops `pool.*` for `Model/Pool.lean` and `Spec/Pool.lean`.

JSON (integers as decimal strings, bytes and UTF-8 texts as hex):
  port   null | {"i": "<int>"} | {"junk": cbor hex}
  name   null | {"s": hex} | {"junk": cbor hex}
  relay  {"k":"addr","port":port,"ipv4":hex|null,"ipv6":hex|null}    (the stored TEXTS)
         {"k":"name","port":port,"dns":name} | {"k":"multi","dns":name}
  ctor   constructor arguments of a relay: as above, but "ipv4"/"ipv6" are null | {"t": hex text} | {"b": hex bytes}
  owners {"kind":"list"|"oset","tagged":bool,"xs":[hex]}
  params {"operator","vrf","pledge","cost","margin":[n,d],"ra","owners","relays":null|[relay],
          "metadata":null|{"url":hex,"hash":hex},"id":null|hex}
  ctor params: "margin" is the argument pair of `Fraction(n, d)`, "owners" the argument of `OrderedSet(...)`, relays are ctor
  relays (or null: `__post_init__` makes it []). -/

namespace Pyc.Driver.PoolDrv
open Lean Pyc.Driver Pyc.Cbor Pyc.Codec Pyc.Pool

def jPItem (j : Json) : R Item := do
  let b ← jBytes j
  match decodeAll b with
  | some i => pure i
  | none => throw "not a single well-formed CBOR item"

def jPort (j : Json) : R Port := do
  match j with
  | .null => pure .none
  | _ =>
    if let some v := getOpt j "i" then return .int (← jInt v)
    if let some v := getOpt j "junk" then return .junk (← jPItem v)
    throw "bad port"

def jName (j : Json) : R Pool.Name := do
  match j with
  | .null => pure .none
  | _ =>
    if let some v := getOpt j "s" then return .text (← jBytes v)
    if let some v := getOpt j "junk" then return .junk (← jPItem v)
    throw "bad name"

def jOptBytes (j : Json) (k : String) : R (Option Bytes) :=
  match getOpt j k with
  | some v => do pure (some (← jBytes v))
  | none => pure Option.none

def jIpArg (j : Json) (k : String) : R IpArg :=
  match getOpt j k with
  | none => pure .none
  | some v => do
    if let some t := getOpt v "t" then return .text (← jBytes t)
    if let some b := getOpt v "b" then return .bytes (← jBytes b)
    throw "bad ip argument"

def jFieldOrNull (j : Json) (k : String) : Json :=
  match j.getObjVal? k with
  | .ok v => v
  | .error _ => .null

def jRelay (j : Json) : R Relay := do
  match ← getStr j "k" with
  | "addr" => pure (.addr (← jPort (jFieldOrNull j "port")) (← jOptBytes j "ipv4") (← jOptBytes j "ipv6"))
  | "name" => pure (.name (← jPort (jFieldOrNull j "port")) (← jName (jFieldOrNull j "dns")))
  | "multi" => pure (.multi (← jName (jFieldOrNull j "dns")))
  | k => throw s!"bad relay kind {k}"

/-- a relay from its constructor arguments; `none` = the constructor raises -/
def jRelayCtor (j : Json) : R (Option Relay) := do
  match ← getStr j "k" with
  | "addr" => pure (mkAddr (← jPort (jFieldOrNull j "port")) (← jIpArg j "ipv4") (← jIpArg j "ipv6"))
  | _ => pure (some (← jRelay j))

def ofPort : Port → Json
  | .none => .null
  | .int i => Json.mkObj [("i", ofInt i)]
  | .junk i => Json.mkObj [("junk", ofBytes (encode i))]

def ofName : Pool.Name → Json
  | .none => .null
  | .text b => Json.mkObj [("s", ofBytes b)]
  | .junk i => Json.mkObj [("junk", ofBytes (encode i))]

def ofOptBytes : Option Bytes → Json
  | some b => ofBytes b
  | none => .null

def ofRelay : Relay → Json
  | .addr p a b => Json.mkObj [("k", "addr"), ("port", ofPort p), ("ipv4", ofOptBytes a), ("ipv6", ofOptBytes b)]
  | .name p d => Json.mkObj [("k", "name"), ("port", ofPort p), ("dns", ofName d)]
  | .multi d => Json.mkObj [("k", "multi"), ("dns", ofName d)]

def ofOptItemHex : Option Item → Json
  | some i => ofBytes (encode i)
  | none => .null

def pErr (e : String) : Json := Json.mkObj [("err", Json.str e)]

def jOwners (ctor : Bool) (j : Json) : R Owners := do
  let xs ← jList jBytes (← j.getObjVal? "xs")
  match ← getStr j "kind" with
  | "list" => pure (.list xs)
  | "oset" =>
    let t ← getBool j "tagged"
    pure (if ctor then mkOset t xs else .oset t xs)
  | k => throw s!"bad owners kind {k}"

def ofOwners : Owners → Json
  | .list xs => Json.mkObj [("kind", "list"), ("tagged", Json.bool false), ("xs", ofList ofBytes xs)]
  | .oset t xs => Json.mkObj [("kind", "oset"), ("tagged", Json.bool t), ("xs", ofList ofBytes xs)]

def jRelaysCtor : List Json → R (Option (List Relay))
  | [] => pure (some [])
  | j :: js => do
    match ← jRelayCtor j, ← jRelaysCtor js with
    | some r, some rs => pure (some (r :: rs))
    | _, _ => pure Option.none

/-- pool parameters; `ctor`: from constructor arguments (outer `none`: a constructor raises) -/
def jParams (ctor : Bool) (j : Json) : R (Option PoolParams) := do
  let mg ← jPair jInt jInt (← j.getObjVal? "margin")
  let margin? : Option Frac := if ctor then mkFrac mg.1 mg.2 else some ⟨mg.1, mg.2⟩
  let relays? : Option (Option (List Relay)) ← match getOpt j "relays" with
    | none => pure (some Option.none)
    | some v => do
      let l ← v.getArr?
      if ctor then
        match ← jRelaysCtor l.toList with
        | some rs => pure (some (some rs))
        | none => pure Option.none
      else pure (some (some (← l.toList.mapM jRelay)))
  let metadata ← match getOpt j "metadata" with
    | none => pure Option.none
    | some v => do pure (some (Metadata.mk (← getBytes v "url") (← getBytes v "hash")))
  let id ← jOptBytes j "id"
  let owners ← jOwners ctor (← j.getObjVal? "owners")
  match margin?, relays? with
  | some margin, some relays =>
    let p : PoolParams := ⟨← getBytes j "operator", ← getBytes j "vrf", ← getInt j "pledge", ← getInt j "cost", margin,
      ← getBytes j "ra", owners, relays, metadata, id⟩
    pure (some (if ctor then postInit p else p))          -- `PoolParams.__post_init__`
  | _, _ => pure Option.none

def ofParams (p : PoolParams) : Json :=
  Json.mkObj [("operator", ofBytes p.operator), ("vrf", ofBytes p.vrf), ("pledge", ofInt p.pledge), ("cost", ofInt p.cost),
    ("margin", Json.arr #[ofInt p.margin.n, ofInt p.margin.d]), ("ra", ofBytes p.rewardAccount), ("owners", ofOwners p.owners),
    ("relays", match p.relays with | some rs => ofList ofRelay rs | none => .null),
    ("metadata", match p.metadata with
      | some m => Json.mkObj [("url", ofBytes m.url), ("hash", ofBytes m.hash)]
      | none => .null),
    ("id", ofOptBytes p.id)]

def ofResParams (enc : PoolParams → Option Item) : Res PoolParams → Json
  | .ok p => Json.mkObj [("params", ofParams p), ("reenc", ofOptItemHex (enc p)), ("ok", Json.bool (paramsOk p))]
  | .deser => pErr "deser"
  | .crash => pErr "crash"

/-! spec content (`Spec/Pool.lean`): {"operator","vrf","pledge","cost","margin":[n,d],"ra","owners":[hex],"tagged":bool,
"relays":[{"k":"addr","port":null|"<n>","ipv4":hex|null,"ipv6":hex|null} | {"k":"name","port","dns":hex} | {"k":"multi","dns":hex}],
"metadata": null | {"url","hash"}} -/

def jOptNat (j : Json) (k : String) : R (Option Nat) :=
  match getOpt j k with
  | some v => do pure (some (← jNat v))
  | none => pure Option.none

def jSpecRelay (j : Json) : R Pyc.Spec.Pool.Relay := do
  match ← getStr j "k" with
  | "addr" => pure (.singleHostAddr (← jOptNat j "port") (← jOptBytes j "ipv4") (← jOptBytes j "ipv6"))
  | "name" => pure (.singleHostName (← jOptNat j "port") (← getBytes j "dns"))
  | "multi" => pure (.multiHostName (← getBytes j "dns"))
  | k => throw s!"bad relay kind {k}"

def jSpecParams (j : Json) : R Pyc.Spec.Pool.PoolParams := do
  let mg ← jPair jNat jNat (← j.getObjVal? "margin")
  let md ← match getOpt j "metadata" with
    | none => pure Option.none
    | some v => do pure (some (Pyc.Spec.Pool.PoolMetadata.mk (← getBytes v "url") (← getBytes v "hash")))
  pure ⟨← getBytes j "operator", ← getBytes j "vrf", ← getNat j "pledge", ← getNat j "cost", mg.1, mg.2, ← getBytes j "ra",
    ← jList jBytes (← j.getObjVal? "owners"), ← getBool j "tagged", ← jList jSpecRelay (← j.getObjVal? "relays"), md⟩

def ofResRelay : Res Relay → Json
  | .ok r => Json.mkObj [("relay", ofRelay r), ("reenc", ofOptItemHex (encRelay r)), ("ok", Json.bool (relayOk r))]
  | .deser => pErr "deser"
  | .crash => pErr "crash"

def handle (op : String) (j : Json) : R Json := do
  match op with
  | "pool.ping" => pure (Json.str "pong")
  -- libc text forms
  | "pool.ip" =>
    let b ← getBytes j "x"
    let f ← getStr j "f"
    let r ← match f with
      | "ntoa" => pure (ntoa b)
      | "aton" => pure (aton b)
      | "ntop6" => pure (ntop6 b)
      | "pton6" => pure (pton6 b)
      | _ => throw s!"bad f {f}"
    pure (ofOptBytes r)
  -- relays
  | "pool.relay.mk" =>
    match ← jRelayCtor (← j.getObjVal? "r") with
    | none => pure (pErr "ctor")
    | some r => pure (Json.mkObj [("relay", ofRelay r), ("hex", ofOptItemHex (encRelay r)), ("ok", Json.bool (relayOk r)),
        ("dec", match encRelay r with | some i => ofResRelay (decRelay i) | none => .null)])
  | "pool.relay.dec" => pure (ofResRelay (decodeWith decRelay (← getBytes j "hex")))
  -- pool parameters / registration
  | "pool.reg.mk" | "pool.params.mk" =>
    let enc := if op == "pool.reg.mk" then encRegistration else encParams
    let dec := if op == "pool.reg.mk" then decRegistration else decParams
    match ← jParams true (← j.getObjVal? "p") with
    | none => pure (pErr "ctor")
    | some p => pure (Json.mkObj [("params", ofParams p), ("hex", ofOptItemHex (enc p)), ("ok", Json.bool (paramsOk p)),
        ("norm", ofParams (normParams p)),
        ("dec", match enc p with | some i => ofResParams enc (dec i) | none => .null)])
  | "pool.reg.dec" => pure (ofResParams encRegistration (decodeWith decRegistration (← getBytes j "hex")))
  | "pool.params.dec" => pure (ofResParams encParams (decodeWith decParams (← getBytes j "hex")))
  -- retirement
  | "pool.ret.enc" =>
    let r : Retirement := ⟨← getBytes j "kh", ← getInt j "epoch"⟩
    pure (Json.mkObj [("hex", ofBytes (encode (itemRetirement r))), ("ok", Json.bool (retirementOk r))])
  | "pool.ret.dec" =>
    match decodeWith decRetirement (← getBytes j "hex") with
    | .ok r => pure (Json.mkObj [("kh", ofBytes r.poolKeyHash), ("epoch", ofInt r.epoch),
        ("reenc", ofBytes (encode (itemRetirement r)))])
    | .deser => pure (pErr "deser")
    | .crash => pure (pErr "crash")
  -- pool id
  | "pool.id.check" => pure (Json.bool (isPoolId (← getBytes j "s")))
  | "pool.id.text" => pure (ofOptBytes (poolIdText (← getBytes j "kh")))
  | "pool.id.dec" =>
    match decodeWith decPoolId (← getBytes j "hex") with
    | .ok s => pure (Json.mkObj [("s", ofBytes s), ("reenc", ofBytes (encode (itemPoolId s)))])
    | .deser => pure (pErr "deser")
    | .crash => pure (pErr "crash")
  | "pool.id.keyhash" =>
    -- `bech32.decode(text)` of a pool id
    match Pyc.Bech32.decode (asciiChars (← getBytes j "s")) with
    | .ok ds => pure (ofBytes (ds.map UInt8.ofNat))
    | _ => pure .null
  | "pool.frac.mk" =>
    match mkFrac (← getInt j "n") (← getInt j "d") with
    | some q => pure (Json.arr #[ofInt q.n, ofInt q.d])
    | none => pure .null
  -- the CDDL (Spec/Pool.lean)
  | "pool.spec.reg" =>
    let p ← jSpecParams (← j.getObjVal? "p")
    pure (Json.mkObj [("hex", ofBytes (encode (Pyc.Spec.Pool.encPoolRegistration p))), ("ok", Json.bool (Pyc.Spec.Pool.paramsOk p))])
  | "pool.spec.relay" =>
    let r ← jSpecRelay (← j.getObjVal? "r")
    pure (Json.mkObj [("hex", ofBytes (encode (Pyc.Spec.Pool.encRelay r))), ("ok", Json.bool (Pyc.Spec.Pool.relayOk r))])
  | "pool.spec.ret" =>
    pure (ofBytes (encode (Pyc.Spec.Pool.encPoolRetirement (← getBytes j "kh") (← getNat j "epoch"))))
  | "pool.spec.is" =>
    -- does the item conform to the CDDL rule?
    let rule ← getStr j "rule"
    match decodeAll (← getBytes j "hex") with
    | none => pure (pErr "cbor")
    | some i =>
      match rule with
      | "relay" => pure (Json.bool (Pyc.Spec.Pool.isRelay i))
      | "pool_registration" => pure (Json.bool (Pyc.Spec.Pool.isPoolRegistration i))
      | "pool_retirement" => pure (Json.bool (Pyc.Spec.Pool.isPoolRetirement i))
      | "pool_metadata" => pure (Json.bool (Pyc.Spec.Pool.isPoolMetadata i))
      | _ => throw s!"bad rule {rule}"
  | _ => throw s!"unknown op {op}"

end Pyc.Driver.PoolDrv

def Pyc.Driver.handlePool (op : String) (j : Lean.Json) : Pyc.Driver.R Lean.Json := Pyc.Driver.PoolDrv.handle op j
