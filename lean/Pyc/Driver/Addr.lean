import Pyc.Driver.Util
import Pyc.Model.Addr
import Pyc.Model.Bech32

/-! Driver ops for C15: `addr.enc`, `addr.dec`, `ptr.enc`, `ptr.dec`, `bech32.enc`, `bech32.dec`, `bech32.raw`.
Errors are returned inside the ok payload as `{"err": <enum>}`; never message text. -/

namespace Pyc.Driver
open Lean Pyc.Addr

def jErr (e : String) : Json := Json.mkObj [("err", Json.str e)]

def jPart (j : Json) : R Part := do
  match ← getStr j "t" with
  | "key" => pure (.vkh (← getBytes j "h"))
  | "script" => pure (.sh (← getBytes j "h"))
  | "ptr" => pure (.ptr (← getNat j "slot") (← getNat j "tx") (← getNat j "cert"))
  | "none" => pure .none
  | t => throw s!"bad part kind {t}"

def ofPart : Part → Json
  | .vkh p => Json.mkObj [("t", "key"), ("h", ofBytes p)]
  | .sh p => Json.mkObj [("t", "script"), ("h", ofBytes p)]
  | .ptr s t c => Json.mkObj [("t", "ptr"), ("slot", ofNat s), ("tx", ofNat t), ("cert", ofNat c)]
  | .none => Json.mkObj [("t", "none")]

def jNetwork (j : Json) : R Network := do
  match Network.ofValue (← jNat j) with
  | some n => pure n
  | none => throw "network must be 0 or 1"

def decErrName : DecErr → String
  | .bech32 => "bech32"
  | .empty => "empty"
  | .kind => "kind"
  | .network => "network"
  | .size => "size"
  | .pointer => "pointer"
  | .byron => "byron"

def ofAddress (a : Address) : Json :=
  Json.mkObj [("pay", ofPart a.payment), ("stk", ofPart a.staking), ("net", ofNat a.network.value),
    ("type", match inferType a.payment a.staking with
      | some t => ofNat t.value
      | none => Json.null)]

def ofDecoded : Except DecErr Address → Json
  | .ok a => ofAddress a
  | .error e => jErr (decErrName e)

def ofOptStr : Option (List Char) → Json
  | some s => Json.str (String.ofList s)
  | none => Json.null

def handleAddr (op : String) (j : Json) : R Json := do
  match op with
  | "addr.enc" =>
    let a : Address := ⟨← jPart (← j.getObjVal? "pay"), ← jPart (← j.getObjVal? "stk"),
      ← jNetwork (← j.getObjVal? "net")⟩
    match inferType a.payment a.staking, toBytes a, toBech32 a with
    | some t, some bs, some s =>
      pure (Json.mkObj [("type", ofNat t.value), ("header", ofBytes [headerByte t a.network]),
        ("hrp", Json.str (String.ofList (hrp t a.network))), ("bytes", ofBytes bs), ("bech32", ofOptStr s)])
    | _, _, _ => pure (jErr "construct")
  | "addr.dec" =>
    match getOpt j "s" with
    | some (.str s) => pure (ofDecoded (fromBech32 s.toList))
    | _ => pure (ofDecoded (fromBytes (← getBytes j "bytes")))
  | "ptr.enc" => pure (ofBytes (ptrEncode (← getNat j "slot") (← getNat j "tx") (← getNat j "cert")))
  | "ptr.dec" =>
    match ptrDecode (← getBytes j "bytes") with
    | some (s, t, c) => pure (Json.mkObj [("slot", ofNat s), ("tx", ofNat t), ("cert", ofNat c)])
    | none => pure (jErr "pointer")
  | "bech32.enc" =>
    -- `encode(hrp, witprog)`
    match Bech32.encode (← getStr j "hrp").toList (← getBytes j "bytes") with
    | some s => pure (Json.mkObj [("s", Json.str (String.ofList s))])
    | none => pure (jErr "none")
  | "bech32.dec" =>
    -- `decode(addr)`
    match Bech32.decode (← getStr j "s").toList with
    | .ok d => pure (Json.mkObj [("bytes", ofBytes (d.map UInt8.ofNat))])
    | .none => pure (jErr "none")
    | .raised => pure (jErr "raised")
  | "bech32.raw" =>
    -- `bech32_decode(bech)`: hrp, 5-bit data (one value per hex byte), spec
    match Bech32.bech32Decode (← getStr j "s").toList with
    | some (h, d, spec) =>
      pure (Json.mkObj [("hrp", Json.str (String.ofList h)), ("data", ofBytes (d.map UInt8.ofNat)),
        ("spec", ofNat (match spec with | .bech32 => 1 | .bech32m => 2))])
    | none => pure (jErr "reject")
  | "addr.consts" =>
    -- constants of the model, compared by the harness with the live objects of /repo (T1)
    let types : List (String × AddressType) := [("BYRON", .byron), ("KEY_KEY", .keyKey), ("SCRIPT_KEY", .scriptKey),
      ("KEY_SCRIPT", .keyScript), ("SCRIPT_SCRIPT", .scriptScript), ("KEY_POINTER", .keyPointer),
      ("SCRIPT_POINTER", .scriptPointer), ("KEY_NONE", .keyNone), ("SCRIPT_NONE", .scriptNone),
      ("NONE_KEY", .noneKey), ("NONE_SCRIPT", .noneScript)]
    pure (Json.mkObj [
      ("charset", Json.str (String.ofList Bech32.charset)),
      ("bech32m", ofNat Bech32.bech32mConst),
      ("generator", ofList ofNat Bech32.generator),
      ("types", Json.mkObj (types.map fun (n, t) => (n, ofNat t.value))),
      ("networks", Json.mkObj [("TESTNET", ofNat Network.testnet.value), ("MAINNET", ofNat Network.mainnet.value)]),
      ("hash_size", ofNat (if (mkVkh (List.replicate 28 0)).toBool && (mkSh (List.replicate 28 0)).toBool then 28 else 0))])
  | "bech32.polymod" =>
    pure (ofNat (Bech32.polymod ((← getBytes j "values").map UInt8.toNat)))
  | _ => throw s!"unknown op {op}"

end Pyc.Driver
