import Pyc.Driver.Util
import Pyc.Model.Cip8

/-! Driver ops for C19: `cip8.sign.layout`, `cip8.verify.plan`, `cip8.verify.judge`.

No cryptography exists on this side.  The ops run the very functions the theorems are about (`signModel`, `plan`,
`verifyModel`) with a `SigScheme` whose answers are supplied by the caller: the harness computes them with its
independent Ed25519 (harness/ref/ed25519_ref.py) and `hashlib.blake2b(digest_size=28)`. -/

namespace Pyc.Driver
open Lean Pyc.Cip8

def c8Role (s : String) : R Role :=
  match s with
  | "payment" => pure .payment
  | "stake" => pure .stake
  | r => throw s!"bad role {r}"

def c8Network (n : Nat) : R Pyc.Addr.Network :=
  match Pyc.Addr.Network.ofValue n with
  | some v => pure v
  | none => throw "network must be 0 or 1"

def c8OptBytes (j : Json) (k : String) : R (Option Bytes) :=
  match getOpt j k with
  | none => pure none
  | some v => do pure (some (← jBytes v))

def c8OfOptBytes : Option Bytes → Json
  | some b => ofBytes b
  | none => Json.null

def c8Signed (j : Json) : R Signed := do
  pure ⟨← getBytes j "signature", ← c8OptBytes j "key"⟩

def c8OfSigned (w : Signed) : Json :=
  Json.mkObj [("signature", ofBytes w.signature), ("key", c8OfOptBytes w.key)]

def c8OfPart : Pyc.Addr.Part → Json
  | .vkh p => Json.mkObj [("t", "key"), ("h", ofBytes p)]
  | .sh p => Json.mkObj [("t", "script"), ("h", ofBytes p)]
  | .ptr s t c => Json.mkObj [("t", "ptr"), ("slot", ofNat s), ("tx", ofNat t), ("cert", ofNat c)]
  | .none => Json.mkObj [("t", "none")]

def c8OfAddress (a : Pyc.Addr.Address) : Json :=
  Json.mkObj [("pay", c8OfPart a.payment), ("stk", c8OfPart a.staking), ("net", ofNat a.network.value),
    ("bytes", ofBytes (addressBytes a))]

def c8OfEntry : HdrEntry → Json
  | .alg => Json.arr #["alg"]
  | .address a => Json.arr #["address", ofBytes a]
  | .kid v => Json.arr #["kid", ofBytes v]

/-- a scheme that answers with what the caller computed -/
def c8Oracle (pk sig : Bytes) (sigok : Bool) (h28 : Bytes) : SigScheme Unit :=
  { pk := fun _ => pk, sign := fun _ _ => sig, verify := fun _ _ _ => sigok, H28 := fun _ => h28 }

def handleCip8 (op : String) (j : Json) : R Json := do
  match op with
  | "cip8.sign.layout" =>
    -- message (UTF-8 bytes), role, extended, attach, network, pk (ordinary: what the primitive derives from the
    -- seed) / stored (extended: payload[64:]), h28 (hash of the 32 key bytes the model selects; the caller hashes
    -- `vk` of the reply and calls again), sig (signature over `tbs` of the reply; empty on the first call)
    let m ← getBytes j "message"
    let role ← c8Role (← getStr j "role")
    let ext ← getBool j "extended"
    let attach ← getBool j "attach"
    let net ← c8Network (← getNat j "network")
    let pk ← getBytes j "pk"
    let stored ← getBytes j "stored"
    let h28 ← getBytes j "h28"
    let sig ← getBytes j "sig"
    let S := c8Oracle pk sig false h28
    let k : Key Unit := ⟨role, ext, (), stored⟩
    let vk := vk32 S k
    let addr := addressBytes (signerAddress role net h28)
    let es := honestEntries addr vk attach
    pure (Json.mkObj [("vk", ofBytes vk), ("address", ofBytes addr), ("phdr", ofBytes (encodeHeader es)),
      ("tbs", ofBytes (toBeSigned (encodeHeader es) m)), ("signed", c8OfSigned (signModel S m k attach net))])
  | "cip8.verify.plan" =>
    match plan (← c8Signed j) with
    | none => pure (Json.mkObj [("ok", Json.bool false)])
    | some p =>
      pure (Json.mkObj [("ok", Json.bool true), ("entries", ofList c8OfEntry p.entries), ("phdr", ofBytes p.phdrEnc),
        ("payload", ofBytes p.payload), ("sig", ofBytes p.sig), ("vk", ofBytes p.vk), ("tbs", ofBytes p.tbs),
        ("bip32", Json.bool p.bip32), ("sigKey", ofBytes p.sigKey), ("sigMsg", ofBytes p.sigMsg),
        ("sigSig", ofBytes p.sigSig), ("address", c8OfAddress p.address), ("cred", c8OfOptBytes p.cred),
        ("compare", Json.str (match p.address.payment with
          | .none => "staking"
          | _ => "payment"))])
  | "cip8.verify.judge" =>
    -- sigok: the caller's answer for (sigKey, sigMsg, sigSig) of the plan; h28: the caller's hash of `vk` of the plan
    let S := c8Oracle [] [] (← getBool j "sigok") (← getBytes j "h28")
    match verifyModel S (← c8Signed j) with
    | none => pure (Json.mkObj [("raised", Json.bool true)])
    | some r =>
      pure (Json.mkObj [("raised", Json.bool false), ("verified", Json.bool r.verified), ("message", ofBytes r.message),
        ("address", c8OfAddress r.address)])
  | "cip8.utf8" => pure (Json.bool (utf8Valid (← getBytes j "bytes")))
  | _ => throw s!"unknown op {op}"

end Pyc.Driver
