import Pyc.Driver.Util
import Pyc.Model.Plutus

/-! Driver for the Plutus-data model (C18).

Trees cross the pipe as JSON:
* abstract datum `PData`: `{"c": "<id>", "f": [..]}` | `{"l": [..]}` | `{"m": [[k, v], ..]}` | `{"i": "<int>"}` | `{"b": hex}`
* Python object tree `Prim`: `{"int": "<int>"}` | `{"bytes": hex}` | `{"bstr": hex}` | `{"list": [..]}` | `{"ilist": [..]}` |
  `{"dict": [[k, v], ..]}` | `{"tag": "<n>", "v": ..}`
* typed object tree `TObj`: `{"obj": "<CONSTR_ID>", "f": [..]}` and the same leaves / containers as `Prim`
* JSON form `PJson`: pycardano's own `to_dict()` output (`{"constructor": n, "fields": [..]}`, `{"int": n}`, …) -/

namespace Pyc.Driver
open Lean Pyc Pyc.Plutus Pyc.Cbor

partial def plPData (j : Json) : R PData := do
  if let some c := getOpt j "c" then
    let fs ← jList plPData (← j.getObjVal? "f")
    pure (.constr (← jNat c) fs)
  else if let some l := getOpt j "l" then pure (.list (← jList plPData l))
  else if let some m := getOpt j "m" then pure (.map (← jList (jPair plPData plPData) m))
  else if let some i := getOpt j "i" then pure (.int (← jInt i))
  else if let some b := getOpt j "b" then pure (.bytes (← jBytes b))
  else throw "bad PData"

partial def plPrim (j : Json) : R Prim := do
  if let some i := getOpt j "int" then pure (.int (← jInt i))
  else if let some b := getOpt j "bytes" then pure (.bytes (← jBytes b))
  else if let some b := getOpt j "bstr" then pure (.bstr (← jBytes b))
  else if let some l := getOpt j "list" then pure (.list (← jList plPrim l))
  else if let some l := getOpt j "ilist" then pure (.ilist (← jList plPrim l))
  else if let some m := getOpt j "dict" then pure (.dict (← jList (jPair plPrim plPrim) m))
  else if let some t := getOpt j "tag" then pure (.tag (← jNat t) (← plPrim (← j.getObjVal? "v")))
  else throw "bad Prim"

partial def plOfPrim : Prim → Json
  | .int i => Json.mkObj [("int", ofInt i)]
  | .bytes b => Json.mkObj [("bytes", ofBytes b)]
  | .bstr b => Json.mkObj [("bstr", ofBytes b)]
  | .list xs => Json.mkObj [("list", ofList plOfPrim xs)]
  | .ilist xs => Json.mkObj [("ilist", ofList plOfPrim xs)]
  | .dict kvs => Json.mkObj [("dict", ofList (ofPair plOfPrim plOfPrim) kvs)]
  | .tag t v => Json.mkObj [("tag", ofNat t), ("v", plOfPrim v)]

partial def plTObj (j : Json) : R TObj := do
  if let some c := getOpt j "obj" then
    pure (.obj (← jNat c) (← jList plTObj (← j.getObjVal? "f")))
  else if let some i := getOpt j "int" then pure (.int (← jInt i))
  else if let some b := getOpt j "bytes" then pure (.bytes (← jBytes b))
  else if let some b := getOpt j "bstr" then pure (.bstr (← jBytes b))
  else if let some l := getOpt j "list" then pure (.list (← jList plTObj l))
  else if let some l := getOpt j "ilist" then pure (.ilist (← jList plTObj l))
  else if let some m := getOpt j "dict" then pure (.dict (← jList (jPair plTObj plTObj) m))
  else throw "bad TObj"

partial def plOfTObj : TObj → Json
  | .obj c fs => Json.mkObj [("obj", ofNat c), ("f", ofList plOfTObj fs)]
  | .int i => Json.mkObj [("int", ofInt i)]
  | .bytes b => Json.mkObj [("bytes", ofBytes b)]
  | .bstr b => Json.mkObj [("bstr", ofBytes b)]
  | .list xs => Json.mkObj [("list", ofList plOfTObj xs)]
  | .ilist xs => Json.mkObj [("ilist", ofList plOfTObj xs)]
  | .dict kvs => Json.mkObj [("dict", ofList (ofPair plOfTObj plOfTObj) kvs)]

/-- every instance in the tree passes `__post_init__` -/
partial def plGuardOk : TObj → Bool
  | .obj c fs => (mkObj c fs).isSome && fs.all plGuardOk
  | .list xs => xs.all plGuardOk
  | .ilist xs => xs.all plGuardOk
  | .dict kvs => kvs.all (fun kv => plGuardOk kv.1 && plGuardOk kv.2)
  | _ => true

partial def plPJson (j : Json) : R PJson := do
  if let some c := getOpt j "constructor" then
    pure (.constr (← jInt c) (← jList plPJson (← j.getObjVal? "fields")))
  else if let some m := getOpt j "map" then
    pure (.map (← jList (fun p => do pure (← plPJson (← p.getObjVal? "k"), ← plPJson (← p.getObjVal? "v"))) m))
  else if let some i := getOpt j "int" then pure (.int (← jInt i))
  else if let some b := getOpt j "bytes" then pure (.bytes (← jBytes b))
  else if let some l := getOpt j "list" then pure (.list (← jList plPJson l))
  else throw "bad PJson"

def plNum (i : Int) : Json := Json.num (JsonNumber.fromInt i)

partial def plOfPJson : PJson → Json
  | .constr c fs => Json.mkObj [("constructor", plNum c), ("fields", ofList plOfPJson fs)]
  | .int i => Json.mkObj [("int", plNum i)]
  | .bytes b => Json.mkObj [("bytes", ofBytes b)]
  | .list xs => Json.mkObj [("list", ofList plOfPJson xs)]
  | .map kvs => Json.mkObj [("map", ofList (fun kv => Json.mkObj [("k", plOfPJson kv.1), ("v", plOfPJson kv.2)]) kvs)]

def plOpt {α} (f : α → Json) : Option α → Json
  | some a => f a
  | none => Json.null

def handlePlutus (op : String) (j : Json) : R Json := do
  match op with
  | "plutus.spec" => pure (ofBytes (specBytesOf (← plPData (← j.getObjVal? "d"))))
  | "plutus.region" =>
    let d ← plPData (← j.getObjVal? "d")
    pure (Json.mkObj [("small", Json.bool (small d)), ("chunkFree", Json.bool (chunkFree d)),
      ("keysOk", Json.bool (keysOk d)), ("jsonOk", Json.bool (jsonOk false d)),
      ("topPure", Json.bool (topOk false d)), ("topCext", Json.bool (topOk true d))])
  | "plutus.primof" =>
    let d ← plPData (← j.getObjVal? "d")
    match (← getStr j "route") with
    | "plain" => pure (plOfPrim (primOf false d))
    | "explicit" => pure (plOfPrim (primOf true d))
    | "typed" => pure (plOfTObj (typedOf d))
    | "json" => pure (plOfPJson (jsonOf d))
    | r => throw s!"unknown route {r}"
  | "plutus.enc" =>
    match (← getStr j "kind") with
    | "raw" => pure (ofBytes (rawToCbor (← plPrim (← j.getObjVal? "p"))))
    | "typed" =>
      let o ← plTObj (← j.getObjVal? "o")
      if plGuardOk o then pure (ofBytes (typedToCbor o)) else pure Json.null
    | k => throw s!"unknown kind {k}"
  | "plutus.dec" =>
    let bs ← getBytes j "hex"
    let cext := (← getStr j "variant") == "cext"
    match rawFromCbor cext (2 * bs.length + 2) bs with
    | some p => pure (Json.mkObj [("prim", plOfPrim p), ("reenc", ofBytes (rawToCbor p))])
    | none => pure Json.null
  | "plutus.todict" =>
    match getOpt j "p" with
    | some p => pure (plOpt plOfPJson (rawToDict (← plPrim p)))
    | none => pure (plOfPJson (typedToDict (← plTObj (← j.getObjVal? "o"))))
  | "plutus.fromdict" =>
    match fromDict (← plPJson (← j.getObjVal? "j")) with
    | some p => pure (Json.mkObj [("prim", plOfPrim p), ("hex", ofBytes (rawToCbor p))])
    | none => pure Json.null
  | "plutus.tag" =>
    let c ← getInt j "c"
    pure (plOpt ofNat (getTag c))
  | "plutus.constr" =>
    let t ← getNat j "t"
    pure (plOpt ofInt (constrOfTag t))
  | _ => throw s!"unknown op {op}"

end Pyc.Driver
