import Pyc.Driver.Util
import Pyc.Model.WitnessCodec
import Pyc.Spec.WitnessCodec

/-! Driver ops `wc.*` for `Model/WitnessCodec.lean`.

JSON images
  prim       {"i": "<int>"} | {"b": hex} | {"x": hex of the CBOR item}
  key        {"cls": "<Python class name>", "payload": hex, "type": str, "desc": str}
  vkw        {"vkey": key, "sig": prim}
  exunits    {"mem": "<int>", "steps": "<int>"}
  redeemer   {"tag": 0..5 | null, "index": prim, "data": hex of the CBOR of the data, "ex": exunits | null}
  redeemers  {"list": [redeemer]} | {"map": [[{"tag": n, "index": "<int>"}, {"data": hex, "ex": exunits}]]}
  coll       {"list": [e]} | {"oset": [tagged, [e]]}      (e: vkw | hex of the CBOR of a leaf | hex of script bytes)
  ws         {"vkeys", "native", "bootstrap", "v1", "datums", "redeemers", "v2", "v3"}: coll | redeemers | null
  jobj       [[name, {"s": str} | null | {"o": true}], …]
Leaves cross the pipe as the CBOR the implementation wrote (`Leaf.raw`); the datum leaf refuses what
`RawPlutusData.from_primitive` refuses (text strings, simple values). -/

namespace Pyc.Driver
open Lean Pyc Pyc.Cbor Pyc.Codec Pyc.Custom Pyc.WitnessCodec

namespace WC

def datumLeaf : Leaf Item :=
  ⟨id, fun i => match i with
    | .text _ => .deser
    | .simple _ => .deser
    | i => .ok i⟩

def leaves : Leaves Item Item Item Item := ⟨Leaf.raw, Leaf.raw, datumLeaf, Leaf.raw⟩

def jItemHex (j : Json) : R Item := do
  let b ← jBytes j
  match decodeAll b with
  | some i => pure i
  | none => throw "not a single well-formed CBOR item"

def ofItemHex (i : Item) : Json := ofBytes (encode i)

def jPrim (j : Json) : R Prim := do
  if let some v := getOpt j "i" then return .int (← jInt v)
  if let some v := getOpt j "b" then return .bytes (← jBytes v)
  if let some v := getOpt j "x" then return .other (← jItemHex v)
  throw "bad prim"

def ofPrim : Prim → Json
  | .int i => Json.mkObj [("i", ofInt i)]
  | .bytes b => Json.mkObj [("b", ofBytes b)]
  | .other x => Json.mkObj [("x", ofItemHex x)]

def classNames : List (String × KeyClass) :=
  [("Key", .key), ("SigningKey", .signing), ("VerificationKey", .verification), ("ExtendedSigningKey", .extSigning),
   ("ExtendedVerificationKey", .extVerification), ("PaymentSigningKey", .paymentSigning),
   ("PaymentVerificationKey", .paymentVerification), ("PaymentExtendedSigningKey", .paymentExtSigning),
   ("PaymentExtendedVerificationKey", .paymentExtVerification), ("StakeSigningKey", .stakeSigning),
   ("StakeVerificationKey", .stakeVerification), ("StakeExtendedSigningKey", .stakeExtSigning),
   ("StakeExtendedVerificationKey", .stakeExtVerification), ("StakePoolSigningKey", .stakePoolSigning),
   ("StakePoolVerificationKey", .stakePoolVerification)]

def jClass (s : String) : R KeyClass :=
  match classNames.find? (fun p => p.1 == s) with
  | some p => pure p.2
  | none => throw s!"unknown key class {s}"

def ofClass (c : KeyClass) : Json :=
  match classNames.find? (fun p => p.2 == c) with
  | some p => Json.str p.1
  | none => Json.null

def jKey (j : Json) : R KeyObj := do
  pure ⟨← jClass (← getStr j "cls"), ← getBytes j "payload", ← getStr j "type", ← getStr j "desc"⟩

def ofKey (k : KeyObj) : Json :=
  Json.mkObj [("cls", ofClass k.cls), ("payload", ofBytes k.payload), ("type", Json.str k.keyType), ("desc", Json.str k.description)]

def jOptStr (j : Json) (k : String) : R (Option String) :=
  match getOpt j k with
  | some v => do pure (some (← v.getStr?))
  | none => pure none

def jVKW (j : Json) : R VKW := do pure ⟨← jKey (← j.getObjVal? "vkey"), ← jPrim (← j.getObjVal? "sig")⟩

def ofVKW (w : VKW) : Json := Json.mkObj [("vkey", ofKey w.vkey), ("sig", ofPrim w.sig)]

def jEx (j : Json) : R ExUnits := do pure ⟨← getInt j "mem", ← getInt j "steps"⟩

def ofEx (e : ExUnits) : Json := Json.mkObj [("mem", ofInt e.mem), ("steps", ofInt e.steps)]

def ofOpt {α : Type} (f : α → Json) : Option α → Json
  | some a => f a
  | none => Json.null

def jOpt {α : Type} (f : Json → R α) (j : Json) (k : String) : R (Option α) :=
  match getOpt j k with
  | some v => do pure (some (← f v))
  | none => pure none

def jTag (j : Json) : R RTag := do
  match RTag.ofCode? (← jInt j) with
  | some t => pure t
  | none => throw "redeemer tag"

def jRedeemer (j : Json) : R (Redeemer Item) := do
  pure ⟨← jOpt jTag j "tag", ← jPrim (← j.getObjVal? "index"), ← jItemHex (← j.getObjVal? "data"), ← jOpt jEx j "ex"⟩

def ofRedeemer (r : Redeemer Item) : Json :=
  Json.mkObj [("tag", ofOpt (fun t => ofNat t.code) r.tag), ("index", ofPrim r.index), ("data", ofItemHex r.data),
    ("ex", ofOpt ofEx r.exUnits)]

def jRKey (j : Json) : R RKey := do pure ⟨← jTag (← j.getObjVal? "tag"), ← getInt j "index"⟩
def ofRKey (k : RKey) : Json := Json.mkObj [("tag", ofNat k.tag.code), ("index", ofInt k.index)]
def jRValue (j : Json) : R (RValue Item) := do pure ⟨← jItemHex (← j.getObjVal? "data"), ← jEx (← j.getObjVal? "ex")⟩
def ofRValue (v : RValue Item) : Json := Json.mkObj [("data", ofItemHex v.data), ("ex", ofEx v.exUnits)]

def jRedeemers (j : Json) : R (Redeemers Item) := do
  if let some v := getOpt j "list" then return .list (← jList jRedeemer v)
  if let some v := getOpt j "map" then return .map (← jList (jPair jRKey jRValue) v)
  throw "bad redeemers"

def ofRedeemers : Redeemers Item → Json
  | .list rs => Json.mkObj [("list", ofList ofRedeemer rs)]
  | .map m => Json.mkObj [("map", ofList (ofPair ofRKey ofRValue) m)]

def jColl {α : Type} (f : Json → R α) (j : Json) : R (Coll α) := do
  if let some v := getOpt j "list" then return .list (← jList f v)
  if let some v := getOpt j "oset" then
    let p ← jPair jBool (jList f) v
    return .oset p.1 p.2
  throw "bad coll"

def ofColl {α : Type} (f : α → Json) : Coll α → Json
  | .list xs => Json.mkObj [("list", ofList f xs)]
  | .oset t xs => Json.mkObj [("oset", Json.arr #[Json.bool t, ofList f xs])]

def jWS (j : Json) : R (WS Item Item Item Item) := do
  pure { vkeys := ← jOpt (jColl jVKW) j "vkeys", native := ← jOpt (jColl jItemHex) j "native",
         bootstrap := ← jOpt (jColl jItemHex) j "bootstrap", v1 := ← jOpt (jColl jBytes) j "v1",
         datums := ← jOpt (jColl jItemHex) j "datums", redeemers := ← jOpt jRedeemers j "redeemers",
         v2 := ← jOpt (jColl jBytes) j "v2", v3 := ← jOpt (jColl jBytes) j "v3" }

def ofWS (x : WS Item Item Item Item) : Json :=
  Json.mkObj [("vkeys", ofOpt (ofColl ofVKW) x.vkeys), ("native", ofOpt (ofColl ofItemHex) x.native),
    ("bootstrap", ofOpt (ofColl ofItemHex) x.bootstrap), ("v1", ofOpt (ofColl ofBytes) x.v1),
    ("datums", ofOpt (ofColl ofItemHex) x.datums), ("redeemers", ofOpt ofRedeemers x.redeemers),
    ("v2", ofOpt (ofColl ofBytes) x.v2), ("v3", ofOpt (ofColl ofBytes) x.v3)]

def errJson (e : String) : Json := Json.mkObj [("err", Json.str e)]

def ofRes {α : Type} (f : α → Json) : Res α → Json
  | .ok a => f a
  | .deser => errJson "deser"
  | .crash => errJson "crash"

def decBytes {α : Type} (d : Item → Res α) (b : Bytes) : Res α :=
  match decodeAll b with
  | some i => d i
  | none => .crash

def jJVal (j : Json) : R JVal :=
  match j with
  | .null => pure .null
  | _ =>
    match getOpt j "s" with
    | some v => do pure (.str (← v.getStr?))
    | none => pure .other

def ofJVal : JVal → Json
  | .str s => Json.mkObj [("s", Json.str s)]
  | .null => Json.null
  | .other => Json.mkObj [("o", Json.bool true)]

def jJObj (j : Json) : R JObj := jList (jPair (fun x => x.getStr?) jJVal) j

def ofJObj (o : JObj) : Json := ofList (ofPair Json.str ofJVal) o

/-! spec-level content for `wc.spec.ws` (Spec/WitnessCodec.lean): a set is `[tagged, [element]]` -/
open Pyc.Spec.WitnessCodec in
def jSpecSet {α : Type} (f : Json → R α) (j : Json) : R (SetForm × List α) := do
  let p ← jPair jBool (jList f) j
  pure (if p.1 then .tagged else .bare, p.2)

open Pyc.Spec.WitnessCodec in
def jSpecTag (j : Json) : R RedeemerTag := do
  match ← jNat j with
  | 0 => pure .spend | 1 => pure .mint | 2 => pure .cert | 3 => pure .reward | 4 => pure .voting | 5 => pure .proposing
  | _ => throw "redeemer tag"

open Pyc.Spec.WitnessCodec in
def jSpecEntry (j : Json) : R RedeemerEntry := do
  pure ⟨← jSpecTag (← j.getObjVal? "tag"), ← getNat j "index", ← jItemHex (← j.getObjVal? "data"),
    ⟨← getNat j "mem", ← getNat j "steps"⟩⟩

open Pyc.Spec.WitnessCodec in
def jSpecWS (j : Json) : R WitnessSet := do
  let vk (x : Json) : R VKeyWitness := do pure ⟨← getBytes x "vkey", ← getBytes x "sig"⟩
  let rd (x : Json) : R (RedeemersForm × List RedeemerEntry) := do
    let form ← getStr x "form"
    pure (if form == "map" then .map else .array, ← jList jSpecEntry (← x.getObjVal? "items"))
  pure { vkeys := ← jOpt (jSpecSet vk) j "vkeys", native := ← jOpt (jSpecSet jItemHex) j "native",
         bootstrap := ← jOpt (jSpecSet jItemHex) j "bootstrap", v1 := ← jOpt (jSpecSet jBytes) j "v1",
         data := ← jOpt (jSpecSet jItemHex) j "data", redeemers := ← jOpt rd j "redeemers",
         v2 := ← jOpt (jSpecSet jBytes) j "v2", v3 := ← jOpt (jSpecSet jBytes) j "v3" }

end WC

open WC in
def handleWitnessCodec (op : String) (j : Json) : R Json := do
  match op with
  | "wc.ping" => pure (Json.str "pong")
  -- ---- keys
  | "wc.key.mk" =>
    let k := mkKey (← jClass (← getStr j "cls")) (← getBytes j "payload") (← jOptStr j "type") (← jOptStr j "desc")
    pure (Json.mkObj [("key", ofKey k), ("cbor", ofBytes (keyCbor k)), ("json", ofJObj (toJson k)),
      ("nonext", ofKey (toNonExtended k)), ("extvk", ofKey (extToVerificationKey k))])
  | "wc.key.fromjson" =>
    let c ← jClass (← getStr j "cls")
    match fromJson c (← getBool j "validate") (← jJObj (← j.getObjVal? "obj")) with
    | .ok k => pure (Json.mkObj [("key", ofKey k), ("json", ofJObj (toJson k))])
    | .badType => pure (errJson "badtype")
    | .deser => pure (errJson "deser")
    | .crash => pure (errJson "crash")
  | "wc.key.dec" =>
    pure (ofRes (fun k => Json.mkObj [("key", ofKey k)]) (decBytes (decKey (← jClass (← getStr j "cls"))) (← getBytes j "hex")))
  -- ---- vkey witnesses
  | "wc.vkw.mk" =>
    let w := mkVKW (← jKey (← j.getObjVal? "vkey")) (← jPrim (← j.getObjVal? "sig"))
    pure (Json.mkObj [("w", ofVKW w), ("hex", ofBytes (encode (vkwItem w))), ("valid", Json.bool (vkwValid w)),
      ("decoded", ofVKW (decodedVKW w)), ("pyeq", Json.bool (VKW.pyEq (decodedVKW w) w))])
  | "wc.vkw.dec" =>
    pure (ofRes (fun w => Json.mkObj [("w", ofVKW w), ("reenc", ofBytes (encode (vkwItem w))), ("valid", Json.bool (vkwValid w))])
      (decBytes decVKW (← getBytes j "hex")))
  -- ---- redeemers
  | "wc.redeemer.enc" =>
    let r ← jRedeemer (← j.getObjVal? "r")
    pure (Json.mkObj [("hex", ofBytes (encode (redeemerItem leaves.rdata r))), ("valid", Json.bool (redeemerValid r))])
  | "wc.redeemer.dec" =>
    pure (ofRes (fun r => Json.mkObj [("r", ofRedeemer r), ("reenc", ofBytes (encode (redeemerItem leaves.rdata r))),
        ("valid", Json.bool (redeemerValid r))])
      (decBytes (decRedeemer leaves.rdata) (← getBytes j "hex")))
  | "wc.redeemers.enc" =>
    let rs ← jRedeemers (← j.getObjVal? "rs")
    pure (Json.mkObj [("hex", ofBytes (encode (redeemersItem leaves.rdata rs))), ("valid", Json.bool (redeemersValid rs)),
      ("decoded", ofRedeemers (decodedRedeemers rs))])
  | "wc.redeemers.dec" =>
    pure (ofRes (fun o => match o with
        | some rs => Json.mkObj [("rs", ofRedeemers rs), ("reenc", ofBytes (encode (redeemersItem leaves.rdata rs))),
            ("valid", Json.bool (redeemersValid rs))]
        | none => Json.mkObj [("rs", Json.null)])
      (decBytes (decRedeemersOpt leaves.rdata) (← getBytes j "hex")))
  -- ---- witness sets
  | "wc.ws.enc" =>
    -- "a" holds the constructor ARGUMENTS; the constructed object is `mkWS` of them (`__post_init__`)
    let x := mkWS leaves (← jWS (← j.getObjVal? "a"))
    pure (Json.mkObj [("constructed", ofWS x), ("valid", Json.bool (wsValid x)), ("hex", ofBytes (encWSBytes leaves x)),
      ("decoded", ofWS (decodedWS leaves x))])
  | "wc.ws.dec" =>
    pure (ofRes (fun x => Json.mkObj [("ws", ofWS x), ("valid", Json.bool (wsValid x)), ("reenc", ofBytes (encWSBytes leaves x))])
      (decWSBytes leaves (← getBytes j "hex")))
  -- ---- the CDDL transliteration
  | "wc.spec.ws" =>
    pure (ofBytes (encode (Pyc.Spec.WitnessCodec.transactionWitnessSet (← jSpecWS (← j.getObjVal? "w")))))
  | _ => throw s!"unknown op {op}"

end Pyc.Driver
