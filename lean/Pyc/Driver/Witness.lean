import Pyc.Driver.Util
import Pyc.Model.Witness

/-! Driver for the witness model (C10).  No hash and no signature is computed in Lean: the harness passes, with each
supplied key, the blake2b-224 of its 32-byte verification key (`hash`), the model looks key hashes up in that table
(`H28`), and the signing loop produces signature *slots* (`slotOps`).

`witness.plan`: builder state + supplied keys + force flag -> required key hashes (sorted), witness count, number of
placeholder witnesses, and per distinct supplied key its 32-byte witness key and whether it signs.
`witness.fake`: n -> the placeholder witnesses `[vkey, sig]` of `_build_fake_vkey_witnesses` for count n (as a set:
the order of the list is not meaningful). -/

namespace Pyc.Driver
open Lean Pyc.Witness

def witCred (j : Json) : R Cred := do
  let a ← j.getArr?
  if h : a.size = 2 then
    let k ← a[0].getStr?
    let b ← jBytes a[1]
    pure ⟨k == "key", b⟩
  else throw "credential [kind, hex] expected"

/-- script tree: ["pk", hex] | ["all", [..]] | ["any", [..]] | ["nofk", n, [..]] | ["before", n] | ["after", n] -/
def witScript : Nat → Json → R NScript
  | 0, _ => throw "native script nested too deeply"
  | fuel + 1, j => do
    let a ← j.getArr?
    if a.size < 2 then throw "script node expected" else
    let k ← a[0]!.getStr?
    if k == "pk" then pure (.pubkey (← jBytes a[1]!))
    else if k == "all" then pure (.all (← (← a[1]!.getArr?).toList.mapM (witScript fuel)))
    else if k == "any" then pure (.any (← (← a[1]!.getArr?).toList.mapM (witScript fuel)))
    else if k == "nofk" then
      if a.size < 3 then throw "nofk needs n and a list" else
      pure (.nofk (← jNat a[1]!) (← (← a[2]!.getArr?).toList.mapM (witScript fuel)))
    else if k == "before" then pure (.before (← jNat a[1]!))
    else if k == "after" then pure (.after (← jNat a[1]!))
    else throw s!"unknown script node {k}"

def witCertKind (s : String) : R CertKind :=
  match s with
  | "stake_reg" => pure .stakeReg
  | "stake_dereg" => pure .stakeDereg
  | "stake_deleg" => pure .stakeDeleg
  | "pool_reg" => pure .poolReg
  | "pool_retire" => pure .poolRetire
  | "reg_conway" => pure .regConway
  | "dereg_conway" => pure .deregConway
  | "vote_deleg" => pure .voteDeleg
  | "stake_vote_deleg" => pure .stakeVoteDeleg
  | "reg_deleg" => pure .regDeleg
  | "reg_vote_deleg" => pure .regVoteDeleg
  | "reg_deleg_vote" => pure .regDelegVote
  | "auth_hot" => pure .authHot
  | "resign_cold" => pure .resignCold
  | "reg_drep" => pure .regDRep
  | "unreg_drep" => pure .unregDRep
  | "update_drep" => pure .updateDRep
  | _ => throw s!"unknown certificate kind {s}"

def witList {α} (j : Json) (k : String) (f : Json → R α) : R (List α) :=
  match getOpt j k with
  | none => pure []
  | some v => jList f v

def witCert (j : Json) : R Cert := do
  let k ← witCertKind (← getStr j "kind")
  let c ← witCred (← j.getObjVal? "cred")
  let ow ← witList j "owners" jBytes
  pure ⟨k, c, ow⟩

def witState (j : Json) : R State := do
  let ov ← match getOpt j "witness_override" with
    | none => pure none
    | some v => do pure (some (← jNat v))
  pure {
    inputs := ← witList j "inputs" witCred
    collaterals := ← witList j "collaterals" witCred
    requiredSigners := ← witList j "required_signers" jBytes
    nativeScripts := ← witList j "native_scripts" (witScript 64)
    inputScripts := ← witList j "input_scripts" (witScript 64)
    mintScripts := ← witList j "mint_scripts" (witScript 64)
    withdrawalScripts := ← witList j "withdrawal_scripts" (witScript 64)
    certScripts := ← witList j "cert_scripts" (witScript 64)
    certificates := ← witList j "certificates" witCert
    withdrawals := ← witList j "withdrawals" jBytes
    voters := ← witList j "voters" witCred
    witnessOverride := ov }

/-- supplied key: {"ext": bool, "vk": hex, "tag": n, "hash": hex} -/
def witKey (j : Json) : R (SKey × Bytes) := do
  pure (⟨← getBool j "ext", ← getBytes j "vk", ← getNat j "tag"⟩, ← getBytes j "hash")

def witSort (l : List Bytes) : List Bytes := l.mergeSort fun a b => bytesLe a b

def handleWitness (op : String) (j : Json) : R Json :=
  match op with
  | "witness.plan" => do
    let st ← witState j
    let ks ← witList j "keys" witKey
    let force ← match getOpt j "force" with
      | none => pure false
      | some v => jBool v
    -- H28 as a table: 32-byte witness key -> key hash supplied by the harness
    let tbl : List (Bytes × Bytes) := ks.map fun (k, h) => (vkey32 slotOps k, h)
    let H28 : Bytes → Bytes := fun b => match tbl.find? (fun e => e.1 == b) with
      | some e => e.2
      | none => []
    let req := requiredVkeys st
    let keys := dedup (ks.map (·.1))
    let plan := keys.map fun k => (vkey32 slotOps k, signs slotOps H28 force req k)
    let ws := signLoop slotOps H28 force req [] (ks.map (·.1))
    pure (Json.mkObj [
      ("required", ofList ofBytes (witSort req)),
      ("count", ofNat (witnessCount st)),
      ("fake", ofNat (fakeWitnesses st).length),
      ("plan", ofList (ofPair ofBytes Json.bool) plan),
      ("witness_vkeys", ofList ofBytes (witSort (dedup (ws.map (·.vkey)))))])
  | "witness.fake" => do
    let n ← getNat j "n"
    pure (ofList (fun w => Json.arr #[ofBytes w.vkey, ofBytes w.sig]) (fakeWitnessesN n))
  | _ => throw s!"unknown op {op}"

end Pyc.Driver
