import Pyc.Driver.Value
import Pyc.Model.Canonical

namespace Pyc.Driver
open Lean

def handleEnc (op : String) (j : Json) : R Json := do
  match op with
  | "enc.value" => pure (ofBytes (encValue (← jValue (← j.getObjVal? "a"))))
  | "enc.value.pinned" => pure (ofBytes (Cbor.encode (itemValuePinned (← jValue (← j.getObjVal? "a")))))
  | "enc.ma" => pure (ofBytes (encMultiAsset (← jMultiAsset (← j.getObjVal? "a"))))
  | "enc.asset" => pure (ofBytes (encAsset (← jAsset (← j.getObjVal? "a"))))
  | "enc.rawmap" => pure (ofBytes (encRawMap (← jList (jPair jBytes jBytes) (← j.getObjVal? "a"))))
  | "enc.int" => pure (ofBytes (Cbor.encode (Pyc.ofInt (← getInt j "a"))))
  | _ => throw s!"unknown op {op}"

end Pyc.Driver
