import Lean.Data.Json
import Pyc.Model.Basic

/-! JSON helpers for the line-protocol driver.  Integers cross the pipe as decimal strings, bytes as hex. -/

namespace Pyc.Driver
open Lean

abbrev R := Except String

def getStr (j : Json) (k : String) : R String := j.getObjValAs? String k
def getArr (j : Json) (k : String) : R (Array Json) := do
  let v ← j.getObjVal? k
  v.getArr?

def jInt (j : Json) : R Int :=
  match j with
  | .str s => match s.toInt? with
    | some i => pure i
    | none => throw s!"bad int {s}"
  | .num n => if n.exponent = 0 then pure n.mantissa else throw "non-integer number"
  | _ => throw "int expected"

def jNat (j : Json) : R Nat := do
  let i ← jInt j
  if i < 0 then throw "nat expected" else pure i.toNat

def jBytes (j : Json) : R Bytes :=
  match j with
  | .str s => match ofHex s with
    | some b => pure b
    | none => throw s!"bad hex {s}"
  | _ => throw "hex string expected"

def jBool (j : Json) : R Bool :=
  match j with
  | .bool b => pure b
  | _ => throw "bool expected"

def getInt (j : Json) (k : String) : R Int := do jInt (← j.getObjVal? k)
def getNat (j : Json) (k : String) : R Nat := do jNat (← j.getObjVal? k)
def getBytes (j : Json) (k : String) : R Bytes := do jBytes (← j.getObjVal? k)
def getBool (j : Json) (k : String) : R Bool := do jBool (← j.getObjVal? k)
def getOpt (j : Json) (k : String) : Option Json :=
  match j.getObjVal? k with
  | .ok .null => none
  | .ok v => some v
  | .error _ => none

def ofInt (i : Int) : Json := .str (toString i)
def ofNat (n : Nat) : Json := .str (toString n)
def ofBytes (b : Bytes) : Json := .str (toHex b)

def jList {α} (f : Json → R α) (j : Json) : R (List α) := do
  let a ← j.getArr?
  a.toList.mapM f

def jPair {α β} (f : Json → R α) (g : Json → R β) (j : Json) : R (α × β) := do
  let a ← j.getArr?
  if h : a.size = 2 then
    pure (← f a[0], ← g a[1])
  else throw "pair expected"

def ofList {α} (f : α → Json) (l : List α) : Json := .arr (l.map f).toArray
def ofPair {α β} (f : α → Json) (g : β → Json) (p : α × β) : Json := .arr #[f p.1, g p.2]

end Pyc.Driver
