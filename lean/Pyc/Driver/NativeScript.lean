import Pyc.Driver.Util
import Pyc.Model.NativeScript
import Pyc.Spec.NativeScript
import Pyc.Spec.Ids

/-! Driver ops `ns.*` for the native-script model (`Model/NativeScript.lean`).

JSON conventions.  A script: `{"k":"pubkey","h":hex}` | `{"k":"all"|"any","s":[script…]}` | `{"k":"nofk","n":"<int>","s":[…]}` |
`{"k":"before"|"hereafter","t":"<int>"}` (`before` = `InvalidBefore`, `hereafter` = `InvalidHereAfter`).
A JSON tree (`NJ`): `{"z":true}` null | `{"b":bool}` | `{"n":"<int>"}` | `{"s":hex of the UTF-8 bytes}` | `{"a":[…]}` |
`{"o":[[key, value]…]}` (object, insertion order). -/

namespace Pyc.Driver
open Lean Pyc Pyc.Cbor Pyc.Codec Pyc.Ids Pyc.NativeScript

partial def jNScript (j : Json) : R NScript := do
  let k ← getStr j "k"
  match k with
  | "pubkey" => return .pubkey (← getBytes j "h")
  | "all" => return .all (← jList jNScript (← j.getObjVal? "s"))
  | "any" => return .any (← jList jNScript (← j.getObjVal? "s"))
  | "nofk" => return .nofk (← getInt j "n") (← jList jNScript (← j.getObjVal? "s"))
  | "before" => return .before (← getInt j "t")
  | "hereafter" => return .hereafter (← getInt j "t")
  | _ => throw s!"bad script kind {k}"

partial def ofNScript : NScript → Json
  | .pubkey h => Json.mkObj [("k", "pubkey"), ("h", ofBytes h)]
  | .all xs => Json.mkObj [("k", "all"), ("s", Json.arr (xs.map ofNScript).toArray)]
  | .any xs => Json.mkObj [("k", "any"), ("s", Json.arr (xs.map ofNScript).toArray)]
  | .nofk n xs => Json.mkObj [("k", "nofk"), ("n", ofInt n), ("s", Json.arr (xs.map ofNScript).toArray)]
  | .before t => Json.mkObj [("k", "before"), ("t", ofInt t)]
  | .hereafter t => Json.mkObj [("k", "hereafter"), ("t", ofInt t)]

partial def jNJ (j : Json) : R NJ := do
  if let some v := getOpt j "b" then return .bool (← jBool v)
  if let some v := getOpt j "n" then return .num (← jInt v)
  if let some v := getOpt j "s" then return .str (← jBytes v)
  if let some v := getOpt j "a" then return .arr (← jList jNJ v)
  if let some v := getOpt j "o" then
    return .obj (← jList (jPair (fun k => k.getStr?) jNJ) v)
  match j.getObjVal? "z" with
  | .ok _ => return .null
  | .error _ => throw s!"bad NJ {j.compress}"

partial def ofNJ : NJ → Json
  | .null => Json.mkObj [("z", Json.bool true)]
  | .bool b => Json.mkObj [("b", Json.bool b)]
  | .num n => Json.mkObj [("n", ofInt n)]
  | .str s => Json.mkObj [("s", ofBytes s)]
  | .arr xs => Json.mkObj [("a", Json.arr (xs.map ofNJ).toArray)]
  | .obj kvs => Json.mkObj [("o", Json.arr (kvs.map fun kv => Json.arr #[Json.str kv.1, ofNJ kv.2]).toArray)]

def nsErr (e : String) : Json := Json.mkObj [("err", Json.str e)]

def nsRes : Res NScript → Json
  | .ok s => Json.mkObj [("script", ofNScript s), ("reenc", ofBytes (toBytes s))]
  | .deser => nsErr "deser"
  | .crash => nsErr "crash"

def handleNativeScript (op : String) (j : Json) : R Json := do
  match op with
  | "ns.enc" =>
    let s ← jNScript (← j.getObjVal? "s")
    let d := NativeScript.depth s
    pure (Json.mkObj [("hex", ofBytes (toBytes s)), ("preimage", ofBytes (hashPreimage s)), ("dict", ofNJ (toDict s)),
      ("wf", Json.bool (wfB s)), ("inrange", Json.bool (Spec.NativeScript.inRangeB s)), ("depth", ofNat d),
      ("spec", ofBytes (encode (Spec.NativeScript.specNS s))), ("cddl", ofBytes (Spec.Ids.nativeBytes s)),
      ("matches", Json.bool (Spec.NativeScript.matchNS d (toItem s))),
      -- theorem `ns_roundtrip` / `ns_json_roundtrip` evaluated at the least fuel they allow
      ("rt", nsRes (fromItem d (toItem s))), ("rtjson", nsRes (fromDict d (toDict s)))])
  | "ns.dec" =>
    let b ← getBytes j "hex"
    pure (nsRes (fromBytes b))
  | "ns.match" =>
    let b ← getBytes j "hex"
    match decodeAll b with
    | none => pure (nsErr "cbor")
    | some i => pure (Json.bool (Spec.NativeScript.matchNS (2 * b.length + 2) i))
  | "ns.fromdict" =>
    let d ← jNJ (← j.getObjVal? "d")
    pure (nsRes (fromDict (2 * NativeScript.depthJ d + 2) d))
  | _ => throw s!"unknown op {op}"

end Pyc.Driver
