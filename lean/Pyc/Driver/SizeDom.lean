import Pyc.Driver.Util
import Pyc.Model.SizeDom

/-! Driver ops `dom.*` (C07 extension SizeDom).

An item crosses the pipe either as a hex string (decoded by the model's own `decodeAll`) or as a JSON tree produced by an
independent decoder on the Python side:
`{"u": "<n>"}` uint · `{"n": "<n>"}` the negative integer `-1 - n` · `{"b": hex}` · `{"bc": [hex, …]}` chunked byte
string · `{"t": hex of the UTF-8 bytes}` · `{"a": [item, …]}` · `{"ai": [item, …]}` indefinite array ·
`{"m": [[key, value], …]}` · `{"g": ["<tag>", item]}` · `{"s": "<n>"}` simple value.

`dom.check {"fake": item, "real": item}` → `{"dom": bool, "size_fake", "size_real", "slack", "why": null | path}`;
`dom.size {"item": item}` → size;
`dom.fakewits {"n": "<count>"}` → the placeholder witnesses of the model (`fakeWitnessSet`), their number and bytes. `why` is a diagnostic only (first place where the greedy matching of `domB` gets
stuck); the verdict is `Pyc.SizeDom.domB`. -/

namespace Pyc.Driver
open Lean Pyc Pyc.Cbor Pyc.SizeDom

partial def sdItem (j : Json) : R Item := do
  match j with
  | .str _ =>
    match decodeAll (← jBytes j) with
    | some i => return i
    | none => throw "not a single well-formed CBOR item"
  | _ => pure ()
  if let some v := getOpt j "u" then return .uint (← jNat v)
  if let some v := getOpt j "n" then return .nint (← jNat v)
  if let some v := getOpt j "b" then return .bytes (← jBytes v)
  if let some v := getOpt j "bc" then return .bytesChunked (← jList jBytes v)
  if let some v := getOpt j "t" then return .text (← jBytes v)
  if let some v := getOpt j "a" then return .array (← jList sdItem v)
  if let some v := getOpt j "ai" then return .arrayIndef (← jList sdItem v)
  if let some v := getOpt j "m" then return .map (← jList (jPair sdItem sdItem) v)
  if let some v := getOpt j "g" then
    let p ← jPair jNat sdItem v
    return .tag p.1 p.2
  if let some v := getOpt j "s" then return .simple (← jNat v)
  throw s!"bad item {j.compress.take 80}"

def sdKind : Item → String
  | .uint _ => "uint" | .nint _ => "nint" | .bytes _ => "bytes" | .bytesChunked _ => "chunked" | .text _ => "text"
  | .array _ => "array" | .arrayIndef _ => "array*" | .map _ => "map" | .tag _ _ => "tag" | .simple _ => "simple"

def sdKeyName (k : Item) : String :=
  match k with
  | .uint n => toString n
  | _ => toHex (encode k)

mutual
/-- diagnostic: where the matching of `domB` fails (`none` = dominated) -/
partial def sdWhy (path : String) (f r : Item) : Option String :=
  if domB f r then none else
  match f, r with
  | .array fs, .array rs => sdWhyList path fs rs 0
  | .arrayIndef fs, .arrayIndef rs => sdWhyList path fs rs 0
  | .map fs, .map rs => sdWhyPairs path fs rs
  | .tag t x, .tag u y => if t == u then sdWhy s!"{path}/tag{t}" x y else some s!"{path}: tag {t} vs {u}"
  | _, _ =>
    if sdKind f == sdKind r then some s!"{path}: {sdKind r} of {size r} bytes against {size f}"
    else some s!"{path}: {sdKind r} against {sdKind f}"
partial def sdWhyList (path : String) (fs rs : List Item) (j : Nat) : Option String :=
  match fs, rs with
  | _, [] => none
  | [], _ :: _ => some s!"{path}[{j}]: no fake element left for this and {rs.length - 1} more real element(s)"
  | f :: fs', r :: rs' =>
    if domB f r then sdWhyList path fs' rs' (j + 1)
    else if fs'.length < rs.length then
      -- nothing can be skipped any more: the element-wise reason is the informative one
      match sdWhy s!"{path}[{j}]" f r with
      | some w => some w
      | none => sdWhyList path fs' rs j
    else sdWhyList path fs' rs j
partial def sdWhyPairs (path : String) (fs rs : List (Item × Item)) : Option String :=
  match fs, rs with
  | _, [] => none
  | [], (k, _) :: _ => some s!"{path}: key {sdKeyName k} has no dominating entry in the fake map"
  | (kf, vf) :: fs', (kr, vr) :: rs' =>
    if encode kf == encode kr then
      if domB vf vr then sdWhyPairs path fs' rs' else
      match sdWhy s!"{path}/{sdKeyName kr}" vf vr with
      | some w => some w
      | none => sdWhyPairs path fs' rs
    else sdWhyPairs path fs' rs
end

def handleSizeDom (op : String) (j : Json) : R Json := do
  match op with
  | "dom.check" =>
    let f ← sdItem (← j.getObjVal? "fake")
    let r ← sdItem (← j.getObjVal? "real")
    let d := domB f r
    let why : Json := if d then Json.null else
      match sdWhy "" f r with
      | some w => Json.str w
      | none => Json.str "?"
    pure (Json.mkObj [("dom", Json.bool d), ("size_fake", ofNat (size f)), ("size_real", ofNat (size r)),
      ("slack", ofNat (slack f r)), ("why", why)])
  | "dom.fakewits" =>
    -- the model of `_build_fake_vkey_witnesses` for a witness count `n`: what sits under key 0 of the fake witness set
    let n ← getNat j "n"
    pure (Json.mkObj [("count", ofNat (fakeKeys n).length), ("hex", ofBytes (encode (fakeWitnessSet n)))])
  | "dom.size" =>
    let x ← sdItem (← j.getObjVal? "item")
    pure (Json.mkObj [("size", ofNat (size x)), ("hex", ofBytes (encode x))])
  | _ => throw s!"unknown op {op}"

end Pyc.Driver
