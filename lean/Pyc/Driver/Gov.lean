import Pyc.Driver.Util
import Pyc.Model.Gov
import Pyc.Spec.Gov

/-! Driver ops `gov.*` for `Model/Gov.lean` and `Spec/Gov.lean`.

JSON images.  A payload that the implementation stores without looking at its type (hash payloads, the governance
action index, the protocol version numbers) crosses as the hex of its CBOR encoding (`"item"`).
  cred      {"key": bool, "hash": item}                     StakeCredential / DRepCredential / CommitteeColdCredential
  drep      {"kind": 0..3, "cred": null | {"key": bool, "hash": item}}
  voter     {"vtype": 0 | 1 | 2, "key": bool, "hash": item}        0 committee_hot, 1 drep, 2 staking_pool
  anchor    {"url": hex (UTF-8), "hash": hex}
  vp        {"vote": 0 | 1 | 2, "anchor": null | anchor}
  gaid      {"txid": item, "idx": item}
  votes     [[gaid, vp], …]          vps  [[voter, votes], …]       (dict insertion order)
  hardfork  {"prev": null | gaid, "major": item, "minor": item}
  poolid    {"value": string}
Spec-level content (`gov.spec.enc`): credential {"k": 0|1, "hash": hex}; drep {"k": 0..3, "hash": hex | null};
voter {"k": 0..4, "hash": hex}; anchor {"url": hex, "hash": hex}; voting_procedure {"vote": 0..2, "anchor": …|null};
gov_action_id {"txid": hex, "ix": n}; hard_fork {"prev": …|null, "major": n, "minor": n}. -/

namespace Pyc.Driver
open Lean Pyc Pyc.Cbor Pyc.Codec Pyc.Gov

def gItem (j : Json) : R Item := do
  let b ← jBytes j
  match decodeAll b with
  | some i => pure i
  | none => throw "not a single well-formed CBOR item"

def ofGItem (i : Item) : Json := ofBytes (encode i)

def gOpt {α : Type} (f : Json → R α) (j : Json) (k : String) : R (Option α) :=
  match getOpt j k with
  | some v => do pure (some (← f v))
  | none => pure Option.none

def ofGOpt {α : Type} (f : α → Json) : Option α → Json
  | some a => f a
  | none => Json.null

def jCred (j : Json) : R Cred := do pure ⟨← getBool j "key", ← gItem (← j.getObjVal? "hash")⟩
def ofCred (c : Cred) : Json := Json.mkObj [("key", Json.bool c.isKey), ("hash", ofGItem c.hash)]

def jDRepKind (n : Nat) : R DRepKind :=
  match n with
  | 0 => pure .keyHash
  | 1 => pure .scriptHash
  | 2 => pure .alwaysAbstain
  | 3 => pure .alwaysNoConfidence
  | _ => throw "bad drep kind"

def jDRep (j : Json) : R DRep := do
  let k ← jDRepKind (← getNat j "kind")
  let c ← gOpt (fun v => do pure ((← getBool v "key"), (← gItem (← v.getObjVal? "hash")))) j "cred"
  pure ⟨k, c⟩

def ofDRep (d : DRep) : Json :=
  Json.mkObj [("kind", ofNat d.kind.code),
    ("cred", ofGOpt (fun (c : Bool × Item) => Json.mkObj [("key", Json.bool c.1), ("hash", ofGItem c.2)]) d.cred)]

def jVoterType (n : Nat) : R VoterType :=
  match n with
  | 0 => pure .committeeHot
  | 1 => pure .drep
  | 2 => pure .stakingPool
  | _ => throw "bad voter type"

def ofVoterType : VoterType → Nat
  | .committeeHot => 0
  | .drep => 1
  | .stakingPool => 2

def jVoter (j : Json) : R Voter := do
  pure ⟨← jVoterType (← getNat j "vtype"), ← getBool j "key", ← gItem (← j.getObjVal? "hash")⟩
def ofVoter (v : Voter) : Json :=
  Json.mkObj [("vtype", ofNat (ofVoterType v.vtype)), ("key", Json.bool v.isKey), ("hash", ofGItem v.hash)]

def jAnchor (j : Json) : R Anchor := do pure ⟨← getBytes j "url", ← getBytes j "hash"⟩
def ofAnchor (a : Anchor) : Json := Json.mkObj [("url", ofBytes a.url), ("hash", ofBytes a.hash)]

def jVote (n : Nat) : R Vote :=
  match n with
  | 0 => pure .no
  | 1 => pure .yes
  | 2 => pure .abstain
  | _ => throw "bad vote"

def jVP (j : Json) : R VotingProcedure := do pure ⟨← jVote (← getNat j "vote"), ← gOpt jAnchor j "anchor"⟩
def ofVP (p : VotingProcedure) : Json :=
  Json.mkObj [("vote", ofNat p.vote.code), ("anchor", ofGOpt ofAnchor p.anchor)]

def jGaid (j : Json) : R GovActionId := do
  pure ⟨← gItem (← j.getObjVal? "txid"), ← gItem (← j.getObjVal? "idx")⟩
def ofGaid (g : GovActionId) : Json := Json.mkObj [("txid", ofGItem g.txid), ("idx", ofGItem g.idx)]

def jVotes (j : Json) : R GovVotes := jList (jPair jGaid jVP) j
def ofVotes (m : GovVotes) : Json := ofList (ofPair ofGaid ofVP) m
def jVPs (j : Json) : R VotingProcedures := jList (jPair jVoter jVotes) j
def ofVPs (m : VotingProcedures) : Json := ofList (ofPair ofVoter ofVotes) m

def jHardFork (j : Json) : R HardFork := do
  pure ⟨← gOpt jGaid j "prev", ← gItem (← j.getObjVal? "major"), ← gItem (← j.getObjVal? "minor")⟩
def ofHardFork (h : HardFork) : Json :=
  Json.mkObj [("prev", ofGOpt ofGaid h.prev), ("major", ofGItem h.major), ("minor", ofGItem h.minor)]

def gErr (e : String) : Json := Json.mkObj [("err", Json.str e)]

def gRes {α : Type} (f : α → Json) (enc : α → Item) : Res α → Json
  | .ok a => Json.mkObj [("val", f a), ("reenc", ofBytes (encode (enc a)))]
  | .deser => gErr "deser"
  | .crash => gErr "crash"

def distinctB {κ ν : Type} (ek : κ → Item) (m : List (κ × ν)) : Bool :=
  decide ((m.map fun p => keyBytes ek p.1).Nodup)

/-! spec-level content -/
open Pyc.Spec.Gov in
def sCredential (j : Json) : R Spec.Gov.Credential := do
  let h ← getBytes j "hash"
  match ← getNat j "k" with
  | 0 => pure (.keyHash h)
  | 1 => pure (.scriptHash h)
  | _ => throw "bad credential kind"

def sDRep (j : Json) : R Spec.Gov.DRep := do
  match ← getNat j "k" with
  | 0 => pure (.keyHash (← getBytes j "hash"))
  | 1 => pure (.scriptHash (← getBytes j "hash"))
  | 2 => pure .alwaysAbstain
  | 3 => pure .alwaysNoConfidence
  | _ => throw "bad drep kind"

def sVoter (j : Json) : R Spec.Gov.Voter := do
  let h ← getBytes j "hash"
  match ← getNat j "k" with
  | 0 => pure (.committeeKey h)
  | 1 => pure (.committeeScript h)
  | 2 => pure (.drepKey h)
  | 3 => pure (.drepScript h)
  | 4 => pure (.stakePool h)
  | _ => throw "bad voter kind"

def sAnchor (j : Json) : R Spec.Gov.Anchor := do pure ⟨← getBytes j "url", ← getBytes j "hash"⟩

def sVote (n : Nat) : R Spec.Gov.Vote :=
  match n with
  | 0 => pure .no
  | 1 => pure .yes
  | 2 => pure .abstain
  | _ => throw "bad vote"

def sVP (j : Json) : R Spec.Gov.VotingProcedure := do pure ⟨← sVote (← getNat j "vote"), ← gOpt sAnchor j "anchor"⟩
def sGaid (j : Json) : R Spec.Gov.GovActionId := do pure ⟨← getBytes j "txid", ← getNat j "ix"⟩
def sHardFork (j : Json) : R Spec.Gov.HardFork := do
  pure ⟨← gOpt sGaid j "prev", ← getNat j "major", ← getNat j "minor"⟩

def sOut (i : Item) (ok : Bool) : Json := Json.mkObj [("hex", ofBytes (encode i)), ("ok", Json.bool ok)]

def handleGov (op : String) (j : Json) : R Json := do
  match op with
  | "gov.enc" =>
    let v ← j.getObjVal? "v"
    match ← getStr j "cls" with
    | "cred" =>
      let c ← jCred v
      pure (Json.mkObj [("hex", ofBytes (encode c.toItem)), ("wf", Json.bool c.wf)])
    | "drep" =>
      let d ← jDRep v
      pure (Json.mkObj [("hex", ofBytes (encode d.toItem)), ("wf", Json.bool (d.typed && d.coherent)),
        ("typed", Json.bool d.typed), ("coherent", Json.bool d.coherent), ("arity", Json.bool d.arityOk)])
    | "voter" =>
      let x ← jVoter v
      pure (Json.mkObj [("hex", ofBytes (encode x.toItem)), ("wf", Json.bool x.wf)])
    | "anchor" =>
      let a ← jAnchor v
      pure (Json.mkObj [("hex", ofBytes (encode a.toItem)), ("wf", Json.bool a.wf)])
    | "vp" =>
      let p ← jVP v
      pure (Json.mkObj [("hex", ofBytes (encode p.toItem)), ("wf", Json.bool p.wf)])
    | "gaid" =>
      let g ← jGaid v
      pure (Json.mkObj [("hex", ofBytes (encode g.toItem)), ("wf", Json.bool g.wf)])
    | "votes" =>
      let m ← jVotes v
      pure (Json.mkObj [("hex", ofBytes (encode (GovVotes.toItem m))), ("wf", Json.bool (GovVotes.wf m)),
        ("distinct", Json.bool (distinctB GovActionId.toItem m)), ("canon", ofVotes (GovVotes.canon m))])
    | "vps" =>
      let m ← jVPs v
      pure (Json.mkObj [("hex", ofBytes (encode (VotingProcedures.toItem m))), ("wf", Json.bool (VotingProcedures.wf m)),
        ("distinct", Json.bool (distinctB Voter.toItem m && m.all fun p => distinctB GovActionId.toItem p.2)),
        ("canon", ofVPs (VotingProcedures.canon m))])
    | "hardfork" =>
      let h ← jHardFork v
      pure (Json.mkObj [("hex", ofBytes (encode h.toItem)), ("wf", Json.bool h.wf)])
    | "poolid" =>
      let p : PoolId := ⟨(← getStr v "value").toList⟩
      pure (Json.mkObj [("hex", ofBytes (encode p.toItem)), ("wf", Json.bool p.wf)])
    | c => throw s!"unknown class {c}"
  | "gov.dec" =>
    let b ← getBytes j "hex"
    match ← getStr j "cls" with
    | "cred" => pure (gRes ofCred Cred.toItem (fromBytes Cred.fromItem b))
    | "drep" => pure (gRes ofDRep DRep.toItem (fromBytes DRep.fromItem b))
    | "voter" => pure (gRes ofVoter Voter.toItem (fromBytes Voter.fromItem b))
    | "anchor" => pure (gRes ofAnchor Anchor.toItem (fromBytes Anchor.fromItem b))
    | "vp" => pure (gRes ofVP VotingProcedure.toItem (fromBytes VotingProcedure.fromItem b))
    | "gaid" => pure (gRes ofGaid GovActionId.toItem (fromBytes GovActionId.fromItem b))
    | "votes" => pure (gRes ofVotes GovVotes.toItem (fromBytes GovVotes.fromItem b))
    | "vps" => pure (gRes ofVPs VotingProcedures.toItem (fromBytes VotingProcedures.fromItem b))
    | "hardfork" => pure (gRes ofHardFork HardFork.toItem (fromBytes HardFork.fromItem b))
    | "poolid" =>
      pure (gRes (fun (p : PoolId) => Json.mkObj [("value", Json.str (String.ofList p.value))]) PoolId.toItem
        (fromBytes PoolId.fromItem b))
    | c => throw s!"unknown class {c}"
  | "gov.spec.enc" =>
    let v ← j.getObjVal? "v"
    match ← getStr j "rule" with
    | "credential" => let x ← sCredential v; pure (sOut x.enc x.ok)
    | "drep" => let x ← sDRep v; pure (sOut x.enc x.ok)
    | "voter" => let x ← sVoter v; pure (sOut x.enc x.ok)
    | "anchor" => let x ← sAnchor v; pure (sOut x.enc x.ok)
    | "voting_procedure" => let x ← sVP v; pure (sOut x.enc x.ok)
    | "gov_action_id" => let x ← sGaid v; pure (sOut x.enc x.ok)
    | "hard_fork" => let x ← sHardFork v; pure (sOut x.enc x.ok)
    | r => throw s!"unknown rule {r}"
  | "gov.spec.valid" =>
    let b ← getBytes j "hex"
    match decodeAll b with
    | none => pure (gErr "cbor")
    | some i =>
      match ← getStr j "rule" with
      | "credential" => pure (Json.bool (Spec.Gov.isCredential i))
      | "drep" => pure (Json.bool (Spec.Gov.isDRep i))
      | "voter" => pure (Json.bool (Spec.Gov.isVoter i))
      | "anchor" => pure (Json.bool (Spec.Gov.isAnchor i))
      | "voting_procedure" => pure (Json.bool (Spec.Gov.isVotingProcedure i))
      | "gov_action_id" => pure (Json.bool (Spec.Gov.isGovActionId i))
      | "hard_fork" => pure (Json.bool (Spec.Gov.isHardFork i))
      | "voting_procedures" => pure (Json.bool (Spec.Gov.isVotingProcedures i))
      | r => throw s!"unknown rule {r}"
  | _ => throw s!"unknown op {op}"

end Pyc.Driver
