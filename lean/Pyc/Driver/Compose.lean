import Pyc.Driver.Codec
import Pyc.Model.Compose

/-! Driver ops for the composed codec (C01 extension `Props/C01_Compose.lean`):
`cmp.dec` {cls, hex: CBOR of one item} → `Cls.from_primitive` through `fromPrimL repoSchema realLeaves`: the restored
value with its re-encoding, or the error class; plus `old`, the class the leaf-blind `fromPrim` answers on the same item
(so the harness can count the cases a leaf decided);
`cmp.leaves` {cls} → the leaves reachable from the class through the table that `realLeaves` does NOT model. -/

namespace Pyc.Driver
open Lean Pyc Pyc.Cbor Pyc.Codec Pyc.Compose

def cmpClass {α : Type} : Res α → String
  | .ok _ => "ok"
  | .deser => "deser"
  | .crash => "crash"

def handleCompose (op : String) (j : Json) : R Json := do
  match op with
  | "cmp.dec" =>
    let b ← getBytes j "hex"
    let cls ← getStr j "cls"
    match decodeAll b with
    | none => pure (Json.mkObj [("err", "cbor")])
    | some i =>
      let old := cmpClass (fromPrim Pyc.Generated.repoSchema 100000 (.cls cls) i)
      match fromPrimL Pyc.Generated.repoSchema realLeaves 100000 (.cls cls) i with
      | .ok v => pure (Json.mkObj [("val", cdOfVal v), ("reenc", ofBytes (encodeVal Pyc.Generated.repoSchema v)), ("old", old)])
      | .deser => pure (Json.mkObj [("err", "deser"), ("old", old)])
      | .crash => pure (Json.mkObj [("err", "crash"), ("old", old)])
  | "cmp.leaves" =>
    let cls ← getStr j "cls"
    pure (Json.arr ((unmodelled Pyc.Generated.repoSchema realLeaves cls).map Json.str).toArray)
  | _ => throw s!"unknown op {op}"

end Pyc.Driver
