import Pyc.Driver.Output
import Pyc.Model.CoinSel

namespace Pyc.Driver
open Lean Pyc.CoinSel

def selJUtxo (j : Json) : R UTxO := do
  pure { txid := ← getBytes j "txid", index := ← getNat j "index", output := ← jOutput (← j.getObjVal? "out") }

def selJLimit (j : Json) : R (Option Int) :=
  match getOpt j "limit" with
  | none => pure none
  | some v => do pure (some (← jInt v))

def selOfErr : SelErr → String
  | .insufficient => "insufficient"
  | .maxInputs => "maxInputs"
  | .depleted => "depleted"
  | .selection => "selection"
  | .crash => "crash"
  | .fuel => "fuel"

def selOfResult : Except SelErr (List UTxO × Value) → Json
  | .error e => Json.mkObj [("err", Json.str (selOfErr e))]
  | .ok (sel, change) =>
    Json.mkObj [("sel", ofList (fun u => Json.arr #[ofBytes u.txid, ofNat u.index]) sel), ("change", ofValue change)]

/-- op `select`: {selector: "lf"|"ri", pool, outputs, params, cpb, fake, limit, include_max_fee, respect_min_utxo, stream} -/
def handleSelect (op : String) (j : Json) : R Json := do
  match op with
  | "select" =>
    let pool ← jList selJUtxo (← j.getObjVal? "pool")
    let outputs ← jList jOutput (← j.getObjVal? "outputs")
    let env := Env.real (← jFeeParams (← j.getObjVal? "params")) (← getInt j "cpb") (← getBytes j "fake")
    let limit ← selJLimit j
    let fee ← getBool j "include_max_fee"
    let minUtxo ← getBool j "respect_min_utxo"
    match (← getStr j "selector") with
    | "lf" => pure (selOfResult (lfSelect env pool outputs limit fee minUtxo))
    | "ri" =>
      let stream ← jList jNat (← j.getObjVal? "stream")
      pure (selOfResult (riSelect env pool outputs limit fee minUtxo stream))
    | s => throw s!"unknown selector {s}"
  | _ => throw s!"unknown op {op}"

end Pyc.Driver
