import Pyc.Driver.Codec
import Pyc.Driver.Addr
import Pyc.Model.AddrLeaf

/-! Driver ops for the leaf codecs of `TransactionOutput` (C01 extension `Props/C01_Leaves.lean`):
`leaf.addr.dec` {hex: CBOR of one item} → the address `Address.from_primitive` restores, or the error class;
`leaf.output.dec` {hex} → `TransactionOutput.from_primitive` with the REAL address leaf. -/

namespace Pyc.Driver
open Lean Pyc Pyc.Cbor Pyc.Codec Pyc.Custom Pyc.Addr Pyc.AddrLeaf

def leafLeaves : Leaves VAddr Item Item := ⟨addrLeaf, Leaf.raw, Leaf.raw⟩

def ofLeafOutput (o : Output VAddr Item Item) : Json :=
  Json.mkObj [("addr", ofAddress o.address.1), ("addr_hex", ofBytes (encode (addrEnc o.address.1))),
    ("amount", ofValue o.amount), ("dh", ofCOpt ofBytes o.datumHash),
    ("datum", ofCOpt (fun i => ofBytes (encode i)) o.datum), ("script", ofCOpt ofCScript o.script), ("pa", Json.bool o.postAlonzo)]

def handleLeaf (op : String) (j : Json) : R Json := do
  match op with
  | "leaf.addr.dec" =>
    let i ← jCItemHex (← j.getObjVal? "hex")
    match addrDec i with
    | .ok a => pure (Json.mkObj [("addr", ofAddress a), ("hex", ofBytes (encode (addrEnc a))), ("valid", Json.bool (validB a))])
    | .deser => pure (cErrJson "deser")
    | .crash => pure (cErrJson "crash")
  | "leaf.output.dec" =>
    let i ← jCItemHex (← j.getObjVal? "hex")
    match decOutput leafLeaves i with
    | .ok o => pure (Json.mkObj [("out", ofLeafOutput o), ("hex", ofBytes (encOutputBytes leafLeaves o))])
    | .deser => pure (cErrJson "deser")
    | .crash => pure (cErrJson "crash")
  | _ => throw s!"unknown op {op}"

end Pyc.Driver
