import Pyc.Driver.Util
import Pyc.Model.Bip32

/-! Driver for the HD-wallet model (C16).  No hash function and no curve arithmetic exists in Lean: the harness
passes the *results* of the primitive calls as tables (`hm`: HMAC-SHA512, `kdf`: PBKDF2, `sha`: SHA-512,
`sb`: `n ↦ enc(n·B)`, `sm`: `h, Q ↦ enc(h·Q)`, `add`: point addition, `valid`: decodable point encodings), the
model runs on the table-backed `Prims` (points are their 32-byte encodings), and the driver also returns the exact
byte strings / scalars the model feeds to the primitives so that the harness can check that these are what it
hashed.  A query missing from the tables yields the empty byte string, which can never agree with the
implementation. -/

namespace Pyc.Driver
open Lean Pyc.Bip32

/-- order of the edwards25519 base point -/
def ed25519L : Nat := 2 ^ 252 + 27742317777372353535851937790883648493

def lookup2 (t : List (Bytes × Bytes × Bytes)) (a b : Bytes) : Bytes :=
  match t.find? fun e => e.1 == a && e.2.1 == b with
  | some e => e.2.2
  | none => []

def lookup1 (t : List (Bytes × Bytes)) (a : Bytes) : Bytes :=
  match t.find? fun e => e.1 == a with
  | some e => e.2
  | none => []

def lookupN (t : List (Nat × Bytes)) (n : Nat) : Bytes :=
  match t.find? fun e => e.1 == n with
  | some e => e.2
  | none => []

def lookupNB (t : List (Nat × Bytes × Bytes)) (n : Nat) (q : Bytes) : Bytes :=
  match t.find? fun e => e.1 == n && e.2.1 == q with
  | some e => e.2.2
  | none => []

def jTriple {α β γ} (f : Json → R α) (g : Json → R β) (h : Json → R γ) (j : Json) : R (α × β × γ) := do
  let a ← j.getArr?
  if hh : a.size = 3 then pure (← f a[0], ← g a[1], ← h a[2]) else throw "triple expected"

def optList {α} (j : Json) (k : String) (f : Json → R α) : R (List α) :=
  match getOpt j k with
  | none => pure []
  | some v => jList f v

/-- table-backed primitives; points are their encodings -/
def tablePrims (j : Json) : R (Prims Bytes) := do
  let hm ← optList j "hm" (jTriple jBytes jBytes jBytes)
  let kdf ← optList j "kdf" (jTriple jBytes jBytes jBytes)
  let sha ← optList j "sha" (jPair jBytes jBytes)
  let sb ← optList j "sb" (jPair jNat jBytes)
  let sm ← optList j "sm" (jTriple jNat jBytes jBytes)
  let add ← optList j "add" (jTriple jBytes jBytes jBytes)
  let valid ← optList j "valid" jBytes
  let order ← match getOpt j "order" with
    | none => pure ed25519L
    | some v => jNat v
  pure {
    hmac512 := lookup2 hm
    pbkdf2 := lookup2 kdf
    sha512 := lookup1 sha
    smulBase := lookupN sb
    smul := lookupNB sm
    pointAdd := lookup2 add
    encodePoint := id
    decodePoint := fun b => if valid.contains b then some b else none
    order := order }

def jNode (j : Json) : R Node := do
  pure ⟨← getBytes j "xprv", ← getBytes j "pub", ← getBytes j "cc"⟩

def ofNode (w : Node) : Json :=
  Json.mkObj [("xprv", ofBytes w.xprv), ("pub", ofBytes w.pub), ("cc", ofBytes w.cc)]

def ofOpt {α} (f : α → Json) : Option α → Json
  | none => Json.null
  | some a => f a

/-- the queries one derivation step makes, for the harness to cross-check -/
def stepQueries (w : Node) (index : Int) (hardened : Bool) : List (String × Json) :=
  let idx := if hardened then index + 2 ^ 31 else index
  if 0 ≤ idx ∧ idx < 2 ^ 32 then
    let pre := preimages w idx.toNat
    [("final", ofInt idx), ("zmsg", ofBytes pre.1), ("cmsg", ofBytes pre.2), ("key", ofBytes w.cc)]
  else [("final", Json.null)]

def handleBip32 (op : String) (j : Json) : R Json := do
  match op with
  | "bip32.tweak" => pure (ofOpt ofBytes (tweakBits (← getBytes j "seed")))
  | "bip32.from_seed" =>
    let pr ← tablePrims j
    let seed ← getBytes j "seed"
    let sc := (tweakBits seed).map fun s => toHex (s.take 32)
    pure (Json.mkObj [("node", ofOpt ofNode (fromSeed pr seed)), ("scalar", ofOpt Json.str sc)])
  | "bip32.root" =>
    let pr ← tablePrims j
    let e ← getBytes j "entropy"
    let p ← getBytes j "passphrase"
    pure (Json.mkObj [("node", ofOpt ofNode (fromEntropy pr e p)),
      ("kdf_password", ofBytes p), ("kdf_salt", ofBytes e), ("entropy_ok", Json.bool (isEntropyLen e.length))])
  | "bip32.child" =>
    let pr ← tablePrims j
    let w ← jNode (← j.getObjVal? "node")
    let i ← getInt j "index"
    let h ← getBool j "hardened"
    let priv ← getBool j "private"
    pure (Json.mkObj (("node", ofOpt ofNode (derive pr w i priv h)) :: stepQueries w i h))
  | "bip32.path" =>
    pure (ofOpt (ofList (ofPair ofInt Json.bool)) (parsePath (← getStr j "path")))
  | "bip32.derive_from_path" =>
    let pr ← tablePrims j
    let w ← jNode (← j.getObjVal? "node")
    pure (ofOpt ofNode (deriveFromPath pr w (← getStr j "path") (← getBool j "private")))
  | "bip32.steps" =>
    let pr ← tablePrims j
    let w ← jNode (← j.getObjVal? "node")
    let steps ← jList (jPair jInt jBool) (← j.getObjVal? "steps")
    pure (ofOpt ofNode (deriveSteps pr (← getBool j "private") w steps))
  | "bip32.sign" =>
    let pr ← tablePrims j
    let w ← jNode (← j.getObjVal? "node")
    pure (ofOpt ofBytes (signWithNode pr w (← getBytes j "msg")))
  | "bip32.verify" =>
    let pr ← tablePrims j
    pure (Json.bool (verify pr (← getBytes j "pub") (← getBytes j "msg") (← getBytes j "sig")))
  | "bip32.scalarmult" =>
    let pr ← tablePrims j
    pure (ofOpt ofBytes (scalarmultBaseNoclamp pr (← getBytes j "n")))
  | _ => throw s!"unknown op {op}"

end Pyc.Driver
