import Pyc.Driver.Value
import Pyc.Model.Selection

namespace Pyc.Driver
open Lean Pyc.Sel

def selU (j : Json) : R U := do
  pure (⟨← getBytes j "txid", ← getNat j "ix"⟩, ← jValue (← j.getObjVal? "amount"))

def selOfU (u : U) : Json := Json.arr #[ofBytes u.1.txid, ofNat u.1.ix]

/-- a recorded selector outcome: `null` = raised a selection error, else the list it returned -/
def selOutcome (j : Json) : R (List U → Option (List U)) :=
  match j with
  | .null => pure (fun _ => none)
  | _ => do
    let l ← jList selU j
    pure (fun _ => some l)

def handleSelection (op : String) (j : Json) : R Json := do
  let explicit ← jList selU (← j.getObjVal? "explicit")
  let potential ← jList selU (← j.getObjVal? "potential")
  let addr ← jList (jList selU) (← j.getObjVal? "addr")
  let excluded ← jList selU (← j.getObjVal? "excluded")
  match op with
  | "sel.pool" => pure (ofList selOfU (gatherPool explicit potential addr excluded))
  | "sel.inputs" =>
    let outs ← jList selOutcome (← j.getObjVal? "selectors")
    match selectInputs explicit potential addr excluded (← getBool j "need_more") outs with
    | .ok l => pure (Json.mkObj [("inputs", ofList selOfU l)])
    | .error .conflict => pure (Json.mkObj [("err", "builder")])
    | .error .selection => pure (Json.mkObj [("err", "selection")])
  | _ => throw s!"unknown op {op}"

end Pyc.Driver
