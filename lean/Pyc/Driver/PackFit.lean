import Pyc.Driver.Builder
import Pyc.Model.PackFit

/-! Driver ops `pfit.*` (C08 extension PackFit).

`pfit.probe {p, addr, out, cur, pol, name, q}` → what `_adding_asset_make_output_overflow(output, cur, pol, name, q, max)`
decides and the two numbers it compares: `{"overflow", "len", "coin"}`;
`pfit.vlen {value}` → `{"len", "coin_len", "bundle_len"}` of `Value.to_cbor()`;
`pfit.pack {p, addr, change}` → the chunks of `_pack_tokens_for_change`, the `break` flag, `noSingleOver`, the number of
`(policy, name)` pairs, and per chunk the coin / size the code measured it with (under the change coin) and its size with its own minimum ADA;
`pfit.change {p, …builder.change arguments}` → outputs of `_calc_change` with the size of each value, `noSingleOver` of
the change value and `allFit`. -/

namespace Pyc.Driver
open Lean Pyc Pyc.Builder Pyc.PackFit

def pfChunk (p : Params) (addr : Bytes) (c0 : Int) (m : MultiAsset) : Json :=
  Json.mkObj [("ma", ofMultiAsset m),
    ("probe_coin", ofInt (probeCoin p addr c0 m)),
    ("probe_len", ofNat (probeLen p addr c0 m)),
    ("own_coin", ofInt (minAda p addr ⟨0, m⟩)),
    ("own_len", ofNat (vlen ⟨minAda p addr ⟨0, m⟩, m⟩))]

def handlePackFit (op : String) (j : Json) : R Json := do
  match op with
  | "pfit.vlen" =>
    let v ← jValue (← j.getObjVal? "value")
    pure (Json.mkObj [("len", ofNat (vlen v)), ("coin_len", ofNat (coinLen v.coin)), ("bundle_len", ofNat (bundleLen v.ma))])
  | "pfit.probe" =>
    let p ← bldParams (← j.getObjVal? "p")
    let addr ← getBytes j "addr"
    let out ← jValue (← j.getObjVal? "out")
    let cur ← jAsset (← j.getObjVal? "cur")
    let pol ← getBytes j "pol"
    let name ← getBytes j "name"
    let q ← getInt j "q"
    let attempt := MultiAsset.add [(pol, Asset.add cur [(name, q)])] out.ma
    pure (Json.mkObj [("overflow", Json.bool (overflow p addr out cur pol name q)),
      ("len", ofNat (probeLen p addr (0 + out.coin) attempt)), ("coin", ofInt (probeCoin p addr (0 + out.coin) attempt))])
  | "pfit.pack" =>
    let p ← bldParams (← j.getObjVal? "p")
    let addr ← getBytes j "addr"
    let ch ← jValue (← j.getObjVal? "change")
    let r := packTokens p addr ch
    pure (Json.mkObj [("arr", ofList ofMultiAsset r.1), ("break", Json.bool r.2),
      ("no_single_over", Json.bool (noSingleOver p addr ch)), ("pairs", ofNat (pairCount ch.ma)),
      ("chunks", Json.arr (r.1.map (pfChunk p addr ch.coin)).toArray)])
  | "pfit.change" =>
    let p ← bldParams (← j.getObjVal? "p")
    let a ← bldArgs p j
    let outs ← jList jValue (← j.getObjVal? "out_values")
    let a := { a with outputs := outs, respect := ← getBool j "respect" }
    let ch := changeOf a
    match calcChange p a with
    | .ok os =>
      pure (Json.mkObj [("outs", ofList ofOutput os), ("lens", ofList (fun (o : Output) => ofNat (vlen o.amount)) os),
        ("change", ofValue ch), ("no_single_over", Json.bool (noSingleOver p a.addr ch)), ("all_fit", Json.bool (allFit p os)),
        ("break", Json.bool (packTokens p a.addr ch).2)])
    | .error e => pure (ofErr e)
  | _ => throw s!"unknown op {op}"

end Pyc.Driver
