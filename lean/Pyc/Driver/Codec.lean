import Pyc.Driver.Util
import Pyc.Model.Codec
import Pyc.Proofs.Typed
import Pyc.Generated.Schema

namespace Pyc.Driver
open Lean Pyc.Codec Pyc.Cbor

partial def cdVal (j : Json) : R Val := do
  if let some v := getOpt j "i" then return .int (← jInt v)
  if let some v := getOpt j "b" then return .bytes (← jBytes v)
  if let some v := getOpt j "s" then return .text (← jBytes v)
  if let some v := getOpt j "t" then return .bool (← jBool v)
  if let some v := getOpt j "q" then
    let p ← jPair jInt jInt v
    return .frac p.1 p.2
  if let some v := getOpt j "l" then return .list (← jList cdVal v)
  if let some v := getOpt j "d" then return .dict (← jList (jPair cdVal cdVal) v)
  if let some v := getOpt j "os" then
    let a ← v.getArr?
    if h : a.size = 2 then return .oset (← jBool a[0]) (← jList cdVal a[1]) else throw "os"
  if let some v := getOpt j "o" then
    let a ← v.getArr?
    if h : a.size = 2 then return .obj (← a[0].getStr?) (← jList cdVal a[1]) else throw "o"
  if let some v := getOpt j "cb" then return .cb (← jBytes v)
  if let some v := getOpt j "e" then return .enum (← jInt v)
  if let some v := getOpt j "raw" then
    let b ← jBytes v
    match decodeAll b with
    | some i => return .opaque i
    | none => throw "raw: not a single well-formed CBOR item"
  match j.getObjVal? "n" with
  | .ok _ => return .none
  | .error _ => throw s!"bad Val {j.compress}"

partial def cdOfVal : Val → Json
  | .int i => Json.mkObj [("i", ofInt i)]
  | .bytes b => Json.mkObj [("b", ofBytes b)]
  | .text b => Json.mkObj [("s", ofBytes b)]
  | .bool b => Json.mkObj [("t", Json.bool b)]
  | .none => Json.mkObj [("n", Json.null)]
  | .frac n d => Json.mkObj [("q", Json.arr #[ofInt n, ofInt d])]
  | .list xs => Json.mkObj [("l", Json.arr (xs.map cdOfVal).toArray)]
  | .dict kvs => Json.mkObj [("d", Json.arr (kvs.map (fun kv => Json.arr #[cdOfVal kv.1, cdOfVal kv.2])).toArray)]
  | .oset t xs => Json.mkObj [("os", Json.arr #[Json.bool t, Json.arr (xs.map cdOfVal).toArray])]
  | .obj c fs => Json.mkObj [("o", Json.arr #[Json.str c, Json.arr (fs.map cdOfVal).toArray])]
  | .cb b => Json.mkObj [("cb", ofBytes b)]
  | .enum v => Json.mkObj [("e", ofInt v)]
  | .opaque i => Json.mkObj [("raw", ofBytes (encode i))]

def cdRes : Res Val → Json
  | .ok v => Json.mkObj [("val", cdOfVal v), ("reenc", ofBytes (encodeVal Pyc.Generated.repoSchema v))]
  | .deser => Json.mkObj [("err", "deser")]
  | .crash => Json.mkObj [("err", "crash")]

def handleCodec (op : String) (j : Json) : R Json := do
  match op with
  | "codec.ping" => pure (Json.str "pong")
  | "codec.enc" => pure (ofBytes (encodeVal Pyc.Generated.repoSchema (← cdVal (← j.getObjVal? "v"))))
  | "codec.dec" =>
    let b ← getBytes j "hex"
    match decodeAll b with
    | none => pure (Json.mkObj [("err", "cbor")])
    | some i => pure (cdRes (fromPrim Pyc.Generated.repoSchema 200 (.cls (← getStr j "cls")) i))
  | "codec.typed" =>
    -- is the value within the scope of the generic round-trip theorem (`HasType`, by the sound check `typedB`)?
    pure (Json.bool (typedB Pyc.Generated.repoSchema 200 (.cls (← getStr j "cls")) (← cdVal (← j.getObjVal? "v"))))
  | "cbor.reenc" =>
    let b ← getBytes j "hex"
    match decodeAll b with
    | none => pure (Json.mkObj [("err", "cbor")])
    | some i => pure (ofBytes (encode i))
  | _ => throw s!"unknown op {op}"

end Pyc.Driver
