import Pyc.Driver.Util
import Pyc.Driver.Value
import Pyc.Model.Codec
import Pyc.Model.CustomCodec
import Pyc.Proofs.Typed
import Pyc.Proofs.CustomCodec
import Pyc.Generated.Schema

namespace Pyc.Driver
open Lean Pyc.Codec Pyc.Cbor

partial def cdVal (j : Json) : R Val := do
  if let some v := getOpt j "i" then return .int (← jInt v)
  if let some v := getOpt j "b" then return .bytes (← jBytes v)
  if let some v := getOpt j "s" then return .text (← jBytes v)
  if let some v := getOpt j "t" then return .bool (← jBool v)
  if let some v := getOpt j "q" then
    let p ← jPair jInt jInt v
    return .frac p.1 p.2
  if let some v := getOpt j "l" then return .list (← jList cdVal v)
  if let some v := getOpt j "d" then return .dict (← jList (jPair cdVal cdVal) v)
  if let some v := getOpt j "os" then
    let a ← v.getArr?
    if h : a.size = 2 then return .oset (← jBool a[0]) (← jList cdVal a[1]) else throw "os"
  if let some v := getOpt j "o" then
    let a ← v.getArr?
    if h : a.size = 2 then return .obj (← a[0].getStr?) (← jList cdVal a[1]) else throw "o"
  if let some v := getOpt j "cb" then return .cb (← jBytes v)
  if let some v := getOpt j "e" then return .enum (← jInt v)
  if let some v := getOpt j "raw" then
    let b ← jBytes v
    match decodeAll b with
    | some i => return .opaque i
    | none => throw "raw: not a single well-formed CBOR item"
  match j.getObjVal? "n" with
  | .ok _ => return .none
  | .error _ => throw s!"bad Val {j.compress}"

partial def cdOfVal : Val → Json
  | .int i => Json.mkObj [("i", ofInt i)]
  | .bytes b => Json.mkObj [("b", ofBytes b)]
  | .text b => Json.mkObj [("s", ofBytes b)]
  | .bool b => Json.mkObj [("t", Json.bool b)]
  | .none => Json.mkObj [("n", Json.null)]
  | .frac n d => Json.mkObj [("q", Json.arr #[ofInt n, ofInt d])]
  | .list xs => Json.mkObj [("l", Json.arr (xs.map cdOfVal).toArray)]
  | .dict kvs => Json.mkObj [("d", Json.arr (kvs.map (fun kv => Json.arr #[cdOfVal kv.1, cdOfVal kv.2])).toArray)]
  | .oset t xs => Json.mkObj [("os", Json.arr #[Json.bool t, Json.arr (xs.map cdOfVal).toArray])]
  | .obj c fs => Json.mkObj [("o", Json.arr #[Json.str c, Json.arr (fs.map cdOfVal).toArray])]
  | .cb b => Json.mkObj [("cb", ofBytes b)]
  | .enum v => Json.mkObj [("e", ofInt v)]
  | .opaque i => Json.mkObj [("raw", ofBytes (encode i))]

def cdRes : Res Val → Json
  | .ok v => Json.mkObj [("val", cdOfVal v), ("reenc", ofBytes (encodeVal Pyc.Generated.repoSchema v))]
  | .deser => Json.mkObj [("err", "deser")]
  | .crash => Json.mkObj [("err", "crash")]

def handleCodec (op : String) (j : Json) : R Json := do
  match op with
  | "codec.ping" => pure (Json.str "pong")
  | "codec.enc" => pure (ofBytes (encodeVal Pyc.Generated.repoSchema (← cdVal (← j.getObjVal? "v"))))
  | "codec.dec" =>
    let b ← getBytes j "hex"
    match decodeAll b with
    | none => pure (Json.mkObj [("err", "cbor")])
    | some i => pure (cdRes (fromPrim Pyc.Generated.repoSchema 100000 (.cls (← getStr j "cls")) i))
  | "codec.typed" =>
    -- is the value within the scope of the generic round-trip theorem (`HasType`, by the sound check `typedB`)?
    pure (Json.bool (typedB Pyc.Generated.repoSchema 100000 (.cls (← getStr j "cls")) (← cdVal (← j.getObjVal? "v"))))
  | "cbor.reenc" =>
    let b ← getBytes j "hex"
    match decodeAll b with
    | none => pure (Json.mkObj [("err", "cbor")])
    | some i => pure (ofBytes (encode i))
  | _ => throw s!"unknown op {op}"

/-! ## hand-written codecs (`Model/CustomCodec.lean`): ops `custom.*`

JSON: a value is `{"coin": "<int>", "ma": [[policy hex, [[name hex, "<int>"], …]], …]}` (as in `Driver/Value.lean`);
an output is `{"addr": hex, "amount": value, "dh": hex | null, "datum": hex | null, "script": null | {"native": hex} |
{"plutus": [version, hex]}, "pa": bool}` where `addr`, `datum` and a native script are the CBOR bytes of the
primitive the implementation wrote for that leaf (`Leaf.raw`). -/

open Pyc.Custom

def rawLeaves : Leaves Item Item Item := ⟨Leaf.raw, Leaf.raw, Leaf.raw⟩

def jCItemHex (j : Json) : R Item := do
  let b ← jBytes j
  match decodeAll b with
  | some i => pure i
  | none => throw "not a single well-formed CBOR item"

def jCScript (j : Json) : R (Script Item) := do
  if let some v := getOpt j "native" then return .native (← jCItemHex v)
  if let some v := getOpt j "plutus" then
    let p ← jPair jNat jBytes v
    return .plutus p.1 p.2
  throw "bad script"

def jCOutput (j : Json) : R (Output Item Item Item) := do
  let addr ← jCItemHex (← j.getObjVal? "addr")
  let amount ← jValue (← j.getObjVal? "amount")
  let dh ← match getOpt j "dh" with
    | some v => do pure (some (← jBytes v))
    | none => pure Option.none
  let datum ← match getOpt j "datum" with
    | some v => do pure (some (← jCItemHex v))
    | none => pure Option.none
  let script ← match getOpt j "script" with
    | some v => do pure (some (← jCScript v))
    | none => pure Option.none
  pure ⟨addr, amount, dh, datum, script, ← getBool j "pa"⟩

def ofCScript : Script Item → Json
  | .native i => Json.mkObj [("native", ofBytes (encode i))]
  | .plutus v b => Json.mkObj [("plutus", Json.arr #[ofNat v, ofBytes b])]

def ofCOpt {α : Type} (f : α → Json) : Option α → Json
  | some a => f a
  | none => Json.null

def ofCOutput (o : Output Item Item Item) : Json :=
  Json.mkObj [("addr", ofBytes (encode o.address)), ("amount", ofValue o.amount), ("dh", ofCOpt ofBytes o.datumHash),
    ("datum", ofCOpt (fun i => ofBytes (encode i)) o.datum), ("script", ofCOpt ofCScript o.script), ("pa", Json.bool o.postAlonzo)]

def cErrJson (e : String) : Json := Json.mkObj [("err", Json.str e)]

def handleCustom (op : String) (j : Json) : R Json := do
  match op with
  | "custom.value.enc" =>
    let v ← jValue (← j.getObjVal? "a")
    pure (Json.mkObj [("hex", ofBytes (encValueBytes v)), ("inscope", Json.bool (valueOkB v)),
      ("norm", ofValue (normValue v)), ("eq_orig", Json.bool (Value.eq (normValue v) v))])
  | "custom.value.dec" =>
    match decValueBytes (← getBytes j "hex") with
    | .ok v => pure (Json.mkObj [("val", ofValue v), ("reenc", ofBytes (encValueBytes v))])
    | .deser => pure (cErrJson "deser")
    | .crash => pure (cErrJson "crash")
  | "custom.output.enc" =>
    -- "o" holds the constructor ARGUMENTS; the constructed object is `normOutput` of them (`__post_init__`)
    let o := normOutput (← jCOutput (← j.getObjVal? "o"))
    if outputValid o then
      -- `inscope`: the executable part of `OutputOk` (well-formed amount, 32-byte datum hash, Plutus version 1-3); the
      -- CBOR-representability of the embedded leaf primitives holds for anything that crossed the pipe as CBOR bytes
      let inscope := valueOkB o.amount && (match o.datumHash with | some h => h.length == 32 | none => true) &&
        (match o.script with | some (.plutus v _) => v == 1 || v == 2 || v == 3 | _ => true)
      pure (Json.mkObj [("hex", ofBytes (encOutputBytes rawLeaves o)), ("form", Json.str (if mapForm o then "map" else "legacy")),
        ("decoded", ofCOutput (decodedOutput o)), ("constructed", ofCOutput o), ("inscope", Json.bool inscope)])
    else pure (cErrJson "invalid")
  | "custom.output.dec" =>
    match decOutputBytes rawLeaves (← getBytes j "hex") with
    | .ok o => pure (Json.mkObj [("o", ofCOutput o), ("reenc", ofBytes (encOutputBytes rawLeaves o))])
    | .deser => pure (cErrJson "deser")
    | .crash => pure (cErrJson "crash")
  | "custom.body.postinit" =>
    -- the normal form of a dataclass value under decode ∘ encode (this tree has no `TransactionBody.__post_init__`:
    -- the constructor stores what it is given, the normalisation happens in the decoder)
    let v ← cdVal (← j.getObjVal? "v")
    let nv := bodyNorm Pyc.Generated.repoSchema v
    let cls ← getStr j "cls"
    pure (Json.mkObj [("norm", cdOfVal nv), ("typed", Json.bool (typedB Pyc.Generated.repoSchema 100000 (.cls cls) nv)),
      ("enc", ofBytes (encodeVal Pyc.Generated.repoSchema v)),
      ("dec", cdRes (fromPrim Pyc.Generated.repoSchema 100000 (.cls cls) (toPrim Pyc.Generated.repoSchema v)))])
  | _ => throw s!"unknown op {op}"

end Pyc.Driver
