import Pyc.Driver.Output
import Pyc.Model.Collateral

namespace Pyc.Driver
open Lean Pyc.Collateral

def colJUtxo (j : Json) : R Utxo := do
  pure { txid := ← getBytes j "txid", ix := ← getNat j "ix", out := ← jOutput (← j.getObjVal? "out") }

def colJState (j : Json) : R State := do
  pure { inputs := ← jList colJUtxo (← j.getObjVal? "inputs"),
         potential := ← jList colJUtxo (← j.getObjVal? "potential"),
         addrUtxos := ← jList colJUtxo (← j.getObjVal? "addr_utxos"),
         explicit := ← jList colJUtxo (← j.getObjVal? "explicit"),
         hasScripts := ← getBool j "has_scripts",
         retAddr := ← optBytesField j "ret_addr",
         threshold := ← getInt j "threshold",
         refScriptSize := ← getInt j "ref_size",
         feeBuffer := (match j.getObjVal? "fee_buffer" with
           | .ok v => (match v.getInt? with | .ok i => i | .error _ => 0)
           | .error _ => 0) }

def colJParams (j : Json) : R Params := do
  pure { fee := ← jFeeParams (← j.getObjVal? "params"), percent := ← getInt j "percent", cpb := ← getInt j "cpb",
         maxCollateralInputs := ← getNat j "max_inputs" }

def colOfErr : Err → String
  | .refScriptSize => "ref-script-size"
  | .tooMany => "too-many"
  | .insufficient => "insufficient"
  | .returnBelowMin => "return-below-min"

def colOfRef (u : Utxo) : Json := Json.arr #[ofBytes u.txid, ofNat u.ix]

def colOfResult : Except Err Result → Json
  | .error e => Json.mkObj [("err", Json.str (colOfErr e))]
  | .ok r =>
    Json.mkObj [
      ("collaterals", ofList colOfRef r.collaterals),
      ("body", ofList colOfRef (bodyCollateral r.collaterals)),
      ("ret", match r.ret with
        | none => Json.null
        | some o => Json.mkObj [("addr", ofBytes o.addr), ("amount", ofValue o.amount)]),
      ("total", match r.total with
        | none => Json.null
        | some t => ofInt t)]

/-- op `collateral`: {inputs, potential, addr_utxos, explicit: [{txid, ix, out}], has_scripts, ret_addr, threshold,
ref_size, params (fee parameters), percent, cpb, max_inputs} -> {collaterals (in order, with multiplicity), body
(de-duplicated), ret, total} | {err}.  op `collateral.amount`: the collateral amount itself. -/
def handleCollateral (op : String) (j : Json) : R Json := do
  match op with
  | "collateral" => pure (colOfResult (run (← colJParams j) (← colJState j)))
  | "collateral.amount" =>
    pure (match collateralAmount (← colJParams j) (← getInt j "ref_size") with
      | none => Json.mkObj [("err", Json.str "ref-script-size")]
      | some a => ofInt a)
  | "collateral.order" => pure (ofList colOfRef (popOrder (← jList colJUtxo (← j.getObjVal? "utxos"))))
  | _ => throw s!"unknown op {op}"

end Pyc.Driver
