import Pyc.Driver.Util
import Pyc.Model.Ids

/-! Driver ops for C17.

* `id` — `{kind, ...}` → `{"len": "<n>", "pre": "<hex>"}` (or `null` when the object carries no identifier, e.g. a
  transaction without auxiliary data).  Kinds: `body` / `datum` / `aux` (`bytes`: the CBOR the harness obtained; decoded
  to an item and re-encoded by the model), `tx.body` / `tx.aux` (`tx`: a whole serialized transaction), `vkey` / `xvkey`
  (`bytes`: key payload), `script` / `policy` / `scriptaddr` (`script`: see `idsScript`), `asset` (`policy`, `name`),
  `size` (`cls`: a `ConstrainedBytes` class name → its fixed size).
* `script.gate` — `{cred, own, addr, offer}` with scripts given as `{"h": <hash hex>, "truthy": bool}` (hashes are
  computed by the caller: the model is parametric in the hash function) → `{"src": ..., "i": n, "ref": bool}` or
  `{"err": ...}`. -/

namespace Pyc.Driver
open Lean Pyc Pyc.Ids

partial def idsNScript (j : Json) : R NScript := do
  let a ← j.getArr?
  if a.size < 2 then throw "native script: [kind, ...] expected"
  match a[0]! with
  | .str "pk" => pure (.pubkey (← jBytes a[1]!))
  | .str "all" => pure (.all (← jList idsNScript a[1]!))
  | .str "any" => pure (.any (← jList idsNScript a[1]!))
  | .str "nofk" =>
    if a.size < 3 then throw "nofk: [kind, n, scripts] expected"
    pure (.nofk (← jInt a[1]!) (← jList idsNScript a[2]!))
  | .str "before" => pure (.before (← jInt a[1]!))
  | .str "after" => pure (.hereafter (← jInt a[1]!))
  | _ => throw "native script kind"

def idsLang (n : Nat) : R Lang :=
  if n = 1 then pure .v1 else if n = 2 then pure .v2 else if n = 3 then pure .v3 else throw "lang must be 1, 2 or 3"

/-- `{"t": "native", "s": tree}` | `{"t": "plutus", "lang": 1|2|3, "bytes": hex}` | `{"t": "raw", "bytes": hex}` -/
def idsScript (j : Json) : R Script := do
  match ← getStr j "t" with
  | "native" => pure (.native (← idsNScript (← j.getObjVal? "s")))
  | "plutus" => pure (.plutus (← idsLang (← getNat j "lang")) (← getBytes j "bytes"))
  | "raw" => pure (.raw (← getBytes j "bytes"))
  | t => throw s!"bad script kind {t}"

def idsOfId (i : Id) : Json := Json.mkObj [("len", ofNat i.len), ("pre", ofBytes i.pre)]

/-- whole-string decode with fuel for any nesting (`Cbor.decode` spends one unit per array element and per level) -/
def idsItem (b : Bytes) : R Cbor.Item :=
  match Cbor.decode (2 * b.length + 8) b with
  | some (x, []) => pure x
  | _ => throw "not a single well-formed CBOR item"

/-- `{"h": hex, "truthy": bool}` or `null` -/
def idsHashed (j : Json) : R (Option (Bytes × Bool)) :=
  match j with
  | .null => pure none
  | _ => do pure (some (← getBytes j "h", ← getBool j "truthy"))

def idsSomeHashed (j : Json) : R (Bytes × Bool) := do
  match ← idsHashed j with
  | some s => pure s
  | none => throw "script expected"

def idsOffer (j : Json) : R (Offer (Bytes × Bool)) := do
  match ← getStr j "k" with
  | "none" => pure .none
  | "ref" => pure (.refUtxo (← idsHashed ((j.getObjVal? "s").toOption.getD .null)))
  | "script" => pure (.script (← idsSomeHashed (← j.getObjVal? "s")))
  | k => throw s!"bad offer kind {k}"

def idsOfSrc : Src → List (String × Json)
  | .own => [("src", "own")]
  | .atAddress i => [("src", "addr"), ("i", ofNat i)]
  | .offeredRef => [("src", "ref")]
  | .offered => [("src", "offered")]

def handleIds (op : String) (j : Json) : R Json := do
  match op with
  | "id" =>
    match ← getStr j "kind" with
    | "body" => pure (idsOfId (idOf (.txBody (← idsItem (← getBytes j "bytes")))))
    | "datum" => pure (idsOfId (idOf (.datum (← idsItem (← getBytes j "bytes")))))
    | "aux" => pure (idsOfId (idOf (.auxData (← idsItem (← getBytes j "bytes")))))
    | "tx.body" =>
      match txParts (← idsItem (← getBytes j "tx")) with
      | some (b, _, _, _) => pure (idsOfId (idOf (.txBody b)))
      | none => throw "transaction: array of four expected"
    | "tx.aux" =>
      match txParts (← idsItem (← getBytes j "tx")) with
      | some (_, _, _, a) => pure (if isNull a then Json.null else idsOfId (idOf (.auxData a)))
      | none => throw "transaction: array of four expected"
    | "vkey" => pure (idsOfId (idOf (.vkey (← getBytes j "bytes"))))
    | "xvkey" => pure (idsOfId (idOf (.xvkey (← getBytes j "bytes"))))
    | "script" => pure (idsOfId (idOf (.script (← idsScript (← j.getObjVal? "script")))))
    | "policy" => pure (idsOfId (idOf (.policy (← idsScript (← j.getObjVal? "script")))))
    | "scriptaddr" => pure (idsOfId (idOf (.scriptAddr (← idsScript (← j.getObjVal? "script")))))
    | "asset" =>
      let i := idOf (.asset (← getBytes j "policy") (← getBytes j "name"))
      pure (Json.mkObj [("len", ofNat i.len), ("pre", ofBytes i.pre), ("hrp", Json.str (String.ofList fingerprintHrp))])
    | "size" =>
      match constrainedSize (← getStr j "cls") with
      | some n => pure (ofNat n)
      | none => pure Json.null
    | k => throw s!"unknown id kind {k}"
  | "script.gate" =>
    let cred ← getBytes j "cred"
    let own ← idsHashed ((j.getObjVal? "own").toOption.getD .null)
    let addr ← jList idsHashed (← j.getObjVal? "addr")
    let offer ← idsOffer (← j.getObjVal? "offer")
    -- which candidate UTxOs are the spent UTxO itself (`candidate_utxo != utxo`)
    let same ← jList jNat ((j.getObjVal? "same").toOption.getD (.arr #[]))
    let refIsSpent := match j.getObjVal? "ref_is_spent" with
      | .ok (.bool b) => b
      | _ => false
    match addScriptInput (fun s => s.2) (fun s => s.1) cred own addr offer with
    | .ok (_, src) =>
      pure (Json.mkObj (idsOfSrc src ++ [("ref", Json.bool (usesReference (fun i => same.contains i) refIsSpent src))]))
    | .error .refWithoutScript => pure (Json.mkObj [("err", "ref-without-script")])
    | .error .noValidScript => pure (Json.mkObj [("err", "no-valid-script")])
  | _ => throw s!"unknown op {op}"

end Pyc.Driver
