import Pyc.Driver.Value
import Pyc.Driver.Canonical
import Pyc.Driver.Output
import Pyc.Driver.Builder
import Pyc.Driver.Codec
import Pyc.Driver.Selection
import Pyc.Driver.Addr
import Pyc.Driver.Backends
import Pyc.Driver.Bip32
import Pyc.Driver.CoinSel
import Pyc.Driver.Plutus
import Pyc.Driver.Cip8
import Pyc.Driver.Collateral
import Pyc.Driver.Ids
import Pyc.Driver.Witness
import Pyc.Driver.Redeemers
import Pyc.Driver.Leaves
import Pyc.Driver.SizeDom
import Pyc.Driver.Metadata
import Pyc.Driver.NativeScript
import Pyc.Driver.Pool
import Pyc.Driver.WitnessCodec
import Pyc.Driver.BodyAsm
import Pyc.Driver.Gov
import Pyc.Driver.PackFit
import Pyc.Driver.Compose
open Lean Pyc.Driver

/-- dispatch on the prefix of `op` -/
def dispatch (op : String) (j : Json) : R Json :=
  if op.startsWith "value." || op.startsWith "ma." || op.startsWith "asset." then handleValue op j
  else if op.startsWith "addr." || op.startsWith "ptr." || op.startsWith "bech32." then handleAddr op j
  else if op.startsWith "enc." then handleEnc op j
  else if op.startsWith "out." || op.startsWith "fee." then handleOutput op j
  else if op.startsWith "builder." then handleBuilder op j
  else if op.startsWith "codec." || op.startsWith "cbor." then handleCodec op j
  else if op.startsWith "custom." then handleCustom op j
  else if op.startsWith "gov." then handleGov op j
  else if op.startsWith "sel." then handleSelection op j
  else if op.startsWith "backend." then handleBackend op j
  else if op.startsWith "bip32." then handleBip32 op j
  else if op == "select" then handleSelect op j
  else if op.startsWith "plutus." then handlePlutus op j
  else if op.startsWith "cip8." then handleCip8 op j
  else if op == "collateral" || op.startsWith "collateral." then handleCollateral op j
  else if op == "id" || op == "script.gate" then handleIds op j
  else if op.startsWith "witness." then handleWitness op j
  else if op == "ranks" || op == "views" || op.startsWith "sdh." || op.startsWith "rd." then handleRedeemers op j
  else if op.startsWith "leaf." then handleLeaf op j
  else if op.startsWith "dom." then handleSizeDom op j
  else if op.startsWith "md." then handleMetadata op j
  else if op.startsWith "ns." then handleNativeScript op j
  else if op.startsWith "pool." then handlePool op j
  else if op.startsWith "wc." then handleWitnessCodec op j
  else if op.startsWith "basm." then handleBodyAsm op j
  else if op.startsWith "pfit." then handlePackFit op j
  else if op.startsWith "cmp." then handleCompose op j
  else throw s!"unknown op {op}"

def handleLine (line : String) : String :=
  match Json.parse line with
  | .error e => (Json.mkObj [("fail", Json.str s!"parse: {e}")]).compress
  | .ok j =>
    match getStr j "op" with
    | .error e => (Json.mkObj [("fail", Json.str e)]).compress
    | .ok op =>
      match dispatch op j with
      | .ok r => (Json.mkObj [("ok", r)]).compress
      | .error e => (Json.mkObj [("fail", Json.str e)]).compress

partial def loop (hin : IO.FS.Stream) (hout : IO.FS.Stream) : IO Unit := do
  let line ← hin.getLine
  if line.isEmpty then return ()
  hout.putStrLn (handleLine line)
  hout.flush
  loop hin hout

def main : IO Unit := do loop (← IO.getStdin) (← IO.getStdout)
