"""Regenerates /verif/MANIFEST.json from the table below (run: /venv/bin/python harness/mkmanifest.py)."""
import json
from pathlib import Path

VERIF = Path(__file__).resolve().parents[1]
ALL = [f"C{i:02d}" for i in range(1, 21)]

TB = ("Trusted: Lean 4.33 kernel; axioms propext / Classical.choice / Quot.sound only (audited by `#print axioms` on "
      "every run; no sorry, native_decide, bv_decide or user axioms); the correspondence harness and its generators; ")

CHECKS = {
    "C01": dict(
        text="T1: the codec tables (kinds, keys, positions, optional flags, defaults, union alternatives, hash sizes) are "
             "regenerated from /repo's live classes on every run and the kernel re-checks (decide +kernel) that the table "
             "is well-formed and that the certificate / governance-action unions dispatch unambiguously; Lean generic "
             "codec interpreter over that table with theorems on the table-driven fragment; T2: type-directed generation "
             "over all extracted classes comparing bytes, decoded values and re-encodings of model and implementation, plus "
             "direct evaluation of decode(encode(x)) == x and re-encode equality. Extensions (Props/C01_*.lean, "
             "checks/c01_ext_*.py; DESIGN 0.9): hand-written codecs modelled one by one with their own theorems and differential "
             "runs (addresses as output leaf, native scripts, credentials / DRep / voters / votes / action ids, pool registration "
             "and relays incl. the libc address conversions, metadata and auxiliary data, witness sets / redeemers / key "
             "envelopes); a kernel-checked obligation that every class of /repo with hand-written codec code is accounted for; "
             "and the generic restorer composed with the leaf decoders (fromPrimL, compose_roundtrip), tied by encodings "
             "damaged inside a leaf.",
        ref="3 C01", technique="Lean 4 proof over a schema regenerated from the source (translator) + generic codec model/implementation correspondence",
        note=TB + "the union side condition is a premise of the typing rule, discharged per value (typedB); Value / MultiAsset / "
                  "Asset, TransactionOutput and the decode-time list/set normalisation of TransactionBody have their own Lean "
                  "models and round-trip theorems (Model/CustomCodec.lean, checks/c01_custom.py); every other class with hand-written "
                  "codec code has a model of its own in an extension (Props/C01_Overrides.lean lists them and is re-checked against "
                  "the live classes) except CostModels, judged on the implementation only; Plutus data inside datums / redeemers is "
                  "carried as the restored primitive (C18 models it); recorded defect KF-C01-both-datums."),
    "C02": dict(
        text="T1: the codec table regenerated from /repo's live classes is compared, inside the kernel (decide +kernel), with a "
             "table transliterated by hand from the Conway CDDL (Pyc/Spec/Conway.lean): per class the codec kind and type code, "
             "per field the map key / array position, optional flag and type term (set-vs-list, union alternatives, hash "
             "sizes); theorem: tables that match field-wise encode every value to the same item (`refines_sound`). T2: an "
             "independent reference encoder written from the CDDL (harness/ref/conway.py) generates spec-level transactions "
             "covering every body key, certificate / action / voter / relay kind, output form, redeemer and auxiliary-data "
             "form, and its bytes are compared with pycardano's for the whole transaction and for each part; the Lean codec "
             "model is run on the same objects (`codec.enc`). Extensions (Props/C02_*.lean, checks/c02_ext_*.py): for native "
             "scripts, credentials and governance items, pool registration / relays, metadata / auxiliary data and the witness "
             "set, an independent Lean transliteration of the CDDL rule (Spec/*.lean: encoder of spec content and recogniser of "
             "items) and theorems `toItem x = spec x`, `recogniser accepts what is written`, `what the rule admits is decoded "
             "and written back unchanged`; the constructor codes, enumerations and map keys those models assume are re-checked "
             "against the regenerated table (Props/C02_Consts.lean).",
        ref="3 C02", technique="Lean 4 proof over a schema regenerated from the source (translator) against a specification table + reference-encoder correspondence",
        note=TB + "the specification table and the reference encoder are hand transliterations of the Conway CDDL (trusted); "
                  "classes with a hand-written to_primitive have conformance theorems of their own in the extensions where listed above; "
                  "addresses (C15), values (C04), outputs and Plutus data (C18) are judged by the reference encoder on the "
                  "implementation for this property."),
    "C03": dict(
        text="Lean theorems: CBOR byte-level round trip with framing for every well-formed item (definite / indefinite arrays, "
             "chunked strings, tags); decode-then-re-encode is the identity on bytes for every typed value of every schema table "
             "(so the id, a function of the body bytes, is preserved); the set tag flag is part of the restored value. Tied to "
             "/repo by a reference encoder emitting every supported wire variant (tagged / untagged per set site, legacy / map "
             "outputs, datum forms, reference scripts, indefinite lists, optional subsets, 0..6 elements) and comparing body bytes "
             "and id after Transaction.from_cbor(...).to_cbor(), in-process (pure back end) and in sub-processes crossing "
             "{pure, C extension} x PYTHONHASHSEED; the Lean CBOR and codec layers are run on the same bytes.",
        ref="3 C03", technique="Lean 4 proof (decode/re-encode identity on the image) + wire-variant correspondence incl. back-end / hash-seed sub-processes",
        note=TB + "PARTIAL: TransactionBody, outputs, values and Plutus data have hand-written codecs and are opaque leaves of the "
                  "typed model — for them the theorem says their CBOR item survives, and their own restoration is judged on the "
                  "implementation; the C extension and the interpreter hash seed cannot be expressed in a model of the Python "
                  "code and are exercised on the implementation only (since repair 128fdec both back ends pass). All recorded C03 "
                  "defects have been repaired in /repo."),
    "C04": dict(
        text="Lean theorems over the model of DictCBORSerializable's canonical sort and of Asset/MultiAsset/Value "
             "serialization: encoded bytes are a function of content (any two insertion orders / stored zeros / empty "
             "policies / arithmetic histories with equal content give equal bytes), keys emitted strictly sorted by "
             "(length of encoding, bytes), no zero quantity or empty policy emitted, bare integer iff no asset, "
             "reachable states of insert/add/sub/normalize histories stay valid. Tied to /repo by differential runs "
             "over histories and six dict-like classes, judged against an independent reference encoder.",
        ref="3 C04", technique="Lean 4 proof (canonical form is a function of content) + model/implementation correspondence",
        note=TB + "cbor2's byte-level encoder is modelled by Cbor.encode and compared byte for byte on every case; "
                  "decode/encode steps of histories are covered by the differential run, not by a theorem."),
    "C05": dict(
        text="Lean theorems over the Python-faithful association-list model of Asset/MultiAsset/Value: add/sub exact per "
             "asset over unbounded Int, results normal, == component-wise on normal operands, <= / < component-wise for ALL "
             "operands (le_iff without hypotheses, since the repair of KF-C05-le-negative), commutativity, associativity, "
             "a+b-b=a, a-a=0. Tied to "
             "/repo by differential runs of model driver vs implementation on operand pairs and shared-variable histories.",
        ref="3 C05", technique="Lean 4 proof (refinement to asset -> Int) + model/implementation correspondence",
        note=TB + "operand immutability / aliasing freedom of the implementation is shown by the differential run only."),
    "C06": dict(
        text="Lean theorems over the model of the builder's accounting core (deposit totals, _calc_change, "
             "_pack_tokens_for_change, _merge_changes): the deposit total equals the ledger's per-certificate deposits and "
             "refunds; token packing loses and duplicates nothing; change = provided - requested in ADA and every asset; "
             "hence inputs + withdrawals + mint = outputs + fee + net deposits for every fee value. Tied to /repo by running "
             "the model on the inputs the real build() selected and comparing all outputs; the balance equation itself is "
             "evaluated on the serialized body by an independent ledger reader. Extension BodyAsm (Props/C06_BodyAsm.lean): "
             "model of _build_tx_body and of the tail of build(); the body equals the builder state field by field, and the "
             "ledger's consumed = produced ON THE BODY follows from the accounting theorems on the state.",
        ref="3 C06", technique="Lean 4 proof (conservation invariant of the accounting model) + model/implementation correspondence",
        note=TB + "the theorems cover the accounting after input selection (selection is C14 / C09); the hypotheses "
                  "(selected inputs cover the request, packing size-break not taken) are checked per scenario by the "
                  "differential run; liveness for ADA-only wallets is evaluated on the implementation only."),
    "C07": dict(
        text="Lean theorems (Mathlib Rat / ceil / floor) over the exact-rational model of utils.fee / max_tx_fee / "
             "tiered_reference_script_fee: fee = sum of exact ceilings; tier fee = ceiling of the closed form over k full "
             "tiers with loop termination; ledger minimum <= fee <= ledger minimum + 2 for integer coefficients; "
             "monotonicity in the size; CBOR head lengths monotone. Tied to /repo by differential runs on rational grids. "
             "Extension SizeDom (Props/C07_SizeDom.lean): a structural relation domB on CBOR items with dom_size "
             "(domB fake real -> size real <= size fake, all items), composed with the fee formula, the builder's fee loop "
             "and the ledger minimum (built_fee_covers_ledger); the relation is evaluated on every build between the recorded "
             "fake transaction of the last estimate and the signed transaction. Sufficiency and tightness of built "
             "transactions are also evaluated on the final signed bytes with Fractions.",
        ref="3 C07", technique="Lean 4 proof (fee formulas over exact rationals; size dominance of the fake transaction) + model/implementation correspondence",
        note=TB + "PARTIAL: the construction of the fake transaction is not transliterated (only the placeholder witnesses "
                  "are); that it dominates the signed transaction is a relation evaluated per build, from which sufficiency follows by "
                  "theorem; tightness is _partial (slack and loop overshoot are measured, not bounded by proof); "
                  "float-valued protocol parameters are not exercised."),
    "C08": dict(
        text="Lean theorems over the models of TransactionOutput serialization, min_lovelace_post_alonzo, the negative-"
             "quantity refusal and _calc_change / token packing: minimum-ADA formula; independence of the minimum from the "
             "coin within one CBOR width; every change output holds its minimum ADA when the check is enabled; refusal "
             "branches characterised; packing preserves the bundle; serialization refuses exactly when some nested output "
             "has negative ADA or a negative stored quantity. Tied to /repo by differential runs (min-ADA utility, packing, "
             "_calc_change, nesting levels) and judged on returned bodies by an independent ledger reader. Extension PackFit "
             "(Props/C08_PackFit.lean): provenance of every packed chunk, the size invariant of packing and the fit of change "
             "outputs in max_val_size (refuted on the pinned code, repaired in 8c81354).",
        ref="3 C08", technique="Lean 4 proof (output validity invariant of the change computation) + model/implementation correspondence",
        note=TB + "an output into which merge_change adds the change is a caller-requested output and is judged for sign "
                  "only; a single asset that alone exceeds max_val_size (impossible for limits of 86 bytes or more) is outside the fit theorem."),
    "C09": dict(
        text="Lean theorems over the model of build()'s input gathering and selection (exclusion conflict check, seen-set / "
             "exclusion filter over potential inputs and address UTxOs, selector fallback chain, canonical sort) with the "
             "selectors universally quantified under what C14 proves of them: the pool is exactly the permitted UTxOs each "
             "once; inputs are a subset of explicit / potential / address UTxOs; explicit inputs kept; excluded unused; "
             "conflicts refused; no duplicates; ledger order. Tied to /repo through recording selectors (public "
             "utxo_selectors API) that expose the pool and the fallback order, and judged on the decoded body bytes.",
        ref="3 C09", technique="Lean 4 proof (subset / nodup / sortedness invariants of the selection flow) + model/implementation correspondence",
        note=TB + "that the caller's UTxO objects and lists are left unmodified is shown by snapshots in the differential "
                  "run only (the model is pure)."),
    "C10": dict(
        text="Lean theorems: RFC 8032 and BIP32-Ed25519 extended signing satisfy the verification equation in an abstract "
             "commutative group (Mathlib AddCommGroup, L*B = 0 as hypothesis); the required key-hash set is characterised "
             "source by source (inputs, collateral, required signers, native scripts at any depth incl. n-of-k and attached "
             "scripts, all certificate credential kinds, pool owners, key withdrawals, key voters); witnesses cover every "
             "supplied required key, are minimal unless forced, order-free, 32-byte vkeys; placeholder count = distinct "
             "required hashes for every runnable count (full since repair 504b48a). Tied to /repo by differential runs and an "
             "independent Ed25519 verifier over the body byte slice.",
        ref="3 C10", technique="Lean 4 proof (signature algebra in an abstract group + membership characterisation) + model/implementation correspondence",
        note=TB + "the edwards25519 group law, SHA-512 and BLAKE2b are hypotheses / abstract, validated against libsodium "
                  "and hashlib; all_scripts' de-duplication by hash is treated as a no-op in the model (assumption recorded)."),
    "C11": dict(
        text="Lean theorems over a model of the builder's redeemer bookkeeping: hex-string order = byte order (so the "
             "builder's sort is the ledger order), spend / mint / reward indices are ranks in the ledger orders for any "
             "number of items, certificate indices, independence of the call order, every needed script available exactly "
             "once, datums present, automatic validity interval contains the slot. Tied to /repo by differential runs and "
             "judged on the decoded transaction bytes.",
        ref="3 C11", technique="Lean 4 proof (rank equalities after selection and sort) + model/implementation correspondence",
        note=TB + "coin selection is taken as given (C14/C09); reward ranks for mixed key/script withdrawals are counted, "
                  "not asserted (no ledger available)."),
    "C12": dict(
        text="Lean theorems: the script-data-hash preimage is exactly (redeemer bytes as shipped) ++ (datum bytes as shipped) "
             "++ canonical language views, for map and list mode and after evaluated units replace the placeholders; absent "
             "iff no redeemers and no datums; language views equal the canonical specification for every language set. Tied "
             "to /repo by recomputing the hash with hashlib from byte slices of the shipped witness set and an independent "
             "language-view encoder.",
        ref="3 C12", technique="Lean 4 proof (preimage equality between body hash and shipped witness bytes) + model/implementation correspondence",
        note=TB + "BLAKE2b abstract (statements are about preimages)."),
    "C13": dict(
        text="Lean theorems over a transliteration of _set_collateral_return: chosen collateral is key-locked, > 2 ADA, from the "
             "candidate lists, pairwise distinct (under reference consistency), within max_collateral_inputs, total = inputs - "
             "return for ADA with all assets returned, required amount = ceil(maxFee * percent / 100) hence >= percent of any "
             "fee <= maxFee, return holds its minimum ADA, loop termination. Tied to /repo by differential runs of the "
             "collateral step and whole builds, judged on decoded body bytes.",
        ref="3 C13", technique="Lean 4 proof (collateral invariants of the selection loop) + model/implementation correspondence",
        note=TB + "explicit collateral supplied by the caller is passed through (judged for the limit only); adequacy is "
                  "stated for every fee up to max_tx_fee + fee_buffer."),
    "C14": dict(
        text="Lean theorems over statement-by-statement models of LargestFirstSelector and RandomImproveMultiAsset for "
             "every pool, request, limit, flag combination and index stream: selection is a duplicate-free sub-list of the "
             "pool, covers the request (+ max fee) in ADA and every asset, change = selected - request, termination, "
             "largest-first insufficiency is genuine; never more inputs than max_input_count, the min-change top-up included "
             "(limit 0 = no input). Tied to /repo by differential runs (exhaustive small pools, all "
             "index streams to depth 6, random pools).",
        ref="3 C14", technique="Lean 4 proof (post-conditions of both selectors for all pools and random streams) + model/implementation correspondence",
        note=TB + "pool immutability holds by construction in the pure model and is checked by snapshots on the "
                  "implementation; the input limit is proved in full since the repair of KF-C14-limit."),
    "C15": dict(
        text="Lean theorems over byte-level models of Address / PointerAddress / bech32: varnat and pointer round trips "
             "and minimality, header = kind<<4|network, byte round trip and injectivity for all 10 kinds, convertbits and "
             "bech32 round trips and the text round trip of EVERY constructible address without a length limit (pointer "
             "components of any size), the acceptor takes the Bech32 constant only (Bech32m strings rejected), "
             "GF(2)-linearity of the checksum, single-error detection at every distance from the end (the checksum step "
             "is injective) and the single-error table over both constants (decide +kernel), single substitution "
             "rejected in strings of any length. Tied to /repo by differential runs against the model and independent "
             "CIP-19 / BIP-173 references, incl. every single-character substitution of sampled addresses (long pointer "
             "addresses included).",
        ref="3 C15", technique="Lean 4 proof (bijection + linear-code error detection) + model/implementation correspondence",
        note=TB + "substitutions inside the prefix / by the separator are covered by the exhaustive substitution stream only."),
    "C16": dict(
        text="Lean theorems over a byte-level model of bip32.py parametric in the primitives (HMAC, PBKDF2, group): tweak "
             "= CIP-3 clamp, child derivation refines the integer-level BIP32-Ed25519 spec, hardened threshold, public = "
             "private derivation for soft children under explicit group laws, kL invariants along any path, path string = "
             "fold of steps, derived signatures verify. Tied to /repo by differential runs against the model and an "
             "independent pure-Python BIP32-Ed25519 / Ed25519 reference.",
        ref="3 C16", technique="Lean 4 proof (refinement of the integer-level spec, abstract group) + model/implementation correspondence",
        note=TB + "SHA-512 / HMAC / PBKDF2 / edwards25519 are modelled as structure fields with explicit law hypotheses, "
                  "not verified; validated against hashlib / libsodium / the reference."),
    "C17": dict(
        text="Lean theorems over a model in which every identifier is (digest length, preimage bytes) with the hash abstract: "
             "the identifier table equals the specification table for all kinds (tx id, datum, aux data, key, native / "
             "Plutus V1-V3 script with prefix bytes, policy id, script address, CIP-14), preimages of different languages "
             "/ bytes / items differ (from the CBOR round trip), the builder's script gate accepts iff the hash equals the "
             "payment credential and picks the first matching candidate, the body's aux-data hash is over the very item "
             "shipped. Tied to /repo by comparing the library's identifiers with hashlib over independently obtained bytes. "
             "Extension (Props/C17_Metadata.lean): the auxiliary-data hash over the modelled auxiliary-data codec of all three eras.",
        ref="3 C17", technique="Lean 4 proof (identifier table = spec, preimage injectivity) + model/implementation correspondence",
        note=TB + "BLAKE2b is abstract in the theorems (collision freedom is an explicit hypothesis where needed), "
                  "validated hashlib vs nacl in the harness; the harness memoises typing.get_type_hints in-process for speed."),
    "C18": dict(
        text="Lean theorems over a model of plutus.py / default_encoder against a specification of the ledger's Plutus data "
             "encoding: constructor/tag bijection for all naturals, chunking spec, model = spec on all construction routes "
             "(region stated, counterexamples machine-checked), decode/re-encode and JSON round trips on their true regions, "
             "datum-hash preservation, long-bytes guard. Tied to /repo by differential runs over generated data to depth 4 "
             "against the model and an independent reference encoder.",
        ref="3 C18", technique="Lean 4 proof (model refines the Plutus-data spec encoder) + model/implementation correspondence",
        note=TB + "typed decoding (_restore_typed_primitive over generated dataclasses) is judged against the reference "
                  "only; eight recorded defect classes are matched by narrow predicates (known_findings.json)."),
    "C19": dict(
        text="Lean theorems over a model of cip8.sign / cip8.verify parametric in the signature scheme: completeness for all "
             "4 key kinds x attach x network, the decision is exactly signature-valid AND credential-match over the signed "
             "bytes, Sig_structure injectivity, soundness relative to an ideal scheme. Tied to /repo by differential runs "
             "(layout byte for byte, the triple handed to the verifier) and by every single-bit alteration / substitution "
             "judged with an independent Ed25519.",
        ref="3 C19", technique="Lean 4 proof (decision logic stated outright, abstract signature scheme) + model/implementation correspondence",
        note=TB + "the cose package's encoding and Ed25519 / BLAKE2b are modelled, not verified; soundness is relative to "
                  "the stated ideal-scheme hypotheses."),
    "C20": dict(
        text="Lean theorems parse_X (render_X u) = ok u for the five adapters (Blockfrost, Ogmios v5/v6, Kupo, cardano-cli) "
             "over arbitrary asset lists: nothing merged, dropped or re-attributed; hex split at 56 characters; order "
             "independence. Tied to /repo by serving rendered responses to the real adapters through stubbed transports.",
        ref="3 C20", technique="Lean 4 proof (parse after render is the identity) + model/implementation correspondence",
        note=TB + "the services' response shapes are taken from the canned responses and client libraries available "
                  "offline; third-party client objects are stubbed."),
}

NOT_YET = "check not built yet in this commit (planned: Lean model + theorems + correspondence, see DESIGN.md section 3)"


def main():
    checks = []
    for pid, c in CHECKS.items():
        checks.append({
            "property_id": pid,
            "quick_cmd": f"./check {pid} --tier quick",
            "thorough_cmd": f"./check {pid} --tier thorough",
            "evidence_file": f"evidence/{pid}.json",
            "replay_cmd_template": f"./check {pid} --replay {{path}}",
            "engine": "lean4+correspondence",
            "level_claimed": {"category": "proof", "text": c["text"], "design_ref": "DESIGN.md section " + c["ref"]},
            "level_note": c["note"],
            "technique": c["technique"],
        })
    m = {
        "version": 1,
        "setup_cmd": "./check --setup",
        "hooks": {"guard": "PYCARDANO_VERIF", "enable": "no hooks in /repo are needed; checks import /repo in-process",
                  "baseline_off_cmd": "cd /repo && /venv/bin/python -m pytest -ra -q -p no:cacheprovider --timeout=900 "
                                      "--continue-on-collection-errors",
                  "source_commits": [], "add_only": True},
        "engines": [{"name": "lean4+correspondence", "path": "lean/ (model, proofs, native driver) + harness/ (T1 translator, "
                     "T2 correspondence, failing-input search)", "serves_properties": sorted(CHECKS),
                     "kind_free_text": "Lean 4 kernel-checked theorems about an executable model; model tied to /repo by "
                                       "regeneration of table data and by differential execution"}],
        "checks": checks,
        "not_applicable": [{"property_id": p, "reason": NOT_YET} for p in ALL if p not in CHECKS],
        "notes": "Every check: regenerate model data from /repo, lake build + re-elaborate Props/Cnn.lean with axiom audit, "
                 "run model driver and implementation on generated inputs, evaluate the property directly on the "
                 "implementation; verdict logic in DESIGN.md 2.4. known_findings.json lists recorded defects.",
    }
    (VERIF / "MANIFEST.json").write_text(json.dumps(m, indent=1) + "\n")


if __name__ == "__main__":
    main()
