"""archives a confirmed seeded change: archive_seed.py <seed dir> <PROP> <mK> <result json> [note]"""
import json, os, shutil, sys
src, prop, m, res = sys.argv[1:5]
note = sys.argv[5] if len(sys.argv) > 5 else None
dst = f"/verif/seeded/{prop}-{m}"
os.makedirs(dst, exist_ok=True)
for f in ("patch.diff", "demo.py", "patch-original.diff"):
    if os.path.exists(os.path.join(src, f)):
        shutil.copy(os.path.join(src, f), os.path.join(dst, f))
meta = json.load(open(os.path.join(src, "meta.json")))
r = json.load(open(res))
out = {"property": prop, "id": f"{prop}-{m}", "title": meta.get("title"), "what_it_breaks": meta.get("what_it_breaks"),
       "needs_to_manifest": meta.get("needs_to_manifest"), "files": meta.get("files"),
       "author": "independent sub-agent given only the property text and a scratch worktree",
       "author_ran": meta.get("ran"),
       "confirmed": {"how": "harness/seedtest.py on a scratch clone of /repo (never /repo itself): git apply patch.diff; existing suite vs "
                            "BASELINE stable_pass; demo.py with / without the change; ./check " + prop + " with VERIF_REPO=<scratch>",
                     "applies": r.get("applies"), "suite_still_passes": r.get("suite_ok"),
                     "demo_exit_with_change": r.get("demo_with_change"), "demo_exit_clean": r.get("demo_clean")},
       "check": {"command": f"./check {prop}", "caught": r.get("caught"), "concrete_counterexample": r.get("concrete"),
                 "exit": r.get("check_exit"), "last_lines": r.get("check")}}
if note:
    out["note"] = note
json.dump(out, open(os.path.join(dst, "meta.json"), "w"), indent=1, ensure_ascii=False)
print(dst, out["check"]["caught"])
