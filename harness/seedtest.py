"""Confirms a seeded change and runs a check against it, on a scratch copy of /repo (never in /repo).

usage: seedtest.py <seed dir containing patch.diff, demo.py, meta.json> <PROP> [--no-suite] [--tier quick|thorough]
Steps: copy /repo -> /var/tmp scratch; git apply patch; (1) the existing suite still passes (BASELINE stable_pass),
(2) demo.py exits 1 with the change and 0 without, (3) `./check PROP` with VERIF_REPO=<scratch> -> caught or missed.
Prints one JSON line with the outcome."""
import json
import os
import shutil
import subprocess
import sys
import tempfile
import xml.etree.ElementTree as ET

seed, prop = sys.argv[1], sys.argv[2]
no_suite = "--no-suite" in sys.argv
tier = sys.argv[sys.argv.index("--tier") + 1] if "--tier" in sys.argv else "quick"
tmp = tempfile.mkdtemp(prefix="pyc-seed-", dir="/var/tmp")
dst = os.path.join(tmp, "repo")
out = {"seed": seed, "property": prop}
try:
    subprocess.check_call(["git", "clone", "-q", "--no-hardlinks", "/repo", dst])
    r = subprocess.run(["git", "-C", dst, "apply", os.path.abspath(os.path.join(seed, "patch.diff"))], capture_output=True, text=True)
    if r.returncode != 0:
        out["applies"] = False
        out["error"] = r.stderr[-500:]
        print(json.dumps(out))
        sys.exit(3)
    out["applies"] = True
    env = dict(os.environ, PYTHONPATH=dst)
    if not no_suite:
        base = json.load(open("/root/.vp/BASELINE.json"))
        with tempfile.NamedTemporaryFile(suffix=".xml") as f:
            subprocess.run(f"cd {dst} && /venv/bin/python -m pytest -q -p no:cacheprovider --timeout=900 --continue-on-collection-errors "
                           f"--junitxml={f.name}", shell=True, env=env, stdout=subprocess.DEVNULL, stderr=subprocess.DEVNULL)
            root = ET.parse(f.name).getroot()
        passed = {f"{tc.get('classname')}::{tc.get('name')}" for tc in root.iter("testcase")
                  if not any(ch.tag in ("failure", "error", "skipped") for ch in tc)}
        missing = [t for t in base["stable_pass"] if t not in passed]
        out["suite_missing"] = missing[:5]
        out["suite_ok"] = not missing
    d1 = subprocess.run(["/venv/bin/python", os.path.abspath(os.path.join(seed, "demo.py"))], env=env, capture_output=True, text=True, cwd=tmp)
    d0 = subprocess.run(["/venv/bin/python", os.path.abspath(os.path.join(seed, "demo.py"))], env=dict(os.environ, PYTHONPATH="/repo"),
                        capture_output=True, text=True, cwd=tmp)
    out["demo_with_change"] = d1.returncode
    out["demo_clean"] = d0.returncode
    c = subprocess.run([os.path.join(os.path.dirname(os.path.dirname(os.path.abspath(__file__))), "check"), prop, "--tier", tier], env=dict(os.environ, VERIF_REPO=dst), capture_output=True, text=True)
    lines = [l for l in (c.stdout + c.stderr).splitlines() if l.startswith("VIOLATION") or l.startswith("[") or l.startswith("INFRA")]
    out["check_exit"] = c.returncode
    out["check"] = lines[-2:]
    out["caught"] = c.returncode == 1 and any(l.startswith("VIOLATION") for l in lines)
    out["concrete"] = out["caught"] and not any("no-failing-input-found" in l for l in lines)
    print(json.dumps(out))
finally:
    shutil.rmtree(tmp, ignore_errors=True)
