"""Entry point: ./check Cnn [--tier quick|thorough] [--replay file] | --setup"""
import argparse
import os
import sys

# Backend configuration (DESIGN.md section 1 / C03): pycardano's decoder patches only reach the pure-Python cbor2
# decoder.  Checks run the implementation under the pure-Python backend (the configuration the patches are written
# for) unless VERIF_CBOR=cext; the C-extension configuration is exercised in sub-processes by the checks that
# quantify over back ends (C03, and secondary passes of C01 / C18).
if os.environ.get("VERIF_CBOR", "pure") == "pure":
    sys.modules["_cbor2"] = None  # makes `from _cbor2 import *` fail, cbor2 keeps its pure-Python implementation

import importlib
import json
import os
import sys
import traceback

from vlib import core


def setup():
    with core.BuildLock():
        err = core.regenerate()
        if err:
            print(err)
            return 2
        rc, out = core.run_cmd(["lake", "build"], cwd=str(core.LEAN), timeout=7200)
        print(out[-3000:])
        return 0 if rc == 0 else 2


def main():
    ap = argparse.ArgumentParser()
    ap.add_argument("prop", nargs="?")
    ap.add_argument("--tier", default=os.environ.get("VERIF_TIER", "quick"))
    ap.add_argument("--replay")
    ap.add_argument("--setup", action="store_true")
    a = ap.parse_args()
    if a.setup:
        sys.exit(setup())
    if not a.prop:
        ap.error("property id required")
    import logging
    import pycardano
    logging.getLogger("PyCardano").setLevel(logging.CRITICAL)   # the builder dumps its whole state on every refusal
    if not os.path.realpath(pycardano.__file__).startswith(os.path.realpath(str(core.REPO)) + "/"):
        print(f"pycardano imported from {pycardano.__file__}, not from {core.REPO}")
        sys.exit(2)
    seed = int(os.environ.get("VERIF_SEED", "0"))
    tier = a.tier if a.tier in ("quick", "thorough") else "quick"
    ctx = core.Ctx(a.prop, tier, seed, a.replay)
    try:
        mod = importlib.import_module(f"checks.{a.prop.lower()}")
        ctx.lean = core.lean_obligations(a.prop, getattr(mod, "EXTRA_TARGETS", ()), recheck=ctx.thorough)
        # extension modules checks/<prop>_ext_<area>.py: run_ext(ctx) adds the correspondence / failing-input search of one more
        # modelled area; a case they register carries {"ext": "<area>"} so that a replay finds its way back
        import glob
        exts = {}
        for f in sorted(glob.glob(os.path.join(os.path.dirname(os.path.abspath(__file__)), "checks", f"{a.prop.lower()}_ext_*.py"))):
            area = os.path.basename(f)[len(a.prop) + 5:-3]
            exts[area] = importlib.import_module(f"checks.{os.path.basename(f)[:-3]}")
        if a.replay:
            data = json.loads(open(a.replay).read())
            cases = ([data["input"]] if isinstance(data.get("input"), dict) else []) + \
                    [d["input"] for d in data.get("correspondence", []) if isinstance(d.get("input"), dict)]
            mine = [c for c in cases if c.get("ext") in exts]
            for c in mine:
                exts[c["ext"]].replay_ext(ctx, c)
            if not mine:
                mod.replay(ctx, data)
        else:
            mod.run(ctx)
            for area, em in exts.items():
                em.run_ext(ctx)
        sys.exit(ctx.finish())
    except core.Infra as e:
        print(f"INFRA: {e}")
        sys.exit(2)
    except Exception:
        traceback.print_exc()
        print("INFRA: harness crashed")
        sys.exit(2)


if __name__ == "__main__":
    main()
