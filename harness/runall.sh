#!/bin/bash
# runs every registered check (quick tier by default) on /repo, 4 at a time; prints one line per check
# usage: harness/runall.sh [seed] [tier]
cd "$(dirname "$0")/.."
seed=${1:-0}; tier=${2:-quick}
mkdir -p replays/runall
for i in $(seq -w 1 20); do echo C$i; done | xargs -P 4 -I{} sh -c "VERIF_SEED=$seed ./check {} --tier $tier > replays/runall/{}-$seed-$tier.log 2>&1; echo \"{} exit=\$? \$(grep -c '^KNOWN-FINDING' replays/runall/{}-$seed-$tier.log) known; \$(tail -1 replays/runall/{}-$seed-$tier.log | cut -c1-200)\""
