"""Mutation self-test helper: applies a textual replacement (or a patch) to a scratch copy of /repo and runs a check
against it.  usage: mutate.py PROP FILE OLD NEW   |   mutate.py PROP --patch file.diff      (never touches /repo)"""
import os
import shutil
import subprocess
import sys
import tempfile

prop = sys.argv[1]
CHECK = os.path.join(os.path.dirname(os.path.dirname(os.path.abspath(__file__))), "check")   # the tree this helper lives in
tmp = tempfile.mkdtemp(prefix="pyc-mut-", dir="/var/tmp")
dst = os.path.join(tmp, "repo")
try:
    shutil.copytree("/repo", dst, ignore=shutil.ignore_patterns(".git", "__pycache__", ".hypothesis", ".pytest_cache"))
    if sys.argv[2] == "--patch":
        subprocess.check_call(["patch", "-p1", "-s", "-d", dst, "-i", os.path.abspath(sys.argv[3])])
    else:
        f, old, new = sys.argv[2:5]
        p = os.path.join(dst, f)
        s = open(p).read()
        if s.count(old) < 1:
            print("MUTATION DID NOT APPLY: pattern not found")
            sys.exit(3)
        open(p, "w").write(s.replace(old, new, 1))
    env = dict(os.environ, VERIF_REPO=dst)
    r = subprocess.run([CHECK, prop] + sys.argv[5:] if sys.argv[2] != "--patch" else [CHECK, prop] + sys.argv[4:],
                       env=env, capture_output=True, text=True)
    out = [l for l in (r.stdout + r.stderr).splitlines() if not l.startswith("KNOWN-FINDING")]
    print("\n".join(out[-6:]))
    print("exit", r.returncode)
finally:
    shutil.rmtree(tmp, ignore_errors=True)
