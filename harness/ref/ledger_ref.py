"""Independent reading of a serialized transaction the way the ledger reads it (Conway CDDL keys), and the integer
ledger rules the builder properties are judged against: balance equation, deposits / refunds, minimum fee, minimum
UTxO, collateral.  Works on *bytes* decoded with ref/cbor_ref.py; uses nothing from pycardano."""
from __future__ import annotations

import hashlib
import math
from fractions import Fraction

from . import cbor_ref as R


def unset(x):
    """set<a> = #6.258([* a]) / [* a]"""
    if isinstance(x, R.Tag) and x.tag == 258:
        return list(x.value)
    return list(x)


def parse_value(x):
    if isinstance(x, int):
        return x, {}
    coin, ma = x
    assets = {}
    for p, a in ma.pairs:
        for n, q in a.pairs:
            assets[(p.hex(), n.hex())] = assets.get((p.hex(), n.hex()), 0) + q
    return coin, assets


def parse_output(x):
    """-> dict(form, addr, coin, assets, datum_hash, inline_datum (bytes), script_ref (bytes), raw)"""
    if isinstance(x, R.Map):
        d = dict(x.pairs)
        coin, assets = parse_value(d[1])
        out = {"form": "map", "addr": d[0], "coin": coin, "assets": assets, "datum_hash": None, "inline_datum": None,
               "script_ref": None}
        if 2 in d:
            if d[2][0] == 0:
                out["datum_hash"] = d[2][1]
            else:
                out["inline_datum"] = d[2][1].value
        if 3 in d:
            out["script_ref"] = d[3].value
        return out
    coin, assets = parse_value(x[1])
    return {"form": "legacy", "addr": x[0], "coin": coin, "assets": assets,
            "datum_hash": x[2] if len(x) > 2 else None, "inline_datum": None, "script_ref": None}


def output_map_form_bytes(o, coin=None):
    """the output re-serialized in map form (independent encoder); coin overridable"""
    c = o["coin"] if coin is None else coin
    pol = {}
    for (p, n), q in o["assets"].items():
        pol.setdefault(bytes.fromhex(p), []).append((bytes.fromhex(n), q))
    val = c if not pol else [c, R.sorted_map([(p, R.sorted_map(a)) for p, a in pol.items()])]
    pairs = [(0, o["addr"]), (1, val)]
    if o["datum_hash"] is not None:
        pairs.append((2, [0, o["datum_hash"]]))
    elif o["inline_datum"] is not None:
        pairs.append((2, [1, R.Tag(24, o["inline_datum"])]))
    if o["script_ref"] is not None:
        pairs.append((3, R.Tag(24, o["script_ref"])))
    return R.enc(R.Map(pairs))


def value_bytes(o, coin=None):
    c = o["coin"] if coin is None else coin
    pol = {}
    for (p, n), q in o["assets"].items():
        pol.setdefault(bytes.fromhex(p), []).append((bytes.fromhex(n), q))
    val = c if not pol else [c, R.sorted_map([(p, R.sorted_map(a)) for p, a in pol.items()])]
    return R.enc(val)


def min_utxo(o, cpb):
    """Babbage/Conway: (160 + |serialized output|) * coinsPerUTxOByte, output taken in map form"""
    return (160 + len(output_map_form_bytes(o))) * cpb


class Body:
    def __init__(self, body_bytes: bytes):
        self.raw = body_bytes
        self.m = dict(R.dec(body_bytes).pairs)
        self.inputs = [(i[0].hex(), i[1]) for i in unset(self.m[0])]
        self.outputs = [parse_output(o) for o in self.m[1]]
        self.fee = self.m[2]
        self.ttl = self.m.get(3)
        self.certs = unset(self.m[4]) if 4 in self.m else []
        self.withdrawals = [(k, v) for k, v in self.m[5].pairs] if 5 in self.m else []
        self.aux_hash = self.m.get(7)
        self.validity_start = self.m.get(8)
        self.mint = {}
        if 9 in self.m:
            for p, a in self.m[9].pairs:
                for n, q in a.pairs:
                    self.mint[(p.hex(), n.hex())] = q
        self.script_data_hash = self.m.get(11)
        self.collateral = [(i[0].hex(), i[1]) for i in unset(self.m[13])] if 13 in self.m else []
        self.required_signers = unset(self.m[14]) if 14 in self.m else []
        self.collateral_return = parse_output(self.m[16]) if 16 in self.m else None
        self.total_collateral = self.m.get(17)
        self.reference_inputs = [(i[0].hex(), i[1]) for i in unset(self.m[18])] if 18 in self.m else []
        self.voting = self.m.get(19)
        self.proposals = unset(self.m[20]) if 20 in self.m else []
        self.treasury = self.m.get(21)
        self.donation = self.m.get(22, 0)


def cert_deposit_refund(cert, key_deposit, pool_deposit, pool_is_new):
    """(deposit paid, refund received) of one certificate (Conway)"""
    code = cert[0]
    if code == 0:
        return key_deposit, 0
    if code == 1:
        return 0, key_deposit
    if code == 3:
        return (pool_deposit if pool_is_new else 0), 0
    if code == 7:
        return cert[2], 0
    if code == 8:
        return 0, cert[2]
    if code == 11:
        return cert[3], 0
    if code == 12:
        return cert[3], 0
    if code == 13:
        return cert[4], 0
    if code == 16:
        return cert[2], 0
    if code == 17:
        return 0, cert[2]
    return 0, 0


def balance(body: Body, utxo, key_deposit, pool_deposit, pool_is_new=True):
    """returns (consumed, produced) as (coin, assets) pairs; utxo: {(txid_hex, ix): (coin, assets)}"""
    c_coin, c_assets = 0, {}
    p_coin, p_assets = 0, {}

    def add(acc, assets):
        for k, q in assets.items():
            acc[k] = acc.get(k, 0) + q
    for ref in body.inputs:
        coin, assets = utxo[ref]
        c_coin += coin
        add(c_assets, assets)
    for _, v in body.withdrawals:
        c_coin += v
    add(c_assets, {k: q for k, q in body.mint.items() if q > 0})
    add(p_assets, {k: -q for k, q in body.mint.items() if q < 0})
    for o in body.outputs:
        p_coin += o["coin"]
        add(p_assets, o["assets"])
    p_coin += body.fee
    registered_here = set()      # pools registered by an earlier certificate of this very transaction
    for cert in body.certs:
        new_pool = pool_is_new
        if cert[0] == 3:
            # POOL rule, certificates applied in order: the deposit is paid when the operator is not registered yet; a second
            # registration certificate of the same operator in the same transaction is a re-registration (parameter update)
            op = bytes(cert[1]) if isinstance(cert[1], (bytes, bytearray)) else repr(cert[1])
            new_pool = pool_is_new and op not in registered_here
            registered_here.add(op)
        dep, ref = cert_deposit_refund(cert, key_deposit, pool_deposit, new_pool)
        p_coin += dep
        c_coin += ref
    for prop in body.proposals:
        p_coin += prop[0]
    p_coin += body.donation or 0
    return (c_coin, {k: q for k, q in c_assets.items() if q}), (p_coin, {k: q for k, q in p_assets.items() if q})


# ---- fees ---------------------------------------------------------------------------------------------------------------
def tier_fee(size, base: Fraction, rng: int, mult: Fraction):
    """Conway reference-script fee: tiers of `rng` bytes, price multiplied by `mult` per tier, floor at the end"""
    total, price = Fraction(0), Fraction(base)
    while size > rng:
        total += price * rng
        size -= rng
        price *= mult
    total += price * size
    return total


def redeemer_units(tx_bytes):
    tx = R.dec(tx_bytes)
    ws = dict(tx[1].pairs)
    mem = steps = 0
    if 5 in ws:
        r = ws[5]
        if isinstance(r, R.Map):
            for _, v in r.pairs:
                mem += v[1][0]
                steps += v[1][1]
        else:
            for x in r:
                mem += x[3][0]
                steps += x[3][1]
    return mem, steps


def min_fee(tx_bytes, a: Fraction, b: Fraction, price_mem: Fraction, price_step: Fraction, ref_script_bytes=0, ref=None):
    """ledger minimum fee of a serialized transaction (Conway): a*size + b + ceil(script fee) + floor(tier fee)"""
    mem, steps = redeemer_units(tx_bytes)
    fee = a * len(tx_bytes) + b
    fee = math.ceil(fee) if isinstance(fee, Fraction) else fee
    fee += math.ceil(price_mem * mem + price_step * steps)
    if ref is not None and ref_script_bytes:
        fee += math.floor(tier_fee(ref_script_bytes, *ref))
    return fee


def blake2b(data: bytes, n: int) -> bytes:
    return hashlib.blake2b(data, digest_size=n).digest()


def tx_parts(tx_bytes):
    """byte slices of a serialized transaction: (body, witness set, aux data or None)"""
    assert tx_bytes[0] in (0x84, 0x83), "transaction is a definite array of 3 or 4"
    _, e1 = R.dec_prefix(tx_bytes, 1)
    _, e2 = R.dec_prefix(tx_bytes, e1)
    x, e3 = R.dec_prefix(tx_bytes, e2)
    aux = None
    if tx_bytes[0] == 0x84:
        y, e4 = R.dec_prefix(tx_bytes, e3)
        aux = None if y is None else tx_bytes[e3:e4]
    elif x is not None and not isinstance(x, bool):
        aux = tx_bytes[e2:e3]
    return tx_bytes[1:e1], tx_bytes[e1:e2], aux
