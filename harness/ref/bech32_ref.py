"""Independent Bech32 reference written from the text of BIP-173 (and the constant of BIP-350).

Deliberately *not* the packed-integer `polymod` of the BIP's sample code (which is what pycardano ships): the
checksum is computed as BIP-173 defines it mathematically, as a polynomial remainder over GF(32):

* GF(32) = GF(2)[a] / (a^5 + a^3 + 1); a 5-bit value b4..b0 stands for b4*a^4 + ... + b0;
* g(x) = x^6 + {29}x^5 + {22}x^4 + {20}x^3 + {21}x^2 + {29}x + {18};
* a string is valid when the polynomial whose coefficients are 1 followed by hrp-expansion ‖ data ‖ checksum
  leaves the remainder {CONST} modulo g(x), with CONST = 1 (Bech32).  BIP-350 (Bech32m) uses 0x2bc830a3, read as six
  5-bit coefficients.

The length limit of 90 characters of BIP-173 is a parameter (`max_len`), because CIP-5 / CIP-19 addresses are longer.
"""
from __future__ import annotations

CHARSET = "qpzry9x8gf2tvdw0s3jn54khce6mua7l"
G = [29, 22, 20, 21, 29, 18]            # coefficients of x^5 .. x^0 of g(x) (monic, degree 6)
BECH32 = 1
BECH32M = 0x2BC830A3


def gf_mul(a: int, b: int) -> int:
    """product in GF(32) = GF(2)[a]/(a^5 + a^3 + 1)"""
    r = 0
    for i in range(5):
        if (b >> i) & 1:
            r ^= a << i
    for i in range(8, 4, -1):            # reduce degrees 8..5 with a^5 = a^3 + 1
        if (r >> i) & 1:
            r ^= (0b101001) << (i - 5)
    return r


def remainder(coeffs) -> list:
    """remainder of (x^n + c0 x^(n-1) + ... + c(n-1)) modulo g(x): list of 6 coefficients (x^5 .. x^0)"""
    rem = [0, 0, 0, 0, 0, 1]             # the leading 1
    for c in coeffs:
        lead = rem[0]
        rem = rem[1:] + [c]              # multiply by x, add the next coefficient
        if lead:
            rem = [r ^ gf_mul(lead, g) for r, g in zip(rem, G)]   # subtract lead * g(x)  (x^6 = g(x) - x^6 part)
    return rem


def const_coeffs(const: int) -> list:
    return [(const >> (5 * (5 - i))) & 31 for i in range(6)]


def hrp_expand(hrp: str) -> list:
    return [ord(c) >> 5 for c in hrp] + [0] + [ord(c) & 31 for c in hrp]


def residue(hrp: str, values) -> int:
    """remainder packed into an integer (x^5 coefficient in the most significant 5 bits)"""
    n = 0
    for c in remainder(hrp_expand(hrp) + list(values)):
        n = n << 5 | c
    return n


def checksum(hrp: str, data, const: int = BECH32) -> list:
    """the six values that make the remainder equal to `const`"""
    rem = remainder(hrp_expand(hrp) + list(data) + [0] * 6)
    return [r ^ k for r, k in zip(rem, const_coeffs(const))]


def to5(data: bytes) -> list:
    """8-bit groups to 5-bit groups, big-endian bit order, zero padding at the end"""
    bits = "".join(format(b, "08b") for b in data)
    bits += "0" * (-len(bits) % 5)
    return [int(bits[i:i + 5], 2) for i in range(0, len(bits), 5)]


def from5(values):
    """5-bit groups to bytes; None if the padding is 5 or more bits or not all zero"""
    bits = "".join(format(v, "05b") for v in values)
    pad = len(bits) % 8
    if pad >= 5 or (pad and int(bits[len(bits) - pad:], 2) != 0):
        return None
    bits = bits[: len(bits) - pad]
    return bytes(int(bits[i:i + 8], 2) for i in range(0, len(bits), 8))


def encode5(hrp: str, data5, const: int = BECH32) -> str:
    return hrp + "1" + "".join(CHARSET[v] for v in list(data5) + checksum(hrp, data5, const))


def encode(hrp: str, data: bytes, const: int = BECH32) -> str:
    return encode5(hrp, to5(data), const)


class Invalid(ValueError):
    pass


def decode5(s: str, const: int = BECH32, max_len=None):
    """(hrp, 5-bit data) of a valid Bech32 string, else raises Invalid(reason)"""
    if max_len is not None and len(s) > max_len:
        raise Invalid("length")
    if any(ord(c) < 33 or ord(c) > 126 for c in s):
        raise Invalid("charrange")
    has_lower = any("a" <= c <= "z" for c in s)
    has_upper = any("A" <= c <= "Z" for c in s)
    if has_lower and has_upper:
        raise Invalid("mixedcase")
    s = "".join(chr(ord(c) + 32) if "A" <= c <= "Z" else c for c in s)
    if "1" not in s:
        raise Invalid("separator")
    pos = len(s) - 1 - s[::-1].index("1")
    hrp, tail = s[:pos], s[pos + 1:]
    if len(hrp) < 1:
        raise Invalid("hrp")
    if len(tail) < 6:
        raise Invalid("short")
    if any(c not in CHARSET for c in tail):
        raise Invalid("charset")
    values = [CHARSET.index(c) for c in tail]
    if remainder(hrp_expand(hrp) + values) != const_coeffs(const):
        raise Invalid("checksum")
    return hrp, values[:-6]


def decode(s: str, const: int = BECH32, max_len=None):
    """(hrp, bytes) of a valid Bech32 string carrying whole bytes, else raises Invalid"""
    hrp, v = decode5(s, const, max_len)
    b = from5(v)
    if b is None:
        raise Invalid("padding")
    return hrp, b


def _selftest():
    # valid / invalid strings listed in BIP-173 ("Test vectors")
    valid = ["A12UEL5L", "a12uel5l",
             "an83characterlonghumanreadablepartthatcontainsthenumber1andtheexcludedcharactersbio1tt5tgs",
             "abcdef1qpzry9x8gf2tvdw0s3jn54khce6mua7lmqqqxw",
             "11qqqqqqqqqqqqqqqqqqqqqqqqqqqqqqqqqqqqqqqqqqqqqqqqqqqqqqqqqqqqqqqqqqqqqqqqqqqqqqqqqqc8247j",
             "split1checkupstagehandshakeupstreamerranterredcaperred2y9e3w", "?1ezyfcl"]
    invalid = ["\x201nwldj5", "\x7f1axkwrx", "pzry9x0s0muk", "1pzry9x0s0muk", "x1b4n0q5v", "li1dgmt3", "A1G7SGD8",
               "10a06t8", "1qzzfhee", "A12UEL5l"]
    for s in valid:
        decode5(s)
    for s in invalid:
        try:
            decode5(s)
        except Invalid:
            continue
        raise AssertionError("reference accepts invalid BIP-173 vector " + repr(s))
    # BIP-350 valid Bech32m strings
    for s in ["A1LQFN3A", "a1lqfn3a", "abcdef1l7aum6echk45nj3s0wdvt2fg8x9yrzpqzd3ryx", "?1v759aa"]:
        decode5(s, BECH32M)
    # g(x) of BIP-173 really is what the packed generator constants of the sample code encode
    assert const_coeffs(0x3B6A57B2) == G
    assert encode("a", b"") == "a12uel5l"


_selftest()
