"""Minimal independent CBOR encoder / decoder written from RFC 8949 (no cbor2): the oracle for byte-level
properties.  Data model: int, bytes, str, list (definite), IndefList, Chunked (indefinite byte string), dict or
list of pairs wrapped in Map (keeps the given order), Tag, None/True/False."""
from __future__ import annotations


class IndefList(list):
    pass


class Chunked:
    def __init__(self, chunks):
        self.chunks = list(chunks)

    def __eq__(self, o):
        return isinstance(o, Chunked) and o.chunks == self.chunks

    def __repr__(self):
        return f"Chunked({self.chunks})"


class Map:
    def __init__(self, pairs):
        self.pairs = list(pairs)

    def __eq__(self, o):
        return isinstance(o, Map) and o.pairs == self.pairs

    def __repr__(self):
        return f"Map({self.pairs})"


class Tag:
    def __init__(self, tag, value):
        self.tag, self.value = tag, value

    def __eq__(self, o):
        return isinstance(o, Tag) and (o.tag, o.value) == (self.tag, self.value)

    def __repr__(self):
        return f"Tag({self.tag}, {self.value!r})"


def head(major: int, arg: int) -> bytes:
    m = major << 5
    if arg < 24:
        return bytes([m | arg])
    if arg < 1 << 8:
        return bytes([m | 24]) + arg.to_bytes(1, "big")
    if arg < 1 << 16:
        return bytes([m | 25]) + arg.to_bytes(2, "big")
    if arg < 1 << 32:
        return bytes([m | 26]) + arg.to_bytes(4, "big")
    if arg < 1 << 64:
        return bytes([m | 27]) + arg.to_bytes(8, "big")
    raise ValueError("argument too large")


def enc(x) -> bytes:
    if x is None:
        return b"\xf6"
    if x is True:
        return b"\xf5"
    if x is False:
        return b"\xf4"
    if isinstance(x, int):
        if 0 <= x < 1 << 64:
            return head(0, x)
        if -(1 << 64) <= x < 0:
            return head(1, -1 - x)
        if x > 0:
            return head(6, 2) + enc(x.to_bytes((x.bit_length() + 7) // 8, "big"))
        y = -1 - x
        return head(6, 3) + enc(y.to_bytes((y.bit_length() + 7) // 8, "big"))
    if isinstance(x, (bytes, bytearray)):
        return head(2, len(x)) + bytes(x)
    if isinstance(x, Chunked):
        return b"\x5f" + b"".join(enc(c) for c in x.chunks) + b"\xff"
    if isinstance(x, str):
        b = x.encode("utf-8")
        return head(3, len(b)) + b
    if isinstance(x, IndefList):
        return b"\x9f" + b"".join(enc(i) for i in x) + b"\xff"
    if isinstance(x, (list, tuple)):
        return head(4, len(x)) + b"".join(enc(i) for i in x)
    if isinstance(x, Map):
        return head(5, len(x.pairs)) + b"".join(enc(k) + enc(v) for k, v in x.pairs)
    if isinstance(x, dict):
        return head(5, len(x)) + b"".join(enc(k) + enc(v) for k, v in x.items())
    if isinstance(x, Tag):
        return head(6, x.tag) + enc(x.value)
    raise TypeError(type(x))


def canonical_key(kb: bytes):
    """RFC 7049 3.9 / pycardano order: shorter encoded key first, then bytewise"""
    return (len(kb), kb)


def sorted_map(pairs):
    """Map with pairs sorted canonically by encoded key"""
    return Map(sorted(pairs, key=lambda kv: canonical_key(enc(kv[0]))))


class Dec:
    """decoder returning the same data model (dicts as Map, keeping wire order and wire form)"""

    def __init__(self, b: bytes):
        self.b, self.i = b, 0

    def _arg(self, info):
        if info < 24:
            return info
        n = {24: 1, 25: 2, 26: 4, 27: 8}.get(info)
        if n is None:
            raise ValueError("bad additional info")
        if self.i + n > len(self.b):
            raise ValueError("truncated")
        v = int.from_bytes(self.b[self.i:self.i + n], "big")
        self.i += n
        return v

    def item(self):
        if self.i >= len(self.b):
            raise ValueError("truncated")
        ib = self.b[self.i]
        self.i += 1
        major, info = ib >> 5, ib & 31
        if major == 0:
            return self._arg(info)
        if major == 1:
            return -1 - self._arg(info)
        if major in (2, 3):
            if info == 31:
                if major == 3:
                    raise ValueError("indefinite text unsupported")
                chunks = []
                while self.b[self.i] != 0xFF:
                    c = self.item()
                    if not isinstance(c, bytes):
                        raise ValueError("bad chunk")
                    chunks.append(c)
                self.i += 1
                return Chunked(chunks)
            n = self._arg(info)
            if self.i + n > len(self.b):
                raise ValueError("truncated")
            v = self.b[self.i:self.i + n]
            self.i += n
            return bytes(v) if major == 2 else v.decode("utf-8")
        if major == 4:
            if info == 31:
                out = IndefList()
                while self.b[self.i] != 0xFF:
                    out.append(self.item())
                self.i += 1
                return out
            return [self.item() for _ in range(self._arg(info))]
        if major == 5:
            if info == 31:
                raise ValueError("indefinite map unsupported")
            return Map([(self.item(), self.item()) for _ in range(self._arg(info))])
        if major == 6:
            t = self._arg(info)
            v = self.item()
            if t == 2 and isinstance(v, bytes):      # bignums are integers of the data model
                return int.from_bytes(v, "big")
            if t == 3 and isinstance(v, bytes):
                return -1 - int.from_bytes(v, "big")
            return Tag(t, v)
        if info == 20:
            return False
        if info == 21:
            return True
        if info == 22:
            return None
        raise ValueError("unsupported simple/float")


def dec(b: bytes):
    d = Dec(b)
    x = d.item()
    if d.i != len(b):
        raise ValueError("trailing bytes")
    return x


def dec_prefix(b: bytes, start=0):
    """decode one item starting at `start`; returns (item, end offset)"""
    d = Dec(b)
    d.i = start
    x = d.item()
    return x, d.i
