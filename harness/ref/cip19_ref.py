"""Independent reference for the Shelley address formats, written from CIP-19 (binary layout) and CIP-5 (prefixes).

CIP-19: an address is `header ‖ payload`; header bits 7..4 are the address type, bits 3..0 the network tag
(0 = testnet, 1 = mainnet).

    type  payment part        delegation part
    0000  PaymentKeyHash      StakeKeyHash
    0001  ScriptHash          StakeKeyHash
    0010  PaymentKeyHash      ScriptHash
    0011  ScriptHash          ScriptHash
    0100  PaymentKeyHash      Pointer
    0101  ScriptHash          Pointer
    0110  PaymentKeyHash      (none)
    0111  ScriptHash          (none)
    1110  (reward account)    StakeKeyHash
    1111  (reward account)    ScriptHash

Hashes are 28 bytes.  A pointer is three variable-length positive numbers (slot, transaction index, certificate
index): base-128 digits, most significant first, the high bit set on every byte but the last.
CIP-5: payment addresses use the prefix `addr`, reward addresses `stake`; `_test` is appended off mainnet.

A structured address is a dict {"pay": part, "stk": part, "net": 0|1} with part one of
{"t": "key", "h": hex} | {"t": "script", "h": hex} | {"t": "ptr", "slot": str, "tx": str, "cert": str} | {"t": "none"}.
"""
from __future__ import annotations

from ref import bech32_ref

HASH_LEN = 28

# (payment kind, delegation kind) -> type nibble, straight from the table above
TYPE = {
    ("key", "key"): 0b0000, ("script", "key"): 0b0001, ("key", "script"): 0b0010, ("script", "script"): 0b0011,
    ("key", "ptr"): 0b0100, ("script", "ptr"): 0b0101, ("key", "none"): 0b0110, ("script", "none"): 0b0111,
    ("none", "key"): 0b1110, ("none", "script"): 0b1111,
}
KINDS = {v: k for k, v in TYPE.items()}


def varnat(n: int) -> bytes:
    """minimal variable-length encoding of a natural number"""
    assert n >= 0
    digits = []
    while True:
        n, d = divmod(n, 128)
        digits.insert(0, d)
        if n == 0:
            break
    return bytes([d + 128 for d in digits[:-1]] + [digits[-1]])


def read_varnat(data: bytes, i: int):
    """(value, next index) of the minimal varnat starting at i; None if unterminated or not minimal"""
    v, start = 0, i
    while i < len(data):
        b = data[i]
        if i == start and b == 0x80:
            return None                         # leading zero digit: not minimal
        v = v * 128 + (b % 128)
        i += 1
        if b < 128:
            return v, i
    return None


def part_bytes(p: dict) -> bytes:
    if p["t"] in ("key", "script"):
        h = bytes.fromhex(p["h"])
        assert len(h) == HASH_LEN
        return h
    if p["t"] == "ptr":
        return varnat(int(p["slot"])) + varnat(int(p["tx"])) + varnat(int(p["cert"]))
    return b""


def type_nibble(a: dict) -> int:
    return TYPE[(a["pay"]["t"], a["stk"]["t"])]


def header(a: dict) -> int:
    return type_nibble(a) * 16 + int(a["net"])


def to_bytes(a: dict) -> bytes:
    return bytes([header(a)]) + part_bytes(a["pay"]) + part_bytes(a["stk"])


def prefix(a: dict) -> str:
    base = "stake" if a["pay"]["t"] == "none" else "addr"
    return base + ("" if int(a["net"]) == 1 else "_test")


def to_text(a: dict) -> str:
    return bech32_ref.encode(prefix(a), to_bytes(a))


def parse(data: bytes):
    """strict CIP-19 parser: the structured address, or None when `data` is not a well-formed Shelley address"""
    if len(data) < 1:
        return None
    t, net = data[0] >> 4, data[0] & 15
    if t not in KINDS or net not in (0, 1):
        return None
    pk, sk = KINDS[t]
    body = data[1:]
    out = {"net": net}
    if pk == "none":
        out["pay"] = {"t": "none"}
    else:
        if len(body) < HASH_LEN:
            return None
        out["pay"] = {"t": pk, "h": body[:HASH_LEN].hex()}
        body = body[HASH_LEN:]
    if sk == "none":
        if body:
            return None
        out["stk"] = {"t": "none"}
    elif sk == "ptr":
        vals, i = [], 0
        for _ in range(3):
            r = read_varnat(body, i)
            if r is None:
                return None
            vals.append(r[0])
            i = r[1]
        if i != len(body):
            return None
        out["stk"] = {"t": "ptr", "slot": str(vals[0]), "tx": str(vals[1]), "cert": str(vals[2])}
    else:
        if len(body) != HASH_LEN:
            return None
        out["stk"] = {"t": sk, "h": body.hex()}
    return {"pay": out["pay"], "stk": out["stk"], "net": out["net"]}


def parse_text(s: str):
    """strict: Bech32 (BIP-173 constant), whole bytes, prefix as CIP-5 prescribes for the decoded kind"""
    try:
        hrp, data = bech32_ref.decode(s)
    except bech32_ref.Invalid:
        return None
    a = parse(data)
    if a is None or hrp != prefix(a):
        return None
    return a


def _selftest():
    # test vectors of CIP-19 (same key / script material throughout the CIP)
    pay = "9493315cd92eb5d8c4304e67b7e16ae36d61d34502694657811a2c8e"
    stk = "337b62cfff6403a06a3acbc34f8c46003c69fe79a3628cefa9c47251"
    vec = [
        ({"pay": {"t": "key", "h": pay}, "stk": {"t": "key", "h": stk}, "net": 1},
         "addr1qx2fxv2umyhttkxyxp8x0dlpdt3k6cwng5pxj3jhsydzer3n0d3vllmyqwsx5wktcd8cc3sq835lu7drv2xwl2wywfgse35a3x"),
        ({"pay": {"t": "key", "h": pay}, "stk": {"t": "ptr", "slot": "2498243", "tx": "27", "cert": "3"}, "net": 1},
         "addr1gx2fxv2umyhttkxyxp8x0dlpdt3k6cwng5pxj3jhsydzer5pnz75xxcrzqf96k"),
        ({"pay": {"t": "key", "h": pay}, "stk": {"t": "none"}, "net": 1},
         "addr1vx2fxv2umyhttkxyxp8x0dlpdt3k6cwng5pxj3jhsydzers66hrl8"),
        ({"pay": {"t": "none"}, "stk": {"t": "key", "h": stk}, "net": 1},
         "stake1uyehkck0lajq8gr28t9uxnuvgcqrc6070x3k9r8048z8y5gh6ffgw"),
        ({"pay": {"t": "key", "h": pay}, "stk": {"t": "key", "h": stk}, "net": 0},
         "addr_test1qz2fxv2umyhttkxyxp8x0dlpdt3k6cwng5pxj3jhsydzer3n0d3vllmyqwsx5wktcd8cc3sq835lu7drv2xwl2wywfgs68faae"),
    ]
    for a, s in vec:
        assert to_text(a) == s, (a, to_text(a), s)
        assert parse_text(s) == a, (parse_text(s), a)
    assert varnat(0) == b"\x00" and varnat(127) == b"\x7f" and varnat(128) == b"\x81\x00"
    assert read_varnat(b"\x80\x01", 0) is None and read_varnat(b"\x81", 0) is None


_selftest()
