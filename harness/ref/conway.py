"""Independent reference encoder for the Conway-era transaction wire format, written from the ledger CDDL
(conway.cddl) over the RFC 8949 codec ref/cbor_ref.py and the Plutus-data codec ref/plutusdata_ref.py.  Nothing here
uses pycardano or cbor2.

SPEC-LEVEL CONTENT MODEL (plain Python: dict / list / int / bytes / str / None / bool; lists may be tuples)

  tx            {"body": body, "wits": wits, "valid": bool, "aux": aux | None}
  body          {"inputs": [input], "outputs": [output], "fee": coin,                               keys 0 1 2
                 "ttl"(3) "certs"(4) "withdrawals"(5) "aux_hash"(7) "validity_start"(8) "mint"(9) "script_data_hash"(11)
                 "collateral"(13) "required_signers"(14) "network_id"(15) "collateral_return"(16) "total_collateral"(17)
                 "reference_inputs"(18) "voting_procedures"(19) "proposals"(20) "treasury_value"(21) "donation"(22)}
                 absent key or None = field omitted.  ("extra": [[key, int]] = foreign keys, examine-only, non-strict)
  input         {"txid": b32, "ix": uint16}
  value         {"coin": coin, "assets": [[policy b28, [[name b0..32, qty], ...]], ...]}    (a finite map; any order)
  mint          [[policy, [[name, nonzero int64], ...]], ...]
  output        {"addr": bytes, "value": value, "datum": None | {"k":"hash","hash":b32} | {"k":"inline","data":pdata},
                 "script": None | {"k":"native","script":native} | {"k":"plutus","v":1|2|3,"bytes":bytes}}
  withdrawals   [[reward_account bytes, coin], ...]
  credential    {"k": "key" | "script", "hash": b28}
  drep          {"k": "key" | "script", "hash": b28} | {"k": "abstain"} | {"k": "no_confidence"}
  anchor        {"url": str, "hash": b32}
  relay         {"k":"addr","port":uint16|None,"ipv4":b4|None,"ipv6":b16|None} | {"k":"name","port":..,"dns":str}
                | {"k":"multi","dns":str}
  pool_params   {"operator":b28,"vrf":b32,"pledge":coin,"cost":coin,"margin":[n,d],"reward_account":bytes,
                 "owners":[b28],"relays":[relay],"metadata":None|{"url":str,"hash":b32}}
  cert          {"code":0|1,"cred"} {"code":2,"cred","pool"} {"code":3,"params"} {"code":4,"pool","epoch"}
                {"code":7|8,"cred","coin"} {"code":9,"cred","drep"} {"code":10,"cred","pool","drep"}
                {"code":11,"cred","pool","coin"} {"code":12,"cred","drep","coin"} {"code":13,"cred","pool","drep","coin"}
                {"code":14,"cold","hot"} {"code":15,"cold","anchor"|None} {"code":16,"cred","coin","anchor"|None}
                {"code":17,"cred","coin"} {"code":18,"cred","anchor"|None}
  voter         {"code": 0..4, "hash": b28}            gov_action_id {"txid": b32, "ix": uint16}
  voting_procedure {"vote": 0|1|2, "anchor": anchor|None}
  voting_procedures [[voter, [[gov_action_id, voting_procedure], ...]], ...]
  gov_action    {"code":0,"prev":gaid|None,"update":ppu,"policy":b28|None} {"code":1,"prev","version":[major,minor]}
                {"code":2,"withdrawals":[[reward_account,coin]],"policy"} {"code":3,"prev"}
                {"code":4,"prev","remove":[credential],"add":[[credential,epoch]],"quorum":[n,d]}
                {"code":5,"prev","anchor":anchor,"script_hash":b28|None} {"code":6}
  proposal      {"deposit": coin, "reward_account": bytes, "action": gov_action, "anchor": anchor}
  ppu           [[key, value], ...]  (protocol_param_update; value shape per key, see PPU_KIND)
  native        {"k":"pubkey","hash":b28} {"k":"all"|"any","scripts":[native]} {"k":"n_of_k","n":int64,"scripts":[..]}
                {"k":"invalid_before"|"invalid_hereafter","slot":uint}
  pdata         ["constr", id, [pdata]] | ["list", [pdata]] | ["map", [[pdata, pdata]]] | ["int", n] | ["bytes", b]
  metadatum     ["int", n] | ["bytes", b<=64] | ["text", s<=64] | ["list", [..]] | ["map", [[k, v]]] (given order)
  metadata      [[label uint, metadatum], ...]
  aux           {"k":"shelley","metadata"} | {"k":"shelley_ma","metadata","native":[native]}
                | {"k":"alonzo","metadata"|None,"native"|None,"v1"|None,"v2"|None,"v3"|None}
  redeemers     {"form": "list" | "map", "items": [{"tag":0..5,"ix":uint32,"data":pdata,"mem":uint,"steps":uint}]}
  wits          {"vkeys":[{"vkey":b32,"sig":b64}] "native":[native] "bootstrap":[{"vkey","sig","chain_code","attrs"}]
                 "v1":[bytes] "data":[pdata] "redeemers":redeemers "v2":[bytes] "v3":[bytes]}   (absent/None = omitted)

ENCODING RULES: shortest-form heads, definite lengths (except inside Plutus data, which follows the ledger's data
codec: empty list definite, non-empty list indefinite, byte strings > 64 bytes chunked), struct maps in ascending key
order, sets in the order given, table maps (multiasset, withdrawals, voting, metadata labels, redeemer map, committee
map, treasury withdrawals) in canonical (length-first, then bytewise) key order.

WIRE CHOICES (where the CDDL admits several encodings of the same content) are not content: `WireChoices`.
"""
from __future__ import annotations

import hashlib
from dataclasses import dataclass, field

from ref import cbor_ref as R
from ref import plutusdata_ref as P


class SpecError(ValueError):
    """the content handed to the encoder is outside the CDDL"""


class NotExpressible(ValueError):
    """bytes that are (perhaps) valid but cannot be lifted into the content model / wire choices of this module"""


U64 = 1 << 64
I64_MIN, I64_MAX = -(1 << 63), (1 << 63) - 1

SET_SITES = ["inputs", "certs", "collateral", "required_signers", "reference_inputs", "proposals", "pool_owners",
             "committee_remove", "vkeys", "native_scripts", "bootstrap", "plutus_v1", "plutus_data", "plutus_v2", "plutus_v3"]

BODY_KEYS = [("inputs", 0), ("outputs", 1), ("fee", 2), ("ttl", 3), ("certs", 4), ("withdrawals", 5), ("aux_hash", 7),
             ("validity_start", 8), ("mint", 9), ("script_data_hash", 11), ("collateral", 13), ("required_signers", 14),
             ("network_id", 15), ("collateral_return", 16), ("total_collateral", 17), ("reference_inputs", 18),
             ("voting_procedures", 19), ("proposals", 20), ("treasury_value", 21), ("donation", 22)]
BODY_KEY = dict(BODY_KEYS)
BODY_NAME = {k: n for n, k in BODY_KEYS}

WITS_KEYS = [("vkeys", 0), ("native", 1), ("bootstrap", 2), ("v1", 3), ("data", 4), ("redeemers", 5), ("v2", 6), ("v3", 7)]
WITS_KEY = dict(WITS_KEYS)
WITS_NAME = {k: n for n, k in WITS_KEYS}
WITS_SITE = {"vkeys": "vkeys", "native": "native_scripts", "bootstrap": "bootstrap", "v1": "plutus_v1",
             "data": "plutus_data", "v2": "plutus_v2", "v3": "plutus_v3"}

# protocol_param_update: key -> kind of the value
#   coin / u32 / u16 / epoch (uint .size 4): ints;  unit / nonneg: [n, d];  costmdls: [[language, [int64]]];
#   prices: [[n,d],[n,d]];  exunits: [mem, steps];  pvt: 5 x [n,d];  dvt: 10 x [n,d]
PPU_KIND = {0: "coin", 1: "coin", 2: "u32", 3: "u32", 4: "u16", 5: "coin", 6: "coin", 7: "epoch", 8: "u16", 9: "nonneg",
            10: "unit", 11: "unit", 16: "coin", 17: "coin", 18: "costmdls", 19: "prices", 20: "exunits", 21: "exunits",
            22: "u32", 23: "u16", 24: "u16", 25: "pvt", 26: "dvt", 27: "u16", 28: "epoch", 29: "epoch", 30: "coin",
            31: "coin", 32: "epoch", 33: "nonneg"}

CERT_CODES = [0, 1, 2, 3, 4, 7, 8, 9, 10, 11, 12, 13, 14, 15, 16, 17, 18]
NATIVE_CODE = {"pubkey": 0, "all": 1, "any": 2, "n_of_k": 3, "invalid_before": 4, "invalid_hereafter": 5}
NATIVE_NAME = {v: k for k, v in NATIVE_CODE.items()}
DREP_CODE = {"key": 0, "script": 1, "abstain": 2, "no_confidence": 3}
DREP_NAME = {v: k for k, v in DREP_CODE.items()}
RELAY_CODE = {"addr": 0, "name": 1, "multi": 2}


@dataclass
class WireChoices:
    """encoding choices the CDDL leaves open.
    sets[site]            True = #6.258([..]), False = bare array (sites: SET_SITES); default `default_tag`
    outputs[key]          "legacy" | "map" for output key "0","1",... / "collateral_return"; default `default_output`
                          ("auto" = legacy iff the output carries neither an inline datum nor a script reference)
    plutus_lists          "canonical" (empty definite, non-empty indefinite) | "definite" | "indefinite"
    plutus_bytes          "canonical" (> 64 bytes chunked) | "definite"
    strict                refuse content outside the CDDL (empty non-empty sets, duplicate table keys, foreign keys)
    body_order/wits_order the order in which the keys of the body / witness-set map are written (the CDDL does not
                          prescribe one; ascending is what the rule "struct maps in ascending key order" gives)
    table_order           order of the entries of table maps: "canonical" (RFC 7049 length-first on the encoded key: the
                          rule of this reference), "bytewise" (order of the key values: byte strings by content, what
                          the ledger's own serializer and cardano-cli write) or "given" (the order of the content lists)"""
    sets: dict = field(default_factory=dict)
    default_tag: bool = True
    outputs: dict = field(default_factory=dict)
    default_output: str = "auto"
    plutus_lists: str = "canonical"
    plutus_bytes: str = "canonical"
    strict: bool = True
    body_order: list = None        # body map keys in wire order (None = ascending); keys not listed follow, ascending
    wits_order: list = None
    table_order: str = "canonical"  # canonical (length-first) | bytewise (key values; the ledger's own writer) | given

    def tagged(self, site):
        assert site in SET_SITES, site
        return bool(self.sets.get(site, self.default_tag))

    def form(self, key, out):
        f = self.outputs.get(str(key), self.default_output)
        if f == "auto":
            needs_map = (out.get("datum") or {}).get("k") == "inline" or out.get("script") is not None
            return "map" if needs_map else "legacy"
        return f

    def to_json(self):
        return {"sets": dict(self.sets), "default_tag": self.default_tag, "outputs": dict(self.outputs),
                "default_output": self.default_output, "plutus_lists": self.plutus_lists,
                "plutus_bytes": self.plutus_bytes, "strict": self.strict, "body_order": self.body_order,
                "wits_order": self.wits_order, "table_order": self.table_order}

    @staticmethod
    def from_json(j):
        return WireChoices(**j) if j is not None else WireChoices()


@dataclass
class Encoded:
    bytes: bytes
    body: tuple          # (start, end) offsets of the transaction_body item inside `bytes`
    wits: tuple
    aux: tuple           # offsets of the auxiliary data item (the nil byte when absent)

    @property
    def body_bytes(self):
        return self.bytes[self.body[0]:self.body[1]]


# ---- JSON image of the content model (replays, driver requests): ints as {"i": decimal}, bytes as {"b": hex} ---------
def to_json(x):
    if x is None or isinstance(x, bool):
        return x
    if isinstance(x, int):
        return {"i": str(x)}
    if isinstance(x, (bytes, bytearray)):
        return {"b": bytes(x).hex()}
    if isinstance(x, str):
        return x
    if isinstance(x, (list, tuple)):
        return [to_json(i) for i in x]
    if isinstance(x, dict):
        return {str(k): to_json(v) for k, v in x.items()}
    raise TypeError(type(x))


def from_json(j):
    if j is None or isinstance(j, (bool, str)):
        return j
    if isinstance(j, list):
        return [from_json(i) for i in j]
    if isinstance(j, dict):
        if len(j) == 1:
            (k, v), = j.items()
            if k == "i" and isinstance(v, str):
                return int(v)
            if k == "b" and isinstance(v, str):
                return bytes.fromhex(v)
        return {k: from_json(v) for k, v in j.items()}
    raise TypeError(type(j))


# ---- small helpers -------------------------------------------------------------------------------------------------
def _need(c, msg):
    if not c:
        raise SpecError(msg)


def _isint(n):
    return isinstance(n, int) and not isinstance(n, bool)


def t_uint(n, bits=64, what="uint"):
    _need(_isint(n) and 0 <= n < (1 << bits), f"{what}: {n!r} is not an unsigned integer of {bits} bits")
    return n


def t_int64(n, what="int64"):
    _need(_isint(n) and I64_MIN <= n <= I64_MAX, f"{what}: {n!r} out of int64")
    return n


def t_bytes(b, lo, hi, what):
    _need(isinstance(b, (bytes, bytearray)) and lo <= len(b) <= hi, f"{what}: byte string of {lo}..{hi} bytes expected")
    return bytes(b)


def t_hash(b, n, what="hash"):
    return t_bytes(b, n, n, what)


def t_text(s, hi, what):
    _need(isinstance(s, str) and len(s.encode("utf-8")) <= hi, f"{what}: text of at most {hi} bytes expected")
    return s


def t_struct(pairs, order=None):
    """struct map: integer keys, ascending (or in the explicitly chosen wire order)"""
    if order:
        pos = {k: i for i, k in enumerate(order)}
        return R.Map(sorted(pairs, key=lambda kv: (pos.get(kv[0], len(pos)), kv[0])))
    return R.Map(sorted(pairs, key=lambda kv: kv[0]))


def ledger_key(k):
    """order of the ledger's own writer (Haskell `Ord` on the key VALUE: integers numerically, byte strings by content,
    arrays component-wise), as opposed to the length-first order of the encoded key"""
    if _isint(k):
        return (0, k)
    if isinstance(k, (bytes, bytearray)):
        return (1, bytes(k))
    if isinstance(k, str):
        return (2, k)
    if isinstance(k, (list, tuple)):
        return (3, tuple(ledger_key(x) for x in k))
    return (4, R.enc(k))


def t_table(pairs, w, what):
    """table map: canonical (length-first, bytewise) order of the encoded keys; keys distinct"""
    ks = [R.enc(k) for k, _ in pairs]
    if w.strict:
        _need(len(set(ks)) == len(ks), f"{what}: repeated key")
    if w.table_order == "given":
        return R.Map(list(pairs))
    order = sorted(range(len(pairs)), key=(lambda i: ledger_key(pairs[i][0])) if w.table_order == "bytewise" else (lambda i: R.canonical_key(ks[i])))
    return R.Map([pairs[i] for i in order])


def t_set(items, site, w, nonempty=False):
    items = list(items)
    if w.strict and nonempty:
        _need(items, f"{site}: non-empty set expected")
    return R.Tag(258, items) if w.tagged(site) else items


def t_interval(q, what, unit=False):
    _need(isinstance(q, (list, tuple)) and len(q) == 2, f"{what}: [numerator, denominator] expected")
    n, d = q
    t_uint(n, 64, what)
    t_uint(d, 64, what)
    _need(d > 0, f"{what}: zero denominator")
    if unit:
        _need(n <= d, f"{what}: unit interval exceeds 1")
    return R.Tag(30, [n, d])


# ---- Plutus data (C18's codec, with the framing choices C03 quantifies over) -------------------------------------------
def t_pdata(d, w):
    lists, chunk = w.plutus_lists, w.plutus_bytes
    # "nested:<seed>": canonical framing, except that a list / field list whose parent frame is an indefinite list is
    # definite with probability 1/2 (per node, derived from the seed and a node counter)
    nested = lists.startswith("nested:")
    counter = [0]

    def seq(items, parent_indef=False):
        if lists == "definite":
            return list(items)
        if lists == "indefinite":
            return R.IndefList(items)
        if nested and parent_indef and items:
            counter[0] += 1
            if int(hashlib.blake2b(f"{lists}/{counter[0]}".encode(), digest_size=1).hexdigest(), 16) % 2 == 0:
                return list(items)
        return R.IndefList(items) if items else []

    def byt(b):
        return P.ref_bytes(b) if chunk == "canonical" else b

    def go(x, parent_indef=False):
        k = x[0]
        if k == "constr":
            _need(_isint(x[1]) and 0 <= x[1] < U64, "constructor index")
            t = P.constr_tag(x[1])
            # children are built after this node's framing is known (a definite frame shields its children)
            probe = seq([None] * len(x[2]), parent_indef and t is not None)
            mine_indef = isinstance(probe, R.IndefList)
            kids = [go(f, mine_indef) for f in x[2]]
            fields = R.IndefList(kids) if mine_indef else kids
            return R.Tag(t, fields) if t is not None else R.Tag(102, [x[1], fields])
        if k == "list":
            probe = seq([None] * len(x[1]), parent_indef)
            mine_indef = isinstance(probe, R.IndefList)
            kids = [go(i, mine_indef) for i in x[1]]
            return R.IndefList(kids) if mine_indef else kids
        if k == "map":
            return R.Map([(go(a), go(b)) for a, b in x[1]])
        if k == "int":
            n = x[1]
            _need(_isint(n), "plutus integer")
            if -U64 <= n < U64:
                return n
            m = n if n >= 0 else -1 - n
            return R.Tag(2 if n >= 0 else 3, byt(m.to_bytes((m.bit_length() + 7) // 8, "big")))
        if k == "bytes":
            _need(isinstance(x[1], (bytes, bytearray)), "plutus bytes")
            return byt(bytes(x[1]))
        raise SpecError(f"plutus data kind {k!r}")
    return go(d)


# ---- leaves ----------------------------------------------------------------------------------------------------------
def t_input(i, w=None):
    return [t_hash(i["txid"], 32, "transaction id"), t_uint(i["ix"], 16, "input index")]


def t_multiasset(ma, w, mint=False):
    pol = []
    for p, assets in ma:
        inner = []
        for n, q in assets:
            if mint:
                t_int64(q, "mint quantity")
                _need(q != 0 or not w.strict, "mint quantity zero")
            else:
                t_uint(q, 64, "asset quantity")
                _need(q > 0 or not w.strict, "asset quantity zero")
            inner.append((t_bytes(n, 0, 32, "asset name"), q))
        _need(inner or not w.strict, "policy without assets")
        pol.append((t_hash(p, 28, "policy id"), t_table(inner, w, "asset names")))
    return t_table(pol, w, "policies")


def t_value(v, w):
    coin = t_uint(v["coin"], 64, "coin")
    if not v.get("assets"):
        return coin
    return [coin, t_multiasset(v["assets"], w)]


def t_native(s, w=None):
    k = s["k"]
    code = NATIVE_CODE.get(k)
    _need(code is not None, f"native script kind {k!r}")
    if code == 0:
        return [0, t_hash(s["hash"], 28, "key hash")]
    if code in (1, 2):
        return [code, [t_native(x) for x in s["scripts"]]]
    if code == 3:
        return [3, t_int64(s["n"], "n_of_k"), [t_native(x) for x in s["scripts"]]]
    return [code, t_uint(s["slot"], 64, "slot")]


def t_script(s, w=None):
    """script = [0, native_script // 1, plutus_v1_script // 2, plutus_v2_script // 3, plutus_v3_script]"""
    if s["k"] == "native":
        return [0, t_native(s["script"])]
    _need(s["k"] == "plutus" and s["v"] in (1, 2, 3), "script language")
    return [s["v"], t_bytes(s["bytes"], 0, 1 << 32, "plutus script")]


def t_datum_option(d, w):
    if d["k"] == "hash":
        return [0, t_hash(d["hash"], 32, "datum hash")]
    _need(d["k"] == "inline", "datum option kind")
    return [1, R.Tag(24, R.enc(t_pdata(d["data"], w)))]


def t_script_ref(s, w=None):
    return R.Tag(24, R.enc(t_script(s)))


def t_address(a):
    return t_bytes(a, 1, 1 << 16, "address")


def t_output(o, w, key="0"):
    form = w.form(key, o)
    d, s = o.get("datum"), o.get("script")
    if form == "legacy":
        _need(s is None and (d is None or d["k"] == "hash"), "a legacy output cannot carry an inline datum or a script")
        out = [t_address(o["addr"]), t_value(o["value"], w)]
        if d is not None:
            out.append(t_hash(d["hash"], 32, "datum hash"))
        return out
    _need(form == "map", f"output form {form!r}")
    pairs = [(0, t_address(o["addr"])), (1, t_value(o["value"], w))]
    if d is not None:
        pairs.append((2, t_datum_option(d, w)))
    if s is not None:
        pairs.append((3, t_script_ref(s)))
    return t_struct(pairs)


def t_credential(c, w=None):
    _need(c["k"] in ("key", "script"), "credential kind")
    return [0 if c["k"] == "key" else 1, t_hash(c["hash"], 28, "credential hash")]


def t_drep(d, w=None):
    code = DREP_CODE.get(d["k"])
    _need(code is not None, "drep kind")
    return [code, t_hash(d["hash"], 28, "drep hash")] if code < 2 else [code]


def t_anchor(a, w=None):
    return [t_text(a["url"], 128, "anchor url"), t_hash(a["hash"], 32, "anchor data hash")]


def t_anchor_opt(a):
    return None if a is None else t_anchor(a)


def t_port(p):
    return None if p is None else t_uint(p, 16, "port")


def t_relay(r, w=None):
    k = r["k"]
    if k == "addr":
        return [0, t_port(r.get("port")), None if r.get("ipv4") is None else t_hash(r["ipv4"], 4, "ipv4"),
                None if r.get("ipv6") is None else t_hash(r["ipv6"], 16, "ipv6")]
    if k == "name":
        return [1, t_port(r.get("port")), t_text(r["dns"], 128, "dns name")]
    _need(k == "multi", "relay kind")
    return [2, t_text(r["dns"], 128, "dns name")]


def t_pool_metadata(m):
    return None if m is None else [t_text(m["url"], 128, "pool metadata url"), t_hash(m["hash"], 32, "pool metadata hash")]


def t_reward_account(b):
    return t_bytes(b, 1, 64, "reward account")


def pool_params_items(p, w):
    """the nine items of pool_params (a CDDL group: flattened into the certificate)"""
    return [t_hash(p["operator"], 28, "pool operator"), t_hash(p["vrf"], 32, "vrf key hash"), t_uint(p["pledge"], 64, "pledge"),
            t_uint(p["cost"], 64, "cost"), t_interval(p["margin"], "margin", unit=True), t_reward_account(p["reward_account"]),
            t_set([t_hash(h, 28, "pool owner") for h in p["owners"]], "pool_owners", w),
            [t_relay(r) for r in p["relays"]], t_pool_metadata(p.get("metadata"))]


def t_pool_params(p, w):
    return pool_params_items(p, w)


def t_cert(c, w):
    code = c["code"]
    cred = (lambda: t_credential(c["cred"]))
    pool = (lambda: t_hash(c["pool"], 28, "pool key hash"))
    coin = (lambda: t_uint(c["coin"], 64, "deposit"))
    if code in (0, 1):
        return [code, cred()]
    if code == 2:
        return [2, cred(), pool()]
    if code == 3:
        return [3, *pool_params_items(c["params"], w)]
    if code == 4:
        return [4, pool(), t_uint(c["epoch"], 64, "epoch")]
    if code in (7, 8):
        return [code, cred(), coin()]
    if code == 9:
        return [9, cred(), t_drep(c["drep"])]
    if code == 10:
        return [10, cred(), pool(), t_drep(c["drep"])]
    if code == 11:
        return [11, cred(), pool(), coin()]
    if code == 12:
        return [12, cred(), t_drep(c["drep"]), coin()]
    if code == 13:
        return [13, cred(), pool(), t_drep(c["drep"]), coin()]
    if code == 14:
        return [14, t_credential(c["cold"]), t_credential(c["hot"])]
    if code == 15:
        return [15, t_credential(c["cold"]), t_anchor_opt(c.get("anchor"))]
    if code == 16:
        return [16, cred(), coin(), t_anchor_opt(c.get("anchor"))]
    if code == 17:
        return [17, cred(), coin()]
    if code == 18:
        return [18, cred(), t_anchor_opt(c.get("anchor"))]
    raise SpecError(f"certificate code {code!r}")


def t_voter(v, w=None):
    _need(v["code"] in (0, 1, 2, 3, 4), "voter code")
    return [v["code"], t_hash(v["hash"], 28, "voter hash")]


def t_gaid(g, w=None):
    return [t_hash(g["txid"], 32, "gov action tx id"), t_uint(g["ix"], 16, "gov action index")]


def t_gaid_opt(g):
    return None if g is None else t_gaid(g)


def t_voting_procedure(p, w=None):
    _need(p["vote"] in (0, 1, 2), "vote")
    return [p["vote"], t_anchor_opt(p.get("anchor"))]


def t_voting_procedures(vp, w):
    outer = []
    for voter, votes in vp:
        if w.strict:
            _need(votes, "voter without votes")
        outer.append((t_voter(voter), t_table([(t_gaid(g), t_voting_procedure(p)) for g, p in votes], w, "votes")))
    if w.strict:
        _need(outer, "empty voting procedures")
    return t_table(outer, w, "voters")


def t_exunits(x):
    _need(isinstance(x, (list, tuple)) and len(x) == 2, "ex_units")
    return [t_uint(x[0], 64, "mem"), t_uint(x[1], 64, "steps")]


def t_ppu_value(key, v):
    kind = PPU_KIND.get(key)
    _need(kind is not None, f"protocol parameter key {key!r}")
    if kind == "coin":
        return t_uint(v, 64, "coin")
    if kind in ("u32", "epoch"):
        return t_uint(v, 32, "uint32")
    if kind == "u16":
        return t_uint(v, 16, "uint16")
    if kind == "unit":
        return t_interval(v, "unit interval", unit=True)
    if kind == "nonneg":
        return t_interval(v, "nonnegative interval")
    if kind == "costmdls":
        pairs = []
        for lang, costs in v:
            t_uint(lang, 8, "language")
            pairs.append((lang, [t_int64(c, "cost") for c in costs]))
        _need(len({k for k, _ in pairs}) == len(pairs), "repeated language")
        return t_struct(pairs)
    if kind == "prices":
        _need(len(v) == 2, "ex_unit_prices")
        return [t_interval(v[0], "mem price"), t_interval(v[1], "step price")]
    if kind == "exunits":
        return t_exunits(v)
    if kind in ("pvt", "dvt"):
        _need(len(v) == (5 if kind == "pvt" else 10), "voting thresholds arity")
        return [t_interval(q, "threshold", unit=True) for q in v]
    raise SpecError(kind)


def t_ppu(u, w=None):
    ks = [k for k, _ in u]
    _need(len(set(ks)) == len(ks), "repeated protocol parameter key")
    return t_struct([(k, t_ppu_value(k, v)) for k, v in u])


def t_policy_opt(h):
    return None if h is None else t_hash(h, 28, "policy hash")


def t_gov_action(a, w):
    code = a["code"]
    if code == 0:
        return [0, t_gaid_opt(a.get("prev")), t_ppu(a["update"]), t_policy_opt(a.get("policy"))]
    if code == 1:
        v = a["version"]
        _need(len(v) == 2, "protocol version")
        return [1, t_gaid_opt(a.get("prev")), [t_uint(v[0], 64, "major"), t_uint(v[1], 64, "minor")]]
    if code == 2:
        return [2, t_table([(t_reward_account(k), t_uint(c, 64, "coin")) for k, c in a["withdrawals"]], w, "treasury withdrawals"),
                t_policy_opt(a.get("policy"))]
    if code == 3:
        return [3, t_gaid_opt(a.get("prev"))]
    if code == 4:
        return [4, t_gaid_opt(a.get("prev")), t_set([t_credential(c) for c in a["remove"]], "committee_remove", w),
                t_table([(t_credential(c), t_uint(e, 64, "epoch")) for c, e in a["add"]], w, "committee members"),
                t_interval(a["quorum"], "quorum", unit=True)]
    if code == 5:
        sh = a.get("script_hash")
        return [5, t_gaid_opt(a.get("prev")), [t_anchor(a["anchor"]), None if sh is None else t_hash(sh, 28, "script hash")]]
    if code == 6:
        return [6]
    raise SpecError(f"gov action code {code!r}")


def t_proposal(p, w):
    return [t_uint(p["deposit"], 64, "deposit"), t_reward_account(p["reward_account"]), t_gov_action(p["action"], w),
            t_anchor(p["anchor"])]


def t_withdrawals(ws, w):
    if w.strict:
        _need(ws, "empty withdrawals")
    return t_table([(t_reward_account(k), t_uint(c, 64, "coin")) for k, c in ws], w, "withdrawals")


# ---- metadata / auxiliary data -------------------------------------------------------------------------------------------
def t_metadatum(m, w=None):
    k = m[0]
    if k == "int":
        _need(_isint(m[1]) and -U64 <= m[1] < U64, "metadatum int")
        return m[1]
    if k == "bytes":
        return t_bytes(m[1], 0, 64, "metadatum bytes")
    if k == "text":
        return t_text(m[1], 64, "metadatum text")
    if k == "list":
        return [t_metadatum(x) for x in m[1]]
    if k == "map":
        return R.Map([(t_metadatum(a), t_metadatum(b)) for a, b in m[1]])
    raise SpecError(f"metadatum kind {k!r}")


def t_metadata(md, w):
    return t_table([(t_uint(label, 64, "metadatum label"), t_metadatum(v)) for label, v in md], w, "metadata labels")


def t_aux(a, w):
    k = a["k"]
    if k == "shelley":
        return t_metadata(a["metadata"], w)
    if k == "shelley_ma":
        return [t_metadata(a["metadata"], w), [t_native(s) for s in a["native"]]]
    _need(k == "alonzo", "auxiliary data form")
    pairs = []
    if a.get("metadata") is not None:
        pairs.append((0, t_metadata(a["metadata"], w)))
    if a.get("native") is not None:
        pairs.append((1, [t_native(s) for s in a["native"]]))
    for key, name in ((2, "v1"), (3, "v2"), (4, "v3")):
        if a.get(name) is not None:
            pairs.append((key, [t_bytes(s, 0, 1 << 32, "plutus script") for s in a[name]]))
    return R.Tag(259, t_struct(pairs))


# ---- witness set -------------------------------------------------------------------------------------------------------
def t_vkey_witness(v, w=None):
    return [t_hash(v["vkey"], 32, "vkey"), t_hash(v["sig"], 64, "signature")]


def t_bootstrap_witness(b, w=None):
    return [t_hash(b["vkey"], 32, "vkey"), t_hash(b["sig"], 64, "signature"), t_hash(b["chain_code"], 32, "chain code"),
            t_bytes(b["attrs"], 0, 1 << 16, "attributes")]


def t_redeemer_key(r):
    _need(r["tag"] in (0, 1, 2, 3, 4, 5), "redeemer tag")
    return [r["tag"], t_uint(r["ix"], 32, "redeemer index")]


def t_redeemer(r, w):
    """one entry of the list form"""
    return [*t_redeemer_key(r), t_pdata(r["data"], w), t_exunits([r["mem"], r["steps"]])]


def t_redeemers(rs, w):
    items = rs["items"]
    if w.strict:
        _need(items, "empty redeemers")
    if rs["form"] == "list":
        return [[*t_redeemer_key(r), t_pdata(r["data"], w), t_exunits([r["mem"], r["steps"]])] for r in items]
    _need(rs["form"] == "map", "redeemers form")
    return t_table([(t_redeemer_key(r), [t_pdata(r["data"], w), t_exunits([r["mem"], r["steps"]])]) for r in items], w, "redeemers")


def t_wits(ws, w):
    pairs = []
    for name, key in WITS_KEYS:
        v = ws.get(name)
        if v is None:
            continue
        if name == "redeemers":
            pairs.append((key, t_redeemers(v, w)))
            continue
        if name == "vkeys":
            items = [t_vkey_witness(x) for x in v]
        elif name == "native":
            items = [t_native(x) for x in v]
        elif name == "bootstrap":
            items = [t_bootstrap_witness(x) for x in v]
        elif name == "data":
            items = [t_pdata(x, w) for x in v]
        else:
            items = [t_bytes(x, 0, 1 << 32, "plutus script") for x in v]
        pairs.append((key, t_set(items, WITS_SITE[name], w, nonempty=True)))
    return t_struct(pairs, w.wits_order)


# ---- body / transaction ----------------------------------------------------------------------------------------------------
def t_body(b, w):
    for k in b:
        _need(k in BODY_KEY or k == "extra", f"unknown body field {k!r}")
    pairs = []

    def put(name, f):
        v = b.get(name)
        if v is not None:
            pairs.append((BODY_KEY[name], f(v)))
    _need(b.get("inputs") is not None and b.get("outputs") is not None and b.get("fee") is not None,
          "inputs, outputs and fee are required")
    put("inputs", lambda v: t_set([t_input(i) for i in v], "inputs", w))
    put("outputs", lambda v: [t_output(o, w, str(i)) for i, o in enumerate(v)])
    put("fee", lambda v: t_uint(v, 64, "fee"))
    put("ttl", lambda v: t_uint(v, 64, "ttl"))
    put("certs", lambda v: t_set([t_cert(c, w) for c in v], "certs", w, nonempty=True))
    put("withdrawals", lambda v: t_withdrawals(v, w))
    put("aux_hash", lambda v: t_hash(v, 32, "auxiliary data hash"))
    put("validity_start", lambda v: t_uint(v, 64, "validity start"))
    put("mint", lambda v: t_multiasset(v, w, mint=True))
    put("script_data_hash", lambda v: t_hash(v, 32, "script data hash"))
    put("collateral", lambda v: t_set([t_input(i) for i in v], "collateral", w, nonempty=True))
    put("required_signers", lambda v: t_set([t_hash(h, 28, "required signer") for h in v], "required_signers", w, nonempty=True))
    put("network_id", lambda v: t_uint(v, 1, "network id"))
    put("collateral_return", lambda v: t_output(v, w, "collateral_return"))
    put("total_collateral", lambda v: t_uint(v, 64, "total collateral"))
    put("reference_inputs", lambda v: t_set([t_input(i) for i in v], "reference_inputs", w, nonempty=True))
    put("voting_procedures", lambda v: t_voting_procedures(v, w))
    put("proposals", lambda v: t_set([t_proposal(p, w) for p in v], "proposals", w, nonempty=True))
    put("treasury_value", lambda v: t_uint(v, 64, "treasury value"))
    put("donation", lambda v: t_uint(v, 64, "donation"))
    if w.strict:
        _need(b.get("donation") is None or b["donation"] > 0, "donation is a positive coin")
        _need(not b.get("extra"), "foreign body keys")
        _need(b.get("mint") is None or b["mint"], "empty mint")
    for k, v in b.get("extra") or []:
        pairs.append((k, v))
    return t_struct(pairs, w.body_order)


def encode(tx, wire=None) -> Encoded:
    """transaction = [transaction_body, transaction_witness_set, bool, auxiliary_data / nil]"""
    w = wire or WireChoices()
    body = R.enc(t_body(tx["body"], w))
    wits = R.enc(t_wits(tx.get("wits") or {}, w))
    _need(isinstance(tx.get("valid", True), bool), "is_valid")
    valid = R.enc(tx.get("valid", True))
    aux = R.enc(None if tx.get("aux") is None else t_aux(tx["aux"], w))
    b = R.head(4, 4) + body + wits + valid + aux
    s1, s2 = 1 + len(body), 1 + len(body) + len(wits)
    return Encoded(b, (1, s1), (s1, s2), (s2 + len(valid), len(b)))


PART = {
    "body": t_body, "witness_set": t_wits, "aux_data": t_aux, "value": t_value, "input": t_input,
    "multiasset": lambda x, w: t_multiasset(x, w), "mint": lambda x, w: t_multiasset(x, w, mint=True),
    "withdrawals": t_withdrawals, "certificate": t_cert, "pool_params": t_pool_params, "relay": t_relay,
    "credential": t_credential, "drep": t_drep, "anchor": t_anchor, "voter": t_voter, "gov_action_id": t_gaid,
    "voting_procedure": t_voting_procedure, "voting_procedures": t_voting_procedures, "gov_action": t_gov_action,
    "proposal": t_proposal, "protocol_param_update": t_ppu, "native_script": t_native, "redeemers": t_redeemers,
    "redeemer": t_redeemer, "metadata": t_metadata, "metadatum": t_metadatum, "plutus_data": t_pdata, "vkey_witness": t_vkey_witness,
    "bootstrap_witness": t_bootstrap_witness, "script": t_script, "script_ref": t_script_ref, "datum_option": t_datum_option,
}


def tree(kind, part, wire=None, key="0"):
    w = wire or WireChoices()
    if kind == "tx":
        return R.dec(encode(part, w).bytes)
    if kind == "output":
        return t_output(part, w, key)
    return PART[kind](part, w)


def encode_part(kind, part, wire=None, key="0") -> bytes:
    """bytes the CDDL prescribes for one part (kind: "tx", "output" or a key of PART)"""
    if kind == "tx":
        return encode(part, wire).bytes
    return R.enc(tree(kind, part, wire, key))


def tx_id(tx, wire=None) -> bytes:
    return hashlib.blake2b(encode(tx, wire).body_bytes, digest_size=32).digest()


# =====================================================================================================================
# LIFTING: bytes (decoded with cbor_ref) -> content + wire choices.  Strict: anything the model cannot express raises
# NotExpressible with a reason.  Used to validate this encoder against the byte fixtures of /repo/test.
# =====================================================================================================================
class Lifter:
    def __init__(self):
        self.sets = {}
        self.outputs = {}
        self.framings = {(l, b) for l in ("canonical", "definite", "indefinite") for b in ("canonical", "definite")}
        self.strict = True
        self.table_modes = {"canonical", "bytewise", "given"}
        self.body_order = None
        self.wits_order = None

    def wire(self):
        order = [("canonical", "canonical"), ("definite", "canonical"), ("indefinite", "canonical"),
                 ("canonical", "definite"), ("definite", "definite"), ("indefinite", "definite")]
        fr = next((f for f in order if f in self.framings), None)
        if fr is None:
            raise NotExpressible("Plutus data with mixed list / byte-string framing")
        return WireChoices(sets=dict(self.sets), outputs=dict(self.outputs), plutus_lists=fr[0], plutus_bytes=fr[1],
                           strict=self.strict, body_order=self.body_order, wits_order=self.wits_order,
                           table_order=next(m for m in ("canonical", "bytewise", "given") if m in self.table_modes))

    # -- generic
    @staticmethod
    def no(cond, why):
        if not cond:
            raise NotExpressible(why)

    def arr(self, x, n=None, what="array"):
        self.no(isinstance(x, list) and not isinstance(x, R.IndefList), f"{what}: definite array expected")
        if n is not None:
            self.no(len(x) == n, f"{what}: {n} items expected, got {len(x)}")
        return x

    def uint(self, x, what="uint"):
        self.no(_isint(x) and 0 <= x < U64, f"{what}: unsigned integer expected")
        return x

    def byt(self, x, lo, hi, what):
        self.no(isinstance(x, bytes) and lo <= len(x) <= hi, f"{what}: byte string of {lo}..{hi} bytes expected")
        return x

    def text(self, x, hi, what):
        self.no(isinstance(x, str) and len(x.encode()) <= hi, f"{what}: text of at most {hi} bytes expected")
        return x

    def set_(self, x, site, f, nonempty=False):
        if nonempty and not (x.value if isinstance(x, R.Tag) else x):
            self.strict = False          # an empty non-empty set: liftable only as non-strict content
        if isinstance(x, R.Tag):
            self.no(x.tag == 258, f"{site}: tag {x.tag}")
            tagged, items = True, self.arr(x.value, what=site)
        else:
            tagged, items = False, self.arr(x, what=site)
        if self.sets.setdefault(site, tagged) != tagged:
            raise NotExpressible(f"set site {site} occurs both tagged and untagged")
        return [f(i) for i in items]

    def table(self, x, what):
        self.no(isinstance(x, R.Map), f"{what}: map expected")
        ks = [R.enc(k) for k, _ in x.pairs]
        self.no(len(set(ks)) == len(ks), f"{what}: repeated key")
        if not all(R.canonical_key(a) < R.canonical_key(b) for a, b in zip(ks, ks[1:])):
            self.table_modes.discard("canonical")
        lk = [ledger_key(k) for k, _ in x.pairs]
        if not all(a < b for a, b in zip(lk, lk[1:])):
            self.table_modes.discard("bytewise")
        return x.pairs

    def struct(self, x, what, free_order=False):
        """pairs of a struct map; with free_order the wire order is returned as second component (None = ascending)"""
        self.no(isinstance(x, R.Map), f"{what}: map expected")
        ks = [k for k, _ in x.pairs]
        self.no(all(_isint(k) for k in ks) and len(set(ks)) == len(ks), f"{what}: keys not distinct integers")
        asc = all(a < b for a, b in zip(ks, ks[1:]))
        if free_order:
            return x.pairs, (None if asc else ks)
        self.no(asc, f"{what}: keys not ascending")
        return x.pairs

    def interval(self, x, what):
        self.no(isinstance(x, R.Tag) and x.tag == 30, f"{what}: #6.30 expected")
        n, d = self.arr(x.value, 2, what)
        return [self.uint(n), self.uint(d)]

    # -- parts
    def pdata(self, x):
        try:
            a = P.abstract(x)
        except ValueError as e:
            raise NotExpressible(f"not plutus data: {e}")
        xb = R.enc(x)
        ok = {f for f in self.framings if R.enc(t_pdata(a, WireChoices(plutus_lists=f[0], plutus_bytes=f[1]))) == xb}
        self.no(ok, "Plutus data framing outside the three list / two byte-string conventions (or mixed across the item)")
        self.framings = ok
        return _listify(a)

    def input(self, x):
        t, i = self.arr(x, 2, "input")
        return {"txid": self.byt(t, 32, 32, "transaction id"), "ix": self.uint(i)}

    def multiasset(self, x, mint=False):
        out = []
        for p, assets in self.table(x, "multiasset"):
            inner = []
            for n, q in self.table(assets, "assets"):
                self.no(_isint(q) and (mint or q >= 0), "asset quantity")
                inner.append([self.byt(n, 0, 32, "asset name"), q])
            self.no(inner, "policy without assets")
            out.append([self.byt(p, 28, 28, "policy id"), inner])
        return out

    def value(self, x):
        if _isint(x):
            return {"coin": self.uint(x), "assets": []}
        c, ma = self.arr(x, 2, "value")
        ma = self.multiasset(ma)
        self.no(ma, "[coin, {}]: a value without assets is a bare coin")
        return {"coin": self.uint(c), "assets": ma}

    def native(self, x):
        x = self.arr(x, what="native script")
        self.no(len(x) >= 2 and x[0] in NATIVE_NAME, "native script code")
        k = NATIVE_NAME[x[0]]
        if x[0] == 0:
            self.arr(x, 2)
            return {"k": k, "hash": self.byt(x[1], 28, 28, "key hash")}
        if x[0] in (1, 2):
            self.arr(x, 2)
            return {"k": k, "scripts": [self.native(s) for s in self.arr(x[1])]}
        if x[0] == 3:
            self.arr(x, 3)
            self.no(_isint(x[1]), "n_of_k")
            return {"k": k, "n": x[1], "scripts": [self.native(s) for s in self.arr(x[2])]}
        self.arr(x, 2)
        return {"k": k, "slot": self.uint(x[1])}

    def script(self, x):
        x = self.arr(x, 2, "script")
        if x[0] == 0:
            return {"k": "native", "script": self.native(x[1])}
        self.no(x[0] in (1, 2, 3), "script language")
        return {"k": "plutus", "v": x[0], "bytes": self.byt(x[1], 0, 1 << 32, "plutus script")}

    def embedded(self, x, what):
        self.no(isinstance(x, R.Tag) and x.tag == 24 and isinstance(x.value, bytes), f"{what}: #6.24(bytes) expected")
        try:
            inner = R.dec(x.value)
        except Exception as e:  # noqa: BLE001
            raise NotExpressible(f"{what}: embedded bytes are not CBOR ({e})")
        self.no(R.enc(inner) == x.value, f"{what}: embedded CBOR not in shortest form")
        return inner

    def output(self, x, key):
        if isinstance(x, R.Map):
            self.outputs[str(key)] = "map"
            d = dict(self.struct(x, "output"))
            self.no(set(d) <= {0, 1, 2, 3} and 0 in d and 1 in d, "output keys")
            o = {"addr": self.byt(d[0], 1, 1 << 16, "address"), "value": self.value(d[1]), "datum": None, "script": None}
            if 2 in d:
                opt = self.arr(d[2], 2, "datum option")
                if opt[0] == 0:
                    o["datum"] = {"k": "hash", "hash": self.byt(opt[1], 32, 32, "datum hash")}
                else:
                    self.no(opt[0] == 1, "datum option code")
                    o["datum"] = {"k": "inline", "data": self.pdata(self.embedded(opt[1], "inline datum"))}
            if 3 in d:
                o["script"] = self.script(self.embedded(d[3], "script ref"))
            return o
        self.outputs[str(key)] = "legacy"
        x = self.arr(x, what="output")
        self.no(len(x) in (2, 3), "legacy output arity")
        o = {"addr": self.byt(x[0], 1, 1 << 16, "address"), "value": self.value(x[1]), "datum": None, "script": None}
        if len(x) == 3:
            o["datum"] = {"k": "hash", "hash": self.byt(x[2], 32, 32, "datum hash")}
        return o

    def credential(self, x):
        c, h = self.arr(x, 2, "credential")
        self.no(c in (0, 1), "credential code")
        return {"k": "key" if c == 0 else "script", "hash": self.byt(h, 28, 28, "credential hash")}

    def drep(self, x):
        x = self.arr(x, what="drep")
        self.no(len(x) >= 1 and x[0] in DREP_NAME, "drep code")
        if x[0] < 2:
            self.arr(x, 2)
            return {"k": DREP_NAME[x[0]], "hash": self.byt(x[1], 28, 28, "drep hash")}
        self.arr(x, 1)
        return {"k": DREP_NAME[x[0]]}

    def anchor(self, x):
        u, h = self.arr(x, 2, "anchor")
        return {"url": self.text(u, 128, "url"), "hash": self.byt(h, 32, 32, "anchor hash")}

    def anchor_opt(self, x):
        return None if x is None else self.anchor(x)

    def relay(self, x):
        x = self.arr(x, what="relay")
        self.no(len(x) >= 2 and x[0] in (0, 1, 2), "relay code")
        port = lambda p: None if p is None else self.uint(p)   # noqa: E731
        if x[0] == 0:
            self.arr(x, 4)
            return {"k": "addr", "port": port(x[1]), "ipv4": None if x[2] is None else self.byt(x[2], 4, 4, "ipv4"),
                    "ipv6": None if x[3] is None else self.byt(x[3], 16, 16, "ipv6")}
        if x[0] == 1:
            self.arr(x, 3)
            return {"k": "name", "port": port(x[1]), "dns": self.text(x[2], 128, "dns")}
        self.arr(x, 2)
        return {"k": "multi", "dns": self.text(x[1], 128, "dns")}

    def pool_params(self, x):
        x = self.arr(x, 9, "pool params")
        md = None
        if x[8] is not None:
            u, h = self.arr(x[8], 2, "pool metadata")
            md = {"url": self.text(u, 128, "url"), "hash": self.byt(h, 32, 32, "pool metadata hash")}
        return {"operator": self.byt(x[0], 28, 28, "operator"), "vrf": self.byt(x[1], 32, 32, "vrf"),
                "pledge": self.uint(x[2]), "cost": self.uint(x[3]), "margin": self.interval(x[4], "margin"),
                "reward_account": self.byt(x[5], 1, 64, "reward account"),
                "owners": self.set_(x[6], "pool_owners", lambda h: self.byt(h, 28, 28, "owner")),
                "relays": [self.relay(r) for r in self.arr(x[7], what="relays")], "metadata": md}

    def cert(self, x):
        x = self.arr(x, what="certificate")
        self.no(len(x) >= 2 and x[0] in CERT_CODES, "certificate code")
        code = x[0]
        shape = {0: "c", 1: "c", 2: "cp", 4: "pe", 7: "cn", 8: "cn", 9: "cd", 10: "cpd", 11: "cpn", 12: "cdn", 13: "cpdn",
                 14: "CH", 15: "Ca", 16: "cna", 17: "cn", 18: "ca"}
        if code == 3:
            return {"code": 3, "params": self.pool_params(x[1:])}
        self.arr(x, 1 + len(shape[code]), "certificate")
        out = {"code": code}
        for ch, v in zip(shape[code], x[1:]):
            if ch == "c":
                out["cred"] = self.credential(v)
            elif ch == "C":
                out["cold"] = self.credential(v)
            elif ch == "H":
                out["hot"] = self.credential(v)
            elif ch == "p":
                out["pool"] = self.byt(v, 28, 28, "pool key hash")
            elif ch == "e":
                out["epoch"] = self.uint(v)
            elif ch == "n":
                out["coin"] = self.uint(v)
            elif ch == "d":
                out["drep"] = self.drep(v)
            elif ch == "a":
                out["anchor"] = self.anchor_opt(v)
        return out

    def voter(self, x):
        c, h = self.arr(x, 2, "voter")
        self.no(c in (0, 1, 2, 3, 4), "voter code")
        return {"code": c, "hash": self.byt(h, 28, 28, "voter hash")}

    def gaid(self, x):
        t, i = self.arr(x, 2, "gov action id")
        return {"txid": self.byt(t, 32, 32, "tx id"), "ix": self.uint(i)}

    def gaid_opt(self, x):
        return None if x is None else self.gaid(x)

    def voting_procedure(self, x):
        v, a = self.arr(x, 2, "voting procedure")
        self.no(v in (0, 1, 2), "vote")
        return {"vote": v, "anchor": self.anchor_opt(a)}

    def voting_procedures(self, x):
        return [[self.voter(k), [[self.gaid(g), self.voting_procedure(p)] for g, p in self.table(v, "votes")]]
                for k, v in self.table(x, "voting procedures")]

    def ppu_value(self, key, v):
        kind = PPU_KIND.get(key)
        self.no(kind is not None, f"protocol parameter key {key}")
        if kind in ("coin", "u32", "u16", "epoch"):
            return self.uint(v)
        if kind in ("unit", "nonneg"):
            return self.interval(v, "interval")
        if kind == "costmdls":
            return [[self.uint(k), [c for c in self.arr(costs) if _isint(c) or self.no(False, "cost")]]
                    for k, costs in self.struct(v, "cost models")]
        if kind == "prices":
            a, b = self.arr(v, 2, "prices")
            return [self.interval(a, "price"), self.interval(b, "price")]
        if kind == "exunits":
            a, b = self.arr(v, 2, "ex units")
            return [self.uint(a), self.uint(b)]
        return [self.interval(q, "threshold") for q in self.arr(v, 5 if kind == "pvt" else 10, "thresholds")]

    def ppu(self, x):
        return [[k, self.ppu_value(k, v)] for k, v in self.struct(x, "protocol param update")]

    def policy_opt(self, x):
        return None if x is None else self.byt(x, 28, 28, "policy hash")

    def gov_action(self, x):
        x = self.arr(x, what="gov action")
        self.no(len(x) >= 1 and x[0] in range(7), "gov action code")
        c = x[0]
        self.arr(x, {0: 4, 1: 3, 2: 3, 3: 2, 4: 5, 5: 3, 6: 1}[c], "gov action")
        if c == 0:
            return {"code": 0, "prev": self.gaid_opt(x[1]), "update": self.ppu(x[2]), "policy": self.policy_opt(x[3])}
        if c == 1:
            ma, mi = self.arr(x[2], 2, "protocol version")
            return {"code": 1, "prev": self.gaid_opt(x[1]), "version": [self.uint(ma), self.uint(mi)]}
        if c == 2:
            return {"code": 2, "withdrawals": [[self.byt(k, 1, 64, "reward account"), self.uint(v)]
                                               for k, v in self.table(x[1], "treasury withdrawals")],
                    "policy": self.policy_opt(x[2])}
        if c == 3:
            return {"code": 3, "prev": self.gaid_opt(x[1])}
        if c == 4:
            return {"code": 4, "prev": self.gaid_opt(x[1]), "remove": self.set_(x[2], "committee_remove", self.credential),
                    "add": [[self.credential(k), self.uint(v)] for k, v in self.table(x[3], "committee")],
                    "quorum": self.interval(x[4], "quorum")}
        if c == 5:
            a, sh = self.arr(x[2], 2, "constitution")
            return {"code": 5, "prev": self.gaid_opt(x[1]), "anchor": self.anchor(a),
                    "script_hash": None if sh is None else self.byt(sh, 28, 28, "script hash")}
        return {"code": 6}

    def proposal(self, x):
        d, ra, act, an = self.arr(x, 4, "proposal")
        return {"deposit": self.uint(d), "reward_account": self.byt(ra, 1, 64, "reward account"),
                "action": self.gov_action(act), "anchor": self.anchor(an)}

    def metadatum(self, x):
        if _isint(x):
            self.no(-U64 <= x < U64, "metadatum int")
            return ["int", x]
        if isinstance(x, bytes):
            return ["bytes", self.byt(x, 0, 64, "metadatum bytes")]
        if isinstance(x, str):
            return ["text", self.text(x, 64, "metadatum text")]
        if isinstance(x, R.Map):
            return ["map", [[self.metadatum(k), self.metadatum(v)] for k, v in x.pairs]]
        if isinstance(x, list) and not isinstance(x, R.IndefList):
            return ["list", [self.metadatum(i) for i in x]]
        raise NotExpressible(f"metadatum of type {type(x).__name__}")

    def metadata(self, x):
        return [[self.uint(k, "label"), self.metadatum(v)] for k, v in self.table(x, "metadata")]

    def aux(self, x):
        if isinstance(x, R.Map):
            return {"k": "shelley", "metadata": self.metadata(x)}
        if isinstance(x, R.Tag):
            self.no(x.tag == 259, f"auxiliary data tag {x.tag}")
            d = dict(self.struct(x.value, "alonzo auxiliary data"))
            self.no(set(d) <= {0, 1, 2, 3, 4}, "alonzo auxiliary data keys")
            out = {"k": "alonzo", "metadata": None, "native": None, "v1": None, "v2": None, "v3": None}
            if 0 in d:
                out["metadata"] = self.metadata(d[0])
            if 1 in d:
                out["native"] = [self.native(s) for s in self.arr(d[1])]
            for key, name in ((2, "v1"), (3, "v2"), (4, "v3")):
                if key in d:
                    out[name] = [self.byt(s, 0, 1 << 32, "script") for s in self.arr(d[key])]
            return out
        m, s = self.arr(x, 2, "shelley-ma auxiliary data")
        return {"k": "shelley_ma", "metadata": self.metadata(m), "native": [self.native(i) for i in self.arr(s)]}

    def redeemers(self, x):
        def one(tag, ix, data, ex):
            self.no(tag in range(6), "redeemer tag")
            m, s = self.arr(ex, 2, "ex units")
            return {"tag": tag, "ix": self.uint(ix), "data": self.pdata(data), "mem": self.uint(m), "steps": self.uint(s)}
        if isinstance(x, R.Map):
            items = []
            for k, v in self.table(x, "redeemers"):
                t, i = self.arr(k, 2, "redeemer key")
                d, ex = self.arr(v, 2, "redeemer value")
                items.append(one(t, i, d, ex))
            return {"form": "map", "items": items}
        return {"form": "list", "items": [one(*self.arr(r, 4, "redeemer")) for r in self.arr(x, what="redeemers")]}

    def wits(self, x):
        out = {}
        pairs, self.wits_order = self.struct(x, "witness set", free_order=True)
        for k, v in pairs:
            self.no(k in WITS_NAME, f"witness set key {k}")
            name = WITS_NAME[k]
            if name == "redeemers":
                out[name] = self.redeemers(v)
                continue
            f = {"vkeys": lambda i: dict(zip(("vkey", "sig"), (self.byt(a, n, n, "vkey witness") for a, n in
                                                                zip(self.arr(i, 2, "vkey witness"), (32, 64))))),
                 "native": self.native,
                 "bootstrap": lambda i: dict(zip(("vkey", "sig", "chain_code", "attrs"),
                                                 (self.byt(a, lo, hi, "bootstrap witness") for a, (lo, hi) in
                                                  zip(self.arr(i, 4, "bootstrap witness"), ((32, 32), (64, 64), (32, 32), (0, 1 << 16)))))),
                 "data": self.pdata}.get(name, lambda i: self.byt(i, 0, 1 << 32, "plutus script"))
            out[name] = self.set_(v, WITS_SITE[name], f, nonempty=True)
        return out

    def body(self, x):
        out = {}
        pairs, self.body_order = self.struct(x, "transaction body", free_order=True)
        for k, v in pairs:
            self.no(k in BODY_NAME, f"body key {k} is not a Conway body field")
            name = BODY_NAME[k]
            if name in ("inputs", "collateral", "reference_inputs"):
                out[name] = self.set_(v, name, self.input, nonempty=name != "inputs")
            elif name == "outputs":
                out[name] = [self.output(o, i) for i, o in enumerate(self.arr(v, what="outputs"))]
            elif name in ("fee", "ttl", "validity_start", "total_collateral", "treasury_value", "donation"):
                out[name] = self.uint(v, name)
            elif name == "certs":
                out[name] = self.set_(v, "certs", self.cert, nonempty=True)
            elif name == "withdrawals":
                out[name] = [[self.byt(a, 1, 64, "reward account"), self.uint(c)] for a, c in self.table(v, "withdrawals")]
            elif name in ("aux_hash", "script_data_hash"):
                out[name] = self.byt(v, 32, 32, name)
            elif name == "mint":
                out[name] = self.multiasset(v, mint=True)
            elif name == "required_signers":
                out[name] = self.set_(v, name, lambda h: self.byt(h, 28, 28, "required signer"), nonempty=True)
            elif name == "network_id":
                self.no(v in (0, 1), "network id")
                out[name] = v
            elif name == "collateral_return":
                out[name] = self.output(v, "collateral_return")
            elif name == "voting_procedures":
                out[name] = self.voting_procedures(v)
            elif name == "proposals":
                out[name] = self.set_(v, "proposals", self.proposal, nonempty=True)
        self.no(all(k in out for k in ("inputs", "outputs", "fee")), "inputs / outputs / fee missing")
        return out

    def tx(self, x):
        b, ws, valid, aux = self.arr(x, 4, "transaction")
        self.no(isinstance(valid, bool), "is_valid")
        return {"body": self.body(b), "wits": self.wits(ws), "valid": valid, "aux": None if aux is None else self.aux(aux)}


def _listify(a):
    """plutusdata_ref abstract tuples -> lists (JSON image friendly)"""
    k = a[0]
    if k == "constr":
        return ["constr", a[1], [_listify(x) for x in a[2]]]
    if k == "list":
        return ["list", [_listify(x) for x in a[1]]]
    if k == "map":
        return ["map", [[_listify(x), _listify(y)] for x, y in a[1]]]
    return [k, a[1]]


LIFT_KINDS = ["tx", "body", "witness_set", "output", "certificate", "pool_params", "relay", "native_script", "aux_data",
              "credential", "anchor", "value", "input", "redeemers", "voting_procedures", "proposal", "gov_action",
              "plutus_data"]


def lift(kind, item):
    """one decoded item -> (content, WireChoices); raises NotExpressible"""
    L = Lifter()
    f = {"tx": L.tx, "body": L.body, "witness_set": L.wits, "output": lambda x: L.output(x, "0"), "certificate": L.cert,
         "pool_params": L.pool_params, "relay": L.relay, "native_script": L.native, "aux_data": L.aux,
         "credential": L.credential, "anchor": L.anchor, "value": L.value, "input": L.input, "redeemers": L.redeemers,
         "voting_procedures": L.voting_procedures, "proposal": L.proposal, "gov_action": L.gov_action,
         "plutus_data": L.pdata, "drep": L.drep, "voter": L.voter, "metadata": L.metadata}[kind]
    try:
        content = f(item)
    except (TypeError, ValueError, KeyError, IndexError) as e:
        if isinstance(e, NotExpressible):
            raise
        raise NotExpressible(f"shape: {type(e).__name__}: {e}")
    return content, L.wire()


# =====================================================================================================================
# features of a content (+ wire): the coverage vocabulary shared by the generator and the checks
# =====================================================================================================================
def int_class(n):
    for b in (0, 23, 24, 255, 256, 65535, 65536, (1 << 32) - 1, 1 << 32, (1 << 63) - 1, (1 << 64) - 1):
        if n == b:
            return f"int:{b}"
    return None


def features(tx, wire=None):
    """feature strings of a spec-level transaction (each at most once)"""
    w = wire or WireChoices()
    out = set()
    add = out.add

    def num(n):
        c = int_class(n) if _isint(n) else None
        if c:
            add(c)

    def pdata(d):
        add("pdata:" + d[0])
        if d[0] == "constr":
            add("pdata:constr-" + ("compact" if P.constr_tag(d[1]) is not None else "general"))
            add("pdata:fields-" + ("empty" if not d[2] else "nonempty"))
            for x in d[2]:
                pdata(x)
        elif d[0] == "list":
            add("pdata:list-" + ("empty" if not d[1] else "nonempty"))
            for x in d[1]:
                pdata(x)
        elif d[0] == "map":
            for a, b in d[1]:
                pdata(a)
                pdata(b)
        elif d[0] == "bytes":
            add("pdata:bytes-" + ("chunked" if len(d[1]) > 64 else "plain"))
        elif d[0] == "int":
            add("pdata:int-" + ("big" if not -U64 <= d[1] < U64 else "small"))

    def native(s, depth=0):
        add(f"native:{NATIVE_CODE[s['k']]}")
        for x in s.get("scripts", []):
            native(x, depth + 1)
        if depth:
            add("native:nested")

    def value(v):
        add("value:" + ("assets" if v.get("assets") else "coin-only"))
        num(v["coin"])
        for _, assets in v.get("assets") or []:
            for n, q in assets:
                num(q)
                add("assetname:" + ("empty" if not n else "32" if len(n) == 32 else "mid"))

    def output(o, key):
        add("out:" + w.form(key, o))
        d, s = o.get("datum"), o.get("script")
        add("datum:" + ("none" if d is None else d["k"]))
        add("script:" + ("none" if s is None else "native" if s["k"] == "native" else f"v{s['v']}"))
        if d is not None and d["k"] == "inline":
            pdata(d["data"])
        if s is not None and s["k"] == "native":
            native(s["script"])
        add(f"addr:{o['addr'][0] >> 4:x}")
        value(o["value"])

    def cred(c):
        add("credential:" + c["k"])

    def anchor_opt(a):
        add("anchor:" + ("none" if a is None else "some"))

    def cert(c):
        add(f"cert:{c['code']}")
        for k in ("cred", "cold", "hot"):
            if k in c:
                cred(c[k])
        if "drep" in c:
            add("drep:" + c["drep"]["k"])
        if "coin" in c:
            num(c["coin"])
        if c["code"] in (15, 16, 18):
            anchor_opt(c.get("anchor"))
        if c["code"] == 3:
            p = c["params"]
            add("pool_metadata:" + ("none" if p.get("metadata") is None else "some"))
            add(f"pool_owners:{min(len(p['owners']), 3)}")
            add("relays:" + ("none" if not p["relays"] else "some"))
            for r in p["relays"]:
                add("relay:" + r["k"])
                if r["k"] != "multi":
                    add("relay-port:" + ("none" if r.get("port") is None else "some"))
                if r["k"] == "addr":
                    add("relay-ip:" + ("4" if r.get("ipv4") is not None else "-") + ("6" if r.get("ipv6") is not None else "-"))
            num(p["pledge"])
            num(p["cost"])

    def action(a):
        add(f"gov:{a['code']}")
        if "prev" in a:
            add("gov-prev:" + ("none" if a.get("prev") is None else "some"))
        if a["code"] in (0, 2):
            add("gov-policy:" + ("none" if a.get("policy") is None else "some"))
        if a["code"] == 0:
            for k, _ in a["update"]:
                add(f"ppu:{k}")
            if not a["update"]:
                add("ppu:empty")
        if a["code"] == 4:
            for c in a["remove"]:
                cred(c)
            for c, _ in a["add"]:
                cred(c)
        if a["code"] == 5:
            add("constitution-script:" + ("none" if a.get("script_hash") is None else "some"))

    def metadatum(m):
        add("metadatum:" + m[0])
        if m[0] == "list":
            for x in m[1]:
                metadatum(x)
        elif m[0] == "map":
            for a, b in m[1]:
                metadatum(a)
                metadatum(b)
        elif m[0] == "int":
            add("metadatum:int-" + ("neg" if m[1] < 0 else "nonneg"))
            num(m[1])

    b = tx["body"]
    for name, key in BODY_KEYS:
        if b.get(name) is not None:
            add(f"body:{key}")
    for site, name in (("inputs", "inputs"), ("certs", "certs"), ("collateral", "collateral"),
                       ("required_signers", "required_signers"), ("reference_inputs", "reference_inputs"),
                       ("proposals", "proposals")):
        if b.get(name) is not None:
            add(f"set:{site}:" + ("tagged" if w.tagged(site) else "untagged"))
            add(f"count:{name}:{min(len(b[name]), 6)}")
    for i in b.get("inputs") or []:
        num(i["ix"])
    add(f"count:outputs:{min(len(b['outputs']), 6)}")
    for i, o in enumerate(b["outputs"]):
        output(o, str(i))
    if b.get("collateral_return") is not None:
        output(b["collateral_return"], "collateral_return")
    for f in ("fee", "ttl", "validity_start", "total_collateral", "treasury_value", "donation"):
        if b.get(f) is not None:
            num(b[f])
    for c in b.get("certs") or []:
        cert(c)
    for _, c in b.get("withdrawals") or []:
        num(c)
    for _, assets in b.get("mint") or []:
        for _, q in assets:
            add("mint:" + ("burn" if q < 0 else "mint"))
    for voter, votes in b.get("voting_procedures") or []:
        add(f"voter:{voter['code']}")
        for g, p in votes:
            add(f"vote:{p['vote']}")
            anchor_opt(p.get("anchor"))
            num(g["ix"])
    for p in b.get("proposals") or []:
        action(p["action"])
        num(p["deposit"])
    ws = tx.get("wits") or {}
    for name, key in WITS_KEYS:
        if ws.get(name) is not None:
            add(f"wits:{key}")
            if name != "redeemers":
                site = WITS_SITE[name]
                add(f"set:{site}:" + ("tagged" if w.tagged(site) else "untagged"))
    for s in ws.get("native") or []:
        native(s)
    for d in ws.get("data") or []:
        pdata(d)
    if ws.get("redeemers") is not None:
        add("redeemers:" + ws["redeemers"]["form"])
        for r in ws["redeemers"]["items"]:
            add(f"redeemer_tag:{r['tag']}")
            pdata(r["data"])
            num(r["ix"])
            num(r["mem"])
            num(r["steps"])
    aux = tx.get("aux")
    add("aux:" + ("none" if aux is None else aux["k"]))
    if aux is not None:
        for _, m in aux.get("metadata") or []:
            metadatum(m)
        for s in aux.get("native") or []:
            native(s)
        if aux["k"] == "alonzo":
            for k in ("metadata", "native", "v1", "v2", "v3"):
                if aux.get(k) is not None:
                    add("aux-alonzo:" + k)
    add("valid:" + str(tx.get("valid", True)).lower())
    add("plutus_lists:" + w.plutus_lists)
    return sorted(out)
