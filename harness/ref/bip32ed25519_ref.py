"""Independent reference for C16, written from the specifications (not from pycardano):

* CIP-3 "Icarus" master key generation: PBKDF2-HMAC-SHA512(password, salt = entropy, 4096 rounds, 96 bytes), then
  clear the lowest 3 bits, the highest bit and the third highest bit and set the second highest bit of the first
  32 bytes read as a little-endian scalar.
* BIP32-Ed25519 (Khovratovich & Law, sect. V) with the Cardano V2 conventions: child `i` of `((kL,kR),A,c)`:
  `Z = HMAC-SHA512(c, 0x02‖A‖le32(i))`, `cc = HMAC-SHA512(c, 0x03‖A‖le32(i))[32:]` for `i < 2^31`,
  `Z = HMAC-SHA512(c, 0x00‖kL‖kR‖le32(i))`, `cc = HMAC-SHA512(c, 0x01‖kL‖kR‖le32(i))[32:]` for `i >= 2^31`;
  `kL' = 8*LE(Z[0:28]) + kL`, `kR' = LE(Z[32:64]) + kR mod 2^256`, `A' = kL'*B`; public: `A' = A + (8*LE(Z[0:28]))*B`.
* BIP-39 mnemonic -> entropy (11-bit word indices, checksum = first ENT/32 bits of SHA-256).
* Ed25519 signing with an extended key: RFC 8032 5.1.6 with scalar `kL` and prefix `kR`.

Everything is computed on Python integers with `hashlib`/`hmac` and `ed25519_ref`."""
from __future__ import annotations

import functools
import hashlib
import hmac as _hmac
import os

from ref import ed25519_ref as E

HARD = 1 << 31


def hmac512(key: bytes, msg: bytes) -> bytes:
    return _hmac.new(key, msg, hashlib.sha512).digest()


def clamp_icarus(n: int) -> int:
    """bit-level reading of CIP-3: on the 256-bit little-endian scalar"""
    n &= ~0b111                # clear the lowest 3 bits
    n &= ~(1 << 255)           # clear the highest bit
    n &= ~(1 << 253)           # clear the third highest bit
    n |= 1 << 254              # set the second highest bit
    return n


class XPrv:
    __slots__ = ("kL", "kR", "c", "_A")

    def __init__(self, kL: int, kR: int, c: bytes):
        self.kL, self.kR, self.c, self._A = kL, kR, c, None

    @property
    def A(self) -> bytes:
        if self._A is None:
            self._A = E.public_from_scalar(self.kL)
        return self._A

    def xprv_bytes(self) -> bytes:
        return self.kL.to_bytes(32, "little") + self.kR.to_bytes(32, "little")

    def neuter(self) -> "XPub":
        return XPub(self.A, self.c)


class XPub:
    __slots__ = ("A", "c")

    def __init__(self, A: bytes, c: bytes):
        self.A, self.c = A, c


@functools.lru_cache(maxsize=64)
def kdf(password: bytes, entropy: bytes) -> bytes:
    return hashlib.pbkdf2_hmac("sha512", password, entropy, 4096, 96)


def icarus_master(entropy: bytes, password: bytes = b"") -> XPrv:
    data = kdf(bytes(password), bytes(entropy))
    kL = clamp_icarus(int.from_bytes(data[:32], "little"))
    kR = int.from_bytes(data[32:64], "little")
    return XPrv(kL, kR, data[64:96])


def child_messages(k: XPrv, i: int):
    """(message of Z, message of the chain code) for child i of a private parent"""
    assert 0 <= i < 1 << 32
    ser = i.to_bytes(4, "little")
    if i >= HARD:
        body = k.kL.to_bytes(32, "little") + k.kR.to_bytes(32, "little") + ser
        return b"\x00" + body, b"\x01" + body
    body = k.A + ser
    return b"\x02" + body, b"\x03" + body


def child_priv(k: XPrv, i: int) -> XPrv:
    mz, mc = child_messages(k, i)
    Z = hmac512(k.c, mz)
    C = hmac512(k.c, mc)
    zL = int.from_bytes(Z[:28], "little")
    zR = int.from_bytes(Z[32:64], "little")
    kL = 8 * zL + k.kL
    if kL % E.L == 0:
        raise ValueError("child does not exist")
    kR = (zR + k.kR) % (1 << 256)
    return XPrv(kL, kR, C[32:64])


def child_pub(k: XPub, i: int) -> XPub:
    assert 0 <= i < 1 << 32
    if i >= HARD:
        raise ValueError("hardened child of a public key")
    ser = i.to_bytes(4, "little")
    Z = hmac512(k.c, b"\x02" + k.A + ser)
    C = hmac512(k.c, b"\x03" + k.A + ser)
    zL = int.from_bytes(Z[:28], "little")
    P = E.decode(k.A)
    if P is None:
        raise ValueError("not a point")
    return XPub(E.encode(E.point_add(P, E.base_mul(8 * zL))), C[32:64])


def derive_path(k: XPrv, path):
    """path: iterable of child numbers in [0, 2^32)"""
    for i in path:
        k = child_priv(k, i)
    return k


def sign(k: XPrv, msg: bytes) -> bytes:
    return E.sign_expanded(k.kL, k.kR.to_bytes(32, "little"), msg)


# ---- BIP-39 -----------------------------------------------------------------------------------------------------
_WORDS = {}


def wordlist(language="english"):
    if language not in _WORDS:
        import mnemonic  # only for the location of the standard word list files (data, not code)
        f = os.path.join(os.path.dirname(mnemonic.__file__), "wordlist", language + ".txt")
        with open(f, encoding="utf-8") as fh:
            _WORDS[language] = [w.strip() for w in fh.read().split("\n") if w.strip()]
        assert len(_WORDS[language]) == 2048
    return _WORDS[language]


def entropy_to_mnemonic(entropy: bytes, language="english") -> str:
    assert len(entropy) in (16, 20, 24, 28, 32)
    ent = len(entropy) * 8
    cs = ent // 32
    bits = (int.from_bytes(entropy, "big") << cs) | (hashlib.sha256(entropy).digest()[0] >> (8 - cs))
    n = (ent + cs) // 11
    w = wordlist(language)
    return " ".join(w[(bits >> (11 * (n - 1 - j))) & 0x7FF] for j in range(n))


def mnemonic_to_entropy(words: str, language="english") -> bytes:
    ws = words.split(" ")
    if len(ws) not in (12, 15, 18, 21, 24):
        raise ValueError("word count")
    w = wordlist(language)
    idx = {x: j for j, x in enumerate(w)}
    bits = 0
    for x in ws:
        if x not in idx:
            raise ValueError("unknown word")
        bits = (bits << 11) | idx[x]
    total = len(ws) * 11
    cs = total // 33
    ent = total - cs
    entropy = (bits >> cs).to_bytes(ent // 8, "big")
    if hashlib.sha256(entropy).digest()[0] >> (8 - cs) != bits & ((1 << cs) - 1):
        raise ValueError("checksum")
    return entropy


def _selftest():
    # CIP-1852 / cardano-addresses vector (Icarus, empty passphrase):
    # "test walk nut penalty hip pave soap entry language right filter choice", m/1852'/1815'/0'/0/0
    m = "test walk nut penalty hip pave soap entry language right filter choice"
    e = mnemonic_to_entropy(m)
    assert entropy_to_mnemonic(e) == m
    k = derive_path(icarus_master(e), [HARD + 1852, HARD + 1815, HARD, 0, 0])
    assert k.A.hex() == "73fea80d424276ad0978d4fe5310e8bc2d485f5f6bb3bf87612989f112ad5a7d", k.A.hex()
    # public route for the two soft steps
    acct = derive_path(icarus_master(e), [HARD + 1852, HARD + 1815, HARD])
    pub = child_pub(child_pub(acct.neuter(), 0), 0)
    assert pub.A == k.A and pub.c == k.c
    s = sign(k, b"abc")
    assert E.verify(k.A, b"abc", s)
    # CIP-3 (Icarus.md) test vectors: master key without and with the passphrase "foo"
    e = mnemonic_to_entropy("eight country switch draw meat scout mystery blade tip drift useless good keep usage title")
    r = icarus_master(e)
    assert (r.xprv_bytes() + r.c).hex() == (
        "c065afd2832cd8b087c4d9ab7011f481ee1e0721e78ea5dd609f3ab3f156d245d176bd8fd4ec60b4731c3918a2a72a02"
        "26c0cd119ec35b47e4d55884667f552a23f7fdcd4a10c6cd2c7393ac61d877873e248f417634aa3d812af327ffe9d620")
    r = icarus_master(e, b"foo")
    assert (r.xprv_bytes() + r.c).hex() == (
        "70531039904019351e1afb361cd1b312a4d0565d4ff9f8062d38acf4b15cce41d7b5738d9c893feea55512a3004acb0d"
        "222c35d3e3d5cde943a15a9824cbac59443cf67e589614076ba01e354b1a432e0e6db3b59e37fc56b5fb0222970a010e")


_selftest()
