"""Independent reference codec for Plutus `Data`, written from the property statement (C18) and the ledger's
`PlutusCore.Data.encodeData`, over the RFC-8949 reference codec `ref/cbor_ref.py`.  Nothing here is taken from pycardano.

Abstract data (plain tuples so that cases are JSON-serialisable after `to_json`):
    ("constr", id, [fields]) | ("list", [items]) | ("map", [(k, v), ...]) | ("int", n) | ("bytes", b)

Encoding rules:
  * constructor 0..6 -> tag 121+id; 7..127 -> tag 1280+(id-7); otherwise tag 102 over the definite pair [id, fields]
  * every sequence of data (a list node, constructor fields, also inside tag 102): empty -> definite 80,
    non-empty -> indefinite 9f .. ff
  * map: definite head, entries in the given order (association list, nothing sorted, nothing merged)
  * byte string: as is up to 64 bytes, otherwise indefinite byte string of 64-byte chunks (last one 1..64 bytes)
  * integer: CBOR integer when it fits 64 bits, otherwise bignum tag 2 / 3 whose payload is encoded as a byte string
    by the rule above (so chunked beyond 64 bytes)
"""
from __future__ import annotations

import hashlib

from ref import cbor_ref as R

CHUNK = 64


def chunks64(b: bytes):
    out = []
    while len(b) > CHUNK:
        out.append(b[:CHUNK])
        b = b[CHUNK:]
    out.append(b)
    return out


def ref_bytes(b: bytes):
    return b if len(b) <= CHUNK else R.Chunked(chunks64(b))


def ref_int(n: int):
    if -(1 << 64) <= n < (1 << 64):
        return n
    if n >= 0:
        return R.Tag(2, ref_bytes(n.to_bytes((n.bit_length() + 7) // 8, "big")))
    m = -1 - n
    return R.Tag(3, ref_bytes(m.to_bytes((m.bit_length() + 7) // 8, "big")))


def ref_seq(items):
    return R.IndefList(items) if items else []


def constr_tag(cid: int):
    """the compact tag of a constructor alternative, or None when the general form (tag 102) is prescribed"""
    if 0 <= cid <= 6:
        return 121 + cid
    if 7 <= cid <= 127:
        return 1280 + (cid - 7)
    return None


def to_ref(d):
    """abstract data -> reference CBOR tree"""
    k = d[0]
    if k == "constr":
        fields = ref_seq([to_ref(x) for x in d[2]])
        t = constr_tag(d[1])
        if t is not None:
            return R.Tag(t, fields)
        return R.Tag(102, [d[1], fields])   # the index is a plain CBOR unsigned integer (ids stay below 2^64 here)
    if k == "list":
        return ref_seq([to_ref(x) for x in d[1]])
    if k == "map":
        return R.Map([(to_ref(a), to_ref(b)) for a, b in d[1]])
    if k == "int":
        return ref_int(d[1])
    if k == "bytes":
        return ref_bytes(d[1])
    raise ValueError(k)


def encode(d) -> bytes:
    return R.enc(to_ref(d))


def datum_hash(d) -> bytes:
    """blake2b-256 of the canonical bytes"""
    return hashlib.blake2b(encode(d), digest_size=32).digest()


def hash_bytes(b: bytes) -> bytes:
    return hashlib.blake2b(b, digest_size=32).digest()


# ---- reading bytes back to abstract data (framing-insensitive): used to tell a framing difference from a content one
def abstract(x):
    """reference CBOR tree (R.dec output) -> abstract data, whatever the definite / indefinite / chunked framing"""
    if isinstance(x, bool) or x is None:
        raise ValueError("not plutus data")
    if isinstance(x, int):
        return ("int", x)
    if isinstance(x, bytes):
        return ("bytes", x)
    if isinstance(x, R.Chunked):
        return ("bytes", b"".join(x.chunks))
    if isinstance(x, list):   # IndefList is a list
        return ("list", [abstract(i) for i in x])
    if isinstance(x, R.Map):
        return ("map", [(abstract(k), abstract(v)) for k, v in x.pairs])
    if isinstance(x, R.Tag):
        if x.tag in (2, 3):
            p = abstract(x.value)
            if p[0] != "bytes":
                raise ValueError("bad bignum")
            n = int.from_bytes(p[1], "big")
            return ("int", n if x.tag == 2 else -1 - n)
        if x.tag == 102:
            if not (isinstance(x.value, list) and len(x.value) == 2 and isinstance(x.value[0], int)
                    and isinstance(x.value[1], list)):
                raise ValueError("bad general constructor")
            return ("constr", x.value[0], [abstract(i) for i in x.value[1]])
        if 121 <= x.tag <= 127:
            cid = x.tag - 121
        elif 1280 <= x.tag <= 1400:
            cid = x.tag - 1280 + 7
        else:
            raise ValueError("not a plutus data tag")
        if not isinstance(x.value, list):
            raise ValueError("constructor fields are not a list")
        return ("constr", cid, [abstract(i) for i in x.value])
    raise ValueError(type(x))


def decode_abstract(b: bytes):
    return abstract(R.dec(b))


# ---- the JSON form (cardano-cli "detailed schema")
def to_json_form(d):
    k = d[0]
    if k == "constr":
        return {"constructor": d[1], "fields": [to_json_form(x) for x in d[2]]}
    if k == "list":
        return {"list": [to_json_form(x) for x in d[1]]}
    if k == "map":
        return {"map": [{"k": to_json_form(a), "v": to_json_form(b)} for a, b in d[1]]}
    if k == "int":
        return {"int": d[1]}
    if k == "bytes":
        return {"bytes": d[1].hex()}
    raise ValueError(k)

