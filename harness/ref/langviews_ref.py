"""Reference encoder of the *language views* part of the script integrity hash, written from the ledger
specification (alonzo.cddl / babbage.cddl / conway.cddl, comment on `script_data_hash`, and
`Cardano.Ledger.Alonzo.PParams.getLanguageView / encodeLangViews`).  Uses ref/cbor_ref.py only.

  script_data_hash = blake2b-256( redeemers bytes ‖ datums bytes (nothing if there are none) ‖ language views )

  language views   = CBOR map { view key : view value } over the languages of the Plutus scripts the transaction
                     uses, *canonically* encoded: keys ordered by the length of their encoding, then bytewise
                     (`shortLex` in encodeLangViews).

  PlutusV1 (language id 0): key   = the byte string holding the CBOR of 0            -> 41 00
                            value = the byte string holding the CBOR of the cost model, the cost model being the
                                    *indefinite-length* list of its values in ascending parameter-name order
  PlutusV2 (id 1), PlutusV3 (id 2), id n: key = n (unsigned), value = definite-length list of the values in the
                            order of the cost model

  With no redeemers at all the language views are the empty map (`a0`), and redeemers are `a0` (Conway map form).
"""
from __future__ import annotations

import hashlib

from . import cbor_ref as R


def view(lang: int, cost_model) -> tuple:
    """cost_model: for language 0 a dict name -> int; for the others a dict (values in its own order) or a list"""
    if lang == 0:
        vals = [cost_model[k] for k in sorted(cost_model)]
        return R.enc(R.enc(0)), R.enc(R.enc(R.IndefList(vals)))
    vals = list(cost_model.values()) if isinstance(cost_model, dict) else list(cost_model)
    return R.enc(lang), R.enc(vals)


def language_views(langs, cost_models) -> bytes:
    """langs: iterable of language ids (0 = PlutusV1 …); cost_models: {lang: table}; a missing table counts as empty"""
    entries = [view(l, cost_models.get(l, {})) for l in sorted(set(langs))]
    entries.sort(key=lambda kv: (len(kv[0]), kv[0]))
    return R.head(5, len(entries)) + b"".join(k + v for k, v in entries)


def script_data_hash(redeemer_bytes, datum_bytes, views: bytes) -> bytes:
    """redeemer_bytes: the encoded redeemers (None = absent -> a0); datum_bytes: encoded datum list or None"""
    pre = (redeemer_bytes if redeemer_bytes is not None else b"\xa0") + (datum_bytes or b"") + views
    return hashlib.blake2b(pre, digest_size=32).digest()
