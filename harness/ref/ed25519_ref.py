"""Pure-Python Ed25519 written from RFC 8032 (sections 5.1.1-5.1.7): field and point arithmetic in extended
homogeneous coordinates, point encoding/decoding, scalar multiplication, signature verification and the signing
equation for an *expanded* secret (scalar, prefix).  Independent of pycardano, PyNaCl and libsodium: only `hashlib`.

Oracle for C16 (and usable by C10)."""
from __future__ import annotations

import hashlib

p = 2**255 - 19
L = 2**252 + 27742317777372353535851937790883648493
d = (-121665 * pow(121666, p - 2, p)) % p
SQRT_M1 = pow(2, (p - 1) // 4, p)


def _inv(x):
    return pow(x, p - 2, p)


# ---- points: (X, Y, Z, T) with x = X/Z, y = Y/Z, x*y = T/Z -------------------------------------------------------
IDENT = (0, 1, 1, 0)


def point_add(P, Q):
    # RFC 8032 5.1.4 (add-2008-hwcd-3), complete for a = -1
    X1, Y1, Z1, T1 = P
    X2, Y2, Z2, T2 = Q
    A = (Y1 - X1) * (Y2 - X2) % p
    B = (Y1 + X1) * (Y2 + X2) % p
    C = T1 * 2 * d * T2 % p
    D = Z1 * 2 * Z2 % p
    E = B - A
    F = D - C
    G = D + C
    H = B + A
    return (E * F % p, G * H % p, F * G % p, E * H % p)


def point_double(P):
    # dbl-2008-hwcd
    X1, Y1, Z1, _ = P
    A = X1 * X1 % p
    B = Y1 * Y1 % p
    C = 2 * Z1 * Z1 % p
    H = A + B
    E = H - (X1 + Y1) * (X1 + Y1) % p
    G = A - B
    F = C + G
    return (E * F % p, G * H % p, F * G % p, E * H % p)


def point_neg(P):
    X, Y, Z, T = P
    return ((-X) % p, Y, Z, (-T) % p)


def point_mul(s, P):
    """s*P for any integer s >= 0 (double-and-add, no reduction of s)"""
    Q = IDENT
    while s > 0:
        if s & 1:
            Q = point_add(Q, P)
        P = point_double(P)
        s >>= 1
    return Q


def point_equal(P, Q):
    X1, Y1, Z1, _ = P
    X2, Y2, Z2, _ = Q
    return (X1 * Z2 - X2 * Z1) % p == 0 and (Y1 * Z2 - Y2 * Z1) % p == 0


def recover_x(y, sign):
    # RFC 8032 5.1.3
    if y >= p:
        return None
    x2 = (y * y - 1) * _inv(d * y * y + 1) % p
    if x2 == 0:
        return None if sign else 0
    x = pow(x2, (p + 3) // 8, p)
    if (x * x - x2) % p != 0:
        x = x * SQRT_M1 % p
    if (x * x - x2) % p != 0:
        return None
    if (x & 1) != sign:
        x = p - x
    return x


_gy = 4 * _inv(5) % p
_gx = recover_x(_gy, 0)
G = (_gx, _gy, 1, _gx * _gy % p)

# 2^i * G for the fixed-base multiplication
_GPOW = []
_q = G
for _ in range(256):
    _GPOW.append(_q)
    _q = point_double(_q)


def base_mul(s):
    """s*B for 0 <= s (reduced modulo L first: B has order L)"""
    s %= L
    Q = IDENT
    i = 0
    while s:
        if s & 1:
            Q = point_add(Q, _GPOW[i])
        s >>= 1
        i += 1
    return Q


def encode(P) -> bytes:
    X, Y, Z, _ = P
    zi = _inv(Z)
    x = X * zi % p
    y = Y * zi % p
    return int.to_bytes(y | ((x & 1) << 255), 32, "little")


def decode(s: bytes):
    """RFC 8032 5.1.3; None if `s` is not the encoding of a curve point"""
    if len(s) != 32:
        return None
    y = int.from_bytes(s, "little")
    sign = y >> 255
    y &= (1 << 255) - 1
    x = recover_x(y, sign)
    if x is None:
        return None
    return (x, y, 1, x * y % p)


def on_curve(P):
    X, Y, Z, T = P
    zi = _inv(Z)
    x, y = X * zi % p, Y * zi % p
    return (-x * x + y * y - 1 - d * x * x * y * y) % p == 0 and (x * y - T * zi) % p == 0


def sha512_int(*parts: bytes) -> int:
    return int.from_bytes(hashlib.sha512(b"".join(parts)).digest(), "little")


def public_from_scalar(a: int) -> bytes:
    return encode(base_mul(a))


def verify(public: bytes, msg: bytes, signature: bytes) -> bool:
    """RFC 8032 5.1.7 (cofactorless equation [S]B = R + [k]A, S < L)"""
    if len(public) != 32 or len(signature) != 64:
        return False
    A = decode(public)
    if A is None:
        return False
    Rs = signature[:32]
    R = decode(Rs)
    if R is None:
        return False
    S = int.from_bytes(signature[32:], "little")
    if S >= L:
        return False
    h = sha512_int(Rs, public, msg) % L
    return point_equal(base_mul(S), point_add(R, point_mul(h, A)))


def sign_expanded(a: int, prefix: bytes, msg: bytes) -> bytes:
    """RFC 8032 5.1.6 steps 2-6 for an already expanded secret: scalar `a`, 32-byte `prefix`"""
    A = public_from_scalar(a)
    r = sha512_int(prefix, msg) % L
    Rs = encode(base_mul(r))
    h = sha512_int(Rs, A, msg) % L
    S = (r + h * a) % L
    return Rs + int.to_bytes(S, 32, "little")


def secret_expand(secret: bytes):
    """RFC 8032 5.1.5"""
    h = hashlib.sha512(secret).digest()
    a = int.from_bytes(h[:32], "little")
    a &= (1 << 254) - 8
    a |= 1 << 254
    return a, h[32:]


def sign(secret: bytes, msg: bytes) -> bytes:
    a, prefix = secret_expand(secret)
    return sign_expanded(a, prefix, msg)


def _selftest():
    # RFC 8032 7.1 TEST 1-3
    vec = [
        ("9d61b19deffd5a60ba844af492ec2cc44449c5697b326919703bac031cae7f60",
         "d75a980182b10ab7d54bfed3c964073a0ee172f3daa62325af021a68f707511a", "",
         "e5564300c360ac729086e2cc806e828a84877f1eb8e5d974d873e065224901555fb8821590a33bacc61e39701cf9b46b"
         "d25bf5f0595bbe24655141438e7a100b"),
        ("4ccd089b28ff96da9db6c346ec114e0f5b8a319f35aba624da8cf6ed4fb8a6fb",
         "3d4017c3e843895a92b70aa74d1b7ebc9c982ccf2ec4968cc0cd55f12af4660c", "72",
         "92a009a9f0d4cab8720e820b5f642540a2b27b5416503f8fb3762223ebdb69da085ac1e43e15996e458f3613d0f11d8c"
         "387b2eaeb4302aeeb00d291612bb0c00"),
        ("c5aa8df43f9f837bedb7442f31dcb7b166d38535076f094b85ce3a2e0b4458f7",
         "fc51cd8e6218a1a38da47ed00230f0580816ed13ba3303ac5deb911548908025", "af82",
         "6291d657deec24024827e69c3abe01a30ce548a284743a445e3680d7db5ac3ac18ff9b538d16f290ae67f760984dc659"
         "4a7c15e9716ed28dc027beceea1ec40a"),
    ]
    for sk, pk, m, sig in vec:
        sk, pk, m, sig = (bytes.fromhex(x) for x in (sk, pk, m, sig))
        a, _ = secret_expand(sk)
        assert public_from_scalar(a) == pk
        assert sign(sk, m) == sig
        assert verify(pk, m, sig)
        assert not verify(pk, m + b"x", sig)
    assert on_curve(G) and point_equal(point_mul(L, G), IDENT) and encode(IDENT) == b"\x01" + bytes(31)


_selftest()
