"""T1 — translator: regenerates lean/Pyc/Generated/Schema.lean from the live classes of /repo.

Reads DATA, not control flow: for every CBORSerializable class its codec kind, its dataclass fields (wire key /
position, optional flag, init flag, resolved type hint as a `Ty` term, presence of an object_hook), constants
(`_CODE`, KEY_TYPE / VALUE_TYPE, MIN_SIZE / MAX_SIZE, enum values) and which codec methods it overrides in its own
body (the classes that need a hand model).  Byte-identical output is not rewritten, so Lake's cache stays valid.
`schema()` returns the same information as Python data for the type-directed generators."""
from __future__ import annotations

import dataclasses
import enum
import inspect
import sys
import typing
from fractions import Fraction
from pathlib import Path

VERIF = Path(__file__).resolve().parents[1]
OUT = VERIF / "lean" / "Pyc" / "Generated" / "Schema.lean"

BASES = ("CBORSerializable", "ArrayCBORSerializable", "MapCBORSerializable", "DictCBORSerializable", "CodedSerializable",
         "OrderedSet", "NonEmptyOrderedSet", "ConstrainedBytes", "Key")
METHODS = ("to_primitive", "to_shallow_primitive", "from_primitive", "validate", "__post_init__", "__eq__")


def all_subclasses(c):
    out = []
    for s in c.__subclasses__():
        out.append(s)
        out += all_subclasses(s)
    return out


def load():
    import pycardano  # noqa: F401
    import pycardano.certificate
    import pycardano.governance
    import pycardano.metadata
    import pycardano.nativescript
    import pycardano.plutus
    import pycardano.pool_params
    import pycardano.transaction
    import pycardano.witness
    from pycardano.serialization import CBORSerializable
    classes = {c for c in all_subclasses(CBORSerializable) if c.__module__.startswith("pycardano.")}
    return sorted(classes, key=lambda c: (c.__module__, c.__name__))


def ty(t):
    """type hint -> Ty term as nested tuples"""
    from pycardano.serialization import (ByteString, CBORSerializable, IndefiniteList, NonEmptyOrderedSet, OrderedSet, RawCBOR)
    if t is typing.Any:
        return ("any",)
    if t is type(None):
        return ("none",)
    if t is int:
        return ("int",)
    if t is bool:
        return ("bool",)
    if t is bytes or t is bytearray:
        return ("bytes",)
    if t is str:
        return ("text",)
    if t is Fraction:
        return ("frac",)
    if t is dict:
        return ("dict", ("any",), ("any",))
    if t is list:
        return ("list", ("any",))
    if t is float:
        return ("named", "float")
    origin = typing.get_origin(t)
    args = typing.get_args(t)
    if origin is typing.Union:
        return ("union", [ty(a) for a in args])
    if origin in (list, typing.List):
        return ("list", ty(args[0]) if args else ("any",))
    if origin in (dict, typing.Dict):
        return ("dict", ty(args[0]), ty(args[1])) if args else ("dict", ("any",), ("any",))
    if origin in (tuple, typing.Tuple):
        return ("tuple", [ty(a) for a in args])
    if origin is typing.ClassVar:
        return ty(args[0])
    if origin is not None and inspect.isclass(origin):
        if issubclass(origin, NonEmptyOrderedSet):
            return ("oset", ty(args[0]) if args else ("any",), True)
        if issubclass(origin, OrderedSet):
            return ("oset", ty(args[0]) if args else ("any",), False)
        if origin is type:
            return ("named", "type")
    if inspect.isclass(t):
        if issubclass(t, NonEmptyOrderedSet):
            return ("oset", ("any",), True)
        if issubclass(t, OrderedSet):
            return ("oset", ("any",), False)
        if issubclass(t, IndefiniteList):
            return ("named", "IndefiniteList")
        if t is ByteString:
            return ("named", "ByteString")
        if t is RawCBOR:
            return ("named", "RawCBOR")
        if issubclass(t, CBORSerializable):
            return ("cls", t.__name__)
        if issubclass(t, enum.Enum):
            return ("cls", t.__name__)
        if issubclass(t, bytes):
            return ("cls", t.__name__)          # PlutusV1Script etc.
        return ("named", t.__name__)
    return ("named", str(t).replace("typing.", ""))


def kind_of(c):
    names = [b.__name__ for b in c.__mro__]
    if issubclass(c, enum.Enum):
        return "enum"
    for k, tag in (("CodedSerializable", "coded"), ("ArrayCBORSerializable", "array"), ("MapCBORSerializable", "map"),
                   ("DictCBORSerializable", "dict"), ("NonEmptyOrderedSet", "oset"), ("OrderedSet", "oset"),
                   ("ConstrainedBytes", "cbytes")):
        if k in names:
            return tag
    return "custom"


def overrides(c):
    """codec methods a class (or a pycardano base other than the generic ones) defines in its own body, judged from
    the source text (a dataclass-generated __eq__ is not an override)"""
    out = []
    for m in METHODS:
        for b in c.__mro__:
            if m in b.__dict__:
                if b.__module__.startswith("pycardano.") and b.__name__ not in BASES:
                    try:
                        src = inspect.getsource(b)
                    except (OSError, TypeError):
                        src = ""
                    if f"def {m}(" in src:
                        out.append(m)
                break
    return out


def schema():
    """list of class descriptions (dicts)"""
    out = []
    for c in load():
        if c.__name__ in BASES:
            continue
        d = {"name": c.__name__, "module": c.__module__.split(".", 1)[1], "kind": kind_of(c), "overrides": overrides(c),
             "fields": [], "code": None, "key_type": None, "value_type": None, "min": None, "max": None, "enum": None,
             "bases": [b.__name__ for b in c.__mro__[1:] if b.__module__.startswith("pycardano.") and b.__name__ not in BASES]}
        if d["kind"] == "enum":
            d["enum"] = [(m.name, m.value if isinstance(m.value, int) else repr(m.value)) for m in c]
        if d["kind"] == "cbytes":
            d["min"], d["max"] = int(c.MIN_SIZE), int(c.MAX_SIZE)
        if d["kind"] == "dict":
            d["key_type"], d["value_type"] = ty(c.KEY_TYPE), ty(c.VALUE_TYPE)
        if dataclasses.is_dataclass(c):
            try:
                hints = typing.get_type_hints(c)
            except Exception:
                hints = {}
            pos = 0
            for f in dataclasses.fields(c):
                default = None
                if f.default is not dataclasses.MISSING and isinstance(f.default, int) and not isinstance(f.default, bool):
                    default = f.default
                if f.default is dataclasses.MISSING and f.default_factory is dataclasses.MISSING:
                    dflt = ".noDefault"
                elif f.default is None:
                    dflt = ".none"
                elif isinstance(f.default, bool):
                    dflt = f"(.bool {'true' if f.default else 'false'})"
                elif isinstance(f.default, int):
                    dflt = f"(.int {f.default})" if f.default >= 0 else f"(.int ({f.default}))"
                else:
                    dflt = ".other"
                fd = {"dflt": dflt, "name": f.name, "init": bool(f.init), "optional": bool(f.metadata.get("optional", False)),
                      "key": f.metadata.get("key"), "hook": "object_hook" in f.metadata, "type": ty(hints.get(f.name, typing.Any)),
                      "default": default, "has_default": f.default is not dataclasses.MISSING or f.default_factory is not dataclasses.MISSING,
                      "pos": pos}
                pos += 1
                d["fields"].append(fd)
                if f.name == "_CODE" and not f.init and isinstance(f.default, int):
                    d["code"] = f.default
        out.append(d)
    # enums that are not CBORSerializable but appear in fields
    import pycardano.address
    import pycardano.certificate
    import pycardano.governance
    import pycardano.network
    for e in (pycardano.network.Network, pycardano.address.AddressType, pycardano.certificate.DRepKind, pycardano.governance.Vote,
              pycardano.governance.VoterType):
        if not any(x["name"] == e.__name__ for x in out):
            out.append({"name": e.__name__, "module": e.__module__.split(".", 1)[1], "kind": "enum", "overrides": [], "fields": [],
                        "code": None, "key_type": None, "value_type": None, "min": None, "max": None, "bases": [],
                        "enum": [(m.name, m.value if isinstance(m.value, int) else repr(m.value)) for m in e]})
    # classes that are referenced by hints but are not CBORSerializable (bytes subclasses such as PlutusV1Script)
    defined = {d["name"] for d in out}

    def refs(t, acc):
        if t[0] == "cls":
            acc.add(t[1])
        for a in t[1:]:
            if isinstance(a, tuple):
                refs(a, acc)
            elif isinstance(a, list):
                for x in a:
                    refs(x, acc)
    acc = set()
    for d in out:
        for f in d["fields"]:
            refs(f["type"], acc)
        for k in ("key_type", "value_type"):
            if d[k]:
                refs(d[k], acc)
    for n in sorted(acc - defined):
        out.append({"name": n, "module": "?", "kind": "custom", "overrides": [], "fields": [], "code": None, "key_type": None,
                    "value_type": None, "min": None, "max": None, "bases": [], "enum": None, "stub": True})
    return sorted(out, key=lambda d: d["name"])


def named_unions():
    import pycardano.certificate
    import pycardano.governance
    import pycardano.plutus
    import pycardano.pool_params
    out = {"Certificate": ty(pycardano.certificate.Certificate), "GovAction": ty(pycardano.governance.GovAction),
           "Redeemers": ty(pycardano.plutus.Redeemers)}
    return out


# ---- Lean rendering ---------------------------------------------------------------------------------------------------
def lean_str(s):
    return '"' + s.replace("\\", "\\\\").replace('"', '\\"') + '"'


def lean_ty(t):
    k = t[0]
    if k in ("any", "none", "int", "bool", "bytes", "text", "frac"):
        return "." + {"none": "none"}.get(k, k)
    if k == "cls":
        return f"(.cls {lean_str(t[1])})"
    if k == "named":
        return f"(.named {lean_str(t[1])})"
    if k == "list":
        return f"(.list {lean_ty(t[1])})"
    if k == "dict":
        return f"(.dict {lean_ty(t[1])} {lean_ty(t[2])})"
    if k == "oset":
        return f"(.oset {lean_ty(t[1])} {'true' if t[2] else 'false'})"
    if k == "tuple":
        return f"(.tuple [{', '.join(lean_ty(a) for a in t[1])}])"
    if k == "union":
        return f"(.union [{', '.join(lean_ty(a) for a in t[1])}])"
    raise ValueError(t)


def lean_key(k):
    if k is None:
        return ".pos"
    if isinstance(k, int):
        return f"(.int {k})" if k >= 0 else f"(.int ({k}))"
    return f"(.str {lean_str(str(k))})"


def render(sch, unions):
    L = ["import Pyc.Model.Schema", "",
         "/-! GENERATED by harness/extract_schema.py from the live classes of /repo — do not edit.",
         "Regenerated on every check run; the committed copy is a snapshot for reading. -/", "",
         "namespace Pyc.Generated", "open Pyc.Schema", ""]
    L.append("def repoSchema : List ClassDef := [")
    items = []
    for d in sch:
        kind = {"array": ".array", "map": ".map", "coded": f"(.coded {d['code'] if d['code'] is not None else 0})",
                "dict": f"(.dict {lean_ty(d['key_type'])} {lean_ty(d['value_type'])})" if d["kind"] == "dict" else "",
                "oset": ".oset", "cbytes": f"(.cbytes {d['min']} {d['max']})" if d["kind"] == "cbytes" else "",
                "enum": "(.enum [" + ", ".join(str(v) if isinstance(v, int) else "-1" for _, v in (d["enum"] or [])) + "])",
                "custom": ".custom"}[d["kind"]]
        if d["kind"] == "coded" and d["code"] is None:
            kind = ".custom"
        fields = []
        for f in d["fields"]:
            fields.append(f"    {{ name := {lean_str(f['name'])}, key := {lean_key(f['key'])}, optional := {'true' if f['optional'] else 'false'}, "
                          f"init := {'true' if f['init'] else 'false'}, hook := {'true' if f['hook'] else 'false'}, ty := {lean_ty(f['type'])}, dflt := {f['dflt']} }}")
        ov = ", ".join(lean_str(o) for o in d["overrides"])
        items.append(f"  {{ name := {lean_str(d['name'])}, kind := {kind}, overrides := [{ov}], fields := [\n" + ",\n".join(fields) + "] }")
    L.append(",\n".join(items))
    L.append("]")
    L.append("")
    L.append("def repoUnions : List (String × Ty) := [")
    L.append(",\n".join(f"  ({lean_str(k)}, {lean_ty(v)})" for k, v in sorted(unions.items())))
    L.append("]")
    L.append("")
    L.append("end Pyc.Generated")
    return "\n".join(L) + "\n"


def main():
    sch = schema()
    txt = render(sch, named_unions())
    OUT.parent.mkdir(parents=True, exist_ok=True)
    if not OUT.exists() or OUT.read_text() != txt:
        OUT.write_text(txt)
        print(f"regenerated {OUT} ({len(sch)} classes)")
    return 0


if __name__ == "__main__":
    sys.exit(main())
