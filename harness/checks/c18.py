"""C18 — Plutus data is encoded the way the ledger's Plutus codec encodes it.

Direct property evaluation: every generated datum is handed to pycardano by several routes (RawPlutusData over plain
lists, over explicit IndefiniteList / ByteString primitives, generated typed PlutusData dataclasses, the JSON form) and
`to_cbor()` / `datum_hash()` are compared with an independent reference encoder (harness/ref/plutusdata_ref.py over
ref/cbor_ref.py) and hashlib.blake2b.  Composites: from_cbor∘to_cbor, from_dict∘to_dict, from_json∘to_json, the
long-bytes guard.  Correspondence: the Lean model (Pyc/Model/Plutus.lean through the driver) is run on the very Python
object trees / bytes / JSON objects the implementation was given and must agree byte for byte, including on the
recorded defects; the Lean specification `specItem` is compared with the Python reference encoder."""
from __future__ import annotations

import hashlib
import json
import os
import random
import subprocess
import sys
from dataclasses import fields as dc_fields
from dataclasses import make_dataclass
from typing import Dict, List, Union

CEXT_WORKER = __name__ == "__main__" and "--cext-worker" in sys.argv

from cbor2 import CBORTag  # noqa: E402

from pycardano.exception import DeserializeException, InvalidArgumentException  # noqa: E402
from pycardano.plutus import PlutusData, RawPlutusData, datum_hash  # noqa: E402
from pycardano.plutus import get_constructor_id_and_fields, get_tag  # noqa: E402
from pycardano.serialization import ByteString, IndefiniteList  # noqa: E402

from ref import cbor_ref as R  # noqa: E402
from ref import plutusdata_ref as P  # noqa: E402

KF_JSON_NESTED = "KF-C18-json-nested-constr"
KF_EMPTY_INDEF = "KF-C18-empty-list-indefinite"
KF_CHUNKED = "KF-C18-raw-reencode-chunked"
KF_BIGNUM = "KF-C18-bignum-unchunked"
KF_TYPED_LIST = "KF-C18-typed-list-definite"
KF_DUPKEY = "KF-C18-map-duplicate-key"
KF_UNREP = "KF-C18-unrepresentable"
KF_JSON_BYTES = "KF-C18-typed-json-bytes-kind"
KF_CEXT = "KF-C18-cext-indef"

# ---------------------------------------------------------------------------------------------------------------
# abstract data <-> JSON case form   {"c": "<id>", "f": [..]} | {"l": [..]} | {"m": [[k, v], ..]} | {"i": "<n>"} | {"b": hex}
def j2a(j):
    if "c" in j:
        return ("constr", int(j["c"]), [j2a(x) for x in j["f"]])
    if "l" in j:
        return ("list", [j2a(x) for x in j["l"]])
    if "m" in j:
        return ("map", [(j2a(k), j2a(v)) for k, v in j["m"]])
    if "i" in j:
        return ("int", int(j["i"]))
    return ("bytes", bytes.fromhex(j["b"]))


def a2j(a):
    k = a[0]
    if k == "constr":
        return {"c": str(a[1]), "f": [a2j(x) for x in a[2]]}
    if k == "list":
        return {"l": [a2j(x) for x in a[1]]}
    if k == "map":
        return {"m": [[a2j(x), a2j(y)] for x, y in a[1]]}
    if k == "int":
        return {"i": str(a[1])}
    return {"b": a[1].hex()}


def children(a):
    k = a[0]
    if k == "constr":
        return list(a[2])
    if k == "list":
        return list(a[1])
    if k == "map":
        return [x for kv in a[1] for x in kv]
    return []


def walk(a):
    yield a
    for c in children(a):
        yield from walk(c)


def depth(a):
    return 1 + max([depth(c) for c in children(a)], default=0)


# ---- regions (mirrors of Pyc/Model/Plutus.lean `small`, `chunkFree`, `keysOk`, `jsonOk`, `topOk`; cross-checked
# against the driver's `plutus.region` on every case)
def int_fits(n):
    m = n if n >= 0 else -1 - n
    return (m.bit_length() + 7) // 8 <= 64


def small(a):
    return all(int_fits(x[1]) for x in walk(a) if x[0] == "int")


def chunk_free(a):
    return small(a) and all(len(x[1]) <= 64 for x in walk(a) if x[0] == "bytes")


def is_atom(a):
    return a[0] in ("int", "bytes")


def keys_ok(a):
    for x in walk(a):
        if x[0] == "map":
            ks = [k for k, _ in x[1]]
            if not all(is_atom(k) for k in ks):
                return False
            if len({(k[0], k[1]) for k in ks}) != len(ks):
                return False
    return True


def keys_atomic(a):
    return all(is_atom(k) for x in walk(a) if x[0] == "map" for k, _ in x[1])


def has_dup_key(a):
    return keys_atomic(a) and not keys_ok(a)


def key_holds_indefinite(a):
    """some map key contains a non-empty list or a constructor with fields (decoded as an unhashable IndefiniteList)"""
    for x in walk(a):
        if x[0] == "map":
            for k, _ in x[1]:
                for y in walk(k):
                    if (y[0] == "list" and y[1]) or (y[0] == "constr" and y[2]):
                        return True
    return False


def json_ok(a, blocked=False):
    k = a[0]
    if k in ("int", "bytes"):
        return True
    if k == "list":
        return bool(a[1]) and all(json_ok(x, True) for x in a[1])
    if k == "map":
        return all(json_ok(x, blocked) and json_ok(y, blocked) for x, y in a[1])
    c, fs = a[1], a[2]
    if c < 128:
        return (not fs) or (not blocked and all(json_ok(x, False) for x in fs))
    return bool(fs) and all(json_ok(x, True) for x in fs)


def has_empty_seq_json(a):
    """an empty list node, or a constructor >= 128 without fields: from_dict wraps both in IndefiniteList([])"""
    return any((x[0] == "list" and not x[1]) or (x[0] == "constr" and x[1] >= 128 and not x[2]) for x in walk(a))


def has_empty_list(a):
    return any(x[0] == "list" and not x[1] for x in walk(a))


def has_blocked_constr(a, blocked=False):
    """a constructor < 128 with fields below a list node or below the fields of a constructor >= 128"""
    k = a[0]
    if k in ("int", "bytes"):
        return False
    if k == "list":
        return any(has_blocked_constr(x, True) for x in a[1])
    if k == "map":
        return any(has_blocked_constr(x, blocked) or has_blocked_constr(y, blocked) for x, y in a[1])
    c, fs = a[1], a[2]
    if c < 128:
        if fs and blocked:
            return True
        return any(has_blocked_constr(x, blocked) for x in fs)
    return any(has_blocked_constr(x, True) for x in fs)


def collapse(a):
    """what a Python dict makes of an association list: first position, last value (recursively)"""
    k = a[0]
    if k == "constr":
        return ("constr", a[1], [collapse(x) for x in a[2]])
    if k == "list":
        return ("list", [collapse(x) for x in a[1]])
    if k == "map":
        out = []
        for kk, vv in a[1]:
            kk, vv = collapse(kk), collapse(vv)
            for i, (k2, _) in enumerate(out):
                if k2 == kk:
                    out[i] = (k2, vv)
                    break
            else:
                out.append((kk, vv))
        return ("map", out)
    return a


# ---------------------------------------------------------------------------------------------------------------
# building pycardano inputs from abstract data (tags chosen by the reference rule, never by pycardano's get_tag)
def py_bytes(b):
    return ByteString(b) if len(b) > 64 else b


def build_raw(a, explicit):
    k = a[0]
    if k == "int":
        return a[1]
    if k == "bytes":
        return py_bytes(a[1])
    if k == "list":
        items = [build_raw(x, explicit) for x in a[1]]
        return IndefiniteList(items) if (explicit and items) else items
    if k == "map":
        return {build_raw(x, explicit): build_raw(y, explicit) for x, y in a[1]}
    items = [build_raw(x, explicit) for x in a[2]]
    fs = IndefiniteList(items) if (explicit and items) else items
    t = P.constr_tag(a[1])
    return CBORTag(t, fs) if t is not None else CBORTag(102, [a[1], fs])


class Unmodelled(Exception):
    pass


def short_bstr_as_bytes(t):
    """the Lean embedding `typedOf` writes byte strings up to 64 bytes as `bytes`; a ByteString field may hold them"""
    if isinstance(t, list):
        return [short_bstr_as_bytes(x) for x in t]
    if isinstance(t, dict):
        if "bstr" in t and len(t["bstr"]) <= 128:
            return {"bytes": t["bstr"]}
        return {k: short_bstr_as_bytes(v) for k, v in t.items()}
    return t


def dump_prim(o):
    """Python object tree -> the driver's `Prim` JSON"""
    if isinstance(o, bool):
        raise Unmodelled("bool")
    if isinstance(o, int):
        return {"int": str(o)}
    if isinstance(o, bytes):
        return {"bytes": o.hex()}
    if isinstance(o, ByteString):
        return {"bstr": o.value.hex()}
    if isinstance(o, IndefiniteList):
        return {"ilist": [dump_prim(x) for x in o]}
    if isinstance(o, list):
        return {"list": [dump_prim(x) for x in o]}
    if isinstance(o, dict):
        return {"dict": [[dump_prim(k), dump_prim(v)] for k, v in o.items()]}
    if isinstance(o, CBORTag):
        return {"tag": str(o.tag), "v": dump_prim(o.value)}
    raise Unmodelled(type(o).__name__)


def dump_tobj(o):
    """typed object tree -> the driver's `TObj` JSON"""
    if isinstance(o, PlutusData):
        return {"obj": str(o.CONSTR_ID), "f": [dump_tobj(getattr(o, f.name)) for f in dc_fields(o)]}
    if isinstance(o, bool):
        raise Unmodelled("bool")
    if isinstance(o, int):
        return {"int": str(o)}
    if isinstance(o, bytes):
        return {"bytes": o.hex()}
    if isinstance(o, ByteString):
        return {"bstr": o.value.hex()}
    if isinstance(o, IndefiniteList):
        return {"ilist": [dump_tobj(x) for x in o]}
    if isinstance(o, list):
        return {"list": [dump_tobj(x) for x in o]}
    if isinstance(o, dict):
        return {"dict": [[dump_tobj(k), dump_tobj(v)] for k, v in o.items()]}
    raise Unmodelled(type(o).__name__)


def exc_kind(e):
    if isinstance(e, InvalidArgumentException):
        return "invalid-argument"
    if isinstance(e, DeserializeException):
        return "deserialize"
    if isinstance(e, TypeError):
        return "type-error"
    return "other:" + type(e).__name__


def attempt(f):
    """('ok', value) | ('exc', kind)"""
    try:
        return ("ok", f())
    except Exception as e:  # noqa: BLE001
        return ("exc", exc_kind(e))


# ---------------------------------------------------------------------------------------------------------------
# generators
INTS = [0, 1, 23, 24, 255, 256, 65535, 65536, 2**32 - 1, 2**32, 2**63 - 1, 2**63, 2**64 - 1, 2**64, 2**64 + 1,
        -1, -24, -25, -256, -257, -65536, -65537, -2**32, -2**32 - 1, -2**63, -2**63 - 1, -2**64, -2**64 - 1, 2**72,
        -2**100, 2**511 + 5, 2**512 - 1, -2**512]
HUGE_INTS = [2**512, -2**512 - 1, 2**520 + 3, 2**1030, -2**600]
BYTE_LENS = [0, 1, 2, 31, 32, 33, 63, 64, 65, 127, 128, 129, 200]
CIDS = [0, 1, 2, 5, 6, 7, 8, 50, 126, 127, 128, 129, 255, 256, 262, 263, 1000, 1399, 1400, 65535, 65536, 2**32 - 1, 2**32,
        2**63, 2**64 - 1]


def gen_int(rng, huge_ok=True):
    r = rng.random()
    if huge_ok and r < 0.02:
        return rng.choice(HUGE_INTS)
    if r < 0.7:
        return rng.choice(INTS)
    if r < 0.85:
        return rng.randint(-300, 300)
    return rng.choice([1, -1]) * rng.getrandbits(rng.choice([8, 16, 32, 64, 65, 128, 256]))


def gen_bytes(rng, maxlen=200):
    n = rng.choice([x for x in BYTE_LENS if x <= maxlen]) if rng.random() < 0.8 else rng.randint(0, min(maxlen, 140))
    if rng.random() < 0.5:
        return bytes([rng.randrange(256)]) * n
    return bytes(rng.randrange(256) for _ in range(n))


def gen_cid(rng):
    r = rng.random()
    if r < 0.3:
        return rng.choice([0, 1, 2, 5, 6])
    if r < 0.6:
        return rng.choice([7, 8, 50, 126, 127])
    if r < 0.9:
        return rng.choice([c for c in CIDS if c >= 128])
    return rng.randint(0, 300)


def gen_atom(rng):
    if rng.random() < 0.5:
        return ("int", gen_int(rng, huge_ok=False))
    b = gen_bytes(rng, 129 if rng.random() < 0.08 else 40)
    return ("bytes", b)


def gen_data(rng, d, constr_ok=True, map_ok=True):
    """recursive data; map keys are distinct integers / byte strings"""
    kinds = ["int", "bytes"]
    if d > 1:
        kinds += ["list", "list"] + (["constr", "constr", "constr"] if constr_ok else []) + (["map"] if map_ok else [])
    k = rng.choice(kinds)
    if k == "int":
        return ("int", gen_int(rng))
    if k == "bytes":
        return ("bytes", gen_bytes(rng))
    n = rng.choice([0, 0, 1, 1, 2, 2, 3, 4])
    if rng.random() < 0.02:
        # 24 / 25 / 30 / 256 children: the length no longer fits the initial byte of a definite-length head
        n = rng.choice([23, 24, 24, 25, 30, 256])
        kids = [("int", gen_int(rng, huge_ok=False)) if rng.random() < 0.7 else ("bytes", gen_bytes(rng, 8)) for _ in range(n)]
        return ("list", kids) if k != "constr" else ("constr", gen_cid(rng), kids)
    if k == "list":
        return ("list", [gen_data(rng, d - 1, constr_ok, map_ok) for _ in range(n)])
    if k == "constr":
        return ("constr", gen_cid(rng), [gen_data(rng, d - 1, constr_ok, map_ok) for _ in range(n)])
    out, seen = [], set()
    for _ in range(min(n, 3)):
        key = gen_atom(rng)
        if (key[0], key[1]) in seen:
            continue
        seen.add((key[0], key[1]))
        out.append((key, gen_data(rng, d - 1, constr_ok, map_ok)))
    return ("map", out)


def gen_hardkey_data(rng):
    """maps with repeated keys or container keys (outside what a Python dict holds faithfully)"""
    def hk_map():
        if rng.random() < 0.5:
            k = gen_atom(rng)
            ents = [(k, gen_data(rng, 2)), (gen_atom(rng), ("int", 1)), (k, gen_data(rng, 2))]
            rng.shuffle(ents)
            return ("map", ents)
        key = rng.choice([("list", []), ("list", [("int", 1)]), ("constr", 0, []), ("constr", 3, [("int", 2)]),
                          ("constr", 200, []), ("map", []), ("map", [(("int", 1), ("int", 2))]),
                          ("list", [("list", [])])])
        return ("map", [(key, gen_data(rng, 2)), (("int", 7), ("bytes", b"x"))])
    m = hk_map()
    r = rng.random()
    if r < 0.4:
        return m
    if r < 0.7:
        return ("constr", gen_cid(rng), [("int", 1), m])
    return ("list", [m, ("int", 2)])


# ---- typed schemas ---------------------------------------------------------------------------------------------
# ("int",) ("bytes",) ("bstr",) ("cls", name, cid, [field schemas]) ("listof", elem) ("ilist",)
# ("dictof", key in int/bytes, value) ("union", [cls schemas with distinct constructor ids])
def gen_cls_schema(rng, d, counter):
    counter[0] += 1
    name = f"G{counter[0]}"
    n = rng.choice([0, 1, 1, 2, 2, 3, 4])
    return ("cls", name, gen_cid(rng), [gen_field_schema(rng, d - 1, counter) for _ in range(n)])


def gen_field_schema(rng, d, counter, in_container=False):
    kinds = ["int", "int", "bytes", "bytes", "bstr"]
    if d > 0:
        kinds += ["cls", "cls", "listof", "listof", "ilist", "dictof"] + ([] if in_container else ["union"])
    k = rng.choice(kinds)
    if k in ("int", "bytes", "bstr", "ilist"):
        return (k,)
    if k == "cls":
        return gen_cls_schema(rng, d, counter)
    if k == "listof":
        return ("listof", gen_field_schema(rng, d - 1, counter, in_container=True))
    if k == "dictof":
        return ("dictof", (rng.choice(["int", "bytes"]),), gen_field_schema(rng, d - 1, counter, in_container=True))
    alts, cids = [], set()
    for _ in range(rng.randint(2, 3)):
        s = gen_cls_schema(rng, d, counter)
        if s[2] not in cids:
            cids.add(s[2])
            alts.append(s)
    return ("union", alts)


def make_annotation(s, classes):
    k = s[0]
    if k == "int":
        return int
    if k == "bytes":
        return bytes
    if k == "bstr":
        return ByteString
    if k == "ilist":
        return IndefiniteList
    if k == "cls":
        if s[1] not in classes:
            flds = [(f"f{i}", make_annotation(f, classes)) for i, f in enumerate(s[3])]
            classes[s[1]] = make_dataclass(s[1], flds, bases=(PlutusData,), namespace={"CONSTR_ID": s[2]})
        return classes[s[1]]
    if k == "listof":
        return List[make_annotation(s[1], classes)]
    if k == "dictof":
        return Dict[make_annotation(s[1], classes), make_annotation(s[2], classes)]
    if k == "union":
        return Union[tuple(make_annotation(a, classes) for a in s[1])]
    raise ValueError(k)


def gen_value(rng, s, classes, flags, plain_rate):
    """-> (abstract data, python object)"""
    k = s[0]
    if k == "int":
        n = gen_int(rng)
        return ("int", n), n
    if k == "bytes":
        b = gen_bytes(rng, 32 if rng.random() < 0.7 else 64)
        if 32 < len(b):
            flags["bytes_33_64_in_bytes_field"] = True
        return ("bytes", b), b
    if k == "bstr":
        b = gen_bytes(rng)
        if len(b) <= 32 and rng.random() < 0.7:
            b = b + bytes([len(b)]) * rng.choice([33, 40, 64, 65, 100])
        if len(b) <= 32:
            flags["short_in_bstr_field"] = True
        return ("bytes", b), ByteString(b)
    if k == "ilist":
        a = ("list", [gen_data(rng, 2, constr_ok=False) for _ in range(rng.choice([0, 1, 2, 3]))])
        if not a[1]:
            flags["ilist_empty"] = True
        items = [build_raw(x, True) for x in a[1]]
        return a, IndefiniteList(items)
    if k == "cls":
        cls = make_annotation(s, classes)
        vals = [gen_value(rng, f, classes, flags, plain_rate) for f in s[3]]
        return ("constr", s[2], [v[0] for v in vals]), cls(*[v[1] for v in vals])
    if k == "listof":
        vals = [gen_value(rng, s[1], classes, flags, plain_rate) for _ in range(rng.choice([0, 1, 2, 3]))]
        items = [v[1] for v in vals]
        if items:
            flags["listof_nonempty"] = True
        if items and rng.random() >= plain_rate:
            obj = IndefiniteList(items)
        else:
            obj = items
            if items:
                flags["plain_nonempty"] = True
        return ("list", [v[0] for v in vals]), obj
    if k == "dictof":
        ents, seen, obj = [], set(), {}
        for _ in range(rng.choice([0, 1, 2, 3])):
            if s[1][0] == "int":
                ka = ("int", gen_int(rng, huge_ok=False))
            else:
                ka = ("bytes", gen_bytes(rng, 32 if rng.random() < 0.8 else 40))
                if len(ka[1]) > 32:
                    flags["bytes_33_64_in_bytes_field"] = True
            if ka[1] in seen:
                continue
            seen.add(ka[1])
            va, vo = gen_value(rng, s[2], classes, flags, plain_rate)
            ents.append((ka, va))
            obj[ka[1]] = vo
        return ("map", ents), obj
    if k == "union":
        return gen_value(rng, rng.choice(s[1]), classes, flags, plain_rate)
    raise ValueError(k)


def typed_instance(tseed):
    """deterministic (schema, class, abstract datum, object, flags) from a seed string"""
    rng = random.Random(tseed)
    counter = [0]
    schema = gen_cls_schema(rng, rng.choice([1, 2, 2, 3]), counter)
    classes = {}
    cls = make_annotation(schema, classes)
    flags = {}
    plain_rate = rng.choice([0.0, 0.0, 0.0, 0.5, 1.0])
    a, obj = gen_value(rng, schema, classes, flags, plain_rate)
    return schema, cls, a, obj, flags


# ---------------------------------------------------------------------------------------------------------------
# verdict helper
def framing_only(actual, a):
    """the emitted bytes are well-formed Plutus data with the same content as `a` (only definite / indefinite /
    chunked framing differs)"""
    try:
        return P.decode_abstract(actual) == a
    except Exception:  # noqa: BLE001
        return False


def judge_bytes(ctx, route, case, a, exp, res, framing=(), refusal=(), collapse_ok=False, exact=True):
    """res = ('ok', bytes) | ('exc', kind).  framing / refusal: [(finding id, predicate value)] narrow predicates over
    the input that license a known framing difference / a known refusal on this route."""
    ctx.count("route:" + route)
    if res[0] == "ok":
        if res[1] == exp:
            wide = [fid for fid, pred in list(framing) + list(refusal) if pred]
            if wide and exact:
                # the predicates are meant to be exact: inside them the defect always shows
                ctx.count("predicate-too-wide:" + wide[0])
                ctx.diff(f"{route}: finding predicate {wide[0]} matched but the property held (predicate not narrow)",
                         {**case, "route": route}, "a deviation", "canonical bytes")
            return True
        for fid, pred in framing:
            if pred and framing_only(res[1], a):
                ctx.count("known:" + fid)
                ctx.violation(f"{route}: bytes differ from the canonical Plutus data encoding (framing only)",
                              {**case, "route": route}, exp.hex(), res[1].hex(), finding=fid)
                return False
        if collapse_ok and has_dup_key(a) and framing_only(res[1], collapse(a)):
            ctx.count("known:" + KF_DUPKEY)
            ctx.violation(f"{route}: repeated map keys were merged", {**case, "route": route}, exp.hex(), res[1].hex(),
                          finding=KF_DUPKEY)
            return False
        ctx.violation(f"{route}: bytes differ from the canonical Plutus data encoding", {**case, "route": route},
                      exp.hex(), res[1].hex())
        return False
    for fid, pred in refusal:
        if pred and res[1] in ("type-error", "deserialize"):
            ctx.count("known:" + fid)
            ctx.violation(f"{route}: valid Plutus data is refused ({res[1]})", {**case, "route": route}, exp.hex(),
                          res[1], finding=fid)
            return False
    ctx.violation(f"{route}: valid Plutus data is refused ({res[1]})", {**case, "route": route}, exp.hex(), res[1])
    return False


def top_long_bytes(a):
    return a[0] == "bytes" and len(a[1]) > 64


def top_bytes_json(a):
    """from_dict builds a ByteString for more than 64 hex characters; a top-level ByteString fails the type check"""
    return a[0] == "bytes" and len(a[1]) > 32


def model(ctx, op, **kw):
    ctx.traces += 1
    return ctx.driver().ok({"op": op, **kw})


# ---------------------------------------------------------------------------------------------------------------
def check_data(ctx, case):
    """case = {kind: data, d: <data JSON>}: all raw / JSON / decode routes for one datum"""
    dj = case["d"]
    a = j2a(dj)
    exp = P.encode(a)
    exp_hash = P.hash_bytes(exp)
    kok, sm, cf = keys_ok(a), small(a), chunk_free(a)
    drv = ctx.have_driver()
    hist_data(ctx, a)

    if drv:
        ms = model(ctx, "plutus.spec", d=dj)
        if ms != exp.hex():
            ctx.diff("plutus.spec (Lean specification vs Python reference encoder)", case, ms, exp.hex())
        reg = model(ctx, "plutus.region", d=dj)
        mine = {"small": sm, "chunkFree": cf, "keysOk": kok, "jsonOk": json_ok(a),
                "topPure": not (a[0] == "list" and not a[1]), "topCext": a[0] != "list"}
        if reg != mine:
            ctx.diff("plutus.region", case, reg, mine)
        if json_ok(a) == (has_blocked_constr(a) or has_empty_seq_json(a)):
            ctx.diff("jsonOk is not the complement of the two JSON finding predicates", case, reg, mine)

    # ---- (A)/(B) RawPlutusData over primitives -----------------------------------------------------------------
    if kok:
        for explicit in (False, True):
            route = "raw-explicit" if explicit else "raw-plain"
            if a[0] == "list" and not (explicit and a[1]):
                # a top-level list has to be an IndefiniteList (a plain list fails the type check), which
                # `to_primitive` does not enter: only the explicit style of a non-empty list can be written down
                if explicit:   # the empty list: IndefiniteList([]) is 9fff, [] is refused
                    res = attempt(lambda: RawPlutusData([]).to_cbor())
                    judge_bytes(ctx, route, case, a, exp, res, refusal=[(KF_UNREP, True)])
                else:
                    ctx.skipped += 1
                continue
            obj = build_raw(a, explicit)
            raw = RawPlutusData(obj)
            res = attempt(raw.to_cbor)
            judge_bytes(ctx, route, case, a, exp, res, framing=[(KF_BIGNUM, not sm)],
                        refusal=[(KF_UNREP, top_long_bytes(a))])
            if drv:
                try:
                    pj = dump_prim(obj)
                    me = model(ctx, "plutus.primof", d=dj, route="explicit" if explicit else "plain")
                    if me != pj:
                        ctx.diff("plutus.primof (harness construction vs Lean embedding)", {**case, "route": route}, me, pj)
                    if res[0] == "ok":
                        m = model(ctx, "plutus.enc", kind="raw", p=pj)
                        if m != res[1].hex():
                            ctx.diff("plutus.enc raw", {**case, "route": route}, m, res[1].hex())
                except Unmodelled:
                    ctx.count("unmodelled")
            if res[0] == "ok":
                # datum hash = blake2b-256 of the emitted bytes, and of the canonical bytes when they agree
                h = attempt(lambda: bytes(datum_hash(raw).payload))
                if h != ("ok", hashlib.blake2b(res[1], digest_size=32).digest()):
                    ctx.violation(f"{route}: datum_hash is not blake2b-256 of to_cbor()", {**case, "route": route},
                                  hashlib.blake2b(res[1], digest_size=32).hexdigest(), str(h))
                if res[1] == exp and h != ("ok", exp_hash):
                    ctx.violation(f"{route}: datum hash differs from the reference", {**case, "route": route},
                                  exp_hash.hex(), str(h))
                # to_dict gives the JSON form of the datum
                jd = attempt(raw.to_dict)
                if jd != ("ok", P.to_json_form(a)):
                    ctx.violation(f"{route}: to_dict() is not the JSON form of the datum", {**case, "route": route},
                                  P.to_json_form(a), jd[1])
                if drv:
                    try:
                        m = model(ctx, "plutus.todict", p=dump_prim(obj))
                        if m != (jd[1] if jd[0] == "ok" else None):
                            ctx.diff("plutus.todict", {**case, "route": route}, m, jd[1])
                    except Unmodelled:
                        ctx.count("unmodelled")

    # ---- (D) the JSON form ---------------------------------------------------------------------------------------
    jf = P.to_json_form(a)
    for via in ("dict", "json"):
        route = "json-raw" if via == "dict" else "json-raw-str"
        if via == "dict":
            built = attempt(lambda: RawPlutusData.from_dict(jf))
        else:
            built = attempt(lambda: RawPlutusData.from_json(json.dumps(jf)))
        res = attempt(built[1].to_cbor) if built[0] == "ok" else built
        judge_bytes(ctx, route, case, a, exp, res,
                    framing=[(KF_JSON_NESTED, has_blocked_constr(a)), (KF_EMPTY_INDEF, has_empty_seq_json(a)),
                             (KF_BIGNUM, not sm)],
                    refusal=[(KF_UNREP, top_bytes_json(a) or not keys_atomic(a))], collapse_ok=True)
        if via == "dict" and drv and keys_atomic(a):
            m = model(ctx, "plutus.fromdict", j=jf)
            got = None
            if built[0] == "ok":
                try:
                    got = {"prim": dump_prim(built[1].data), "hex": res[1].hex() if res[0] == "ok" else None}
                except Unmodelled:
                    got = "unmodelled"
            if got != "unmodelled":
                if m is not None and got is not None and got["hex"] is None:
                    m = {**m, "hex": None}     # the model has no type check of the top-level object
                if m != got:
                    ctx.diff("plutus.fromdict", {**case, "route": route}, m, got)
        if via == "dict" and res[0] == "ok" and built[0] == "ok":
            # from_dict∘to_dict is stable on what it built
            again = attempt(lambda: RawPlutusData.from_dict(built[1].to_dict()).to_cbor())
            if again != ("ok", res[1]):
                ctx.violation("json-raw: from_dict(to_dict(x)) does not encode like x", {**case, "route": route},
                              res[1].hex(), str(again[1]))

    # ---- (F) decoding the canonical bytes and encoding them again --------------------------------------------------
    dec = attempt(lambda: RawPlutusData.from_cbor(exp))
    res = attempt(dec[1].to_cbor) if dec[0] == "ok" else dec
    judge_bytes(ctx, "raw-decode", case, a, exp, res,
                framing=[(KF_CHUNKED, not cf)],
                refusal=[(KF_UNREP, (a[0] == "list" and not a[1]) or key_holds_indefinite(a))], collapse_ok=True)
    if drv and keys_atomic(a):
        m = model(ctx, "plutus.dec", hex=exp.hex(), variant="pure")
        got = None
        if dec[0] == "ok" and res[0] == "ok":
            try:
                got = {"prim": dump_prim(dec[1].data), "reenc": res[1].hex()}
            except Unmodelled:
                got = "unmodelled"
        if got != "unmodelled" and m != got:
            ctx.diff("plutus.dec pure", case, m, got)
    if dec[0] == "ok" and res[0] == "ok":
        h = attempt(lambda: bytes(datum_hash(dec[1]).payload))
        if res[1] == exp and h != ("ok", exp_hash):
            ctx.violation("raw-decode: datum hash differs from the reference", case, exp_hash.hex(), str(h))
        if res[1] != exp and h == ("ok", exp_hash):
            ctx.violation("raw-decode: datum hash is not the hash of the re-encoded bytes", case, "", str(h))
        # the JSON route from decoded bytes: decode -> to_dict -> from_dict -> to_cbor
        if keys_atomic(a):
            jd = attempt(dec[1].to_dict)
            if jd != ("ok", P.to_json_form(collapse(a))):
                ctx.violation("raw-decode: to_dict() of the decoded datum is not its JSON form", case,
                              P.to_json_form(collapse(a)), jd[1])
            else:
                back = attempt(lambda: RawPlutusData.from_json(dec[1].to_json()).to_cbor())
                judge_bytes(ctx, "decode-json", case, a, exp, back,
                            framing=[(KF_JSON_NESTED, has_blocked_constr(a)), (KF_EMPTY_INDEF, has_empty_seq_json(a)),
                                     (KF_BIGNUM, not sm)],
                            refusal=[(KF_UNREP, top_bytes_json(a))], collapse_ok=True)
    ctx.case(case)


def hist_data(ctx, a):
    ctx.count(f"depth:{min(depth(a), 6)}")
    for x in walk(a):
        if x[0] == "constr":
            ctx.count("tag:small" if x[1] < 7 else "tag:medium" if x[1] < 128 else "tag:general")
            ctx.count("fields:empty" if not x[2] else "fields:non-empty")
        elif x[0] == "list":
            ctx.count("list:empty" if not x[1] else "list:non-empty")
        elif x[0] == "map":
            ctx.count("map:empty" if not x[1] else "map:non-empty")
        elif x[0] == "bytes":
            ctx.count("bytes:chunked" if len(x[1]) > 64 else "bytes:definite")
        elif x[0] == "int":
            ctx.count("int:64bit" if -2**64 <= x[1] < 2**64 else "int:bignum" if int_fits(x[1]) else "int:bignum>64B")


# ---------------------------------------------------------------------------------------------------------------
def check_typed(ctx, case):
    """case = {kind: typed, tseed}: a generated dataclass hierarchy and one instance"""
    schema, cls, a, obj, flags = typed_instance(case["tseed"])
    dj = a2j(a)
    case = {**case, "d": dj, "cls": describe(schema)}
    exp = P.encode(a)
    exp_hash = P.hash_bytes(exp)
    sm = small(a)
    drv = ctx.have_driver()
    hist_data(ctx, a)
    for k in flags:
        ctx.count("typed:" + k)

    # (C) to_cbor of the instance
    res = attempt(obj.to_cbor)
    judge_bytes(ctx, "typed", case, a, exp, res,
                framing=[(KF_TYPED_LIST, flags.get("plain_nonempty", False)),
                         (KF_EMPTY_INDEF, flags.get("ilist_empty", False)), (KF_BIGNUM, not sm)])
    if drv:
        try:
            tj = dump_tobj(obj)
            if not flags.get("plain_nonempty") and not flags.get("ilist_empty"):
                me = model(ctx, "plutus.primof", d=dj, route="typed")
                if me != short_bstr_as_bytes(tj):
                    ctx.diff("plutus.primof typed", case, me, tj)
            m = model(ctx, "plutus.enc", kind="typed", o=tj)
            if m != (res[1].hex() if res[0] == "ok" else None):
                ctx.diff("plutus.enc typed", case, m, res[1].hex() if res[0] == "ok" else res[1])
            mj = model(ctx, "plutus.todict", o=tj)
            jd = attempt(obj.to_dict)
            if jd != ("ok", mj):
                ctx.diff("plutus.todict typed", case, mj, jd[1])
        except Unmodelled:
            ctx.count("unmodelled")
    if res[0] == "ok":
        h = attempt(lambda: bytes(datum_hash(obj).payload))
        h2 = attempt(lambda: bytes(obj.hash().payload))
        want = hashlib.blake2b(res[1], digest_size=32).digest()
        if h != ("ok", want) or h2 != ("ok", want):
            ctx.violation("typed: datum_hash / hash() is not blake2b-256 of to_cbor()", case, want.hex(), str(h))
        if res[1] == exp and h != ("ok", exp_hash):
            ctx.violation("typed: datum hash differs from the reference", case, exp_hash.hex(), str(h))
    # to_dict is the JSON form
    jd = attempt(obj.to_dict)
    if jd != ("ok", P.to_json_form(a)):
        ctx.violation("typed: to_dict() is not the JSON form of the datum", case, P.to_json_form(a), jd[1])

    # (E) JSON route through the class
    for via in ("dict", "json"):
        route = "json-typed" if via == "dict" else "json-typed-str"
        if via == "dict":
            built = attempt(lambda: cls.from_dict(P.to_json_form(a)))
        else:
            built = attempt(lambda: cls.from_json(json.dumps(P.to_json_form(a))))
        r2 = attempt(built[1].to_cbor) if built[0] == "ok" else built
        judge_bytes(ctx, route, case, a, exp, r2,
                    framing=[(KF_EMPTY_INDEF, has_empty_list(a)), (KF_BIGNUM, not sm)],
                    refusal=[(KF_JSON_BYTES, flags.get("bytes_33_64_in_bytes_field", False)
                              or flags.get("short_in_bstr_field", False))])

    # (G) decoding the canonical bytes with the class and encoding again
    dec = attempt(lambda: cls.from_cbor(exp))
    r3 = attempt(dec[1].to_cbor) if dec[0] == "ok" else dec
    rawlong = ilist_long_bytes(schema, a)
    judge_bytes(ctx, "typed-decode", case, a, exp, r3,
                framing=[(KF_TYPED_LIST, flags.get("listof_nonempty", False)),
                         (KF_EMPTY_INDEF, flags.get("ilist_empty", False)), (KF_BIGNUM, not sm), (KF_CHUNKED, rawlong)])
    # decoding its own output: the class restores an equal instance
    if res[0] == "ok":
        own = attempt(lambda: cls.from_cbor(res[1]))
        if own[0] != "ok":
            ctx.violation(f"typed: from_cbor refuses the class's own output ({own[1]})", case, "accepted", own[1])
        else:
            r4 = attempt(own[1].to_cbor)
            if r4 != ("ok", res[1]) and not (flags.get("listof_nonempty") or flags.get("ilist_empty") or rawlong):
                ctx.violation("typed: from_cbor(to_cbor(x)).to_cbor() differs from to_cbor(x)", case, res[1].hex(), str(r4[1]))
            elif r4 != ("ok", res[1]):
                judge_bytes(ctx, "typed-own-roundtrip", case, a, res[1], r4,
                            framing=[(KF_TYPED_LIST, flags.get("listof_nonempty", False)),
                                     (KF_EMPTY_INDEF, flags.get("ilist_empty", False)), (KF_CHUNKED, rawlong)])
    ctx.case({"kind": "typed", "tseed": case["tseed"]})


def check_typedkey(ctx, case):
    """case = {kind: typedkey, tseed}: a dataclass with a Dict field keyed by a hashable PlutusData class (a constructor,
    with or without fields, in KEY position): to_cbor / datum hash against the reference, and the same instance as a
    map value and as the datum itself give the same bytes for the key object"""
    a, tobj, K, ents, nf = build_typedkey(case["tseed"])
    case = {**case, "d": a2j(a)}
    exp = P.encode(a)
    res = attempt(tobj.to_cbor)
    ctx.count(f"typedkey:fields={nf}")
    if res != ("ok", exp):
        ctx.violation("typed: a constructor used as a map key is not written in the ledger's framing", case, exp.hex(),
                      res[1].hex() if res[0] == "ok" else res[1])
    elif attempt(lambda: bytes(datum_hash(tobj).payload)) != ("ok", P.hash_bytes(exp)):
        ctx.violation("typed: datum hash of a datum with constructor keys differs from the reference", case, P.hash_bytes(exp).hex(), "other")
    # the key object on its own
    for ka, _ in ents[:1]:
        r = attempt(K(*[x[1] for x in ka[2]]).to_cbor)
        if r != ("ok", P.encode(ka)):
            ctx.violation("typed: key class instance on its own differs from the reference", case, P.encode(ka).hex(), str(r[1]))
    ctx.case({"kind": "typedkey", "tseed": case["tseed"]})


def build_typedkey(tseed):
    """-> (abstract datum, instance, key class, entries, number of key fields)"""
    rng = random.Random(tseed)
    kcid, tcid = gen_cid(rng), gen_cid(rng)
    nf = rng.choice([0, 1, 1, 2, 3])
    kinds = [rng.choice(["int", "bytes"]) for _ in range(nf)]
    K = make_dataclass("K", [(f"f{i}", int if k == "int" else bytes) for i, k in enumerate(kinds)], bases=(PlutusData,),
                       namespace={"CONSTR_ID": kcid}, unsafe_hash=True)
    vk = rng.choice(["int", "bytes", "key"])
    T = make_dataclass("T", [("d", Dict[K, int if vk == "int" else bytes if vk == "bytes" else K])], bases=(PlutusData,),
                       namespace={"CONSTR_ID": tcid})

    def atom(k):
        return ("int", gen_int(rng, huge_ok=False)) if k == "int" else ("bytes", gen_bytes(rng, 32))
    ents, obj, seen = [], {}, set()
    for _ in range(rng.choice([1, 1, 2, 3]) if nf else 1):
        fa = [atom(k) for k in kinds]
        if repr(fa) in seen:
            continue
        seen.add(repr(fa))
        ka, ko = ("constr", kcid, fa), K(*[x[1] for x in fa])
        if vk == "key":
            va, vo = ka, ko
        else:
            va = atom(vk)
            vo = va[1]
        ents.append((ka, va))
        obj[ko] = vo
    a = ("constr", tcid, [("map", ents)])
    return a, T(obj), K, ents, nf


def describe(s):
    k = s[0]
    if k == "cls":
        return f"{s[1]}#{s[2]}(" + ",".join(describe(f) for f in s[3]) + ")"
    if k == "listof":
        return f"List[{describe(s[1])}]"
    if k == "dictof":
        return f"Dict[{describe(s[1])},{describe(s[2])}]"
    if k == "union":
        return "Union[" + ",".join(describe(x) for x in s[1]) + "]"
    return {"int": "int", "bytes": "bytes", "bstr": "ByteString", "ilist": "IndefiniteList"}[k]


# ---------------------------------------------------------------------------------------------------------------
def check_guard(ctx, case):
    """case = {kind: guard, n, cid}: a typed `bytes` field of n bytes: refused at construction iff n > 64"""
    n, cid = case["n"], case["cid"]
    cls = make_dataclass("Gd", [("f0", int), ("f1", bytes)], bases=(PlutusData,), namespace={"CONSTR_ID": cid})
    b = bytes([n % 251]) * n
    r = attempt(lambda: cls(1, b))
    refused = r == ("exc", "invalid-argument")
    if refused != (n > 64) or (r[0] == "exc" and not refused):
        ctx.violation("long-bytes guard: a `bytes` field is refused at construction exactly when it exceeds 64 bytes",
                      case, "refused" if n > 64 else "accepted", r[1] if r[0] == "exc" else "accepted")
    if r[0] == "ok":
        a = ("constr", cid, [("int", 1), ("bytes", b)])
        judge_bytes(ctx, "guard", case, a, P.encode(a), attempt(r[1].to_cbor))
    if ctx.have_driver():
        m = model(ctx, "plutus.enc", kind="typed", o={"obj": str(cid), "f": [{"int": "1"}, {"bytes": b.hex()}]})
        if (m is None) != refused:
            ctx.diff("plutus.enc typed (guard)", case, m, r[1] if r[0] == "exc" else "accepted")
    # the ByteString wrapper is how a long byte string is written: chunked
    cls2 = make_dataclass("Gb", [("f0", ByteString)], bases=(PlutusData,), namespace={"CONSTR_ID": cid})
    a2 = ("constr", cid, [("bytes", b)])
    judge_bytes(ctx, "guard-bytestring", case, a2, P.encode(a2), attempt(lambda: cls2(ByteString(b)).to_cbor()))
    ctx.count("guard:long" if n > 64 else "guard:short")
    ctx.case(case)


def check_tags(ctx, case):
    """case = {kind: tags, lo, hi}: get_tag / get_constructor_id_and_fields against the rule and the model"""
    for c in range(case["lo"], case["hi"]):
        want = P.constr_tag(c)
        got = get_tag(c)
        if got != want:
            ctx.violation("get_tag is not the constructor-tag rule", {"kind": "tags", "lo": c, "hi": c + 1}, want, got)
        if want is not None:
            back = attempt(lambda: get_constructor_id_and_fields(CBORTag(want, [1])))
            if back != ("ok", (c, [1])):
                ctx.violation("get_constructor_id_and_fields does not invert get_tag", {"kind": "tags", "lo": c, "hi": c + 1},
                              (c, [1]), back[1])
        if ctx.have_driver():
            m = model(ctx, "plutus.tag", c=str(c))
            if (int(m) if m is not None else None) != got:
                ctx.diff("plutus.tag", {"kind": "tags", "lo": c, "hi": c + 1}, m, got)
    for t in range(case["lo"], case["hi"]):
        r = attempt(lambda: get_constructor_id_and_fields(CBORTag(t, [])))
        if t == 102:
            continue
        if ctx.have_driver():
            m = model(ctx, "plutus.constr", t=str(t))
            got = r[1][0] if r[0] == "ok" else None
            if (int(m) if m is not None else None) != got:
                ctx.diff("plutus.constr", {"kind": "tags", "lo": t, "hi": t + 1}, m, got)
    ctx.count("tags")
    ctx.case(case)


# ---------------------------------------------------------------------------------------------------------------
# secondary pass: the C-extension back end (pycardano's decoder patch is not reached; indefinite arrays arrive as plain
# lists).  Runs in a sub-process without the pure-Python switch of harness/run.py.
def cext_worker():
    for line in sys.stdin:
        req = json.loads(line)
        out = {}
        try:
            if req["kind"] == "raw":
                out["ok"] = RawPlutusData.from_cbor(bytes.fromhex(req["hex"])).to_cbor().hex()
            else:
                schema, cls, a, obj, flags = typed_instance(req["tseed"])
                out["ok"] = cls.from_cbor(P.encode(a)).to_cbor().hex()
        except Exception as e:  # noqa: BLE001
            out["exc"] = exc_kind(e)
        sys.stdout.write(json.dumps(out) + "\n")
        sys.stdout.flush()


def in_ilist_field(schema, a, pred):
    """some node of the data held in an IndefiniteList-annotated (untyped) field satisfies pred"""
    k = schema[0]
    if k == "ilist":
        return any(pred(y) for x in a[1] for y in walk(x))
    if k == "cls":
        return any(in_ilist_field(f, x, pred) for f, x in zip(schema[3], a[2]))
    if k == "listof":
        return any(in_ilist_field(schema[1], x, pred) for x in a[1])
    if k == "dictof":
        return any(in_ilist_field(schema[2], v, pred) for _, v in a[1])
    if k == "union":
        return any(s[2] == a[1] and in_ilist_field(s, a, pred) for s in schema[1])
    return False


def ilist_long_bytes(schema, a):
    """an untyped field holds a byte string > 64 bytes: decoded to plain bytes (nothing restores the ByteString)"""
    return in_ilist_field(schema, a, lambda y: y[0] == "bytes" and len(y[1]) > 64)


def ilist_nested_seq(schema, a):
    """typed decode under the C extension re-wraps an IndefiniteList field only at its top: nested non-empty lists
    stay plain lists and are re-emitted definite"""
    return in_ilist_field(schema, a, lambda y: y[0] == "list" and bool(y[1]))


def run_cext_pass(ctx, datas, tseeds):
    env = dict(os.environ)
    env.pop("VERIF_CBOR", None)
    try:
        p = subprocess.Popen([sys.executable, os.path.abspath(__file__), "--cext-worker"], stdin=subprocess.PIPE,
                             stdout=subprocess.PIPE, text=True, env=env)
    except OSError:
        ctx.count("cext:unavailable")
        return

    def ask(req):
        p.stdin.write(json.dumps(req) + "\n")
        p.stdin.flush()
        line = p.stdout.readline()
        if not line:
            raise RuntimeError("cext worker died")
        r = json.loads(line)
        return ("ok", bytes.fromhex(r["ok"])) if "ok" in r else ("exc", r["exc"])

    try:
        probe = ask({"kind": "raw", "hex": "9f01ff"})
        if probe[0] == "ok":     # an indefinite top-level list accepted: the worker runs the pure decoder (no C extension)
            ctx.count("cext:not-active")
            return
        for a in datas:
            exp = P.encode(a)
            case = {"kind": "data", "d": a2j(a), "backend": "cext"}
            res = ask({"kind": "raw", "hex": exp.hex()})
            judge_bytes(ctx, "cext-raw-decode", case, a, exp, res, framing=[(KF_CHUNKED, not chunk_free(a))],
                        refusal=[(KF_CEXT, a[0] == "list"), (KF_UNREP, a[0] == "list" and not a[1])], collapse_ok=True)
            if ctx.have_driver() and keys_atomic(a):
                m = model(ctx, "plutus.dec", hex=exp.hex(), variant="cext")
                got = res[1].hex() if res[0] == "ok" else None
                if (m["reenc"] if m else None) != got:
                    ctx.diff("plutus.dec cext", case, m, got)
        for ts in tseeds:
            schema, cls, a, obj, flags = typed_instance(ts)
            exp = P.encode(a)
            case = {"kind": "typed", "tseed": ts, "backend": "cext", "cls": describe(schema)}
            res = ask({"kind": "typed", "tseed": ts})
            judge_bytes(ctx, "cext-typed-decode", case, a, exp, res,
                        framing=[(KF_TYPED_LIST, flags.get("listof_nonempty", False)),
                                 (KF_EMPTY_INDEF, flags.get("ilist_empty", False)), (KF_BIGNUM, not small(a)),
                                 (KF_CEXT, ilist_nested_seq(schema, a)), (KF_CHUNKED, ilist_long_bytes(schema, a))])
    finally:
        try:
            p.stdin.close()
            p.wait(timeout=10)
        except Exception:  # noqa: BLE001
            p.kill()


# ---------------------------------------------------------------------------------------------------------------
def dispatch(ctx, case):
    k = case["kind"]
    if k == "data":
        check_data(ctx, {"kind": "data", "d": case["d"]})
    elif k == "typed":
        check_typed(ctx, {"kind": "typed", "tseed": case["tseed"]})
    elif k == "typedkey":
        check_typedkey(ctx, {"kind": "typedkey", "tseed": case["tseed"]})
    elif k == "guard":
        check_guard(ctx, {"kind": "guard", "n": case["n"], "cid": case["cid"]})
    elif k == "tags":
        check_tags(ctx, {"kind": "tags", "lo": case["lo"], "hi": case["hi"]})


def corpus():
    W = lambda a: {"kind": "data", "d": a2j(a)}   # noqa: E731
    b65, b128, b129 = b"\x00" * 65, bytes(range(128)), bytes(range(129))
    return [
        # KF-C18-json-nested-constr witness: d8799f9fd87a9f0102ffffff
        W(("constr", 0, [("list", [("constr", 1, [("int", 1), ("int", 2)])])])),
        W(("constr", 999, [("constr", 0, [("int", 1)])])),
        W(("list", [("map", [(("int", 1), ("constr", 0, [("int", 1)]))])])),
        # empty sequences
        W(("constr", 0, [])), W(("constr", 127, [])), W(("constr", 128, [])), W(("list", [])),
        W(("constr", 0, [("list", [])])), W(("list", [("list", [])])), W(("map", [])),
        # chunking boundaries
        W(("bytes", b"")), W(("bytes", b"\x01" * 64)), W(("bytes", b65)), W(("bytes", b128)), W(("bytes", b129)),
        W(("constr", 1, [("bytes", b65), ("bytes", b"\x02" * 64)])),
        W(("map", [(("bytes", b65), ("bytes", b129))])),
        # integers
        W(("constr", 6, [("int", 2**64 - 1), ("int", 2**64), ("int", -2**64), ("int", -2**64 - 1)])),
        W(("int", 2**512 - 1)), W(("int", 2**512)), W(("int", -2**512)), W(("int", -2**512 - 1)),
        # every tag boundary
        W(("list", [("constr", c, [("int", c)]) for c in (0, 6, 7, 127, 128, 1399, 1400, 2**32 - 1, 2**32, 2**64 - 1)])),
        W(("constr", 7, [("constr", 6, []), ("constr", 127, [("constr", 128, [("constr", 0, [])])])])),
        # map order is insertion order, not sorted
        W(("map", [(("int", 5), ("int", 1)), (("int", 1), ("int", 2)), (("bytes", b"b"), ("int", 3)), (("bytes", b"a"), ("int", 4)),
                   (("int", -1), ("int", 5)), (("int", 256), ("int", 6)), (("int", 24), ("int", 7))])),
        # repeated and container keys
        W(("map", [(("int", 1), ("int", 2)), (("int", 1), ("int", 3))])),
        W(("map", [(("constr", 0, [("int", 1)]), ("int", 2))])),
        W(("map", [(("list", []), ("int", 2)), (("constr", 0, []), ("int", 3)), (("map", []), ("int", 4))])),
        {"kind": "guard", "n": 64, "cid": 0}, {"kind": "guard", "n": 65, "cid": 0}, {"kind": "guard", "n": 0, "cid": 130},
        {"kind": "tags", "lo": 0, "hi": 300}, {"kind": "tags", "lo": 1270, "hi": 1545},
    ]


def run(ctx):
    ctx.rule = ("recursive data (constructor / list / map / integer / bytes) to depth 4 with 0..4 children per node, constructor "
                "ids from every tag boundary (0, 6, 7, 127, 128, 1399, 1400, 2^32, 2^64-1, ...), integers from every CBOR width "
                "boundary, negatives, bignums up to and beyond 64 payload bytes, byte strings of 0/1/32/33/63/64/65/127/128/129/200 "
                "bytes, empty and non-empty lists / maps / field lists, map keys distinct ints / byte strings; each datum is "
                "built as RawPlutusData over plain lists and over IndefiniteList / ByteString primitives, through from_dict / "
                "from_json of its JSON form, and decoded from its canonical bytes and re-encoded; a second stream generates "
                "dataclass hierarchies (int / bytes / ByteString / nested class / List[T] / IndefiniteList / Dict[K, V] / Union "
                "fields) with one instance each (to_cbor, from_dict, from_json, from_cbor round trips); dataclasses with a Dict field "
                "keyed by a hashable PlutusData class (constructor in key position, 0..3 fields); a third stream holds maps "
                "with repeated or container keys; plus the long-bytes guard at every length 0..130 and the tag tables; a case "
                "is non-trivial if it is a distinct datum / class hierarchy")
    ctx.assumptions = [
        "reference encoder harness/ref/plutusdata_ref.py transcribes PlutusCore.Data.encodeData (tags 121-127 / 1280-1400 / 102, "
        "Serialise [a] list framing, 64-byte chunks also for bignum payloads) over the RFC 8949 codec ref/cbor_ref.py",
        "Python int = Lean Int; a Python dict = insertion-ordered association list with distinct hashable keys",
        "primary configuration: pure-Python cbor2 back end (the one pycardano's decoder patches reach); the C extension "
        "is exercised in a secondary sub-process pass",
        "the Lean decoder model refuses every map key that is not an int / byte string; the implementation accepts empty "
        "containers as keys on decode (those cases are judged against the reference only)",
        "typed decoding (`_restore_typed_primitive`) and typed from_dict are judged against the reference only (no Lean model)",
    ]
    ctx.extra["trusted"] = ["cbor2 (modelled by Pyc.Cbor.encode / decodeItem)", "hashlib.blake2b"]
    for c in corpus():
        dispatch(ctx, c)
    rng = ctx.rng
    datas, tseeds = [], []
    for i in range(ctx.budget(3000, 30000)):
        a = gen_data(rng, rng.choice([2, 3, 3, 4, 4]))
        if a[0] in ("int", "bytes") and rng.random() < 0.8:       # mostly containers at the top
            a = gen_data(rng, rng.choice([3, 4]))
        if i % 7 == 0 and a[0] != "constr":
            a = ("constr", gen_cid(rng), [a])
        if len(datas) < ctx.budget(60, 600):
            datas.append(a)
        dispatch(ctx, {"kind": "data", "d": a2j(a)})
    for i in range(ctx.budget(300, 3000)):
        dispatch(ctx, {"kind": "data", "d": a2j(gen_hardkey_data(rng))})
    for i in range(ctx.budget(1500, 15000)):
        ts = f"{ctx.seed}-t{i}"
        if len(tseeds) < ctx.budget(60, 600):
            tseeds.append(ts)
        dispatch(ctx, {"kind": "typed", "tseed": ts})
    for i in range(ctx.budget(300, 3000)):
        dispatch(ctx, {"kind": "typedkey", "tseed": f"{ctx.seed}-k{i}"})
    for n in range(0, 131):
        dispatch(ctx, {"kind": "guard", "n": n, "cid": rng.choice(CIDS)})
    run_cext_pass(ctx, datas, tseeds)


def replay(ctx, data):
    def one(inp):
        if inp.get("backend") == "cext":
            run_cext_pass(ctx, [j2a(inp["d"])] if inp["kind"] == "data" else [], [inp["tseed"]] if inp["kind"] == "typed" else [])
        else:
            dispatch(ctx, inp)
    if "input" in data:
        one(data["input"])
    for d in data.get("correspondence", []):
        one(d["input"])


if CEXT_WORKER:
    cext_worker()
