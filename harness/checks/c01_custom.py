"""C01 / C03 — the hand-written codecs that the generic codec model carries as opaque leaves.

`Value` / `MultiAsset` / `Asset`, `TransactionOutput` (legacy array and map form, datum hash / inline datum / reference
script, the `post_alonzo` flag the decoder recomputes) and the set-valued fields of `TransactionBody` (list vs
OrderedSet, tag flag) are modelled in lean/Pyc/Model/CustomCodec.lean; the theorems are in Props/C01.lean and
Props/C03.lean.  This module ties those models to /repo: the REAL classes and the driver ops `custom.*` run on the same
inputs and are compared on the encoding, on the decoded object field by field, and on the re-encoding; in the same
pass the property itself (decode∘encode = id up to what the theorems state, re-encode reproduces the bytes) is judged
on the implementation.

Families (each case is regenerated from its own seed, so every case replays):
  custom-value        values with zero quantities, empty policies, boundary coins / quantities, negative quantities
  custom-value-mal    damaged value encodings: both sides must agree on ok / DeserializeException / other exception
  custom-output       {legacy, map} x {no datum, hash, inline, hash+inline} x {no script, native, Plutus v1-v3} x flag
                      (constructor arguments; the constructed object — `__post_init__` — is compared with `normOutput`)
  custom-output-mal   damaged output encodings
  custom-body         bodies with random optional fields, list / OrderedSet(tagged | untagged) set-valued fields, and
                      each set-valued field transcoded to the other wire form
"""
from __future__ import annotations

import copy
import random

import cbor2

from pycardano.exception import DeserializeException
from pycardano.serialization import NonEmptyOrderedSet, OrderedSet, default_encoder

from ref import cbor_ref as R
from vlib import typegen as T
from vlib import values as V

KF_BOTH = "KF-C01-both-datums"

COINS = [0, 1, 23, 24, 255, 256, 65535, 65536, 2**32 - 1, 2**32, 2**63 - 1, 2**63, 2**64 - 1, 2**64, 2**64 + 1, 1_500_000]
QTYS = [0, 1, 23, 24, 2**32, 2**63, 2**64 - 1, 2**64, 3 * 2**70, -1, -24, -25, -(2**63), -(2**64), -(2**64) - 1]
SET_FIELDS = ["inputs", "certificates", "collateral", "required_signers", "reference_inputs", "proposal_procedures"]


def classify(e):
    return "deser" if isinstance(e, DeserializeException) else "crash"


# ---------------------------------------------------------------------------------------------------- values
def gen_value_json(rng, output=False):
    """`output`: amounts an output may carry (no negative coin / quantity) most of the time"""
    coin = rng.choice(COINS) if rng.random() < 0.7 else rng.randint(0, 10**8)
    allow_neg = (not output) or rng.random() < 0.06
    if allow_neg and rng.random() < 0.2:
        coin = -coin
    ma = []
    shape = rng.random()
    npol = 0 if shape < 0.2 else rng.choice([1, 1, 2, 2, 3])
    for p in rng.sample(V.POLICIES, npol):
        nn = rng.choice([1, 1, 2, 3]) if rng.random() < (0.94 if output else 0.75) else 0
        names = rng.sample(V.NAMES, nn)
        a = []
        for n in names:
            r = rng.random()
            if r < (0.05 if output else 0.18):
                q = 0
            elif r < 0.6:
                q = rng.choice(QTYS)
            else:
                q = rng.randint(1, 10**6)
            if q < 0 and not allow_neg:
                q = -q
            a.append([n.hex(), str(q)])
        ma.append([p.hex(), a])
    return {"coin": str(coin), "ma": ma}


def check_value(ctx, case):
    rng = random.Random(case["seed"])
    j = gen_value_json(rng)
    x = V.load_value(j)
    desc = {**case, "value": j}
    try:
        b = x.to_cbor()
    except Exception as e:
        ctx.count("custom-value:unserializable:" + type(e).__name__)
        ctx.skipped += 1
        return
    desc["hex"] = b.hex()
    normal = V.is_normal_ma(j["ma"])
    ctx.count("custom-value:form:" + ("bare" if b[0] >> 5 in (0, 1, 6) else "list"))
    ctx.count("custom-value:" + ("normalised" if normal else "unnormalised"))
    for q in {int(q) for _, a in j["ma"] for _, q in a} | {int(j["coin"])}:
        if q in (0, 1, 23, 24, 2**32, 2**63, 2**64 - 1) or q < 0 or q >= 2**64:
            ctx.count("custom-value:boundary:" + ("neg" if q < 0 else "big" if q >= 2**64 else str(q)))
    # ---- the property on the implementation
    try:
        y = type(x).from_cbor(b)
        err = None
    except Exception as e:
        y, err = None, e
    if err is not None:
        ctx.violation(f"Value: the encoded value cannot be decoded ({type(err).__name__}: {str(err)[:120]})", desc,
                      "a value", classify(err))
    else:
        nx = type(x)(x.coin, copy.deepcopy(x.multi_asset).normalize())
        if not (y == nx):
            ctx.violation("Value: decode(encode(v)) != normalised v", desc, V.dump_value(nx), V.dump_value(y))
        if not (y == x) or not (x == y):
            # C01.value_roundtrip_pyeq: `==` compares contents, so it holds for every value, stored zeros / empty policies included
            ctx.violation("Value: decode(encode(v)) != v", desc, j, V.dump_value(y))
        if not normal:
            ctx.count("custom-value:storing-zeros-or-empty-policies:decoded==original(judged)")
        try:
            b2 = y.to_cbor()
        except Exception:
            b2 = None
        if b2 != b:
            ctx.violation("Value: re-encoding the decoded value gives different bytes", desc, b.hex(), b2.hex() if b2 else None)
    # ---- correspondence with the model
    if ctx.have_driver():
        d = ctx.driver()
        m = d.ok({"op": "custom.value.enc", "a": j})
        ctx.traces += 1
        if m["hex"] != b.hex():
            ctx.diff("custom.value.enc", desc, m["hex"], b.hex())
        ctx.count("custom-value:" + ("in_theorem_scope" if m["inscope"] else "outside_theorem_scope"))
        k, md = d.call({"op": "custom.value.dec", "hex": b.hex()})
        ctx.traces += 1
        if k != "ok":
            ctx.diff("custom.value.dec", desc, md, "ok")
        elif "err" in md:
            if err is None:
                ctx.diff("custom.value.dec", desc, md, "decoded")
        elif err is not None:
            ctx.diff("custom.value.dec", desc, "decoded", classify(err))
        else:
            impl = V.dump_value(y)                       # insertion order of the decoded dicts = wire order
            if md["val"] != impl:
                ctx.diff("custom.value.dec", desc, md["val"], impl)
            if m["norm"] != impl:
                ctx.diff("custom.value.dec(normValue)", desc, m["norm"], impl)
            if md["reenc"] != y.to_cbor().hex():
                ctx.diff("custom.value.reenc", desc, md["reenc"], y.to_cbor().hex())
            if m["eq_orig"] != bool(y == x):
                ctx.diff("custom.value.pyeq", desc, m["eq_orig"], bool(y == x))
    ctx.case(case)


def damage_value(rng, kind):
    """a primitive (cbor_ref data model) near the image of the value encoder"""
    p1, p2 = V.POLICIES[0], V.POLICIES[1]
    good = [5, R.Map([(p1, R.Map([(b"a", 7), (b"bb", 9)])), (p2, R.Map([(b"", 1)]))])]
    if kind == "policy27":
        return [5, R.Map([(p1[:27], R.Map([(b"a", 7)]))])]
    if kind == "policy29":
        return [5, R.Map([(p1 + b"\x00", R.Map([(b"a", 7)]))])]
    if kind == "name33":
        return [5, R.Map([(p1, R.Map([(b"n" * 33, 7)]))])]
    if kind == "name32":
        return [5, R.Map([(p1, R.Map([(b"n" * 32, 7)]))])]
    if kind == "qty-text":
        return [5, R.Map([(p1, R.Map([(b"a", "7")]))])]
    if kind == "qty-bytes":
        return [5, R.Map([(p1, R.Map([(b"a", b"\x07")]))])]
    if kind == "qty-null":
        return [5, R.Map([(p1, R.Map([(b"a", None)]))])]
    if kind == "key-int":
        return [5, R.Map([(7, R.Map([(b"a", 7)]))])]
    if kind == "name-int":
        return [5, R.Map([(p1, R.Map([(3, 7)]))])]
    if kind == "key-text-nonhex":
        return [5, R.Map([("zz", R.Map([(b"a", 7)]))])]
    if kind == "key-text-hex":
        return [5, R.Map([(p1.hex(), R.Map([("6162", 7)]))])]
    if kind == "ma-list":
        return [5, [1, 2]]
    if kind == "ma-int":
        return [5, 6]
    if kind == "asset-list":
        return [5, R.Map([(p1, [1])])]
    if kind == "outer0":
        return []
    if kind == "outer1":
        return [9]
    if kind == "outer3":
        return good + [b"extra"]
    if kind == "outer-indef":
        return R.IndefList(good)
    if kind == "coin-bytes":
        return [b"\x05", good[1]]
    if kind == "coin-null":
        return [None, good[1]]
    if kind == "top-bytes":
        return b"\x01\x02"
    if kind == "top-text":
        return "5"
    if kind == "top-map":
        return R.Map([(0, 1)])
    if kind == "top-null":
        return None
    if kind == "wire-zero":
        return [5, R.Map([(p1, R.Map([(b"a", 0), (b"b", 2)]))])]
    if kind == "wire-zero-only":
        return [5, R.Map([(p1, R.Map([(b"a", 0)]))])]
    if kind == "wire-empty-policy":
        return [5, R.Map([(p1, R.Map([])), (p2, R.Map([(b"x", 1)]))])]
    if kind == "wire-empty-ma":
        return [5, R.Map([])]
    if kind == "wire-unsorted":
        return [5, R.Map([(p2, R.Map([(b"bb", 9), (b"a", 7)])), (p1, R.Map([(b"z", 1)]))])]
    if kind == "bignum-coin":
        return [2**70, good[1]]
    if kind == "neg-coin":
        return -7
    return good


VALUE_DAMAGE = ["policy27", "policy29", "name33", "name32", "qty-text", "qty-bytes", "qty-null", "key-int", "name-int",
                "key-text-nonhex", "key-text-hex", "ma-list", "ma-int", "asset-list", "outer0", "outer1", "outer3",
                "outer-indef", "coin-bytes", "coin-null", "top-bytes", "top-text", "top-map", "top-null", "wire-zero",
                "wire-zero-only", "wire-empty-policy", "wire-empty-ma", "wire-unsorted", "bignum-coin", "neg-coin", "good"]


def check_value_malformed(ctx, case):
    from pycardano import Value
    rng = random.Random(case["seed"])
    kind = case["damage"]
    mb = R.enc(damage_value(rng, kind))
    desc = {**case, "hex": mb.hex()}
    try:
        y = Value.from_cbor(mb)
        impl = "ok"
    except DeserializeException:
        y, impl = None, "deser"
    except Exception:
        y, impl = None, "crash"
    ctx.count(f"custom-value-mal:{kind}:{impl}")
    if ctx.have_driver():
        k, m = ctx.driver().call({"op": "custom.value.dec", "hex": mb.hex()})
        ctx.traces += 1
        mod = "fail" if k != "ok" else m.get("err", "ok")
        if mod != impl:
            ctx.diff("custom.value.dec(malformed)", desc, mod, impl)
        elif impl == "ok":
            if m["val"] != V.dump_value(y):
                ctx.diff("custom.value.dec(malformed).val", desc, m["val"], V.dump_value(y))
            try:
                rb = y.to_cbor().hex()
            except Exception as e:
                rb = "unserializable"
            if m["reenc"] != rb:
                ctx.diff("custom.value.dec(malformed).reenc", desc, m["reenc"], rb)
    ctx.case(case, nontrivial=False)


# ---------------------------------------------------------------------------------------------------- outputs
def dumps(x):
    return cbor2.dumps(x, default=default_encoder)


def script_json(s):
    from pycardano import NativeScript
    if s is None:
        return None
    if isinstance(s, NativeScript):
        return {"native": dumps(s).hex()}
    return {"plutus": [str(s.version), bytes(s).hex()]}


def output_json(o):
    """image of a TransactionOutput in the JSON convention of the driver (`Driver/Codec.lean`)"""
    return {"addr": dumps(o.address).hex(), "amount": V.dump_value(o.amount),
            "dh": None if o.datum_hash is None else bytes(o.datum_hash.payload).hex(),
            "datum": None if o.datum is None else dumps(o.datum).hex(),
            "script": script_json(o.script), "pa": bool(o.post_alonzo)}


def gen_output(rng, g, allow_both=True):
    import pycardano as pc
    from pycardano import TransactionOutput
    addr = T.g_address(g, 0)
    amount = V.load_value(gen_value_json(rng, output=True))
    dmode = "both" if (allow_both and rng.random() < 0.08) else rng.choice(["none", "hash", "inline"])
    smode = rng.choice(["none", "none", "none", "native", "v1", "v2", "v3"])
    flag = rng.random() < 0.5
    dh = pc.hash.DatumHash(T.rb(rng, 32)) if dmode in ("hash", "both") else None
    datum = None
    if dmode in ("inline", "both"):
        datum = rng.choice([T.g_plutus_datum(g, 0), 0, 42, 2**64, -5, b"", b"\x01\x02", T.g_plutus_datum(g, 0)])
    script = None
    if smode == "native":
        script = T.g_native_script(g, rng.choice([0, 1, 2]))
    elif smode != "none":
        script = T.g_plutus_script(int(smode[1]))(g, 0)
    o = TransactionOutput(addr, amount, datum_hash=dh, datum=datum, script=script, post_alonzo=flag)
    return o, dmode, smode, flag


def check_output(ctx, case):
    from pycardano import TransactionOutput
    rng = random.Random(case["seed"])
    g = T.Gen(rng, {})
    o, dmode, smode, flag = gen_output(rng, g)
    oj = output_json(o)                              # the constructed object
    args = {**oj, "pa": bool(flag)}                  # the constructor arguments (the flag as it was passed)
    desc = {**case, "output": oj, "flag_argument": bool(flag)}
    try:
        b = o.to_cbor()
        refused = None
    except Exception as e:
        b, refused = None, type(e).__name__
    have = ctx.have_driver()
    m = None
    if have:
        m = ctx.driver().ok({"op": "custom.output.enc", "o": args})
        ctx.traces += 1
    # `TransactionOutput.__post_init__`: the flag is set whenever an inline datum or a script is present (model: normOutput)
    exp_flag = bool(flag) or o.datum is not None or o.script is not None
    if bool(o.post_alonzo) != exp_flag:
        ctx.violation("TransactionOutput: constructed with an inline datum or a script but post_alonzo is not set (the output "
                      "is written in the map form and decodes to an unequal object)", desc, exp_flag, bool(o.post_alonzo))
    if flag != bool(o.post_alonzo):
        ctx.count("custom-output:flag-set-by-constructor")
    if b is None:
        # an output the library refuses to serialize (negative amounts): the model must refuse as well
        ctx.count("custom-output:refused:" + refused)
        if have and "err" not in m:
            ctx.diff("custom.output.enc(refusal)", desc, "encoded", refused)
        ctx.skipped += 1
        return
    desc["hex"] = b.hex()
    form = "map" if b[0] >> 5 == 5 else "legacy"
    ctx.count(f"custom-output:{form}:datum={dmode}:script={smode}:flag={int(flag)}")
    if have:
        if "err" in m:
            ctx.diff("custom.output.enc(refusal)", desc, m["err"], "encoded")
            return
        if m["hex"] != b.hex():
            ctx.diff("custom.output.enc", desc, m["hex"], b.hex())
        if m["constructed"] != oj:
            ctx.diff("custom.output.constructor", desc, m["constructed"], oj)
        ctx.count("custom-output:" + ("in_theorem_scope" if m["inscope"] else "outside_theorem_scope"))
        if m["form"] != form:
            ctx.diff("custom.output.enc.form", desc, m["form"], form)
    # ---- the property on the implementation
    try:
        y = TransactionOutput.from_cbor(b)
        err = None
    except Exception as e:
        y, err = None, e
    if err is not None:
        ctx.violation(f"TransactionOutput: the encoded output cannot be decoded ({type(err).__name__}: {str(err)[:120]})",
                      desc, "an output", classify(err))
    else:
        try:
            b2 = y.to_cbor()
        except Exception:
            b2 = None
        if b2 != b:
            ctx.violation("TransactionOutput: re-encoding the decoded output gives different bytes", desc, b.hex(),
                          b2.hex() if b2 else None)
        if not V.is_normal_ma(oj["amount"]["ma"]):
            ctx.count("custom-output:amount-storing-zeros-or-empty-policies(judged: == is component-wise)")
        if not (y == o):
            fid = None
            if (o.datum_hash is not None and o.datum is not None and y.datum is None and y.address == o.address
                    and y.amount == o.amount and y.datum_hash == o.datum_hash and y.script == o.script
                    and y.post_alonzo == o.post_alonzo):
                # exactly the condition of theorem output_both_datums_drops_inline, and the dropped datum is the ONLY difference
                fid = KF_BOTH
            ctx.violation("TransactionOutput with datum_hash AND datum: the inline datum is not on the wire, "
                          "decode(encode(x)) != x" if fid else "TransactionOutput: decode(encode(o)) != o",
                          desc, oj, output_json(y), finding=fid)
        elif dmode == "both":
            ctx.violation("TransactionOutput with datum_hash AND datum round-trips: the recorded finding KF-C01-both-datums "
                          "no longer reproduces (model and code disagree)", desc, "datum dropped", output_json(y))
    # ---- correspondence with the model
    if have and err is None:
        k, md = ctx.driver().call({"op": "custom.output.dec", "hex": b.hex()})
        ctx.traces += 1
        if k != "ok" or "err" in md:
            ctx.diff("custom.output.dec", desc, md, "decoded")
        else:
            yj = output_json(y)
            for f in ("addr", "amount", "dh", "datum", "script", "pa"):
                if md["o"][f] != yj[f]:
                    ctx.diff("custom.output.dec." + f, desc, md["o"][f], yj[f])
                if m["decoded"][f] != yj[f]:         # the closed form of the theorem (`decodedOutput`)
                    ctx.diff("custom.output.decodedOutput." + f, desc, m["decoded"][f], yj[f])
            if md["reenc"] != y.to_cbor().hex():
                ctx.diff("custom.output.reenc", desc, md["reenc"], y.to_cbor().hex())
    elif have and err is not None:
        k, md = ctx.driver().call({"op": "custom.output.dec", "hex": b.hex()})
        if k == "ok" and "err" not in md:
            ctx.diff("custom.output.dec", desc, "decoded", classify(err))
    ctx.case(case)


def damage_output(rng, kind):
    addr = bytes([0x61]) + bytes(range(28))
    h32 = bytes(range(32))
    ma = R.Map([(V.POLICIES[0], R.Map([(b"a", 7)]))])
    inline = R.Tag(24, R.enc(42))
    sref = R.Tag(24, R.enc([1, b"\x01\x02"]))
    if kind == "legacy-good":
        return [addr, 5, h32]
    if kind == "legacy-1":
        return [addr]
    if kind == "legacy-0":
        return []
    if kind == "legacy-4":
        return [addr, [5, ma], h32, 9]
    if kind == "legacy-hash31":
        return [addr, 5, h32[:31]]
    if kind == "legacy-hash-null":
        return [addr, 5, None]
    if kind == "legacy-hash-int":
        return [addr, 5, 7]
    if kind == "legacy-amount-text":
        return [addr, "5"]
    if kind == "legacy-amount-ma-bad":
        return [addr, [5, R.Map([(b"\x01", R.Map([]))])]]
    if kind == "legacy-indef":
        return R.IndefList([addr, 5])
    if kind == "map-good":
        return R.Map([(0, addr), (1, [5, ma]), (2, [1, inline]), (3, sref)])
    if kind == "map-key4":
        return R.Map([(0, addr), (1, 5), (4, 0)])
    if kind == "map-key-text":
        return R.Map([(0, addr), (1, 5), ("2", 0)])
    if kind == "map-no-amount":
        return R.Map([(0, addr)])
    if kind == "map-no-address":
        return R.Map([(1, 5)])
    if kind == "map-order":
        return R.Map([(3, sref), (1, 5), (0, addr)])
    if kind == "map-datum-hash31":
        return R.Map([(0, addr), (1, 5), (2, [0, h32[:31]])])
    if kind == "map-datum-hash-int":
        return R.Map([(0, addr), (1, 5), (2, [0, 5])])
    if kind == "map-datum-kind2":
        return R.Map([(0, addr), (1, 5), (2, [2, inline])])
    if kind == "map-datum-untagged":
        return R.Map([(0, addr), (1, 5), (2, [1, R.enc(42)])])
    if kind == "map-datum-tag99":
        return R.Map([(0, addr), (1, 5), (2, [1, R.Tag(99, R.enc(42))])])
    if kind == "map-datum-short":
        return R.Map([(0, addr), (1, 5), (2, [1])])
    if kind == "map-datum-null":
        return R.Map([(0, addr), (1, 5), (2, None)])
    if kind == "map-datum-garbage":
        return R.Map([(0, addr), (1, 5), (2, [1, R.Tag(24, b"\x18")])])
    if kind == "map-script-v4":
        return R.Map([(0, addr), (1, 5), (3, R.Tag(24, R.enc([4, b"\x01"])))])
    if kind == "map-script-v0-bytes":
        return R.Map([(0, addr), (1, 5), (3, R.Tag(24, R.enc([0, [0, bytes(28)]])))])
    if kind == "map-script-untagged":
        return R.Map([(0, addr), (1, 5), (3, R.enc([1, b"\x01"]))])
    if kind == "map-script-text":
        return R.Map([(0, addr), (1, 5), (3, R.Tag(24, R.enc([1, "x"])))])
    if kind == "map-script-short":
        return R.Map([(0, addr), (1, 5), (3, R.Tag(24, R.enc([1])))])
    if kind == "map-script-null":
        return R.Map([(0, addr), (1, 5), (3, None)])
    if kind == "top-int":
        return 5
    if kind == "top-bytes":
        return b"\x00"
    return [addr, 5]


OUTPUT_DAMAGE = ["legacy-good", "legacy-1", "legacy-0", "legacy-4", "legacy-hash31", "legacy-hash-null", "legacy-hash-int",
                 "legacy-amount-text", "legacy-amount-ma-bad", "legacy-indef", "map-good", "map-key4", "map-key-text",
                 "map-no-amount", "map-no-address", "map-order", "map-datum-hash31", "map-datum-hash-int", "map-datum-kind2",
                 "map-datum-untagged", "map-datum-tag99", "map-datum-short", "map-datum-null", "map-datum-garbage",
                 "map-script-v4", "map-script-v0-bytes", "map-script-untagged", "map-script-text", "map-script-short",
                 "map-script-null", "top-int", "top-bytes"]


def check_output_malformed(ctx, case):
    from pycardano import TransactionOutput
    rng = random.Random(case["seed"])
    kind = case["damage"]
    mb = R.enc(damage_output(rng, kind))
    desc = {**case, "hex": mb.hex()}
    try:
        y = TransactionOutput.from_cbor(mb)
        impl = "ok"
    except DeserializeException:
        y, impl = None, "deser"
    except Exception:
        y, impl = None, "crash"
    ctx.count(f"custom-output-mal:{kind}:{impl}")
    if ctx.have_driver():
        k, m = ctx.driver().call({"op": "custom.output.dec", "hex": mb.hex()})
        ctx.traces += 1
        mod = "fail" if k != "ok" else m.get("err", "ok")
        if mod != impl:
            ctx.diff("custom.output.dec(malformed)", desc, mod, impl)
        elif impl == "ok":
            yj = output_json(y)
            for f in ("addr", "amount", "dh", "datum", "script", "pa"):
                if m["o"][f] != yj[f]:
                    ctx.diff("custom.output.dec(malformed)." + f, desc, m["o"][f], yj[f])
    ctx.case(case, nontrivial=False)


# ---------------------------------------------------------------------------------------------------- bodies
def set_kind(v):
    if v is None:
        return "none"
    if isinstance(v, OrderedSet):
        return "oset-tagged" if v._use_tag else "oset-untagged"
    if isinstance(v, list):
        return "list"
    return type(v).__name__


def as_set_field(rng, items, nonempty):
    """hand the elements over as a plain list, a tagged or an untagged ordered set"""
    mode = rng.choice(["list", "tagged", "untagged"])
    if mode == "list":
        return list(items)
    c = NonEmptyOrderedSet if nonempty else OrderedSet
    return c(list(items), use_tag=(mode == "tagged"))


def gen_body(rng, g):
    import pycardano as pc
    from pycardano import TransactionBody, TransactionInput
    from pycardano.hash import AuxiliaryDataHash, ScriptDataHash, TransactionId, VerificationKeyHash

    def inputs(n):
        tid = T.rb(rng, 32)
        return [TransactionInput(TransactionId(tid if rng.random() < 0.5 else T.rb(rng, 32)), i) for i in
                rng.sample([0, 1, 2, 23, 24, 255, 256, 65536], n)]

    def certs(n):
        # certificates restored by generic code (the coded part of the union) plus, sometimes, a pool registration
        names = ["StakeRegistration", "StakeDeregistration", "StakeDelegation", "StakeRegistrationConway", "VoteDelegation",
                 "UnregDRepCertificate", "PoolRetirement"]
        out = []
        for _ in range(n):
            out.append(g.obj(rng.choice(names), 2))
        return out

    kw = {"inputs": as_set_field(rng, inputs(rng.choice([0, 1, 2, 3])), False),
          "outputs": [gen_output(rng, g, allow_both=False)[0] for _ in range(rng.choice([0, 1, 2]))],
          "fee": rng.choice([0, 170000, 2**32, rng.randint(0, 10**7)])}
    opt = {
        "ttl": lambda: rng.choice([0, 1, 2**32, 10**8]),
        "certificates": lambda: as_set_field(rng, certs(rng.choice([1, 2, 3])), True),
        "withdraws": lambda: g.obj("Withdrawals", 2),
        "auxiliary_data_hash": lambda: AuxiliaryDataHash(T.rb(rng, 32)),
        "validity_start": lambda: rng.choice([0, 5, 2**40]),
        "mint": lambda: V.load_ma([[p, [[n, str(max(min(int(q), 2**63 - 1), -(2**63)))] for n, q in a]] for p, a in
                                   V.gen_ma_json(rng, npol=3, nname=3, negatives=True, zeros=True)]),
        "script_data_hash": lambda: ScriptDataHash(T.rb(rng, 32)),
        "collateral": lambda: as_set_field(rng, inputs(rng.choice([1, 2])), True),
        "required_signers": lambda: as_set_field(rng, [VerificationKeyHash(T.rb(rng, 28)) for _ in range(rng.choice([1, 2, 3]))], True),
        "network_id": lambda: rng.choice(list(pc.Network)),
        "collateral_return": lambda: gen_output(rng, g, allow_both=False)[0],
        "total_collateral": lambda: rng.choice([0, 5_000_000]),
        "reference_inputs": lambda: as_set_field(rng, inputs(rng.choice([1, 2, 3])), True),
        "voting_procedures": lambda: g.obj("VotingProcedures", 2),
        "proposal_procedures": lambda: NonEmptyOrderedSet([g.obj("ProposalProcedure", 2) for _ in range(rng.choice([1, 2]))],
                                                          use_tag=rng.random() < 0.5),
        "current_treasury_value": lambda: rng.choice([0, 1, 10**12]),
        "donation": lambda: rng.choice([1, 10**6]),
    }
    for name, mk in opt.items():
        if rng.random() < 0.4:
            kw[name] = mk()
    # outputs the library refuses (negative amounts) are replaced: this family is about the body
    outs = []
    for o in kw["outputs"]:
        try:
            o.to_cbor()
            outs.append(o)
        except Exception:
            pass
    kw["outputs"] = outs
    if "collateral_return" in kw:
        try:
            kw["collateral_return"].to_cbor()
        except Exception:
            del kw["collateral_return"]
    return TransactionBody(**kw), kw


def transcode_set_field(item, key, to_tagged):
    """the body primitive (cbor_ref model) with the set-valued field `key` in the other wire form, or None"""
    if not isinstance(item, R.Map):
        return None
    pairs = []
    changed = False
    for k, v in item.pairs:
        if k == key:
            if to_tagged and isinstance(v, list) and not isinstance(v, R.IndefList):
                v = R.Tag(258, v)
                changed = True
            elif not to_tagged and isinstance(v, R.Tag) and v.tag == 258:
                v = v.value
                changed = True
        pairs.append((k, v))
    return R.Map(pairs) if changed else None


def compare_decoded_body(ctx, op, desc, b, y, err):
    """model decode of body bytes `b` against the decoded implementation object `y`"""
    k, m = ctx.driver().call({"op": "codec.dec", "cls": "TransactionBody", "hex": b.hex()})
    ctx.traces += 1
    if k != "ok":
        ctx.diff(op, desc, m, "ok")
    elif "err" in m:
        if err is None:
            ctx.diff(op, desc, m, "decoded")
    elif err is not None:
        ctx.diff(op, desc, "decoded", classify(err))
    else:
        if not T.same_val(ctx.driver(), m["val"], T.to_val(y)):
            ctx.diff(op, desc, m["val"], T.to_val(y))
        if m["reenc"] != y.to_cbor().hex():
            ctx.diff(op + ".reenc", desc, m["reenc"], y.to_cbor().hex())


def check_body(ctx, case):
    from pycardano import TransactionBody
    rng = random.Random(case["seed"])
    g = T.Gen(rng, {})
    try:
        x, kw = gen_body(rng, g)
    except Exception as e:
        ctx.count("custom-body:ungeneratable:" + type(e).__name__)
        return
    # the constructor stores what it is given (this tree has no TransactionBody.__post_init__; the model's constructor is
    # the identity): a wrapper that appears here is a change of the modelled behaviour
    for f in SET_FIELDS:
        if f in kw and set_kind(getattr(x, f)) != set_kind(kw[f]):
            ctx.diff("custom.body.constructor", {**case, "field": f}, set_kind(kw[f]), set_kind(getattr(x, f)))
    try:
        b = x.to_cbor()
    except Exception as e:
        ctx.count("custom-body:unserializable:" + type(e).__name__)
        ctx.extra.setdefault("custom_body_unserializable", {})[type(e).__name__] = str(e)[:160]
        ctx.skipped += 1
        return
    desc = {**case, "hex": b.hex()}
    mask = "".join("1" if f in kw else "0" for f in SET_FIELDS)
    ctx.count("custom-body:set-fields-present:" + mask)
    try:
        y = TransactionBody.from_cbor(b)
        err = None
    except Exception as e:
        y, err = None, e
    if err is not None:
        ctx.violation(f"TransactionBody: the encoded body cannot be decoded ({type(err).__name__}: {str(err)[:120]})", desc,
                      "a body", classify(err))
    else:
        for f in SET_FIELDS:
            if f in kw:
                ctx.count(f"custom-body:{f}:{set_kind(kw[f])}->{set_kind(getattr(y, f))}")
        try:
            b2 = y.to_cbor()
        except Exception:
            b2 = None
        if b2 != b:
            ctx.violation("TransactionBody: re-encoding the decoded body gives different bytes", desc, b.hex(),
                          b2.hex() if b2 else None)
        try:
            eq = (y == x)
        except Exception:
            eq = False
        if not eq:
            ctx.violation("TransactionBody: decode(encode(x)) != x", desc, repr(x)[:400], repr(y)[:400])
    if ctx.have_driver():
        d = ctx.driver()
        v = T.to_val(x)
        k, m = d.call({"op": "custom.body.postinit", "cls": "TransactionBody", "v": v})
        ctx.traces += 1
        if k != "ok":
            ctx.diff("custom.body.postinit", desc, m, "ok")
        else:
            if m["enc"] != b.hex():
                ctx.diff("custom.body.enc", desc, m["enc"], b.hex())
            ctx.count("custom-body:" + ("in_theorem_scope" if m["typed"] else "outside_theorem_scope"))
            if err is None:
                # the normal form computed by the model = what the implementation's decoder constructed
                if not T.same_val(d, m["norm"], T.to_val(y)):
                    ctx.diff("custom.body.norm", desc, m["norm"], T.to_val(y))
                if "err" in m["dec"]:
                    ctx.diff("custom.body.dec", desc, m["dec"], "decoded")
                else:
                    if not T.same_val(d, m["dec"]["val"], T.to_val(y)):
                        ctx.diff("custom.body.dec", desc, m["dec"]["val"], T.to_val(y))
                    if m["dec"]["reenc"] != b.hex():
                        ctx.diff("custom.body.dec.reenc", desc, m["dec"]["reenc"], b.hex())
                    if m["typed"] and not T.same_val(d, m["dec"]["val"], m["norm"]):
                        # theorem body_roundtrip_normalised, evaluated
                        ctx.diff("custom.body.theorem", desc, m["dec"]["val"], m["norm"])
            elif "err" not in m["dec"]:
                ctx.diff("custom.body.dec", desc, "decoded", classify(err))
        # ---- each set-valued field in the OTHER wire form: decode, compare with the model, re-encode
        try:
            item = R.dec(b)
        except Exception:
            item = None
        keys = {"inputs": 0, "certificates": 4, "collateral": 13, "required_signers": 14, "reference_inputs": 18,
                "proposal_procedures": 20}
        for f, key in keys.items():
            if f not in kw or item is None:
                continue
            to_tagged = not (isinstance(kw[f], OrderedSet) and kw[f]._use_tag)
            t = transcode_set_field(item, key, to_tagged)
            if t is None:
                continue
            tb = R.enc(t)
            tdesc = {**case, "field": f, "wire": "tagged" if to_tagged else "untagged", "hex": tb.hex()}
            try:
                ty = TransactionBody.from_cbor(tb)
                terr = None
            except Exception as e:
                ty, terr = None, e
            ctx.count(f"custom-body:transcoded:{f}:{'tagged' if to_tagged else 'untagged'}:{'ok' if terr is None else classify(terr)}")
            if terr is not None:
                ctx.violation(f"TransactionBody: field {f} in its {'tagged' if to_tagged else 'untagged'} wire form cannot be "
                              f"decoded ({type(terr).__name__}: {str(terr)[:100]})", tdesc, "a body", classify(terr))
            else:
                try:
                    tb2 = ty.to_cbor()
                except Exception:
                    tb2 = None
                if tb2 != tb:
                    ctx.violation(f"TransactionBody: field {f} received {'tagged' if to_tagged else 'untagged'} is re-encoded "
                                  "differently (the body bytes and the transaction id change)", tdesc, tb.hex(),
                                  tb2.hex() if tb2 else None)
            compare_decoded_body(ctx, "custom.body.wire", tdesc, tb, ty, terr)
    ctx.case(case)


# ---------------------------------------------------------------------------------------------------- entry points
def dispatch_custom(ctx, case):
    k = case["kind"]
    if k == "custom-value":
        check_value(ctx, case)
    elif k == "custom-value-mal":
        check_value_malformed(ctx, case)
    elif k == "custom-output":
        check_output(ctx, case)
    elif k == "custom-output-mal":
        check_output_malformed(ctx, case)
    elif k == "custom-body":
        check_body(ctx, case)
    else:
        raise ValueError(k)


def run_custom(ctx):
    ctx.assumptions.append("custom codecs (Value / TransactionOutput / TransactionBody set fields): address, inline datum and "
                           "native script are leaves of the output model (their own codecs are C15 / C18 / the generic "
                           "generator); an output with datum_hash AND inline datum is the recorded finding KF-C01-both-datums "
                           "(bodies are generated without such outputs)")
    n = ctx.budget(600, 15000)
    for i in range(n):
        dispatch_custom(ctx, {"kind": "custom-value", "seed": f"{ctx.seed}/cv{i}"})
    for i in range(n):
        dispatch_custom(ctx, {"kind": "custom-output", "seed": f"{ctx.seed}/co{i}"})
    for i in range(n):
        dispatch_custom(ctx, {"kind": "custom-body", "seed": f"{ctx.seed}/cb{i}"})
    for i, kind in enumerate(VALUE_DAMAGE):
        dispatch_custom(ctx, {"kind": "custom-value-mal", "seed": f"{ctx.seed}/cvm{i}", "damage": kind})
    for i, kind in enumerate(OUTPUT_DAMAGE):
        dispatch_custom(ctx, {"kind": "custom-output-mal", "seed": f"{ctx.seed}/com{i}", "damage": kind})


def replay_custom(ctx, case):
    c = {k: v for k, v in case.items() if k in ("kind", "seed", "damage")}
    dispatch_custom(ctx, c)
