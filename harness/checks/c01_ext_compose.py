"""C01 extension `compose` — the table-driven codec COMPOSED with the leaf codecs (Props/C01_Compose.lean).

`cmp.dec {cls, hex}` runs `fromPrimL repoSchema realLeaves`: the generic ladder of `_restore_typed_primitive` in which a
class with its own codec (and the `object_hook` of `TransactionBody.outputs`) is restored by the Lean model OF THAT LEAF,
so that a leaf's refusal — `DeserializeException` (a `Union` goes on) or any other exception (the decode aborts) — shapes
the answer of the whole, as in Python.  For EVERY top-level class whose reachable leaves are all modelled (`cmp.leaves`):

(i)  encodings of generated objects (the type-directed generator of vlib/typegen.py): `Cls.from_cbor` and the composed
     model both accept, and re-encode to the same bytes;
(ii) encodings damaged INSIDE a leaf (found by a type-directed walk of the item along the extracted table: credential of
     the wrong length / kind code, Byron or truncated address, relay code 3, redeemer tag 6, native-script code 6, policy
     id of 27 bytes, vote 3, hard-fork major 0, …, plus random damage within the leaf's subtree): the error class
     `ok | deser | crash` of `Cls.from_cbor` is the composed model's.  The leaf-blind model (`codec.dec`) answers `ok` on
     most of them: `decided-by-leaf:<Cls>` counts the cases the leaf decided.

A damaged leaf that the implementation ACCEPTS although the damage makes the item invalid by construction (`SURELY_BAD`)
is a violation judged without the model; a refusal class that differs from the composed model's is reported as a
violation with the model as the oracle (the class decides which `Union` alternative is tried next)."""
from __future__ import annotations

import copy
import random

from pycardano.exception import DeserializeException

from ref import cbor_ref as R
from vlib import typegen as T

EXT = "compose"
CRED = ("StakeCredential", "DRepCredential", "CommitteeColdCredential")
NS = ("NativeScript", "ScriptPubkey", "ScriptAll", "ScriptAny", "ScriptNofK", "InvalidBefore", "InvalidHereAfter")
# damages after which the item is not a valid encoding of the leaf whatever else happens: accepting it is a defect
SURELY_BAD = {"hash-27", "hash-29", "cred-code", "addr-byron", "addr-short", "addr-empty", "ns-code-6", "ns-keyhash-27",
              "relay-code-3", "operator-27", "redeemer-tag-6", "policy-27", "name-33", "vote-3", "txid-31", "major-0",
              "network-2", "drep-code-4", "voter-code-5"}


def classify(f):
    try:
        return "ok", f()
    except DeserializeException:
        return "deser", None
    except Exception:
        return "crash", None


def is_leaf(name):
    d = T.SCH.get(name)
    if d is None:
        return True
    return bool({"from_primitive", "__post_init__"} & set(d["overrides"])) or d["kind"] in ("custom", "oset")


def closed_classes(ctx):
    """top-level classes all of whose reachable leaves are modelled in `realLeaves` (asked from the model itself)"""
    key = "_cmp_closed"
    if key not in ctx.extra:
        out, open_ = [], {}
        for name in T.top_level_classes():
            k, m = ctx.driver().call({"op": "cmp.leaves", "cls": name})
            if k == "ok" and m == []:
                out.append(name)
            elif k == "ok":
                open_[name] = m
        ctx.extra[key] = out
        ctx.extra["compose_classes_closed"] = len(out)
        ctx.extra["compose_classes_with_unmodelled_leaves"] = {k: v for k, v in sorted(open_.items())}
    return ctx.extra[key]


# ---- type-directed walk of a decoded item: where do the leaves sit? ---------------------------------------------------
def _matches(t, item):
    k = t[0]
    if k == "none":
        return item is None
    if k == "int":
        return isinstance(item, int) and not isinstance(item, bool)
    if k == "bool":
        return isinstance(item, bool)
    if k == "bytes":
        return isinstance(item, bytes)
    if k == "text":
        return isinstance(item, str)
    if k == "list":
        return isinstance(item, list)
    if k == "oset":
        return isinstance(item, R.Tag) and item.tag == 258 or isinstance(item, list)
    if k == "cls":
        d = T.SCH.get(t[1])
        if d is None:
            return False
        if d["kind"] == "coded" or (t[1] == "PoolRegistration"):
            code = 3 if t[1] == "PoolRegistration" else d["code"]
            return isinstance(item, list) and bool(item) and item[0] == code
        if d["kind"] == "map" or d["kind"] == "dict":
            return isinstance(item, R.Map)
        if d["kind"] == "cbytes":
            return isinstance(item, bytes)
        if d["kind"] == "enum":
            return isinstance(item, int)
        return True
    return True


def walk_ty(t, item, path, out):
    k = t[0]
    if k == "cls":
        walk_cls(t[1], item, path, out)
    elif k in ("list", "oset"):
        if isinstance(item, R.Tag):
            item, path = item.value, path + ["t"]
        if isinstance(item, list):
            for i, x in enumerate(item):
                walk_ty(t[1], x, path + [i], out)
    elif k == "union":
        for a in t[1]:
            if _matches(a, item):
                walk_ty(a, item, path, out)
                return
    elif k == "tuple":
        if isinstance(item, list):
            for i, (a, x) in enumerate(zip(t[1], item)):
                walk_ty(a, x, path + [i], out)


def walk_cls(name, item, path, out):
    d = T.SCH.get(name)
    if d is None:
        return
    if is_leaf(name):
        out.append((path, name))
        return
    kind = d["kind"]
    if kind in ("array", "coded") and isinstance(item, list):
        fields = [f for f in d["fields"] if f["init"]] if kind == "coded" else list(d["fields"])
        off = 1 if kind == "coded" else 0
        for i, f in enumerate(fields):
            if off + i < len(item):
                _field(name, f, item[off + i], path + [off + i], out)
    elif kind == "map" and isinstance(item, R.Map):
        for i, (k, v) in enumerate(item.pairs):
            for f in d["fields"]:
                if f["key"] == k:
                    _field(name, f, v, path + [("v", i)], out)
    elif kind == "dict" and isinstance(item, R.Map):
        for i, (k, v) in enumerate(item.pairs):
            walk_ty(d["key_type"], k, path + [("k", i)], out)
            walk_ty(d["value_type"], v, path + [("v", i)], out)


def _field(cname, f, item, path, out):
    if f["hook"]:
        # `list_hook(TransactionOutput)` of TransactionBody.outputs: each element is an output leaf
        if cname == "TransactionBody" and f["name"] == "outputs" and isinstance(item, list):
            for i, x in enumerate(item):
                out.append((path + [i], "TransactionOutput"))
        return
    walk_ty(f["type"], item, path, out)


def get_at(item, path):
    for p in path:
        if p == "t":
            item = item.value
        elif isinstance(p, tuple):
            item = item.pairs[p[1]][0 if p[0] == "k" else 1]
        else:
            item = item[p]
    return item


def set_at(item, path, new):
    if not path:
        return new
    parent = get_at(item, path[:-1])
    p = path[-1]
    if p == "t":
        parent.value = new
    elif isinstance(p, tuple):
        k, v = parent.pairs[p[1]]
        parent.pairs[p[1]] = (new, v) if p[0] == "k" else (k, new)
    else:
        parent[p] = new
    return item


# ---- damages inside a leaf -----------------------------------------------------------------------------------------------
def _all_paths(x, path, out):
    out.append(path)
    if isinstance(x, list):
        for i, y in enumerate(x):
            _all_paths(y, path + [i], out)
    elif isinstance(x, R.Map):
        for i, (k, v) in enumerate(x.pairs):
            _all_paths(k, path + [("k", i)], out)
            _all_paths(v, path + [("v", i)], out)
    elif isinstance(x, R.Tag) and x.tag != 24:
        # (the bytes under tag 24 are CBOR in CBOR: `cbor2.loads` of the inner bytes ignores trailing bytes, which the leaf
        # models of Model/CustomCodec.lean do not reproduce — not damaged here)
        _all_paths(x.value, path + ["t"], out)


def generic_damage(sub, rng):
    """one random structural change somewhere inside the leaf's subtree (kept within the CBOR kinds cbor2 maps to hashable /
    ordinary Python values: no floats, no maps as keys)"""
    paths = []
    _all_paths(sub, [], paths)
    paths = [p for p in paths if not (p and isinstance(p[-1], tuple) and p[-1][0] == "k")] or [[]]
    p = rng.choice(paths)
    x = get_at(sub, p)
    if isinstance(x, bool) or x is None:
        new, what = 0, "g:null-to-int"
    elif isinstance(x, int):
        new = rng.choice([x + 1, x + 5, 6, 100, -1])
        what = "g:int"
    elif isinstance(x, bytes):
        c = rng.choice(["short", "long", "empty", "int"])
        new = {"short": x[:-1], "long": x + b"\x00", "empty": b"", "int": 7}[c]
        what = "g:bytes-" + c
    elif isinstance(x, str):
        new, what = b"\x01", "g:text-to-bytes"
    elif isinstance(x, list):
        c = rng.choice(["drop", "extra", "empty", "int"])
        new = {"drop": x[:-1], "extra": x + [0], "empty": [], "int": 3}[c]
        what = "g:list-" + c
    elif isinstance(x, R.Map):
        c = rng.choice(["drop", "list"])
        new = R.Map(x.pairs[:-1]) if c == "drop" else [v for _, v in x.pairs]
        what = "g:map-" + c
    elif isinstance(x, R.Tag):
        c = rng.choice(["untag", "retag"])
        # a tag number without decoder semantics in cbor2 (25 / 260 / 1004 … would be interpreted by the CBOR layer itself)
        new = x.value if c == "untag" else R.Tag(x.tag + 1000 if x.tag != 4 else 999, x.value)
        what = "g:tag-" + c
    else:
        return None, None
    if new == x:
        return None, None
    return set_at(sub, p, new), what


def _addr_damage(b, rng):
    c = rng.choice(["addr-byron", "addr-short", "addr-empty", "addr-int", "addr-long"])
    if not isinstance(b, bytes) or not b:
        return None, None
    return {"addr-byron": bytes([0x80 | (b[0] & 0x0F)]) + b[1:], "addr-short": b[:-1], "addr-empty": b"", "addr-int": 5,
            "addr-long": b + b"\x00"}[c], c


def targeted_damage(leaf, sub, rng):
    """a damage that names the part of the leaf it breaks; None when the shape at hand offers none"""
    if leaf in CRED + ("DRep", "Voter") and isinstance(sub, list) and len(sub) == 2 and isinstance(sub[1], bytes):
        c = rng.choice(["hash-27", "hash-29", "cred-code", "drop-hash", "hash-int"])
        if c == "hash-27":
            return [sub[0], sub[1][:-1]], c
        if c == "hash-29":
            return [sub[0], sub[1] + b"\x00"], c
        if c == "cred-code":
            if leaf == "DRep":
                return [4, sub[1]], "drep-code-4"
            if leaf == "Voter":
                return [5, sub[1]], "voter-code-5"
            return [rng.choice([2, 5, 9]), sub[1]], c
        if c == "drop-hash":
            return [sub[0]], c
        return [sub[0], 7], c
    if leaf == "Address":
        return _addr_damage(sub, rng)
    if leaf == "TransactionOutput":
        if isinstance(sub, list) and len(sub) >= 2:
            c = rng.choice(["addr", "amount"])
            if c == "addr":
                nb, w = _addr_damage(sub[0], rng)
                return (None, None) if w is None else ([nb] + sub[1:], w)
            nv, w = targeted_damage("Value", sub[1], rng)
            return (None, None) if w is None else ([sub[0], nv] + sub[2:], w)
        if isinstance(sub, R.Map):
            for i, (k, v) in enumerate(sub.pairs):
                if k == 0 and rng.random() < 0.5:
                    nb, w = _addr_damage(v, rng)
                    if w is None:
                        return None, None
                    ps = list(sub.pairs)
                    ps[i] = (k, nb)
                    return R.Map(ps), w
                if k == 1:
                    nv, w = targeted_damage("Value", v, rng)
                    if w is None:
                        return None, None
                    ps = list(sub.pairs)
                    ps[i] = (k, nv)
                    return R.Map(ps), w
        return None, None
    if leaf == "Value":
        if isinstance(sub, int):
            return rng.choice([b"\x01", "t"]), "coin-kind"
        if isinstance(sub, list) and len(sub) == 2 and isinstance(sub[1], R.Map) and sub[1].pairs:
            nm, w = targeted_damage("MultiAsset", sub[1], rng)
            return (None, None) if w is None else ([sub[0], nm], w)
        return None, None
    if leaf == "MultiAsset" and isinstance(sub, R.Map) and sub.pairs:
        (p, a) = sub.pairs[0]
        c = rng.choice(["policy-27", "name-33", "qty-text"])
        if c == "policy-27" and isinstance(p, bytes):
            return R.Map([(p[:-1], a)] + sub.pairs[1:]), c
        if isinstance(a, R.Map) and a.pairs:
            n, q = a.pairs[0]
            if c == "name-33":
                return R.Map([(p, R.Map([(b"\x07" * 33, q)] + a.pairs[1:]))] + sub.pairs[1:]), c
            if c == "qty-text":
                return R.Map([(p, R.Map([(n, "t")] + a.pairs[1:]))] + sub.pairs[1:]), c
        return None, None
    if leaf in NS and isinstance(sub, list) and sub:
        c = rng.choice(["ns-code-6", "ns-keyhash-27", "ns-drop"])
        if c == "ns-code-6":
            return [6] + sub[1:], c
        if c == "ns-keyhash-27" and sub[0] == 0 and len(sub) == 2 and isinstance(sub[1], bytes):
            return [0, sub[1][:-1]], c
        if c == "ns-drop":
            return [sub[0]], c
        return None, None
    if leaf == "PoolRegistration" and isinstance(sub, list) and len(sub) >= 8:
        c = rng.choice(["relay-code-3", "operator-27", "margin-untag"])
        if c == "relay-code-3" and len(sub) > 8 and isinstance(sub[8], list) and sub[8] and isinstance(sub[8][0], list):
            r = list(sub[8])
            r[0] = [3] + list(r[0][1:])
            return sub[:8] + [r] + sub[9:], c
        if c == "operator-27" and isinstance(sub[1], bytes):
            return [sub[0], sub[1][:-1]] + sub[2:], c
        if c == "margin-untag" and isinstance(sub[5], R.Tag):
            return sub[:5] + [sub[5].value] + sub[6:], c
        return None, None
    if leaf == "TransactionWitnessSet" and isinstance(sub, R.Map):
        for i, (k, v) in enumerate(sub.pairs):
            body = v.value if isinstance(v, R.Tag) else v
            if k == 5 and isinstance(body, list) and body and isinstance(body[0], list) and len(body[0]) == 4:
                nb = [[6] + body[0][1:]] + body[1:]
                ps = list(sub.pairs)
                ps[i] = (k, nb)
                return R.Map(ps), "redeemer-tag-6"
            if k == 1 and isinstance(body, list) and body and isinstance(body[0], list):
                nb = [[6] + body[0][1:]] + body[1:]
                ps = list(sub.pairs)
                ps[i] = (k, R.Tag(258, nb) if isinstance(v, R.Tag) else nb)
                return R.Map(ps), "ns-code-6"
        return None, None
    if leaf == "Redeemer" and isinstance(sub, list) and len(sub) == 4:
        return [6] + sub[1:], "redeemer-tag-6"
    if leaf == "GovActionId" and isinstance(sub, list) and len(sub) == 2 and isinstance(sub[0], bytes):
        c = rng.choice(["txid-31", "idx-text"])
        return ([sub[0][:-1], sub[1]], c) if c == "txid-31" else ([sub[0], "t"], c)
    if leaf == "VotingProcedure" and isinstance(sub, list) and sub:
        return [3] + sub[1:], "vote-3"
    if leaf == "HardForkInitiationAction" and isinstance(sub, list) and len(sub) == 3 and isinstance(sub[2], list):
        return [sub[0], sub[1], [0] + sub[2][1:]], "major-0"
    if leaf == "Network" and isinstance(sub, int):
        return 2, "network-2"
    return None, None


# ---- the two streams ---------------------------------------------------------------------------------------------------------
def model_dec(ctx, name, hexs):
    ctx.traces += 1
    k, m = ctx.driver().call({"op": "cmp.dec", "cls": name, "hex": hexs})
    if k != "ok":
        return "fail", {"msg": m}
    return m.get("err", "ok"), m


def check_object(ctx, case):
    """(i) a generated object: both sides accept its encoding and re-encode it alike"""
    g = T.Gen(random.Random(case["seed"]), {})
    name = case["cls"]
    try:
        x = g.obj(name, case["depth"])
        b = x.to_cbor()
    except Exception:
        ctx.skipped += 1
        return
    cls = type(x)
    ic, y = classify(lambda: cls.from_cbor(b))
    desc = {**case, "hex": b.hex()}
    rb = None
    if ic == "ok":
        try:
            rb = y.to_cbor().hex()
        except Exception:
            rb = None
    else:
        ctx.violation(f"{name}: the encoded object cannot be decoded with the same type", desc, "decodes", ic)
    if ctx.have_driver():
        mc, m = model_dec(ctx, name, b.hex())
        if mc != ic:
            ctx.diff("cmp.dec", desc, mc, ic)
        elif ic == "ok" and m["reenc"] != rb:
            if m["reenc"] == b.hex():
                # the composed model restores the object and writes it back byte for byte; the implementation does not
                ctx.violation(f"{name}: re-encoding the decoded object gives different bytes (the composed model reproduces them)",
                              desc, b.hex(), rb)
            else:
                ctx.diff("cmp.dec.reenc", desc, m["reenc"], rb)
    ctx.count("cmp-object:" + name)
    ctx.case(case)


def check_damaged(ctx, case):
    """(ii) one damage inside one leaf of a generated object's encoding"""
    g = T.Gen(random.Random(case["seed"]), {})
    name = case["cls"]
    try:
        x = g.obj(name, case["depth"])
        b = x.to_cbor()
        item = R.dec(b)
    except Exception:
        ctx.skipped += 1
        return
    sites = []
    walk_cls(name, item, [], sites)
    if not sites:
        ctx.count("cmp-damaged:no-leaf-site")
        return
    rng = random.Random(case["seed"] + "/d")
    path, leaf = rng.choice(sites)
    sub = copy.deepcopy(get_at(item, path))
    new, what = (None, None)
    if rng.random() < 0.7:
        new, what = targeted_damage(leaf, sub, rng)
    if what is None:
        new, what = generic_damage(copy.deepcopy(sub), rng)
    if what is None:
        ctx.count("cmp-damaged:no-damage")
        return
    try:
        mb = R.enc(set_at(item, path, new))
    except Exception:
        return
    cls = type(x)
    ic, y = classify(lambda: cls.from_cbor(mb))
    desc = {**case, "leaf": leaf, "damage": what, "hex": mb.hex()}
    ctx.count(f"cmp-damaged:{leaf}:{what}:{ic}")
    if ic == "ok" and what in SURELY_BAD:
        ctx.violation(f"{name}: an encoding whose {leaf} is damaged ({what}) is accepted", desc, "refused", "accepted")
    if ctx.have_driver():
        mc, m = model_dec(ctx, name, mb.hex())
        if mc == "fail":
            ctx.diff("cmp.dec(damaged)", desc, m, ic)
        elif mc != ic:
            ctx.violation(f"{name}: decoding an encoding whose {leaf} is damaged ({what}) ends in `{ic}` where ordered Union "
                          f"dispatch over the leaf's own refusal prescribes `{mc}` (composed model)", desc, mc, ic)
        if mc != "ok" and m.get("old") == "ok":
            ctx.count("decided-by-leaf:" + name)
        elif mc != "ok" and m.get("old") != mc:
            ctx.count("class-changed-by-leaf:" + name)
    ctx.case(case, nontrivial=(ic != "ok"))


def dispatch(ctx, case):
    if case.get("stream") == "damaged":
        check_damaged(ctx, case)
    else:
        check_object(ctx, case)


def run_ext(ctx):
    if not ctx.have_driver():
        return
    classes = closed_classes(ctx)
    if not classes:
        return
    rng = ctx.rng
    deep = ("Transaction", "TransactionBody", "ProposalProcedure", "TransactionWitnessSet", "UTxO")
    for i in range(ctx.budget(700, 9000)):
        name = classes[i % len(classes)]
        dispatch(ctx, {"ext": EXT, "stream": "object", "cls": name, "seed": f"{ctx.seed}/cmp{i}",
                       "depth": rng.choice([2, 3, 4]) if name in deep else rng.choice([1, 2, 3])})
    # the damaged stream favours the containers (that is where composition happens)
    weighted = classes + [c for c in classes if c in deep or T.SCH[c]["kind"] == "coded"] * 2
    for i in range(ctx.budget(1800, 24000)):
        name = rng.choice(weighted)
        dispatch(ctx, {"ext": EXT, "stream": "damaged", "cls": name, "seed": f"{ctx.seed}/cmpd{i}",
                       "depth": rng.choice([2, 3, 4]) if name in deep else rng.choice([1, 2, 3])})
    ctx.extra.pop("_cmp_closed", None)


def replay_ext(ctx, case):
    c = {k: v for k, v in case.items() if k not in ("hex", "leaf", "damage")}
    dispatch(ctx, c)
