"""C10 — witnesses authorise exactly this transaction.

Scenario stream (kind "tx"): a builder scenario (vlib/scenario.py grammar plus a few C10 ops registered below) is built
and signed; the property is evaluated on the *bytes* of the returned transaction with independent means:
  * body byte slice of `tx.to_cbor()` (ref/ledger_ref.tx_parts) -> blake2b-256 -> every vkey witness verified with the
    pure-Python RFC 8032 verifier (ref/ed25519_ref.py); witness keys must be 32 bytes;
  * the set of required key hashes is recomputed from the body / witness-set bytes and the scenario's UTxO table
    (inputs, collateral, required signers, native scripts — in builder.native_scripts, attached to an input / mint /
    withdrawal / certificate, shipped in the witness set or read from a reference UTxO —, the key credential of every
    certificate kind and pool owners, withdrawals, voters) with key hashes derived from the labels by ed25519_ref +
    hashlib — nothing from builder internals;
  * coverage (every supplied key whose hash is required has a witness), minimality unless forced, forced => all sign;
  * placeholder witnesses: `_witness_count()` / `_build_fake_vkey_witnesses()` after build, and the count actually used
    by the last fee estimate (a spy on the builder instance), against the number of distinct required hashes; the
    serialized placeholder witnesses must be pairwise distinct.
Correspondence: the Lean model (`witness.plan`, `witness.fake`) is run on the builder's state after `build`; its required
key hashes / witness count / signing keys / placeholder witnesses must equal the implementation's.

Key stream (kind "sign"): ordinary and BIP32-extended keys sign random messages; signatures are verified with the
independent verifier and re-derived with the independent RFC 8032 signer (Ed25519 is deterministic)."""
from __future__ import annotations

import hashlib
import logging

from pycardano import (InvalidBefore, InvalidHereAfter, NativeScript, ScriptAll, ScriptAny, ScriptNofK, ScriptPubkey,
                       VerificationKeyHash, script_hash)
from pycardano.certificate import AuthCommitteeHotCertificate, PoolRegistration, ResignCommitteeColdCertificate
from pycardano.governance import GovActionId, Vote, Voter, VoterType
from pycardano.hash import PoolKeyHash, RewardAccountHash, TransactionId, VrfKeyHash
from pycardano.key import ExtendedSigningKey, SigningKey

from ref import cbor_ref as R
from ref import ed25519_ref as E
from ref import ledger_ref as LR
from vlib import scenario as S

logging.getLogger("PyCardano").setLevel(logging.ERROR)   # build_and_sign warns about every key it leaves out


# ---- independent key material --------------------------------------------------------------------------------------
_pub = {}


def base_label(label):
    return label.rstrip("~")


def pub32(label) -> bytes:
    """32-byte public key of a key label, computed with ref/ed25519_ref.py (ordinary: RFC 8032 5.1.5 from the seed;
    extended: [kL]B from the first 32 bytes of the payload)"""
    b = base_label(label)
    if b not in _pub:
        if b.startswith("x"):
            _pub[b] = E.public_from_scalar(int.from_bytes(S.skey(b).payload[:32], "little"))
        else:
            _pub[b] = E.public_from_scalar(E.secret_expand(S.H("key/" + b))[0])
    return _pub[b]


def khash(label) -> bytes:
    return hashlib.blake2b(pub32(label), digest_size=28).digest()


def sign_key(label):
    """'k0~' is the secret of 'k0' wrapped in the generic SigningKey class (another key_type): Key.__eq__ tells them apart"""
    if label.endswith("~") and label not in S._key_cache:
        k = S.skey(base_label(label))
        S._key_cache[label] = (ExtendedSigningKey if isinstance(k, ExtendedSigningKey) else SigningKey)(k.payload)
    return S.skey(label)


# ---- C10 ops on top of the scenario grammar ------------------------------------------------------------------------
def time_script(spec):
    """scenario.native_script grammar + ['before', slot] / ['after', slot]"""
    k = spec[0]
    if k == "pk":
        return ScriptPubkey(S.vkh(spec[1]))
    if k == "all":
        return ScriptAll([time_script(s) for s in spec[1]])
    if k == "any":
        return ScriptAny([time_script(s) for s in spec[1]])
    if k == "nofk":
        return ScriptNofK(spec[1], [time_script(s) for s in spec[2]])
    if k == "before":
        return InvalidBefore(spec[1])
    if k == "after":
        return InvalidHereAfter(spec[1])
    raise ValueError(k)


def op_native(b, cx, o, run, idx):
    if b.native_scripts is None:
        b.native_scripts = []
    b.native_scripts.append(time_script(o["script"]))


def op_committee(b, cx, o, run, idx):
    if b.certificates is None:
        b.certificates = []
    cold = S.cred(o["cred"])
    if o["kind"] == "auth_hot":
        b.certificates.append(AuthCommitteeHotCertificate(cold, S.cred(o.get("hot", "k7"))))
    else:
        b.certificates.append(ResignCommitteeColdCertificate(cold, None))


def op_pool_reg(b, cx, o, run, idx):
    from fractions import Fraction

    from pycardano.pool_params import PoolParams
    if b.certificates is None:
        b.certificates = []
    op = bytes(S.vkh(o["cred"]).payload)
    pp = PoolParams(operator=PoolKeyHash(op), vrf_keyhash=VrfKeyHash(S.H("vrf", 32)), pledge=100, cost=340000000,
                    margin=Fraction(1, 10), reward_account=RewardAccountHash(b"\xe0" + op),
                    pool_owners=[S.vkh(l) for l in o["owners"]], relays=None, pool_metadata=None)
    b.certificates.append(PoolRegistration(pp))


def op_vote_script(b, cx, o, run, idx):
    t = {"drep": VoterType.DREP, "cc": VoterType.COMMITTEE_HOT}[o.get("type", "drep")]
    b.add_vote(Voter(script_hash(S.native_script(o["script"])), t),
               GovActionId(TransactionId(S.H("gov/" + str(o.get("n", 0)), 32)), 0), Vote.NO)


def op_spy(b, cx, o, run, idx):
    """records the size of every placeholder witness set the builder makes (the last one during `build` is the one
    the final fee estimate used)"""
    orig = b._build_fake_vkey_witnesses
    run.c10_fake = []

    def spy():
        w = orig()
        run.c10_fake.append(len(w))
        return w
    b._build_fake_vkey_witnesses = spy


S.EXTRA_OPS.update({"c10_native_script": op_native, "c10_committee": op_committee, "c10_pool_reg": op_pool_reg,
                    "c10_vote_script": op_vote_script, "c10_spy": op_spy})


# ---- the independent oracle: required key hashes read off the transaction bytes ------------------------------------------
KEY_CERT_CRED = {0, 1, 2, 7, 8, 9, 10, 11, 12, 13, 14, 15, 16, 17, 18}   # cert[1] is a credential [0|1, hash]


def script_leaves_bytes(x, depth=0):
    """pubkey leaves of a native script decoded from CBOR: [0,h] | [1,[..]] | [2,[..]] | [3,n,[..]] | [4,s] | [5,s]"""
    t = x[0]
    if t == 0:
        return [(bytes(x[1]), depth)]
    if t in (1, 2):
        return [l for s in x[1] for l in script_leaves_bytes(s, depth + 1)]
    if t == 3:
        return [l for s in x[2] for l in script_leaves_bytes(s, depth + 1)]
    return []


def spec_leaves(spec):
    k = spec[0]
    if k == "pk":
        return [spec[1]]
    if k in ("all", "any"):
        return [l for s in spec[1] for l in spec_leaves(s)]
    if k == "nofk":
        return [l for s in spec[2] for l in spec_leaves(s)]
    return []


def spec_has(spec, kind):
    if spec[0] == kind:
        return True
    subs = spec[1] if spec[0] in ("all", "any") else spec[2] if spec[0] == "nofk" else []
    return any(spec_has(s, kind) for s in subs)


def spec_depth(spec):
    subs = spec[1] if spec[0] in ("all", "any") else spec[2] if spec[0] == "nofk" else []
    return 1 + max([spec_depth(s) for s in subs], default=0)


def payment_of(addr_spec):
    """('key', label) | ('script', None) of a scenario address spec"""
    if isinstance(addr_spec, str):
        return "key", addr_spec.split("+")[0]
    return "script", None


def oracle_required(sc, body_bytes, wit_bytes):
    """{key hash: set(sources)} demanded by the property text, from the bytes of the transaction"""
    req = {}

    def add(h, src):
        req.setdefault(bytes(h), set()).add(src)
    B = LR.Body(body_bytes)
    utx = {(u["txid"], int(u["ix"])): u for u in sc["utxos"]}
    for ref in B.inputs:
        k, lab = payment_of(utx[ref]["addr"])
        if k == "key":
            add(khash(lab), "input")
    for ref in B.collateral:
        k, lab = payment_of(utx[ref]["addr"])
        if k == "key":
            add(khash(lab), "collateral")
    for h in B.required_signers:
        add(h, "signer")
    # native scripts: every way the scenario hands one to the builder (field, attached to an input / mint / withdrawal /
    # certificate, directly or on a reference UTxO), cross-checked against the scripts shipped in the witness set
    by_id = {u["id"]: u for u in sc["utxos"]}
    for src, spec in native_specs(sc, by_id):
        for l in spec_leaves(spec):
            add(khash(l), src)
    ws = dict(R.dec(wit_bytes).pairs)
    for s in LR.unset(ws.get(1, [])):
        for h, _ in script_leaves_bytes(s):
            if h not in req or not any(x.startswith("native") for x in req[h]):
                add(h, "native:witness-set-only")
    for c in B.certs:
        code = c[0]
        if code in KEY_CERT_CRED:
            if c[1][0] == 0:
                add(c[1][1], f"cert:{code}")
        elif code == 3:
            add(c[1], "cert:3-operator")
            for ow in LR.unset(c[7]):
                add(ow, "cert:3-owner")
        elif code == 4:
            add(c[1], "cert:4")
    for ra, _ in B.withdrawals:
        if ra[0] >> 4 == 0xE:
            add(ra[1:], "withdrawal")
    if B.voting is not None:
        for voter, _ in B.voting.pairs:
            if voter[0] in (0, 2, 4):
                add(voter[1], {0: "vote:cc", 2: "vote:drep", 4: "vote:pool"}[voter[0]])
    return req


def native_specs(sc, by_id):
    """(source, script spec) of every native script the scenario gives to the builder"""
    out = []
    for o in sc["ops"]:
        k = o["op"]
        ref = "-ref" if o.get("script_in") == "ref" else ""
        if k in ("native_script", "c10_native_script"):
            out.append(("native", o["script"]))
        elif k == "script_input":
            a = by_id[o["u"]]["addr"]          # the script that unlocks the input is the one its address names
            if isinstance(a, list) and isinstance(a[1], list):
                out.append(("native:input" + ref, a[1]))
        elif k in ("minting_script", "withdrawal_script", "certificate_script"):
            spec = by_id[o["ref_utxo"]].get("script") if ref else o.get("script")
            if isinstance(spec, list):
                out.append(("native:" + {"minting_script": "mint", "withdrawal_script": "withdrawal",
                                         "certificate_script": "cert"}[k] + ref, spec))
    return out


# ---- model input: the builder's state after build ------------------------------------------------------------------------
def cred_json(c):
    if isinstance(c, VerificationKeyHash):
        return ["key", c.payload.hex()]
    if c is None:
        return ["none", ""]
    return ["script", bytes(c.payload).hex()]


def script_json(s):
    if isinstance(s, ScriptPubkey):
        return ["pk", s.key_hash.payload.hex()]
    if isinstance(s, ScriptAll):
        return ["all", [script_json(x) for x in s.native_scripts]]
    if isinstance(s, ScriptAny):
        return ["any", [script_json(x) for x in s.native_scripts]]
    if isinstance(s, ScriptNofK):
        return ["nofk", str(s.n), [script_json(x) for x in s.native_scripts]]
    if isinstance(s, InvalidBefore):
        return ["before", str(s.before)]
    if isinstance(s, InvalidHereAfter):
        return ["after", str(s.after)]
    raise ValueError(type(s))


CERT_KIND = {"StakeRegistration": "stake_reg", "StakeDeregistration": "stake_dereg", "StakeDelegation": "stake_deleg",
             "PoolRegistration": "pool_reg", "PoolRetirement": "pool_retire", "StakeRegistrationConway": "reg_conway",
             "StakeDeregistrationConway": "dereg_conway", "VoteDelegation": "vote_deleg",
             "StakeAndVoteDelegation": "stake_vote_deleg", "StakeRegistrationAndDelegation": "reg_deleg",
             "StakeRegistrationAndVoteDelegation": "reg_vote_deleg",
             "StakeRegistrationAndDelegationAndVoteDelegation": "reg_deleg_vote",
             "AuthCommitteeHotCertificate": "auth_hot", "ResignCommitteeColdCertificate": "resign_cold",
             "RegDRepCert": "reg_drep", "UnregDRepCertificate": "unreg_drep", "UpdateDRepCertificate": "update_drep"}


def cert_json(c):
    k = CERT_KIND[type(c).__name__]
    if k == "pool_reg":
        return {"kind": k, "cred": ["key", bytes(c.pool_params.operator.payload).hex()],
                "owners": [bytes(o.payload).hex() for o in (c.pool_params.pool_owners or [])]}
    if k == "pool_retire":
        return {"kind": k, "cred": ["key", bytes(c.pool_keyhash.payload).hex()]}
    for attr in ("stake_credential", "drep_credential", "committee_cold_credential"):
        if hasattr(c, attr):
            return {"kind": k, "cred": cred_json(getattr(c, attr).credential)}
    raise ValueError(k)


def model_request(b, sc):
    keys, tags = [], {}
    for l in sc["sign"]:
        k = sign_key(l)
        vk = bytes(k.to_verification_key().payload)
        keys.append({"ext": isinstance(k, ExtendedSigningKey), "vk": vk.hex(), "tag": str(tags.setdefault(l, len(tags))),
                     "hash": hashlib.blake2b(vk[:32], digest_size=28).hexdigest()})
    return {"op": "witness.plan",
            "inputs": [cred_json(u.output.address.payment_part) for u in b.inputs],
            "collaterals": [cred_json(u.output.address.payment_part) for u in b.collaterals],
            "required_signers": [h.payload.hex() for h in (b.required_signers or [])],
            "native_scripts": [script_json(s) for s in (b.native_scripts or [])],
            "input_scripts": [script_json(s) for s in b._inputs_to_scripts.values() if isinstance(s, NativeScript)],
            "mint_scripts": [script_json(s) for s, _ in b._minting_script_to_redeemers if isinstance(s, NativeScript)],
            "withdrawal_scripts": [script_json(s) for s, _ in b._withdrawal_script_to_redeemers if isinstance(s, NativeScript)],
            "cert_scripts": [script_json(s) for s, _ in b._certificate_script_to_redeemers if isinstance(s, NativeScript)],
            "certificates": [cert_json(c) for c in (b.certificates or [])],
            "withdrawals": [bytes(k).hex() for k in (b.withdrawals or {})],
            "voters": [cred_json(v.credential) for v in (b.voting_procedures or {})],
            "witness_override": None if b.witness_override is None else str(b.witness_override),
            "keys": keys, "force": bool(sc.get("force_skeys", False))}


# ---- one transaction scenario -------------------------------------------------------------------------------------------
def check_tx(ctx, case):
    sc = case["sc"]
    for l in sc["sign"]:
        sign_key(l)
    r = S.run(sc)
    if r.error is not None:
        ctx.count("run-error:" + r.error)
        ctx.skipped += 1
        return
    b = r.builder
    n_build_calls = len(getattr(r, "c10_fake", []))
    tx = r.tx.to_cbor()
    body, wits, _ = LR.tx_parts(tx)
    msg = hashlib.blake2b(body, digest_size=32).digest()
    ws = dict(R.dec(wits).pairs)
    vkw = [(bytes(v), bytes(s)) for v, s in LR.unset(ws.get(0, []))]
    force = bool(sc.get("force_skeys", False))
    labels = list(dict.fromkeys(sc["sign"]))

    # (1) every witness is a valid signature of the transaction id under a 32-byte key
    for v, s in vkw:
        if len(v) != 32:
            ctx.violation(f"witness verification key has {len(v)} bytes, not 32", case, 32, len(v))
        elif not E.verify(v, msg, s):
            ctx.violation("witness is not a valid Ed25519 signature of blake2b-256(body bytes) under its key", case,
                          {"msg": msg.hex()}, {"vkey": v.hex(), "sig": s.hex()})
    have = {v for v, _ in vkw}
    if len(vkw) != len(have):
        ctx.count("obs:same-key-twice-in-witness-set")   # same secret supplied as two key classes; not judged

    # (2) coverage / minimality against the independent required set
    req = oracle_required(sc, body, wits)
    for h, srcs in req.items():
        for s in srcs:
            ctx.count("src:" + s)
    by_pub = {pub32(l): l for l in labels}
    for l in labels:
        ctx.count("key:" + ("extended" if base_label(l).startswith("x") else "ordinary"))
        h = khash(l)
        if (force or h in req) and pub32(l) not in have:
            ctx.violation(f"signing key {l} was supplied and its hash is required ({sorted(req.get(h, ['forced']))}) "
                          "but the transaction carries no witness of it", case, pub32(l).hex(), sorted(x.hex() for x in have))
        ctx.count("supplied:" + ("required" if h in req else "unrelated"))
    for v in have:
        if v not in by_pub:
            ctx.violation("witness under a key that was not supplied", case, sorted(p.hex() for p in by_pub), v.hex())
        elif not force and hashlib.blake2b(v, digest_size=28).digest() not in req:
            ctx.violation(f"key {by_pub[v]} is not required by the transaction but signed it (force_skeys off)", case,
                          sorted(x.hex() for x in req), v.hex())

    # (3) placeholder witnesses
    ov = b.witness_override
    count, fake = b._witness_count(), b._build_fake_vkey_witnesses()
    used = r.c10_fake[n_build_calls - 1] if n_build_calls else None
    if not ov:
        for what, got in (("_witness_count()", count), ("placeholder witnesses of the last fee estimate", used)):
            if got is not None and got != len(req):
                ctx.violation(f"{what} = {got}, but the transaction has {len(req)} distinct required key hashes", case,
                              {"n": len(req), "required": {h.hex(): sorted(s) for h, s in req.items()}}, got)
    else:
        ctx.count("override")
        if count != ov:
            ctx.violation("witness_override not honoured by _witness_count()", case, ov, count)
    if count <= 256 and (len(fake) != count or len({w.to_cbor() for w in fake}) != count):
        ctx.violation("placeholder witnesses are not pairwise distinct / not as many as the witness count", case, count,
                      [len(fake), len({w.to_cbor() for w in fake})])

    # (4) correspondence with the Lean model on the builder's state
    if ctx.have_driver():
        m = ctx.driver().ok(model_request(b, sc))
        impl_req = sorted(h.payload.hex() for h in b._build_required_vkeys())
        ctx.traces += 1
        if m["required"] != impl_req:
            ctx.diff("witness.plan/required", case, m["required"], impl_req)
        if int(m["count"]) != count or int(m["fake"]) != len(fake):
            ctx.diff("witness.plan/count", case, [m["count"], m["fake"]], [count, len(fake)])
        if m["witness_vkeys"] != sorted(v.hex() for v in have):
            ctx.diff("witness.plan/signers", case, m["witness_vkeys"], sorted(v.hex() for v in have))
        mf = ctx.driver().ok({"op": "witness.fake", "n": str(count)})
        ctx.traces += 1
        if sorted(map(tuple, mf)) != sorted((bytes(w.vkey.payload).hex(), bytes(w.signature).hex()) for w in fake):
            ctx.diff("witness.fake", case, mf[:3], [(bytes(w.vkey.payload).hex(), bytes(w.signature).hex()) for w in fake][:3])
    for o in sc["ops"]:
        if o["op"] in ("native_script", "c10_native_script") or (isinstance(o.get("script"), list) and o["op"] != "withdraw"):
            ctx.count("ns-depth:%d" % spec_depth(o["script"]))
            for kind in ("all", "any", "nofk", "before", "after"):
                if spec_has(o["script"], kind):
                    ctx.count("ns-has:" + kind)
    ctx.count("force:" + ("on" if force else "off"))
    if len(labels) != len(sc["sign"]):
        ctx.count("sign:duplicate-label")
    if any(l.endswith("~") for l in labels):
        ctx.count("sign:same-secret-other-class")
    missing = [h for h in req if h not in {khash(l) for l in labels}]
    if missing:
        ctx.count("sign:some-required-key-not-supplied")
    ctx.count("witnesses:%d" % min(len(vkw), 9))
    ctx.count("required:%d" % min(len(req), 12))
    ctx.case(case, nontrivial=len(req) >= 2 or len(labels) >= 2)


def check_fake(ctx, case):
    """the placeholder generator on its own: model vs implementation for a given count; the placeholders must be pairwise
    distinct for EVERY count (judged beyond 256 too since repair 504b48a)"""
    sc = {"utxos": [utxo("f0", "k0", 5_000_000)], "address_utxos": {}, "ops": [], "build": {}, "sign": []}
    from pycardano import TransactionBuilder
    b = TransactionBuilder(S.StubContext(sc))
    n = int(case["n"])
    b.witness_override = n
    fake = b._build_fake_vkey_witnesses()
    ser = {w.to_cbor() for w in fake}
    if len(fake) != n or len(ser) != n:
        ctx.violation("placeholder witnesses are not pairwise distinct", case, n, [len(fake), len(ser)])
    if ctx.have_driver():
        mf = ctx.driver().ok({"op": "witness.fake", "n": str(n)})
        ctx.traces += 1
        impl = sorted((bytes(w.vkey.payload).hex(), bytes(w.signature).hex()) for w in fake)
        if sorted(map(tuple, mf)) != impl:
            ctx.diff("witness.fake", case, len(mf), len(impl))
    ctx.count("fake-n:" + ("<=256" if n <= 256 else ">256"))
    ctx.case(case)


def check_sign(ctx, case):
    """one key, one message: sign with pycardano, verify and re-derive independently"""
    l, m = case["key"], bytes.fromhex(case["msg"])
    k = S.skey(l)
    sig = k.sign(m)
    vk = bytes(k.to_verification_key().payload)
    if vk[:32] != pub32(l):
        ctx.violation("verification key is not the public key of the signing key", case, pub32(l).hex(), vk.hex())
    if len(sig) != 64 or not E.verify(pub32(l), m, sig):
        ctx.violation("signature does not verify under the key (independent RFC 8032 verifier)", case, None, sig.hex())
    if l.startswith("x"):
        p = k.payload
        exp = E.sign_expanded(int.from_bytes(p[:32], "little"), p[32:64], m)
    else:
        exp = E.sign(S.H("key/" + l), m)
    if sig != exp:
        ctx.violation("signature differs from the deterministic RFC 8032 / BIP32-Ed25519 signature", case, exp.hex(), sig.hex())
    from pycardano.witness import VerificationKeyWitness
    w = R.dec(VerificationKeyWitness(k.to_verification_key(), sig).to_cbor())
    if bytes(w[0]) != pub32(l):
        ctx.violation("witness does not carry the 32-byte public key", case, pub32(l).hex(), bytes(w[0]).hex())
    ctx.count("sign:" + ("extended" if l.startswith("x") else "ordinary"))
    ctx.case(case)


def dispatch(ctx, case):
    {"tx": check_tx, "fake": check_fake, "sign": check_sign}[case["kind"]](ctx, case)


# ---- generators -----------------------------------------------------------------------------------------------------------------
PAY = ["k0", "k1", "k2", "k3", "x0", "x1"]
STAKE = ["s0", "s1", "s2", "s3"]
EXTRA = ["k4", "k5", "k6", "x2", "s4"]
ALL_LABELS = PAY + STAKE + EXTRA
STAKE_CERTS = ["stake_reg", "stake_dereg", "stake_deleg", "reg_conway", "dereg_conway", "vote_deleg", "stake_vote_deleg",
               "reg_deleg", "reg_vote_deleg", "reg_deleg_vote", "reg_drep", "unreg_drep", "update_drep"]
NS_ADDR = ["all", [["pk", "k5"], ["nofk", 1, [["pk", "k6"], ["pk", "x2"]]]]]
MINT_NS = ["any", [["pk", "k6"], ["all", [["pk", "k4"], ["pk", "x2"]]]]]
WD_NS = ["nofk", 2, [["pk", "s4"], ["pk", "k5"], ["any", [["pk", "x1"]]]]]


def utxo(uid, addr, coin, **kw):
    return {"id": uid, "txid": S.H("tx/" + uid).hex(), "ix": len(uid) % 3, "addr": addr, "coin": coin, **kw}


def gen_script(rng, depth, allow_time=True):
    if depth <= 1 or rng.random() < 0.25:
        if allow_time and rng.random() < 0.12:
            return [rng.choice(["before", "after"]), rng.randint(0, 5000)]
        return ["pk", rng.choice(ALL_LABELS)]
    k = rng.choice(["all", "any", "nofk", "nofk"])
    subs = [gen_script(rng, depth - 1, allow_time) for _ in range(rng.randint(1, 3))]
    return ["nofk", rng.randint(0, len(subs)), subs] if k == "nofk" else [k, subs]


def gen_tx(rng):
    utxos = [utxo("a0", rng.choice(["k0", "k0+s0"]), 2_000_000_000), utxo("a1", "k1", 20_000_000),
             utxo("a2", "k2+s1", 15_000_000), utxo("a3", "k3", 8_000_000), utxo("a4", "x0", 30_000_000),
             utxo("a5", "x1+s2", 12_000_000), utxo("a6", "k1", 9_000_000), utxo("a7", "x0", 7_000_000),
             utxo("c0", "k4", 10_000_000), utxo("c1", "x2+s3", 11_000_000),
             utxo("n0", ["script", NS_ADDR], 6_000_000),
             utxo("p0", ["script", "p2:c10"], 9_000_000, datum_hash=7),
             utxo("r0", "k5", 3_000_000, script=WD_NS), utxo("r1", "k5", 3_100_000, script=NS_ADDR),
             utxo("r2", "k5", 3_200_000, script=MINT_NS)]
    sc = {"utxos": utxos, "address_utxos": {"k1": ["a1", "a6"], "x0": ["a4", "a7"]}, "build": {"change": "k0"}}
    if rng.random() < 0.07:
        # script-only spend: no key-locked input, no collateral given — the builder takes the collateral from the potential
        # inputs or from the UTxOs at the change address, and the key of that UTxO is required by NOTHING else
        src = rng.choice(["address", "potential", "both"])
        who = rng.choice([("k4", "c0"), ("x2", "c1")])
        change = who[0] if src != "potential" else rng.choice(["k6", who[0]])
        sc["build"] = {"change": change}
        sc["address_utxos"] = {who[0]: [who[1]]} if src != "potential" else {}
        ops = [{"op": "c10_spy"},
               {"op": "script_input", "u": "p0", "script_in": "witness", "script": "p2:c10", "datum": 7,
                "redeemer": {"data": 1, "units": [rng.randint(1000, 90000), rng.randint(1000, 9000000)]}}]
        if src != "address":
            ops.append({"op": "potential", "u": who[1]})
        if rng.random() < 0.4:
            ops.append({"op": "required_signer", "key": rng.choice(["k1", "k3", "x0"])})
        ops.append({"op": "add_output", "addr": "k6", "coin": 2_000_000})
        sc["ops"] = ops
        sign = [who[0].split("+")[0]] + [o["key"] for o in ops if o["op"] == "required_signer"] + rng.sample(ALL_LABELS, rng.randint(0, 2))
        if rng.random() < 0.15:
            sign = sign[1:]                       # the collateral key is not offered: nothing to cover
        rng.shuffle(sign)
        sc["sign"] = sign
        if rng.random() < 0.3:
            sc["force_skeys"] = True
        sc["family"] = "auto-collateral-foreign-key"
        return {"kind": "tx", "sc": sc}
    ops = [{"op": "c10_spy"}, {"op": "add_input", "u": "a0"}]
    for u in ("a1", "a2", "a3", "a4", "a5"):
        if rng.random() < 0.3:
            ops.append({"op": "add_input", "u": u})
    if rng.random() < 0.2:
        ops.append({"op": "add_input_address", "a": rng.choice(["k1", "x0"])})
    smart = rng.random() < 0.15
    if smart:
        ops.append({"op": "script_input", "u": "p0", "script_in": "witness", "script": "p2:c10", "datum": 7,
                    "redeemer": {"data": 1, "units": [rng.randint(1000, 90000), rng.randint(1000, 9000000)]}})
    if (smart and rng.random() < 0.6) or rng.random() < 0.08:
        for u in rng.sample(["c0", "c1", "a3"], rng.randint(1, 2)):
            if {"op": "add_input", "u": u} not in ops:
                ops.append({"op": "collateral", "u": u})
    if rng.random() < 0.09:
        if rng.random() < 0.6:
            ops.append({"op": "script_input", "u": "n0", "script_in": "witness", "script": NS_ADDR})
        else:
            ops.append({"op": "script_input", "u": "n0", "script_in": "ref", "ref_utxo": "r1"})
    r = rng.random()
    if r < 0.05:
        ops += [{"op": "mint", "assets": [[MINT_NS, "c1", 3]]}, {"op": "minting_script", "script": MINT_NS}]
    elif r < 0.08:
        ops += [{"op": "mint", "assets": [[MINT_NS, "c1", 3]]}, {"op": "minting_script", "script_in": "ref", "ref_utxo": "r2"}]
    elif r < 0.15:
        ops += [{"op": "mint", "assets": [[MINT_NS, "c1", 3]]}, {"op": "native_script", "script": MINT_NS}]
    if rng.random() < 0.25:
        for _ in range(rng.randint(1, 2)):
            ops.append({"op": "required_signer", "key": rng.choice(ALL_LABELS)})
    if rng.random() < 0.4:
        for _ in range(rng.randint(1, 2)):
            sp = gen_script(rng, rng.randint(1, 4))
            time_leaf = spec_has(sp, "before") or spec_has(sp, "after")
            ops.append({"op": "c10_native_script" if time_leaf else "native_script", "script": sp})
    if rng.random() < 0.45:
        for _ in range(rng.randint(1, 3)):
            cred = rng.choice(STAKE + ["k2"]) if rng.random() < 0.75 else ["script", gen_script(rng, 2, False)]
            x = rng.random()
            if x < 0.72:
                ops.append({"op": "cert", "kind": rng.choice(STAKE_CERTS), "cred": cred, "coin": 2_000_000})
            elif x < 0.80:
                ops.append({"op": "cert", "kind": rng.choice(["pool_retire", "pool_reg"]), "cred": rng.choice(STAKE)})
            elif x < 0.88:
                ops.append({"op": "c10_pool_reg", "cred": rng.choice(STAKE), "owners": rng.sample(STAKE + ["k5"], rng.randint(1, 3))})
                if rng.random() < 0.5:
                    ops.append({"op": "pool_initial"})
            else:
                ops.append({"op": "c10_committee", "kind": rng.choice(["auth_hot", "resign_cold"]), "cred": cred})
    if rng.random() < 0.3:
        for _ in range(rng.randint(1, 2)):
            if rng.random() < 0.75:
                ops.append({"op": "withdraw", "stake": rng.choice(STAKE + ["s4"]), "amount": rng.randint(0, 5_000_000)})
            else:
                ops.append({"op": "withdraw", "script": gen_script(rng, 2, False), "amount": rng.randint(0, 500)})
    if rng.random() < 0.10:     # script withdrawal with its native script attached (directly or by reference)
        spec = WD_NS if rng.random() < 0.5 else gen_script(rng, 3, False)
        ops.append({"op": "withdraw", "script": spec, "amount": rng.randint(0, 500)})
        if spec is WD_NS and rng.random() < 0.5:
            ops.append({"op": "withdrawal_script", "script_in": "ref", "ref_utxo": "r0"})
        else:
            ops.append({"op": "withdrawal_script", "script": spec})
    if rng.random() < 0.10:     # certificate with a script credential and its native script attached
        spec = WD_NS if rng.random() < 0.5 else gen_script(rng, 3, False)
        ops.append({"op": "cert", "kind": rng.choice(STAKE_CERTS), "cred": ["script", spec], "coin": 2_000_000})
        if spec is WD_NS and rng.random() < 0.5:
            ops.append({"op": "certificate_script", "script_in": "ref", "ref_utxo": "r0"})
        else:
            ops.append({"op": "certificate_script", "script": spec})
    if rng.random() < 0.25:
        for n in range(rng.randint(1, 2)):
            if rng.random() < 0.8:
                ops.append({"op": "vote", "cred": rng.choice(ALL_LABELS), "type": rng.choice(["drep", "pool", "cc"]), "n": n})
            else:
                ops.append({"op": "c10_vote_script", "script": gen_script(rng, 2, False), "type": rng.choice(["drep", "cc"]), "n": n})
    if rng.random() < 0.07:
        ops.append({"op": "proposal", "deposit": 1_000_000, "stake": rng.choice(STAKE)})
    if rng.random() < 0.12:
        ops.append({"op": "witness_override", "n": rng.choice([0, 0, 1, 2, 5, 12])})
    ops.append({"op": "add_output", "addr": "k6", "coin": rng.choice([2_000_000, 25_000_000])})
    sc["ops"] = ops
    # signing keys: most of the labels the scenario mentions, some missing, some unrelated, duplicates, other-class copies
    mentioned = []

    def walk(x):
        if isinstance(x, str):
            for part in x.split("+"):
                if part in ALL_LABELS:
                    mentioned.append(part)
        elif isinstance(x, list):
            for y in x:
                walk(y)
        elif isinstance(x, dict):
            for k, y in x.items():
                if k not in ("op", "kind", "type", "script_in", "u"):
                    walk(y)
    walk(ops)
    used_utxos = {o["u"] for o in ops if o["op"] in ("add_input", "collateral", "script_input")}
    ref_utxos = {o["ref_utxo"] for o in ops if "ref_utxo" in o}
    for u in utxos:
        if u["id"] in used_utxos or u["id"] in ("a1", "a6", "a4", "a7", "a0"):
            walk(u["addr"])
        if u["id"] in ref_utxos:
            walk(u.get("script"))
    sign = [l for l in dict.fromkeys(mentioned) if rng.random() < 0.85]
    sign += rng.sample(ALL_LABELS, rng.randint(0, 2))
    if "k0" not in sign and rng.random() < 0.9:
        sign.append("k0")
    if sign and rng.random() < 0.3:
        sign.append(rng.choice(sign))
    if sign and rng.random() < 0.06:
        sign.append(rng.choice(sign) + "~")
    rng.shuffle(sign)
    sc["sign"] = sign
    if rng.random() < 0.2:
        sc["force_skeys"] = True
    return {"kind": "tx", "sc": sc}


def corpus():
    """regression scenarios of the repaired collection defects, every way of attaching a native script, every
    certificate kind once, votes / withdrawals, the placeholder generator at its boundaries"""
    def sc(ops, sign, **kw):
        return {"kind": "tx", "sc": {"utxos": [utxo("a0", "k0", 2_000_000_000), utxo("n0", ["script", NS_ADDR], 6_000_000),
                                               utxo("r0", "k5", 3_000_000, script=WD_NS),
                                               utxo("r1", "k5", 3_100_000, script=NS_ADDR)],
                                     "address_utxos": {}, "build": {"change": "k0"},
                                     "ops": [{"op": "c10_spy"}, {"op": "add_input", "u": "a0"}] + ops
                                     + [{"op": "add_output", "addr": "k6", "coin": 2_000_000}], "sign": sign, **kw}}
    out = [
        # regression cases of the repaired defects (FX-C10-nofk, KF-C10-* now `fixed`): plain violations if they recur
        sc([{"op": "native_script", "script": ["nofk", 1, [["pk", "k1"], ["all", [["pk", "x1"], ["nofk", 2, [["pk", "k2"], ["any", [["pk", "k3"]]]]]]]]]}],
           ["k0", "k1", "x1", "k2", "k3"]),
        sc([{"op": "cert", "kind": "unreg_drep", "cred": "s1", "coin": 2_000_000}], ["k0", "s1"]),
        sc([{"op": "cert", "kind": "update_drep", "cred": "s1"}], ["k0", "s1"]),
        sc([{"op": "c10_committee", "kind": "auth_hot", "cred": "s1"}], ["k0", "s1"]),
        sc([{"op": "c10_committee", "kind": "resign_cold", "cred": "s1"}], ["k0", "s1"]),
        sc([{"op": "c10_pool_reg", "cred": "s1", "owners": ["s1", "s2"]}], ["k0", "s1", "s2"]),
        sc([{"op": "script_input", "u": "n0", "script_in": "witness", "script": NS_ADDR}], ["k0", "k5", "k6"]),
        sc([{"op": "mint", "assets": [[MINT_NS, "c1", 3]]}, {"op": "minting_script", "script": MINT_NS}], ["k0", "k6"]),
        # the remaining ways of attaching a native script
        sc([{"op": "script_input", "u": "n0", "script_in": "ref", "ref_utxo": "r1"}], ["k0", "k5", "x2"]),
        sc([{"op": "withdraw", "script": WD_NS, "amount": 9}, {"op": "withdrawal_script", "script": WD_NS}], ["k0", "s4", "k5"]),
        sc([{"op": "withdraw", "script": WD_NS, "amount": 9}, {"op": "withdrawal_script", "script_in": "ref", "ref_utxo": "r0"}],
           ["k0", "s4", "x1"]),
        sc([{"op": "cert", "kind": "stake_deleg", "cred": ["script", WD_NS]}, {"op": "certificate_script", "script": WD_NS}],
           ["k0", "k5", "x1"]),
        sc([{"op": "cert", "kind": "dereg_conway", "cred": ["script", WD_NS], "coin": 2_000_000},
            {"op": "certificate_script", "script_in": "ref", "ref_utxo": "r0"}], ["k0", "s4", "k5", "x1"]),
    ]
    for k in STAKE_CERTS + ["pool_retire", "pool_reg"]:
        out.append(sc([{"op": "cert", "kind": k, "cred": "s2", "coin": 2_000_000}], ["s2", "k0", "k1"]))
    out.append(sc([{"op": "withdraw", "stake": "s3", "amount": 7}, {"op": "vote", "cred": "x2", "type": "drep"},
                   {"op": "vote", "cred": "s4", "type": "pool", "n": 1}, {"op": "vote", "cred": "k4", "type": "cc", "n": 2}],
                  ["k0", "s3", "x2", "s4", "k4", "k4", "x2~"]))
    out += [{"kind": "fake", "n": n} for n in (1, 2, 3, 4, 8, 16, 128, 255, 256, 257, 300, 512, 513)]
    return out


def run(ctx):
    ctx.rule = ("builder scenarios over 15 key labels (10 ordinary payment/stake keys, 3 BIP32-extended payment keys, 2 "
                "extra): 1-6 key-locked inputs incl. coin-selected ones, optional Plutus input with explicit or automatic "
                "collateral, native-script-locked input, native scripts generated to depth 4 (all/any/n-of-k/time locks) "
                "in builder.native_scripts or attached to an input / mint / withdrawal / certificate (directly or on a "
                "reference UTxO), 0-2 required signers, 0-3 certificates out of "
                "17 kinds with key or script credentials, key and script withdrawals, drep/pool/committee key voters and "
                "script voters, proposals, witness_override in {0,1,2,5,12}; signing-key lists = ~85% of the mentioned "
                "labels + 0-2 unrelated + duplicates + the same secret under another key class, shuffled; force_skeys 20%. "
                "Non-trivial = distinct scenario with >= 2 required hashes or >= 2 supplied keys.  Separate stream: "
                "200+ keys x random messages signed and verified / re-derived independently.")
    ctx.assumptions = [
        "required key hashes per the property text: key credentials of ALL certificate kinds, pool owners and every "
        "native script handed to the builder (witness set or reference UTxO) count as required (the ledger additionally "
        "exempts legacy stake registration)",
        "all_scripts keeps one script per script hash; hash-equal scripts are taken to be equal (no blake2b collision)",
        "extended signing keys are consistent: payload[64:96] = [kL]B (true of keys made by from_hdwallet; checked per key)",
        "distinct supplied keys yield distinct witnesses (OrderedSet de-duplication by str() is then a no-op)",
        "more than 256 placeholder witnesses are out of scope: fakeWitness 256 = fakeWitness 0 (proved), a transaction "
        "of max_tx_size 16384 holds fewer than 170 key witnesses",
    ]
    ctx.extra["trusted"] = [
        "edwards25519 with RFC 8032 B, L is a commutative group with L*B = 0 (hypothesis of std/ext_sign_correct; modelled, "
        "not verified; exercised by ref/ed25519_ref.py)",
        "BLAKE2b-224/-256 and SHA-512 (hashlib) are the functions H28/H32/Hs the theorems are parametric in",
        "ref/ed25519_ref.py transcribes RFC 8032 5.1 (self-tested on the RFC's vectors at import)",
    ]
    for c in corpus():
        dispatch(ctx, c)
    rng = ctx.rng
    for _ in range(ctx.budget(130, 3000)):   # ~0.3 s per scenario: pycardano validates and re-serializes a lot
        dispatch(ctx, gen_tx(rng))
    nkeys = ctx.budget(60, 400)
    for i in range(ctx.budget(260, 6000)):
        l = ("x%d" % rng.randrange(max(3, nkeys // 12))) if rng.random() < 0.4 else rng.choice("ks") + str(rng.randrange(nkeys))
        n = rng.choice([0, 1, 31, 32, 32, 32, 33, 64, 200])
        dispatch(ctx, {"kind": "sign", "key": l, "msg": bytes(rng.randrange(256) for _ in range(n)).hex()})
    for n in range(ctx.budget(5, 40)):
        dispatch(ctx, {"kind": "fake", "n": rng.randint(1, 256) if rng.random() < 0.8 else rng.randint(257, 700)})


def replay(ctx, data):
    if "input" in data:
        dispatch(ctx, data["input"])
    for d in data.get("correspondence", []):
        dispatch(ctx, d["input"])
