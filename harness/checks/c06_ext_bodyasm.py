"""C06 extension `bodyasm` — the body `TransactionBuilder._build_tx_body` returns carries exactly the builder's state.

The conservation theorems of C06 (and C09, C11, C12, C13, C17) talk about sub-models of the builder; the balance equation is
evaluated on the BODY.  Theorems (lean/Pyc/Props/C06_BodyAsm.lean): `buildBody` (lean/Pyc/Model/BodyAsm.lean, a line-by-line
transliteration of `_build_tx_body`) is faithful field by field, and the ledger's consumed / produced read off the body equal the
expressions the accounting reads off the state (hypothesis: the spent inputs are pairwise distinct references).

This module ties `buildBody` to the code and searches for states the code mis-assembles:

A. scenarios (vlib/bgen.py value scenarios, vlib/plutus_scen.py script scenarios, checks/c10.py certificate / vote / proposal
   scenarios, and a `full` family of its own that turns every knob) are built by the real `TransactionBuilder.build()`.  Then
   * the state the method reads is dumped from the builder (leaves through their own `to_cbor()`),
   * the returned body is serialized and read back with the independent reader (ref/cbor_ref.py byte slices, ref/ledger_ref.py),
   * the driver runs `buildBody` on the dumped state; every field of the model's body is compared with the decoded body
     (`ctx.diff`), including the set of CBOR keys written and the ledger's consumed / produced (model) against
     `ledger_ref.balance` (decoded body);
   * directly on the implementation (`ctx.violation`, no model): every state field that holds something is in the body with the
     same content, nothing is in the body that the state does not hold, inputs / collateral / required signers / reference
     inputs are duplicate-free sets, the inputs of a built body are in canonical order, `auxiliary_data_hash` is BLAKE2b-256 of
     the auxiliary data the builder holds NOW, `script_data_hash` is present iff there are redeemers or datums; the validity
     interval / required signers are the given ones, else the automatic ones the scenario calls for; the balance equation holds;
   * `_build_tx_body()` called again gives the same bytes and leaves the state dump unchanged; a deep copy of the builder gives the
     same body (reference inputs compared as a set: a Python set has no order);
   * a random PERTURBATION of the state (every field: set, changed, emptied, `None`, duplicated entries, metadata extended in
     place, a spent input referenced, …) is applied to the finished builder and `_build_tx_body()` is compared again with the
     model and judged again by the oracle — the method as a function of the state, well beyond the states `build()` reaches.
B. the tail of `build()` (`finalizeState`): sorted selection, automatic validity interval, automatic required signers — model
   against the builder's state after `build()` from a snapshot taken just before it.
C. witnesses of the `_counterexample` theorems replayed on the implementation (an empty-but-not-None mint / certificate list /
   withdrawal map is written as an empty field; a reference input that is also spent stays a reference input; the same UTxO
   twice among `builder.inputs` is one body input but is counted twice by the accounting): counted and compared with the model,
   not reported as violations (they are reported to the maintainers of the model).
"""
from __future__ import annotations

import copy
import hashlib
import random
from dataclasses import fields as dc_fields

import cbor2

import pycardano as pc
from pycardano import (Address, MultiAsset, TransactionBuilder, TransactionInput, TransactionOutput, UTxO, Value,
                       Withdrawals)
from pycardano.hash import TransactionId
from pycardano.metadata import AlonzoMetadata, AuxiliaryData, Metadata, ShelleyMarryMetadata
from pycardano.serialization import NonEmptyOrderedSet, default_encoder
from pycardano.transaction import _Script

from checks import c10 as C10     # registers the `c10_*` builder ops; `gen_tx`
from ref import cbor_ref as R
from ref import ledger_ref as L
from vlib import bgen
from vlib import plutus_scen as P  # registers the `x_*` builder ops; `gen`
from vlib import scenario as S
from vlib import values as V

EXT = "bodyasm"
KNOWN_KEYS = {0, 1, 2, 3, 4, 5, 7, 8, 9, 11, 13, 14, 16, 17, 18, 19, 20, 21, 22}
FIELD_OF_KEY = {3: "ttl", 4: "certificates", 5: "withdrawals", 7: "aux_hash", 8: "validity_start", 9: "mint", 11: "sdh",
                13: "collateral", 14: "required_signers", 16: "collateral_return", 17: "total_collateral",
                18: "reference_inputs", 19: "voting", 20: "proposals", 21: "treasury", 22: "donation"}
SMART_OPS = {"native_script", "c10_native_script", "script_input", "x_script_input", "minting_script", "x_minting_script",
             "withdrawal_script", "x_withdrawal_script", "certificate_script", "x_certificate_script"}


def blake256(b: bytes) -> str:
    return hashlib.blake2b(b, digest_size=32).hexdigest()


# ---- dumping the state `_build_tx_body` reads --------------------------------------------------------------------------------
def ref_of(i):
    return [bytes(i.transaction_id.payload).hex(), int(i.index)]


def dump_output(o):
    return {"addr": bytes(o.address.to_primitive()).hex(), "amount": V.dump_value(o.amount),
            "datum_hash": None if o.datum_hash is None else bytes(o.datum_hash.payload).hex(),
            "datum": None if o.datum is None else [cbor2.dumps(o.datum, default=default_encoder).hex(), bool(o.datum)],
            "script": None if o.script is None else cbor2.dumps(_Script(o.script), default=default_encoder).hex(),
            "post_alonzo": bool(o.post_alonzo)}


def dump_utxo(u):
    pp = u.output.address.payment_part
    pk = bytes(pp.payload).hex() if isinstance(pp, pc.VerificationKeyHash) else None
    r = ref_of(u.input)
    return [[r[0], str(r[1])], V.dump_value(u.output.amount), pk]


def cert_class(raw: bytes):
    """what the deposit accounting distinguishes about a certificate, read off its bytes (Conway codes)"""
    c = R.dec(raw)
    code = c[0]
    if code == 0:
        return {"k": "stake_reg", "cred": R.enc(c[1]).hex()}
    if code == 1:
        return {"k": "stake_dereg"}
    if code == 3:
        return {"k": "pool_reg", "cred": c[1].hex()}
    if code in (7, 16):
        return {"k": "deposit", "coin": str(c[2])}
    if code in (11, 12):
        return {"k": "deposit", "coin": str(c[3])}
    if code == 13:
        return {"k": "deposit", "coin": str(c[4])}
    if code in (8, 17):
        return {"k": "refund", "coin": str(c[2])}
    return {"k": "other"}


def opt(x):
    return None if x is None else str(int(x))


def dump_state(b: TransactionBuilder, cx):
    versions = []
    for s in b.all_scripts:
        v = 1 if type(s) is bytes else getattr(s, "version", None)
        if isinstance(v, int):
            versions.append(str(v))
    tabs = P.cost_tables(cx)
    sdh = {"redeemers": [[str(r.tag.value), str(r.index), P.data_cbor(r.data).hex(), str(r.ex_units.mem), str(r.ex_units.steps)]
                         for r in b._redeemer_list],
           "datums": [P.data_cbor(d).hex() for d in b.datums.values()], "versions": versions,
           "use_map": bool(b.use_redeemer_map),
           "cost_models": [[str(l), [[n.encode().hex(), str(v)] for n, v in t.items()]] for l, t in tabs.items()],
           "dflt": cbor2.dumps(pc.plutus.COST_MODELS, default=default_encoder).hex()}
    vp = b.voting_procedures
    return {
        "inputs": [dump_utxo(u) for u in b.inputs],
        "outputs": [dump_output(o) for o in b.outputs],
        "fee": str(int(b.fee)), "ttl": opt(b.ttl), "validity_start": opt(b.validity_start),
        "mint": None if b.mint is None else V.dump_ma(b.mint),
        "aux": None if b.auxiliary_data is None else b.auxiliary_data.to_cbor().hex(),
        "sdh": sdh,
        "required_signers": None if b.required_signers is None else [bytes(h.payload).hex() for h in b.required_signers],
        "collaterals": [dump_utxo(u) for u in b.collaterals],
        "certificates": None if b.certificates is None else [[c.to_cbor().hex(), cert_class(c.to_cbor())] for c in b.certificates],
        "withdrawals": None if b.withdrawals is None else [[bytes(k).hex(), str(int(v))] for k, v in b.withdrawals.items()],
        "collateral_return": None if b._collateral_return is None else dump_output(b._collateral_return),
        "total_collateral": opt(b._total_collateral),
        "reference_inputs": [["utxo", [ref_of(i.input)[0], str(i.input.index)]] if isinstance(i, UTxO)
                             else ["input", [ref_of(i)[0], str(i.index)]] for i in b.reference_inputs],
        "voting": None if vp is None else [[k.to_cbor().hex(), v.to_cbor().hex()] for k, v in vp.items()],
        "proposals": None if b.proposal_procedures is None else [[p.to_cbor().hex(), str(int(p.deposit))] for p in b.proposal_procedures],
        "treasury": opt(b.current_treasury_value), "donation": opt(b.donation),
    }


# ---- the body as the ledger reads it (independent decoder, byte slices) ---------------------------------------------------------
def pair_slices(b: bytes):
    """a definite CBOR map -> [(key bytes, value bytes)] in wire order"""
    d = R.Dec(b)
    ib = b[0]
    assert ib >> 5 == 5 and ib & 31 != 31, "definite map expected"
    d.i = 1
    out = []
    for _ in range(d._arg(ib & 31)):
        s = d.i
        d.item()
        m = d.i
        d.item()
        out.append((b[s:m], b[m:d.i]))
    assert d.i == len(b)
    return out


def wire_view(raw: bytes):
    ms = P.map_slices(raw)
    keys = [k for k, _, _ in ms]
    d = {k: (v, sl) for k, v, sl in ms}

    def refs(k):
        return [[i[0].hex(), int(i[1])] for i in L.unset(d[k][0])] if k in d else None

    def slices(k):
        return [s.hex() for s in P.list_slices(d[k][1])] if k in d else None

    def num(k):
        return d[k][0] if k in d else None
    return {
        "keys": sorted(keys), "repeated_keys": len(keys) != len(set(keys)),
        "inputs": refs(0), "outputs": slices(1), "fee": num(2), "ttl": num(3), "certificates": slices(4),
        "withdrawals": sorted([k.hex(), int(v)] for k, v in d[5][0].pairs) if 5 in d else None,
        "aux_hash": d[7][0].hex() if 7 in d else None, "validity_start": num(8),
        "mint": {f"{p.hex()}.{n.hex()}": int(q) for p, a in d[9][0].pairs for n, q in a.pairs} if 9 in d else None,
        "sdh": d[11][0].hex() if 11 in d else None,
        "collateral": refs(13), "required_signers": [h.hex() for h in L.unset(d[14][0])] if 14 in d else None,
        "collateral_return": d[16][1].hex() if 16 in d else None, "total_collateral": num(17),
        "reference_inputs": refs(18),
        "voting": sorted([k.hex(), v.hex()] for k, v in pair_slices(d[19][1])) if 19 in d else None,
        "proposals": slices(20), "treasury": num(21), "donation": num(22),
        "other": {str(k): d[k][1].hex() for k in keys if k not in KNOWN_KEYS},
    }


def model_view(m):
    def refs(x):
        return None if x is None else [[t, int(i)] for t, i in x]

    def num(x):
        return None if x is None else int(x)
    return {
        "keys": [int(k) for k in m["keys"]], "inputs": refs(m["inputs"]), "outputs": m["outputs"], "fee": int(m["fee"]),
        "ttl": num(m["ttl"]), "certificates": m["certificates"],
        "withdrawals": None if m["withdrawals"] is None else sorted([k, int(v)] for k, v in m["withdrawals"]),
        "aux_hash": None if m["aux_pre"] is None else blake256(bytes.fromhex(m["aux_pre"])),
        "validity_start": num(m["validity_start"]),
        "mint": None if m["mint"] is None else {f"{p}.{n}": int(q) for p, a in m["mint"] for n, q in a},
        "sdh": None if m["sdh_pre"] is None else blake256(bytes.fromhex(m["sdh_pre"])),
        "collateral": refs(m["collateral"]), "required_signers": m["required_signers"],
        "collateral_return": m["collateral_return"], "total_collateral": num(m["total_collateral"]),
        "reference_inputs": refs(m["reference_inputs"]),
        "voting": None if m["voting"] is None else sorted([k, v] for k, v in m["voting"]),
        "proposals": m["proposals"], "treasury": num(m["treasury"]), "donation": num(m["donation"]),
    }


def strip(case):
    return {k: v for k, v in case.items() if not k.startswith("_")}


# ---- correspondence: `buildBody` on the dumped state vs the decoded body ------------------------------------------------------------
def utxo_table(sc):
    out = []
    for (t, i), (coin, assets) in bgen.utxo_map(sc).items():
        pol = {}
        for (p, n), q in assets.items():
            pol.setdefault(p, []).append([n, str(q)])
        out.append([[t, str(i)], {"coin": str(coin), "ma": [[p, a] for p, a in pol.items()]}])
    return out


def correspond(ctx, case, stage, st, W, sc):
    if not ctx.have_driver():
        return
    p = {**S.DEFAULT_PARAMS, **sc.get("params", {})}
    pool_new = any(o["op"] == "pool_initial" for o in sc["ops"])
    utab = bgen.utxo_map(sc)
    B = L.Body(bytes.fromhex(W["_raw"]))
    complete = all(tuple(r) in utab for r in B.inputs)
    req = {"op": "basm.body", "state": st}
    bal = None
    if complete:
        try:
            bal = L.balance(B, utab, int(p["key_deposit"]), int(p["pool_deposit"]), pool_new)
        except Exception:  # noqa: BLE001  (a body the reference cannot read is reported by the field comparison)
            bal = None
    if bal is not None:
        (cc, ca), (pc_, pa) = bal
        ids = sorted(set(ca) | set(pa) | {tuple(k.split(".")) for k in (W["mint"] or {})})
        req["ledger"] = {"p": {"cpb": str(p["cpb"]), "max_val_size": str(p["max_val_size"]), "key_deposit": str(p["key_deposit"]),
                               "pool_deposit": str(p["pool_deposit"])},
                         "initial_pool": pool_new, "utxo": utxo_table(sc), "assets": [[a, b_] for a, b_ in ids]}
    m = ctx.driver().ok(req)
    ctx.traces += 1
    mv = model_view(m)
    for f, mval in mv.items():
        ival = W[f]
        if f == "reference_inputs" and mval is not None and ival is not None:
            ctx.count("basm:refinputs-order:" + ("same" if mval == ival else "differs-from-set-iteration"))
            mval, ival = sorted(mval), sorted(ival)
        if mval != ival:
            ctx.diff(f"basm.body:{stage}:{f}", strip(case), mval, ival)
    if not m.get("again_same_keys", True):
        ctx.diff(f"basm.body:{stage}:again", strip(case), "same body on a second call", "differs")
    pool_ops = [bytes(c[1]) for c in getattr(B, "certs", []) if c and c[0] == 3 and isinstance(c[1], (bytes, bytearray))] if bal is not None else []
    if bal is not None and len(pool_ops) != len(set(pool_ops)):
        # the same pool registered twice in one transaction: the ledger charges the deposit once (the second certificate is a
        # re-registration), the Lean `Ledger.producedCoin` charges per certificate and its theorems exclude the case
        # (C06's no-double-registration condition): outside the hypotheses, counted, not compared
        ctx.count("basm:ledger-skipped:same-pool-registered-twice")
        ctx.skipped += 1
    elif bal is not None:
        (cc, ca), (pc_, pa) = bal
        lg = m["ledger"]
        if (int(lg["consumed_coin"]), int(lg["produced_coin"])) != (cc, pc_):
            ctx.diff(f"basm.ledger:{stage}:coin", strip(case), [lg["consumed_coin"], lg["produced_coin"]], [cc, pc_])
        for a, n, c_, p_ in lg["assets"]:
            if (int(c_), int(p_)) != (ca.get((a, n), 0), pa.get((a, n), 0)):
                ctx.diff(f"basm.ledger:{stage}:asset", strip(case), [a, n, c_, p_], [ca.get((a, n), 0), pa.get((a, n), 0)])
        ctx.traces += 1


# ---- the property judged directly on the implementation ------------------------------------------------------------------------------
def content(dumped_ma):
    return {f"{p}.{n}": q for (p, n), q in V.content_ma(dumped_ma).items()}


def oracle(ctx, case, stage, b, st, W):
    """state vs decoded body, field by field; `absent` and `empty` are the same content for collections (whether an EMPTY
    field is written is judged by the model only, and counted)"""
    bad = []

    def need(field, exp, got, what=None):
        if exp != got:
            bad.append((field, what or f"body field `{field}` differs from the builder's `{field}`", exp, got))
    if W["repeated_keys"]:
        bad.append(("keys", "a CBOR key is written twice", "distinct keys", W["keys"]))
    if W["other"]:
        bad.append(("keys", "the body carries a key the builder holds nothing for", {}, W["other"]))
    for k in W["keys"]:
        if k in FIELD_OF_KEY and W[FIELD_OF_KEY[k]] in ([], {}):
            ctx.count(f"basm:wire-empty-field:{k}:{stage if stage == 'built' else 'perturbed'}")
    # sets of references / hashes: same elements, no repetition
    for f, exp in (("inputs", [[r[0][0], int(r[0][1])] for r in st["inputs"]]),
                   ("collateral", [[r[0][0], int(r[0][1])] for r in st["collaterals"]]),
                   ("reference_inputs", [[e[1][0], int(e[1][1])] for e in st["reference_inputs"]]),
                   ("required_signers", list(st["required_signers"] or []))):
        got = W[f] or []
        key = (lambda x: tuple(x)) if f != "required_signers" else (lambda x: x)
        if len({key(x) for x in got}) != len(got):
            bad.append((f, f"`{f}` of the body repeats an element", "a set", got))
        need(f, sorted({key(x) for x in exp}), sorted({key(x) for x in got}),
             f"`{f}` of the body is not the set the builder holds")
    if stage == "built" and W["inputs"] != sorted(W["inputs"], key=lambda r: (bytes.fromhex(r[0]), r[1])):
        bad.append(("inputs", "the inputs of the built body are not in canonical order (transaction id bytes, index)",
                    sorted(W["inputs"]), W["inputs"]))
    # ordered lists of leaves
    need("outputs", [o.to_cbor().hex() for o in b.outputs], W["outputs"])
    need("certificates", [c[0] for c in (st["certificates"] or [])], W["certificates"] or [])
    need("proposals", [p_[0] for p_ in (st["proposals"] or [])], W["proposals"] or [])
    # maps
    need("withdrawals", sorted([k, int(v)] for k, v in (st["withdrawals"] or [])), W["withdrawals"] or [])
    need("voting", sorted([k, v] for k, v in (st["voting"] or [])), W["voting"] or [])
    need("mint", content(st["mint"] or []), W["mint"] or {})
    # scalars: exact for fee / interval / collateral total; a zero treasury value / donation is "nothing held"
    need("fee", int(st["fee"]), W["fee"])
    for f in ("ttl", "validity_start", "total_collateral"):
        need(f, None if st[f] is None else int(st[f]), W[f])
    for f in ("treasury", "donation"):
        need(f, int(st[f] or 0), int(W[f] or 0))
    need("collateral_return", None if b._collateral_return is None else b._collateral_return.to_cbor().hex(), W["collateral_return"])
    # hashes: of what the builder holds now
    need("aux_hash", None if st["aux"] is None else blake256(bytes.fromhex(st["aux"])), W["aux_hash"],
         "auxiliary_data_hash is not BLAKE2b-256 of the auxiliary data the builder holds")
    has_script_data = bool(st["sdh"]["redeemers"] or st["sdh"]["datums"])
    if has_script_data != (W["sdh"] is not None):
        bad.append(("sdh", "script_data_hash must be present exactly when the builder holds redeemers or datums",
                    has_script_data, W["sdh"]))
    for field, what, exp, got in bad:
        ctx.violation(f"[{stage}] {what}", strip(case), exp, got)
    return not bad


def auto_expectations(ctx, case, sc, pre, W):
    """what the scenario calls for in the fields `build()` fills in by itself (validity interval, required signers):
    a given value wins; else the automatic one for a transaction that involves scripts / when an offset is passed"""
    ops, bargs = sc["ops"], sc.get("build", {})
    smart = any(o["op"] in SMART_OPS for o in ops)
    if smart != pre["is_smart"]:
        ctx.count("basm:auto:smart-notion-differs")
        return
    slot = int(sc.get("slot", 2000))
    for f, opname, arg, dflt in (("validity_start", "validity_start", "auto_validity_start_offset", -1000),
                                 ("ttl", "ttl", "auto_ttl_offset", 10000)):
        given = [int(o["v"]) for o in ops if o["op"] == opname]
        if given:
            exp, how = given[-1], "given"
        elif smart or bargs.get(arg) is not None:
            off = bargs.get(arg)
            exp, how = max(0, slot + (dflt if off is None else int(off))), "auto"
        else:
            exp, how = None, "none"
        ctx.count(f"basm:auto:{f}:{how}")
        if W[f] != exp:
            ctx.violation(f"[built] `{f}` of the body is not the {how} one ({'last slot ' + str(slot) if how == 'auto' else 'scenario'})",
                          strip(case), exp, W[f])
    given = [bytes(S.vkh(o["key"]).payload).hex() for o in ops if o["op"] == "required_signer"]
    if given:
        exp, how = sorted(set(given)), "given"
    elif smart and bargs.get("auto_required_signers") is not False:
        by_ref = {(u["txid"], int(u["ix"])): u for u in sc["utxos"]}
        coll = [(c[0][0], int(c[0][1])) for c in pre["collaterals"]]
        exp = set()
        for r in [tuple(x) for x in W["inputs"]] + coll:
            a = by_ref[r]["addr"] if r in by_ref else None
            if isinstance(a, str):
                exp.add(bytes(S.vkh(a.split("+")[0]).payload).hex())
        exp, how = sorted(exp), "auto"
    else:
        exp, how = [], "none"
    ctx.count(f"basm:auto:required_signers:{how}")
    if sorted(W["required_signers"] or []) != exp:
        ctx.violation(f"[built] the required signers of the body are not the {how} ones", strip(case), exp,
                      sorted(W["required_signers"] or []))


def balance_check(ctx, case, sc, W):
    if sc.get("build", {}).get("change") is None:
        return
    p = {**S.DEFAULT_PARAMS, **sc.get("params", {})}
    B = L.Body(bytes.fromhex(W["_raw"]))
    utab = bgen.utxo_map(sc)
    if not all(tuple(r) in utab for r in B.inputs):
        return
    pool_new = any(o["op"] == "pool_initial" for o in sc["ops"])
    (cc, ca), (pc_, pa) = L.balance(B, utab, int(p["key_deposit"]), int(p["pool_deposit"]), pool_new)
    ctx.count("basm:balance-evaluated")
    if (cc, ca) != (pc_, pa):
        ctx.violation(f"[built] the ledger balance equation does not hold for the returned body (consumed - produced = {cc - pc_} lovelace)",
                      strip(case), {"consumed": [cc, {f'{k[0]}.{k[1]}': v for k, v in ca.items()}]},
                      {"produced": [pc_, {f'{k[0]}.{k[1]}': v for k, v in pa.items()}]})


# ---- extra builder calls ---------------------------------------------------------------------------------------------------------------
def mk_aux(o):
    md = Metadata({int(o.get("label", 674)): o.get("value", "hi")})
    era = o.get("era", "alonzo")
    ns = [S.native_script(s) for s in o.get("native", [])] or None
    if era == "shelley":
        return AuxiliaryData(md)
    if era == "ma":
        return AuxiliaryData(ShelleyMarryMetadata(md, ns))
    return AuxiliaryData(AlonzoMetadata(metadata=md, native_scripts=ns,
                                        plutus_v2_scripts=[S.plutus_script(x) for x in o.get("plutus", [])] or None))


def aux_metadata(aux):
    d = aux.data
    return d if isinstance(d, Metadata) else d.metadata


def x_aux(b, cx, o, run, idx):
    b.auxiliary_data = mk_aux(o)


def x_ref(b, cx, o, run, idx):
    u = cx.utxo_objs[o["u"]]
    b.reference_inputs.add(u if o.get("as", "utxo") == "utxo" else u.input)


def x_pre(b, cx, o, run, idx):
    """snapshot just before `build()`: what its tail reads"""
    run.basm_pre = {"ttl": opt(b.ttl), "validity_start": opt(b.validity_start),
                    "required_signers": None if b.required_signers is None else [bytes(h.payload).hex() for h in b.required_signers],
                    "collaterals": [dump_utxo(u) for u in b.collaterals], "is_smart": bool(b.all_scripts)}


for _n, _f in (("basm_aux", x_aux), ("basm_ref", x_ref), ("basm_pre", x_pre)):
    S.EXTRA_OPS[_n] = _f


# ---- perturbations of a finished builder ------------------------------------------------------------------------------------------------
def apply_perturb(b, cx, q):
    k = q["p"]
    if k == "fee":
        b.fee = int(q["v"])
    elif k == "ttl":
        b.ttl = q["v"]
    elif k == "validity_start":
        b.validity_start = q["v"]
    elif k == "mint":
        b.mint = {"none": None, "empty": MultiAsset()}.get(q["v"], None) if isinstance(q["v"], str) else S.multi_asset(q["v"])
    elif k == "mint_add":
        b.mint = (b.mint if b.mint is not None else MultiAsset()) + S.multi_asset(q["v"])
    elif k == "withdrawals":
        b.withdrawals = None if q["v"] == "none" else Withdrawals()
    elif k == "certificates":
        b.certificates = None if q["v"] == "none" else []
    elif k == "required_signers":
        if q["v"] == "none":
            b.required_signers = None
        elif q["v"] == "empty":
            b.required_signers = []
        else:       # "dup": the first one once more
            b.required_signers = list(b.required_signers or [S.vkh("k1")]) + [list(b.required_signers or [S.vkh("k1")])[0]]
    elif k == "collateral":
        if q["v"] == "clear":
            b.collaterals.clear()
        elif q["v"] == "dup":
            if b.collaterals:
                b.collaterals.append(b.collaterals[0])
        else:
            b.collaterals.append(cx.utxo_objs[q["v"]])
    elif k == "collateral_return":
        b._collateral_return = None if q["v"] is None else TransactionOutput(S.address("k3"), Value(int(q["v"])))
    elif k == "total_collateral":
        b._total_collateral = q["v"]
    elif k == "ref":
        if q["v"] == "clear":
            b.reference_inputs.clear()
        elif q["v"] == "spent":
            if b.inputs:
                b.reference_inputs.add(b.inputs[0])
                b.reference_inputs.add(b.inputs[-1].input)
        else:
            u = cx.utxo_objs[q["v"]]
            b.reference_inputs.add(u if q.get("as", "utxo") == "utxo" else u.input)
            if q.get("as") == "both":
                b.reference_inputs.add(u)
                b.reference_inputs.add(u.input)
    elif k == "aux":
        if q["v"] == "none":
            b.auxiliary_data = None
        elif q["v"] == "extend":        # the caller attaches more metadata to the object the builder already holds
            if b.auxiliary_data is not None and aux_metadata(b.auxiliary_data) is not None:
                aux_metadata(b.auxiliary_data)[int(q.get("label", 1999))] = q.get("value", "more")
            else:
                b.auxiliary_data = mk_aux({"era": "alonzo", "label": q.get("label", 1999), "value": q.get("value", "more")})
        else:
            b.auxiliary_data = mk_aux(q["v"])
    elif k == "voting":
        b.voting_procedures = None if q["v"] == "none" else pc.governance.VotingProcedures()
    elif k == "proposals":
        b.proposal_procedures = None if q["v"] == "none" else NonEmptyOrderedSet()
    elif k == "donation":
        b.donation = q["v"]
    elif k == "treasury":
        b.current_treasury_value = q["v"]
    elif k == "output":
        if q["v"] == "drop":
            if b.outputs:
                b.outputs.pop()
        else:
            b.outputs.append(S.mk_output(q["v"]))
    elif k == "input":
        if q["v"] == "dup":
            if b.inputs:
                b.inputs.append(b.inputs[0])
        elif q["v"] == "reverse":
            b.inputs.reverse()
        else:
            b.inputs.append(cx.utxo_objs[q["v"]])
    elif k == "datum":
        d = S.datum(q["v"])
        b.datums[pc.datum_hash(d)] = d
    elif k == "redeemer_form":
        b.use_redeemer_map = not b.use_redeemer_map
    elif k == "op":
        S.apply_op(b, cx, q["v"], S.Run(), 9000)
    else:
        raise ValueError(k)


BOUND = [0, 1, 23, 24, 255, 256, 65535, 65536, 2**32 - 1, 2**32, 2**63 - 1, 2**64 - 1]


def gen_perturb(rng, sc):
    ids = [u["id"] for u in sc["utxos"]]
    key_ids = [u["id"] for u in sc["utxos"] if isinstance(u["addr"], str)] or ids
    menu = [
        lambda: {"p": "fee", "v": rng.choice(BOUND[1:] + [rng.randint(150000, 900000)])},
        lambda: {"p": "ttl", "v": rng.choice([None] + BOUND)},
        lambda: {"p": "validity_start", "v": rng.choice([None] + BOUND)},
        lambda: {"p": "mint", "v": rng.choice(["none", "empty", [[["pk", "k7"], "7a", 0]],
                                              [[["pk", "k7"], "61", 5], [["pk", "k8"], "", -3]]])},
        lambda: {"p": "mint_add", "v": [[["pk", "k9"], rng.choice(["", "62"]), rng.choice([1, -1, 2**40])]]},
        lambda: {"p": "withdrawals", "v": rng.choice(["none", "empty"])},
        lambda: {"p": "op", "v": {"op": "withdraw", "stake": rng.choice(["s1", "s5", "s6"]), "amount": rng.choice([0, 1, 2**32])}},
        lambda: {"p": "certificates", "v": rng.choice(["none", "empty"])},
        lambda: {"p": "op", "v": {**bgen.gen_cert(rng), "cred": rng.choice(["s5", "s6"])}},
        lambda: {"p": "required_signers", "v": rng.choice(["none", "empty", "dup"])},
        lambda: {"p": "op", "v": {"op": "required_signer", "key": rng.choice(["k1", "k5", "x1", "s2"])}},
        lambda: {"p": "collateral", "v": rng.choice(["clear", "dup", rng.choice(key_ids)])},
        lambda: {"p": "collateral_return", "v": rng.choice([None, 1_500_000, 2**32])},
        lambda: {"p": "total_collateral", "v": rng.choice([None, 0, 1, 2**32, 5_000_000])},
        lambda: {"p": "ref", "v": rng.choice(["clear", "spent", rng.choice(ids)]), "as": rng.choice(["utxo", "input", "both"])},
        lambda: {"p": "aux", "v": rng.choice(["none", "extend", "extend", {"era": rng.choice(["shelley", "ma", "alonzo"]),
                                                                           "label": rng.choice([0, 23, 24, 674, 2**32]),
                                                                           "value": "p" * rng.choice([0, 1, 24, 64])}]),
                 "label": rng.choice([1, 1999, 65536]), "value": rng.choice(["more", "", "z" * 40])},
        lambda: {"p": "voting", "v": rng.choice(["none", "empty"])},
        lambda: {"p": "op", "v": {"op": "vote", "cred": rng.choice(["k4", "s2", "x1"]), "type": rng.choice(["drep", "pool", "cc"]),
                                  "n": rng.randint(0, 3)}},
        lambda: {"p": "proposals", "v": rng.choice(["none", "empty"])},
        lambda: {"p": "op", "v": {"op": "proposal", "deposit": rng.choice([0, 1, 100_000_000_000]), "stake": "s3",
                                  "action": rng.choice(["info", "noconf"])}},
        lambda: {"p": "donation", "v": rng.choice([None, 0, 1, 2**32, 5_000_000])},
        lambda: {"p": "treasury", "v": rng.choice([None, 0, 1, 2**63 - 1, 1_234_567])},
        lambda: {"p": "output", "v": rng.choice(["drop", {"addr": "k2", "coin": 1_234_567},
                                                 {"addr": "k1+s1", "coin": 2**32, "inline_datum": 5, "post_alonzo": True}])},
        lambda: {"p": "input", "v": rng.choice(["dup", "reverse", rng.choice(ids)])},
        lambda: {"p": "datum", "v": rng.choice([0, 42, ["bytes", "abcd"]])},
        lambda: {"p": "redeemer_form"},
    ]
    return [rng.choice(menu)() for _ in range(rng.choice([1, 2, 3, 4, 6]))]


# ---- one scenario --------------------------------------------------------------------------------------------------------------------------
def deep_copy_builder(b, cx, ctx=None):
    """what `_estimate_execution_units` does: a fresh builder on the same context, every field deep-copied.
    `copy.deepcopy` of an `OrderedSet` comes back EMPTY (the copied `_set` already holds every key when the list items are
    re-appended; reported, see `basm:deepcopy-of-OrderedSet-loses-elements`): such a field is copied element by element instead, so
    that the comparison still says something about `_build_tx_body`."""
    from pycardano.serialization import OrderedSet
    t = TransactionBuilder(cx)
    for f in dc_fields(b):
        if f.name == "context":
            continue
        v = getattr(b, f.name)
        c = copy.deepcopy(v)
        if isinstance(v, OrderedSet) and len(c) != len(v):
            if ctx is not None:
                ctx.count(f"basm:deepcopy-of-OrderedSet-loses-elements:{f.name}:{len(v)}->{len(c)}")
            c = type(v)([copy.deepcopy(x) for x in v])
        setattr(t, f.name, c)
    return t


def normalized(W):
    return {**{k: v for k, v in W.items() if k != "_raw"}, "reference_inputs": sorted(W["reference_inputs"] or [])}


def populate_counts(ctx, W, st, pre):
    for k in W["keys"]:
        ctx.count(f"basm:field:{k}:{FIELD_OF_KEY.get(k, {0: 'inputs', 1: 'outputs', 2: 'fee'}.get(k, '?'))}")
    if W["mint"]:
        ctx.count("basm:mint:" + "+".join(sorted({"mint" if q > 0 else "burn" for q in W["mint"].values()})))
    if W["withdrawals"]:
        ctx.count("basm:withdrawals:" + ("1" if len(W["withdrawals"]) == 1 else "2+"))
    for c in W["certificates"] or []:
        ctx.count(f"basm:cert-code:{R.dec(bytes.fromhex(c))[0]}")
    if st["aux"] is not None:
        t = R.dec(bytes.fromhex(st["aux"]))
        ctx.count("basm:aux-era:" + ("alonzo" if isinstance(t, R.Tag) else "shelley-ma" if isinstance(t, list) else "shelley"))
    if W["collateral"]:
        ctx.count("basm:collateral:" + ("given" if pre and pre["collaterals"] else "automatic"))
    if W["reference_inputs"]:
        kinds = {e[0] for e in st["reference_inputs"]}
        ctx.count("basm:reference-inputs:" + "+".join(sorted(kinds)))
        if {tuple(r) for r in W["reference_inputs"]} & {tuple(r) for r in W["inputs"]}:
            ctx.count("basm:reference-input-also-spent")
    if len(W["inputs"]) != len(st["inputs"]):
        ctx.count("basm:repeated-input-in-state")


def check_scen(ctx, case):
    sc = copy.deepcopy(case["sc"])
    sc["ops"] = list(sc["ops"]) + [{"op": "basm_pre"}]
    run = S.run(sc, sign=False)
    fam = case.get("family", "?")
    if run.error:
        ctx.count(f"basm:refused:{fam}:{run.error}")
        ctx.case(strip(case), nontrivial=False)
        return
    b, cx = run.builder, run.context
    try:
        raw0 = run.body.to_cbor()
    except Exception as e:  # noqa: BLE001  (C08's business: a body pycardano itself refuses to write)
        ctx.count("basm:unserializable:" + type(e).__name__)
        ctx.case(strip(case), nontrivial=False)
        return
    ctx.count(f"basm:built:{fam}")
    pre = getattr(run, "basm_pre", None)
    st0 = dump_state(b, cx)
    W0 = {**wire_view(raw0), "_raw": raw0.hex()}
    populate_counts(ctx, W0, st0, pre)
    oracle(ctx, case, "built", b, st0, W0)
    if pre is not None:
        auto_expectations(ctx, case, case["sc"], pre, W0)
    balance_check(ctx, case, case["sc"], W0)
    correspond(ctx, case, "built", st0, W0, case["sc"])
    # -- the tail of build(): model vs the state after build()
    if pre is not None and ctx.have_driver():
        bargs = case["sc"].get("build", {})
        sel = list(reversed(st0["inputs"]))
        m = ctx.driver().ok({"op": "basm.finalize", "state": {**st0, "inputs": [], "ttl": pre["ttl"], "validity_start": pre["validity_start"],
                                                               "required_signers": pre["required_signers"], "collaterals": pre["collaterals"]},
                             "selected": sel, "is_smart": pre["is_smart"], "slot": str(int(case["sc"].get("slot", 2000))),
                             "off_start": opt(bargs.get("auto_validity_start_offset")), "off_ttl": opt(bargs.get("auto_ttl_offset")),
                             "auto_signers": bargs.get("auto_required_signers")})
        ctx.traces += 1
        mod = {"inputs": [[t, int(i)] for t, i in m["inputs"]], "ttl": m["ttl"], "validity_start": m["validity_start"],
               "required_signers": None if m["required_signers"] is None else sorted(m["required_signers"])}
        impl = {"inputs": [[r[0][0], int(r[0][1])] for r in st0["inputs"]], "ttl": st0["ttl"], "validity_start": st0["validity_start"],
                "required_signers": None if st0["required_signers"] is None else sorted(st0["required_signers"])}
        if mod != impl:
            ctx.diff("basm.finalize", strip(case), mod, impl)
    # -- again, and on a deep copy
    try:
        raw1 = b._build_tx_body().to_cbor()
    except Exception as e:  # noqa: BLE001
        raw1 = ("raises " + S.classify(e)).encode()
    if raw1 != raw0:
        ctx.violation("[again] `_build_tx_body()` on the returned builder gives other bytes than the body `build()` returned",
                      strip(case), raw0.hex(), raw1.hex())
    if dump_state(b, cx) != st0:
        ctx.violation("[again] `_build_tx_body()` changed the state it reads", strip(case), "state unchanged", "changed")
    try:
        rawc = deep_copy_builder(b, cx, ctx)._build_tx_body().to_cbor()
        if normalized(wire_view(rawc)) != normalized(W0):
            ctx.violation("[deep copy] the body assembled from a deep copy of the builder differs from the body of the builder itself",
                          strip(case), raw0.hex(), rawc.hex())
        ctx.count("basm:deep-copy:" + ("same-bytes" if rawc == raw0 else "same-content-other-set-order"))
    except Exception as e:  # noqa: BLE001
        ctx.count("basm:deep-copy-raises:" + type(e).__name__)
    # -- the method as a function of the state: perturb, assemble, compare and judge again
    for j, plist in enumerate(case.get("perturb", [])):
        try:
            for q in plist:
                apply_perturb(b, cx, q)
                ctx.count("basm:perturb:" + q["p"] + (":" + q["v"] if isinstance(q.get("v"), str) and q["p"] != "op" else ""))
        except Exception as e:  # noqa: BLE001  (a setter refusing the value: nothing to assemble)
            ctx.count("basm:perturb-refused:" + type(e).__name__)
            break
        try:
            st = dump_state(b, cx)
        except Exception as e:  # noqa: BLE001
            ctx.count("basm:perturbed-state-undumpable:" + type(e).__name__)
            break
        try:
            raw = b._build_tx_body().to_cbor()
        except Exception as e:  # noqa: BLE001
            ctx.count("basm:perturbed-body-refused:" + type(e).__name__)
            continue
        W = {**wire_view(raw), "_raw": raw.hex()}
        stage = f"perturbed#{j}"
        oracle(ctx, case, stage, b, st, W)
        correspond(ctx, case, stage, st, W, case["sc"])
        ctx.count("basm:perturbed-bodies")
    ctx.case(strip(case))


# ---- witnesses of the `_counterexample` theorems -----------------------------------------------------------------------------------------
def check_witness(ctx, case):
    base = {"utxos": [C10.utxo("a0", "k0", 50_000_000), C10.utxo("a1", "k0", 7_000_000)], "address_utxos": {},
            "ops": [{"op": "add_input", "u": "a0"}, {"op": "add_output", "addr": "k1", "coin": 2_000_000}],
            "build": {"change": "k0", "selectors": [["largest"]]}}
    w = case["w"]
    cx = S.StubContext(base)
    b = TransactionBuilder(cx)
    b.add_input(cx.utxo_objs["a0"])
    b.add_output(S.mk_output({"addr": "k1", "coin": 2_000_000}))
    if w == "empty-mint":
        b.mint = MultiAsset()
    elif w == "zero-mint":
        b.native_scripts = [S.native_script(["pk", "k7"])]
        b.mint = S.multi_asset([[["pk", "k7"], "61", 0]])
    elif w == "empty-certificates":
        b.certificates = []
    elif w == "empty-withdrawals":
        b.withdrawals = Withdrawals()
    elif w == "reference-also-spent":
        b.reference_inputs.add(cx.utxo_objs["a0"])
    elif w == "same-utxo-twice":
        b.inputs.append(cx.utxo_objs["a0"])
    try:
        body = b.build(change_address=S.address("k0"))
        raw = body.to_cbor()
    except Exception as e:  # noqa: BLE001  (the model assembles a body from this state)
        ctx.diff("basm.witness", strip(case), "a body is assembled (theorem *_counterexample)", S.classify(e))
        ctx.case(strip(case), nontrivial=False)
        return
    W = {**wire_view(raw), "_raw": raw.hex()}
    st = dump_state(b, cx)
    correspond(ctx, {**case, "sc": base}, "witness", st, W, base)
    key = {"empty-mint": 9, "zero-mint": 9, "empty-certificates": 4, "empty-withdrawals": 5}.get(w)
    if key is not None:
        written = key in W["keys"]
        ctx.count(f"basm:witness:{w}:" + ("empty field written (key %d)" % key if written else "field omitted"))
    elif w == "reference-also-spent":
        both = {tuple(r) for r in W["reference_inputs"] or []} & {tuple(r) for r in W["inputs"]}
        ctx.count(f"basm:witness:{w}:" + ("in both sets" if both else "kept apart"))
    elif w == "same-utxo-twice":
        (cc, _), (pc_, _) = L.balance(L.Body(raw), bgen.utxo_map(base), 2_000_000, 500_000_000, False)
        ctx.count(f"basm:witness:{w}:body-inputs={len(W['inputs'])}:state-inputs={len(st['inputs'])}:consumed-produced={cc - pc_}")
    ctx.case(strip(case), nontrivial=False)


# ---- generators ------------------------------------------------------------------------------------------------------------------------------
NS_REF = ["all", [["pk", "k5"], ["pk", "k6"]]]
MINT_NS = ["any", [["pk", "k6"], ["pk", "k7"]]]
TOK = "b0" * 28


def gen_full(rng, force=None):
    """every knob of the body in one family; `force` pins the features (corpus)"""
    f = force or {}

    def on(name, p):
        return f[name] if name in f else (rng.random() < p and not f.get("_only"))
    U = C10.utxo
    utxos = [U("a0", "k0", 20_000_000_000), U("a1", "k0+s1", 30_000_000, assets=[[TOK, "74", "50"], [TOK, "", "3"]]),
             U("a2", "k1", 12_000_000), U("a3", "k2", 9_000_000), U("c0", "k4", 10_000_000), U("c1", "k5+s2", 8_000_000),
             U("w0", "k0", 60_000_000), U("w1", "k0", 45_000_000),
             U("r0", "k6", 3_000_000, script=NS_REF), U("r1", "k6", 3_100_000, script="p2:basm"),
             U("r2", "k0", 4_000_000, script=MINT_NS), U("r3", "k3", 2_500_000),
             U("p0", ["script", "p2:basm"], 9_000_000, datum_hash=7), U("n0", ["script", NS_REF], 6_000_000)]
    sc = {"utxos": utxos, "address_utxos": {"k0": ["w0", "w1"]}, "build": {"change": "k0", "selectors": [["largest"]]},
          "slot": rng.choice([0, 999, 1000, 2000, 123456789]), "params": dict(rng.choice(bgen.PARAM_SETS[:2]))}
    ops = [{"op": "add_input", "u": "a0"}]
    feats = []
    for u in ("a1", "a2", "a3"):
        if on("in:" + u, 0.35):
            ops.append({"op": "add_input", "u": u})
    if on("select", 0.25):
        ops.append({"op": "add_input_address", "a": "k0"})
        ops.append({"op": "add_output", "addr": "k2", "coin": 20_005_000_000})
        feats.append("selection")
    for _ in range(rng.choice([1, 1, 2, 3])):
        o = {"op": "add_output", "addr": rng.choice(["k1", "k2", "k1+s1"]), "coin": rng.choice([1_500_000, 2_000_000, 2**32, 7_777_777] if "selection" not in feats else [1_500_000, 2_000_000])}
        r = rng.random()
        if r < 0.15:
            o["datum_hash"] = rng.choice([0, 7])
        elif r < 0.3:
            o.update(inline_datum=rng.choice([5, ["bytes", "00ff"]]), post_alonzo=True)
        elif r < 0.4:
            o["script"] = rng.choice(["p3:held", NS_REF])
        elif r < 0.5:
            o["post_alonzo"] = True
        ops.append(o)
    if on("ttl", 0.4):
        ops.append({"op": "ttl", "v": rng.choice(BOUND)})
        feats.append("ttl-given")
    if on("validity_start", 0.3):
        ops.append({"op": "validity_start", "v": rng.choice(BOUND[:9])})
        feats.append("validity-start-given")
    if on("auto_offsets", 0.25):
        if rng.random() < 0.7:
            sc["build"]["auto_ttl_offset"] = rng.choice([0, 1, 777, -5000])
        if rng.random() < 0.7:
            sc["build"]["auto_validity_start_offset"] = rng.choice([0, -1, -5000, 10])
        feats.append("auto-offsets")
    if on("mint", 0.4):
        ops += [{"op": "native_script", "script": MINT_NS}] if not on("mint_ref", 0.4) else \
            [{"op": "minting_script", "script_in": "ref", "ref_utxo": "r2"}]
        ops.append({"op": "mint", "assets": [[MINT_NS, rng.choice(["", "6d"]), rng.choice([1, 7, 2**40])]]})
        feats.append("mint")
    if on("burn", 0.25) and {"op": "add_input", "u": "a1"} in ops:
        ops.append({"op": "mint", "assets": [[TOK, "74", -rng.randint(1, 50)]]})
        feats.append("burn")
    for s in rng.sample(["s1", "s2", "s3", "s4"], f.get("n_wd", rng.choice([0, 0, 1, 1, 2, 3]) if not f.get("_only") else 0)):
        ops.append({"op": "withdraw", "stake": s, "amount": rng.choice([0, 1, 10_000, 3_000_000, 2**32])})
    seen = set()
    for _ in range(f.get("n_cert", rng.choice([0, 0, 1, 2, 3]) if not f.get("_only") else 0)):
        c = bgen.gen_cert(rng)
        if (c["kind"], c["cred"]) in seen:
            continue
        seen.add((c["kind"], c["cred"]))
        if rng.random() < 0.15:
            c = {"op": "c10_committee", "kind": rng.choice(["auth_hot", "resign_cold"]), "cred": rng.choice(["s1", "s2"])}
        ops.append(c)
    if on("pool_initial", 0.1):
        ops.append({"op": "pool_initial"})
    if on("signers", 0.3):
        for k in [rng.choice(["k1", "k5", "x1", "s2"]) for _ in range(rng.choice([1, 2, 3]))]:
            ops.append({"op": "required_signer", "key": k})
        feats.append("signers-given")
    if on("plutus", 0.35):
        how = f.get("plutus_how") or rng.choice(["witness", "ref"])
        o = {"op": "script_input", "u": "p0", "script_in": how, "script": "p2:basm", "datum": 7,
             "redeemer": {"data": rng.choice([1, ["constr", 0, [5]]]), "units": [rng.randint(1000, 90000), rng.randint(1000, 9000000)]}}
        if how == "ref":
            o["ref_utxo"] = "r1"
        ops.append(o)
        feats.append("plutus-" + how)
        if on("collateral", 0.5):
            for u in rng.sample(["c0", "c1"], rng.choice([1, 2])):
                ops.append({"op": "collateral", "u": u})
            feats.append("collateral-given")
        if "auto_signers" in f or rng.random() < 0.3:
            sc["build"]["auto_required_signers"] = f.get("auto_signers", rng.choice([True, False]))
    if on("native_input", 0.2):
        if on("native_ref", 0.6):
            ops.append({"op": "script_input", "u": "n0", "script_in": "ref", "ref_utxo": "r0"})
            feats.append("reference-script")
        else:
            ops.append({"op": "script_input", "u": "n0", "script_in": "witness", "script": NS_REF})
    if on("ref_explicit", 0.3):
        for u in rng.sample(["r3", "r0", "a3", "c1"], rng.choice([1, 2])):
            ops.append({"op": "basm_ref", "u": u, "as": rng.choice(["utxo", "input"])})
        feats.append("reference-explicit")
    if on("ref_spent", 0.15):
        # a UTxO that carries a reference script (or is referenced explicitly) is ALSO one of the spent inputs
        ops.append({"op": "add_input", "u": "r2"})
        if not any(o.get("ref_utxo") == "r2" for o in ops):
            ops.append({"op": "basm_ref", "u": "r2", "as": rng.choice(["utxo", "input"])})
        feats.append("reference-also-spent")
    if on("aux", 0.5):
        era = f.get("era") or rng.choice(["shelley", "ma", "alonzo"])
        o = {"op": "basm_aux", "era": era, "label": rng.choice([0, 23, 24, 674, 65536]), "value": "m" * rng.choice([0, 1, 23, 24, 60])}
        if era != "shelley" and rng.random() < 0.5:
            o["native"] = [["pk", "k7"]]
        if era == "alonzo" and rng.random() < 0.3:
            o["plutus"] = ["p2:auxs"]
        ops.append(o)
        feats.append("aux-" + era)
    if on("votes", 0.3):
        for n in range(rng.choice([1, 2, 3])):
            ops.append({"op": "vote", "cred": rng.choice(["k4", "s2", "x1"]), "type": rng.choice(["drep", "pool", "cc"]), "n": n})
        feats.append("votes")
    if on("proposals", 0.25):
        for _ in range(rng.choice([1, 2])):
            ops.append({"op": "proposal", "deposit": rng.choice([1_000_000, 100_000_000]), "stake": rng.choice(["s1", "s3"]),
                        "action": rng.choice(["info", "noconf"])})
        feats.append("proposals")
    if on("donation", 0.25):
        ops.append({"op": "donation", "amount": rng.choice([1, 700_000, 5_000_000])})
        feats.append("donation")
    if on("treasury", 0.25):
        ops.append({"op": "treasury_value", "amount": rng.choice([0, 1, 1_234_567, 2**63 - 1])})
        feats.append("treasury")
    if on("merge", 0.2):
        sc["build"]["merge_change"] = True
        ops.append({"op": "add_output", "addr": "k0", "coin": rng.choice([0, 2_000_000])})
    sc["ops"] = ops
    return sc, feats


def gen_case(rng, i):
    fam = ("full", "value", "full", "script", "full", "c10", "value", "full")[i % 8]
    feats = []
    if fam == "value":
        sc = bgen.gen_value_scenario(rng)
    elif fam == "script":
        sc = P.gen(rng)
        sc.pop("x", None)
        sc.pop("sign", None)
    elif fam == "c10":
        sc = C10.gen_tx(rng)["sc"]
        sc.pop("sign", None)
        sc["ops"] = [o for o in sc["ops"] if o["op"] != "c10_spy"]
    else:
        sc, feats = gen_full(rng)
    ops = sc["ops"]
    if fam != "full":
        # knobs the borrowed generators do not turn
        if rng.random() < 0.3 and not any(o["op"] == "ttl" for o in ops):
            ops.append({"op": "ttl", "v": rng.choice(BOUND)})
        if rng.random() < 0.2 and not any(o["op"] == "validity_start" for o in ops):
            ops.append({"op": "validity_start", "v": rng.choice(BOUND[:8])})
        if rng.random() < 0.3 and not any(o["op"] in ("metadata", "basm_aux") for o in ops):
            ops.append({"op": "basm_aux", "era": rng.choice(["shelley", "ma", "alonzo"]), "label": rng.choice([0, 674, 65536]),
                        "value": "v" * rng.choice([0, 5, 64])})
        if rng.random() < 0.15 and not any(o["op"] == "treasury_value" for o in ops):
            ops.append({"op": "treasury_value", "amount": rng.choice([0, 1, 10**12])})
        if rng.random() < 0.2:
            ops.append({"op": "basm_ref", "u": rng.choice(sc["utxos"])["id"], "as": rng.choice(["utxo", "input"])})
        if rng.random() < 0.15:
            sc.setdefault("build", {})["auto_ttl_offset"] = rng.choice([0, 1, 777])
        if rng.random() < 0.1:
            sc.setdefault("build", {})["auto_required_signers"] = rng.choice([True, False])
    sc.setdefault("build", {}).setdefault("pyseed", rng.randrange(2**32))
    perturb = [gen_perturb(rng, sc) for _ in range(rng.choice([1, 2, 2, 3]))]
    return {"ext": EXT, "kind": "scen", "family": fam, "features": feats, "sc": sc, "perturb": perturb}


def corpus():
    out = []
    r = random.Random("bodyasm/corpus")
    only = {"_only": True}
    forced = [
        {**only, "ttl": True, "validity_start": True},
        {**only, "auto_offsets": True},
        {**only, "mint": True, "mint_ref": False, "in:a1": True, "burn": True},
        {**only, "mint": True, "mint_ref": True},
        {**only, "n_wd": 1},
        {**only, "n_wd": 3, "n_cert": 3},
        {**only, "signers": True},
        {**only, "plutus": True, "plutus_how": "witness", "collateral": True, "auto_signers": True},
        {**only, "plutus": True, "plutus_how": "ref", "collateral": False},
        {**only, "plutus": True, "plutus_how": "witness", "collateral": False, "auto_signers": False},
        {**only, "native_input": True, "native_ref": True, "ref_explicit": True},
        {**only, "ref_spent": True, "mint": True, "mint_ref": True},
        {**only, "aux": True, "era": "shelley"}, {**only, "aux": True, "era": "ma"}, {**only, "aux": True, "era": "alonzo"},
        {**only, "votes": True, "proposals": True, "donation": True, "treasury": True},
    ]
    for i, f in enumerate(forced):
        sc, feats = gen_full(r, force=f)
        sc["build"]["pyseed"] = 7
        out.append({"ext": EXT, "kind": "scen", "family": "corpus", "features": feats, "sc": sc,
                    "perturb": [gen_perturb(r, sc), [{"p": "aux", "v": "extend", "label": 4242, "value": "attached later"}],
                                [{"p": "ref", "v": "spent"}, {"p": "input", "v": "dup"}]]})
    # every certificate kind once (the body moves certificates; their deposits enter the balance)
    for k in bgen.CERT_KINDS:
        sc, feats = gen_full(r, force=only)
        c = {"op": "cert", "kind": k, "cred": "s2"}
        if k in ("reg_conway", "dereg_conway", "reg_deleg", "reg_vote_deleg", "reg_deleg_vote", "reg_drep", "unreg_drep"):
            c["coin"] = 2_000_000
        sc["ops"].append(c)
        out.append({"ext": EXT, "kind": "scen", "family": "corpus", "features": ["cert:" + k], "sc": sc, "perturb": []})
    for w in ("empty-mint", "zero-mint", "empty-certificates", "empty-withdrawals", "reference-also-spent", "same-utxo-twice"):
        out.append({"ext": EXT, "kind": "witness", "w": w})
    return out


def dispatch(ctx, case):
    if case.get("kind") == "witness":
        check_witness(ctx, case)
    else:
        check_scen(ctx, case)


def run_ext(ctx):
    ctx.rule += (" | ext bodyasm: built scenarios of four families (bgen value scenarios; plutus_scen script scenarios; c10 "
                 "certificate / vote / proposal scenarios; `full`: every body field given, automatic or absent, reference inputs "
                 "explicit / through reference scripts / also spent, auxiliary data of each era) — state dumped from the builder, "
                 "body decoded from its bytes by the independent reader, `buildBody` on the dump vs the decoded body field by "
                 "field, the property judged on the implementation, second call, deep copy, and 1-3 random perturbations of the "
                 "finished builder each assembled, compared and judged again")
    ctx.assumptions.append("bodyasm: the leaves the method only moves (outputs, certificates, proposals, voters and votes, auxiliary "
                           "data) are compared as the bytes of their own `to_cbor()`; their codecs are C01 / C04's concern")
    ctx.assumptions.append("bodyasm: OrderedSet identifies elements by (type, str(item)); for TransactionInput and VerificationKeyHash "
                           "this is equality of content (the model's `oset` uses equality)")
    ctx.extra.setdefault("trusted", []).append("bodyasm: ref/cbor_ref.py + ref/ledger_ref.py read the body bytes (keys, slices, sets)")
    for c in corpus():
        dispatch(ctx, c)
    for i in range(ctx.budget(40, 2500)):
        dispatch(ctx, gen_case(random.Random(f"C06/{ctx.seed}/bodyasm/{i}"), i))


def replay_ext(ctx, case):
    dispatch(ctx, case)
