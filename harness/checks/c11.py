"""C11 — redeemers point at the items they unlock; scripts and datums are supplied.

Direct evaluation: every generated scenario (vlib/plutus_scen.py) is built and signed by pycardano; the transaction
BYTES are decoded with the independent reader (ref/cbor_ref.py, ref/ledger_ref.py) and judged against the scenario:
each attached redeemer (recognised by the marker integer inside its data) must sit under (purpose, rank of its item
in the ledger's order of the body field), every needed script hash (hashlib) must be available exactly once, every
datum supplied for a hash-locked input must be in witness key 4, the automatic validity interval must contain the slot.
Correspondence: the Lean model (`rd.build`: the add_* calls, input sort, `_set_redeemer_index`, witness partition;
`ranks`) against the builder's redeemer objects, inputs and witness set."""
from __future__ import annotations

import copy

from ref import cbor_ref as R
from vlib import plutus_scen as P
from vlib import scenario as S

TAG = {"spend": 0, "mint": 1, "cert": 2, "reward": 3}
CERT_NEEDS_SCRIPT = {1, 2, 8, 9, 10, 11, 12, 13}


def strip(sc):
    """the case as recorded / replayed (the scenario is already plain JSON)"""
    return sc


def ledger_account_key(a: bytes):
    """order of `Map RewardAccount Coin` in the ledger (derived Ord): network, then ScriptHashObj < KeyHashObj, then hash"""
    return (a[0] & 0x0F, 0 if a[0] & 0x10 else 1, a[1:])


BOOKKEEPING = {"_set_redeemer_index", "redeemers", "build_witness_set", "all_scripts", "scripts", "script_data_hash",
               "add_script_input", "add_minting_script", "add_withdrawal_script", "add_certificate_script"}


def in_plutus_bookkeeping(exc):
    tb = exc.__traceback__
    while tb is not None:
        if tb.tb_frame.f_code.co_name in BOOKKEEPING and tb.tb_frame.f_code.co_filename.endswith("txbuilder.py"):
            return True
        tb = tb.tb_next
    return False


def judge(ctx, sc, run):
    """the property itself, on the transaction bytes"""
    x, cx = sc["x"], run.context
    try:
        tv = P.TxView(run.tx.to_cbor())
    except Exception as e:       # the independent reader cannot make sense of the bytes
        ctx.violation("built transaction cannot be read back by the independent decoder: " + repr(e)[:200], strip(sc),
                      "a well-formed transaction", run.tx.to_cbor().hex()[:400])
        return None, False
    body = tv.body
    expected = {}          # (tag, index) -> marker
    needed = {}            # script hash -> description
    problems = []

    def bad(what, exp=None, act=None):
        problems.append(what)
        ctx.violation(what, strip(sc), exp, act)

    for a in x["attach"]:
        h = P.spec_hash(a["script"])
        needed[h] = a
        key = None
        if a["kind"] == "spend":
            u = cx.utxo_objs[a["u"]]
            ref = (bytes(u.input.transaction_id.payload), int(u.input.index))
            if ref not in tv.sorted_inputs:
                bad(f"script input {a['u']} is not among the inputs of the body", ref[0].hex(), body.inputs)
                continue
            key = (0, sum(1 for i in tv.sorted_inputs if i < ref))
            ctx.count(f"spend-rank:{min(key[1], 6)}")
        elif a["kind"] == "mint":
            if h not in tv.policies:
                bad("minting policy of an attached script is not in the body's mint", h.hex(), [p.hex() for p in tv.policies])
                continue
            key = (1, sum(1 for p in tv.policies if p < h))
            ctx.count(f"mint-rank:{key[1]}")
        elif a["kind"] == "reward":
            acct = bytes([0xf0 | int(S.NET.value)]) + h        # script reward account on the scenario's network
            if acct not in tv.accounts:
                bad("reward account of an attached script is not among the withdrawals", acct.hex(), [k.hex() for k in tv.accounts])
                continue
            key = (3, sum(1 for k in tv.accounts if k < acct))       # byte order of ALL withdrawal keys
            ctx.count(f"reward-rank:{key[1]}")
            if x.get("mixed_wd"):
                led = sum(1 for k in tv.accounts if ledger_account_key(k) < ledger_account_key(acct))
                ctx.count("mixed-withdrawals:byte-rank==ledger-Ord-rank" if led == key[1]
                          else "mixed-withdrawals:byte-rank!=ledger-Ord-rank")
        elif a["kind"] == "cert":
            key = (2, a["pos"])
            if a["pos"] >= len(body.certs):
                bad("certificate position beyond the certificates of the body", a["pos"], len(body.certs))
                continue
        if "marker" in a:
            if key in expected:
                ctx.count("two-attachments-one-item")      # e.g. two certificate scripts for one certificate
            expected.setdefault(key, []).append(a["marker"])
            ctx.count("tag:" + a["kind"])
        ctx.count(f"loc:{a['kind']}:{a['loc']}")
        ctx.count("lang:" + P.spec_kind(a["script"], a.get("raw")))

    # ---- redeemers: purpose and index designate the item
    found = {}
    for key, lst in tv.redeemers.items():
        for data, mem, steps in lst:
            found.setdefault(key, []).extend(P.find_markers(data) or [None])
    exp_cmp = {f"{k[0]}:{k[1]}": sorted(v) for k, v in expected.items()}
    got_cmp = {f"{k[0]}:{k[1]}": sorted(v, key=lambda m: (m is None, m)) for k, v in found.items()}
    if exp_cmp != got_cmp:
        # includes the two repaired defects (were KF-C11-duplicate-input, KF-C11-zero-mint-policy): a UTxO added more than
        # once, or a stored mint policy without a non-zero quantity, must not shift any index
        bad("redeemer purpose/index does not designate the item it was attached to "
            "(map '<tag>:<index>' -> marker of the attachment)", exp_cmp, got_cmp)
    if x.get("dup_input"):
        n_add = sum(1 for o in sc["ops"] if o["op"] == "add_input" and o["u"] == x["dup_input"])
        n_scr = sum(1 for o in sc["ops"] if o["op"] == "x_script_input" and o["u"] == x["dup_input"])
        ctx.count("variant:same-utxo-added-again:" + ("add_input-twice" if n_add > 1 else "add_script_input-twice" if n_scr > 1
                                                      else "add_input+add_script_input"))
        du = cx.utxo_objs[x["dup_input"]]
        dref = (bytes(du.input.transaction_id.payload), int(du.input.index))
        if any(dref < r for r in tv.sorted_inputs if any(
                a["kind"] == "spend" and "marker" in a and tuple(P.utxo_ref(cx, a["u"])) == (r[0].hex(), r[1]) for a in x["attach"])):
            ctx.count("variant:same-utxo-added-again:sorts-before-a-script-input")
        if len(run.builder.inputs) != len(tv.sorted_inputs):
            bad("builder.inputs names a UTxO more than once after build (hidden by the body's set, counted twice in the change)",
                len(tv.sorted_inputs), len(run.builder.inputs))
    if x.get("zero_mint"):
        ctx.count("variant:zero-quantity-mint-policy")
        zs = [P.spec_hash(z) for z in x["zero_mint"]]
        if any(z in tv.policies for z in zs):
            bad("a stored policy without a non-zero quantity is in the body's mint", [], [z.hex() for z in zs if z in tv.policies])
        if any(z < P.spec_hash(a["script"]) for z in zs for a in x["attach"] if a["kind"] == "mint" and "marker" in a):
            ctx.count("variant:zero-quantity-mint-policy:sorts-before-an-attached-policy")
    if tv.red_form is not None:
        ctx.count("redeemers:" + tv.red_form)

    # ---- scripts: every needed hash available exactly once
    body_needed = set()
    for t, i in tv.sorted_inputs:
        for uid, u in cx.utxo_objs.items():
            if bytes(u.input.transaction_id.payload) == t and int(u.input.index) == i:
                addr = bytes(u.output.address)
                if (addr[0] >> 4) in (1, 3, 5, 7):
                    body_needed.add(addr[1:29])
    body_needed |= set(tv.policies)
    body_needed |= {k[1:] for k in tv.accounts if k[0] & 0x10}
    for c in body.certs:
        if c[0] in CERT_NEEDS_SCRIPT and isinstance(c[1], list) and c[1][0] == 1:
            body_needed.add(c[1][1])
    if set(needed) - body_needed:
        bad("an attached script is not needed by the body (attachment lost its item)",
            sorted(h.hex() for h in needed), sorted(h.hex() for h in body_needed))
    provided = {}
    by_ref = {(bytes(u.input.transaction_id.payload).hex(), int(u.input.index)): uid for uid, u in cx.utxo_objs.items()}
    for ref in list(body.reference_inputs) + list(body.inputs):
        uid = by_ref.get(ref)
        if uid is None:
            continue
        s = P.utxo_script(cx, uid)
        if s is not None:
            provided.setdefault(s[1], set()).add(ref)
    for h in sorted(body_needed):
        w = len(tv.wit_scripts.get(h, []))
        p = 1 if h in provided else 0
        if w + p != 1:
            a = needed.get(h, {})
            bad(f"needed script {h.hex()} ({a.get('kind')}, {a.get('loc')}) is available {w} time(s) in the witness set and "
                f"{'also ' if w else ''}{'through' if p else 'not through'} a reference/spent input", 1, w + p)
        elif w == 1 and h in needed:
            spec = needed[h]["script"]
            want = 0 if not isinstance(spec, str) else int(spec[1])
            if tv.wit_scripts[h][0] != want:
                bad("script is in the witness set under another language", want, tv.wit_scripts[h][0])
    if set(body.reference_inputs) & set(body.inputs):
        ctx.count("reference-input-also-spent")

    # ---- datums of hash-locked inputs
    for a in x["attach"]:
        if a["kind"] == "spend" and a.get("datum_mode") == "hash":
            dh = bytes(cx.utxo_objs[a["u"]].output.datum_hash.payload)
            ctx.count("datum:hash")
            if dh not in tv.datum_hashes:
                bad(f"datum supplied for hash-locked input {a['u']} is not in the witness set", dh.hex(),
                    [d.hex() for d in tv.datum_hashes])
        elif a["kind"] == "spend" and "datum_mode" in a:
            ctx.count("datum:" + a["datum_mode"])

    # ---- validity interval
    user_set = any(o["op"] in ("ttl", "validity_start") for o in sc["ops"])
    smart = bool(x["attach"])
    slot = int(sc.get("slot", 2000))
    if smart and not user_set:
        if body.validity_start is None or body.ttl is None or not (body.validity_start <= slot <= body.ttl):
            bad("automatically set validity interval does not contain the current slot", f"start <= {slot} <= ttl",
                [body.validity_start, body.ttl])
        else:
            bo = sc["build"]
            exp = [max(0, slot + bo.get("auto_validity_start_offset", -1000)), max(0, slot + bo.get("auto_ttl_offset", 10000))]
            if [body.validity_start, body.ttl] != exp:
                bad("automatic validity interval is not [slot + start offset, slot + ttl offset]", exp, [body.validity_start, body.ttl])
        ctx.count("validity:auto")
    return tv, not problems


def correspond(ctx, sc, run, tv):
    """Lean model vs implementation on the same calls"""
    if not ctx.have_driver():
        return
    b = run.builder
    req = P.model_request(sc, run)
    m = ctx.driver().ok(req)
    ctx.traces += 1
    if "error" in m:
        ctx.diff("rd.build", strip(sc), m, "implementation built the transaction")
        return
    impl_reds = [[str(r.tag.value), str(r.index), P.data_cbor(r.data).hex(), str(r.ex_units.mem), str(r.ex_units.steps)]
                 for r in b._redeemer_list]
    impl = {"inputs": [[bytes(i.input.transaction_id.payload).hex(), str(int(i.input.index))] for i in b.inputs],
            "redeemers": impl_reds, **P.impl_witness_hashes(run.tx),
            "ref_inputs": sorted([t, str(i)] for t, i in tv.body.reference_inputs),
            "smart": bool(b.all_scripts)}
    model = {k: m[k] for k in ("inputs", "redeemers", "native", "v1", "v2", "v3")}
    model["ref_inputs"] = sorted(m["ref_inputs"])
    model["smart"] = m["smart"]
    if model != impl:
        ctx.diff("rd.build", strip(sc), model, impl)
    # the `ranks` op on what the body finally contains
    cx = run.context
    att = [a for a in sc["x"]["attach"] if "marker" in a]
    rq = {"op": "ranks", "net": str(int(S.NET.value)),
          "inputs": [[bytes(i.input.transaction_id.payload).hex(), str(int(i.input.index))] for i in b.inputs],
          "mint": [[bytes(p.payload).hex(), [[bytes(n.payload).hex(), str(int(q))] for n, q in a.items()]]
                   for p, a in (b.mint or {}).items()],
          "wdrl": [bytes(k).hex() for k in (b.withdrawals or {})],
          "spend": [P.utxo_ref(cx, a["u"]) for a in att if a["kind"] == "spend"],
          "mintq": [P.spec_hash(a["script"]).hex() for a in att if a["kind"] == "mint"],
          "rewardq": [P.spec_hash(a["script"]).hex() for a in att if a["kind"] == "reward"]}
    rk = ctx.driver().ok(rq)
    ctx.traces += 1
    by_marker = {}
    for r in b._redeemer_list:
        for mk in P.find_markers(R.dec(P.data_cbor(r.data))):
            by_marker[mk] = r
    def idx(a):
        return str(by_marker[a["marker"]].index) if a["marker"] in by_marker else None
    impl_rk = {"spend": [idx(a) for a in att if a["kind"] == "spend"],
               "mint": [idx(a) for a in att if a["kind"] == "mint"],
               "reward": [idx(a) for a in att if a["kind"] == "reward"]}
    if {k: rk[k] for k in impl_rk} != impl_rk:
        ctx.diff("ranks", strip(sc), {k: rk[k] for k in impl_rk}, impl_rk)


def evaluate(ctx, sc):
    run = S.run(copy.deepcopy(sc))
    x = sc["x"]
    if run.error is not None:
        ctx.count("refused:" + run.error + "@" + str(run.error_stage))
        if run.error_stage == "ops" and ctx.have_driver():
            # a refused call (mixed supplied / missing execution units): the model must refuse the calls too
            cx = run.context
            m = ctx.driver().ok({"op": "rd.build", "net": str(int(S.NET.value)), "ops": P.model_ops(sc, cx), "selected": [], "ev": [],
                                 "use_map": True, "remove_dup": True, "carried": [], "cost_models": [], "dflt": "a0"})
            ctx.traces += 1
            if m.get("error") != "ops":
                ctx.diff("rd.build:refusal", strip(sc), m, "implementation refused a call: " + run.error)
        elif (run.error.startswith("crash") or run.error in ("value-error", "assert")) and in_plutus_bookkeeping(run.exc):
            # an undeclared exception out of the index / script / redeemer bookkeeping on a well-formed scenario
            ctx.violation("building a well-formed Plutus scenario raises " + type(run.exc).__name__ + ": " + str(run.exc)[:200],
                          strip(sc), "a transaction", run.error)
        ctx.skipped += 1
        ctx.case(strip(sc), nontrivial=False)
        return
    tv, ok = judge(ctx, sc, run)
    if tv is None:
        ctx.case(strip(sc))
        return
    correspond(ctx, sc, run, tv)
    n_in = len(tv.body.inputs)
    ctx.count(f"inputs:{min(n_in, 8)}")
    ctx.count("units:" + ("evaluated" if x["estimate"] else "supplied"))
    sel = n_in - len({o["u"] for o in sc["ops"] if o["op"] in ("add_input", "x_script_input")})
    ctx.count("selected-extra-inputs:" + ("yes" if sel > 0 else "no"))
    ctx.count("script-inputs:%d" % sum(1 for a in x["attach"] if a["kind"] == "spend"))
    ctx.count("policies:%d" % sum(1 for a in x["attach"] if a["kind"] == "mint"))
    ctx.count("script-withdrawals:%d" % sum(1 for a in x["attach"] if a["kind"] == "reward"))
    ctx.count("cert-scripts:%d" % sum(1 for a in x["attach"] if a["kind"] == "cert"))
    ctx.case(strip(sc), nontrivial=len(x["attach"]) > 0)


def corpus(rng_seed="corpus"):
    """scenarios that force each mechanism (found in every seed)"""
    import random
    out = []
    forces = [
        {"n_si": 4, "n_key": 3, "n_mint": 0, "n_wd": 0, "n_cert": 0, "select": True},
        {"n_si": 3, "n_key": 2, "n_mint": 3, "n_wd": 2, "n_cert": 3, "select": True, "estimate": True},
        {"n_si": 2, "n_key": 1, "n_mint": 3, "n_wd": 2, "n_cert": 2, "select": False, "estimate": False, "use_list": True},
        {"n_si": 0, "n_key": 1, "n_mint": 3, "n_wd": 2, "n_cert": 0, "select": True, "versions": [1, 2, 3]},
        {"n_si": 1, "n_key": 0, "n_mint": 0, "n_wd": 2, "n_cert": 3, "select": False, "mixed_wd": True},
        {"n_si": 4, "n_key": 0, "n_mint": 2, "n_wd": 0, "n_cert": 1, "select": True, "versions": [3]},
        # regressions of the two repaired defects (were KF-C11-duplicate-input, KF-C11-zero-mint-policy): a UTxO added more
        # than once — add_input twice, add_input + add_script_input, add_script_input twice with another redeemer — and a
        # stored mint policy whose only quantity is 0; every index must still be the rank in the body
        {"n_si": 2, "n_key": 2, "n_mint": 0, "n_wd": 0, "n_cert": 0, "select": False, "dup_input": True},
        {"n_si": 3, "n_key": 1, "n_mint": 0, "n_wd": 0, "n_cert": 0, "select": True, "dup_input": "script"},
        {"n_si": 3, "n_key": 1, "n_mint": 1, "n_wd": 0, "n_cert": 0, "select": False, "dup_input": "twice", "versions": [2, 3]},
        {"n_si": 1, "n_key": 1, "n_mint": 2, "n_wd": 0, "n_cert": 0, "select": False, "zero_mint": True, "versions": [2]},
    ]
    out.extend([DUPLICATE_INPUT, DUPLICATE_SCRIPT_INPUT, ZERO_MINT_POLICY])
    for i, f in enumerate(forces):
        for j in range(2):
            out.append(P.gen(random.Random(f"{rng_seed}/{i}/{j}"), force=f))
    return out


_X = {"estimate": False, "use_list": False, "versions": [2], "cm_mode": "default", "mixed_wd": False,
      "zero_mint": [], "dup_input": None}

# regression witness of the repaired KF-C11-duplicate-input (a regression is a plain violation): add_input(kx0) twice,
# kx0 sorts before the script input s0.  The body has the inputs {kx0, s0, w0}: s0 has rank 1; before the repair the
# redeemer said index 2 (its position in the list [kx0, kx0, s0, w0]) and the change counted kx0 twice.
DUPLICATE_INPUT = {
    "slot": 5000,
    "utxos": [{"id": "s0", "txid": "5c" + "11" * 31, "ix": 0, "addr": ["script", "p2:a"], "coin": 5000000},
              {"id": "kx0", "txid": "0a" + "22" * 31, "ix": 1, "addr": "k0", "coin": 7000000},
              {"id": "w0", "txid": "ff" + "33" * 31, "ix": 0, "addr": "k0", "coin": 60000000}],
    "address_utxos": {"k0": ["w0"]},
    "ops": [{"op": "add_input", "u": "kx0"}, {"op": "add_input", "u": "kx0"},
            {"op": "x_script_input", "u": "s0", "script": "p2:a", "script_in": "witness", "datum": 42, "datum_mode": "hash",
             "redeemer": {"data": 7000001, "units": [1000, 2000]}},
            {"op": "add_input", "u": "w0"}, {"op": "add_output", "addr": "k1", "coin": 3000000}],
    "build": {"change": "k0", "selectors": [["largest"]], "pyseed": 1}, "sign": ["k0"],
    "x": {**_X, "dup_input": "kx0",
          "attach": [{"kind": "spend", "u": "s0", "script": "p2:a", "raw": False, "loc": "witness", "native": False,
                      "datum_mode": "hash", "marker": 7000001}]},
}

# the same through the other route: the script UTxO s0 is first added as a plain input, then as a script input, and a
# second script input s1 sorts after it.  The body has {s0, s1, w0}; before the repair s1's redeemer said index 2.
DUPLICATE_SCRIPT_INPUT = {
    "slot": 5000,
    "utxos": [{"id": "s0", "txid": "0a" + "11" * 31, "ix": 0, "addr": ["script", "p2:a"], "coin": 5000000},
              {"id": "s1", "txid": "5c" + "22" * 31, "ix": 3, "addr": ["script", "p3:b"], "coin": 4000000},
              {"id": "w0", "txid": "ff" + "33" * 31, "ix": 0, "addr": "k0", "coin": 60000000}],
    "address_utxos": {"k0": ["w0"]},
    "ops": [{"op": "add_input", "u": "s0"},
            {"op": "x_script_input", "u": "s1", "script": "p3:b", "script_in": "witness",
             "redeemer": {"data": 7000002, "units": [1500, 2500]}},
            {"op": "x_script_input", "u": "s0", "script": "p2:a", "script_in": "witness", "datum": 42, "datum_mode": "hash",
             "redeemer": {"data": 7000001, "units": [1000, 2000]}},
            {"op": "add_input", "u": "w0"}, {"op": "add_output", "addr": "k1", "coin": 3000000}],
    "build": {"change": "k0", "selectors": [["largest"]], "pyseed": 1}, "sign": ["k0"],
    "x": {**_X, "versions": [2, 3], "dup_input": "s0",
          "attach": [{"kind": "spend", "u": "s0", "script": "p2:a", "raw": False, "loc": "witness", "native": False,
                      "datum_mode": "hash", "marker": 7000001},
                     {"kind": "spend", "u": "s1", "script": "p3:b", "raw": False, "loc": "witness", "native": False,
                      "datum_mode": "none", "marker": 7000002}]},
}

# regression witness of the repaired KF-C11-zero-mint-policy: builder.mint = {p2:zero1: {z: 0}, p2:ma: {a: 1}} stored
# directly; the body's mint holds p2:ma only (rank 0); before the repair the redeemer said index 1 because
# hash(p2:zero1) < hash(p2:ma) was still counted.
ZERO_MINT_POLICY = {
    "slot": 5000,
    "utxos": [{"id": "w0", "txid": "ff" + "33" * 31, "ix": 0, "addr": "k0", "coin": 60000000}],
    "address_utxos": {"k0": ["w0"]},
    "ops": [{"op": "x_mint_set", "assets": [["p2:zero1", "7a", 0], ["p2:ma", "61", 1]]},
            {"op": "x_minting_script", "script": "p2:ma", "redeemer": {"data": 7000001, "units": [1000, 2000]}},
            {"op": "add_input", "u": "w0"}, {"op": "add_output", "addr": "k1", "coin": 3000000}],
    "build": {"change": "k0", "selectors": [["largest"]], "pyseed": 1}, "sign": ["k0"],
    "x": {**_X, "zero_mint": ["p2:zero1"],
          "attach": [{"kind": "mint", "script": "p2:ma", "raw": False, "loc": "witness", "native": False, "marker": 7000001}]},
}


def run(ctx):
    ctx.rule = ("Plutus builder scenarios: 0..4 script inputs (script in witness / on a reference UTxO / on the spent UTxO / "
                "found at the script address behind a decoy; datum by hash, inline, none for V3; native scripts), 0..3 "
                "minting policies (Plutus, native, raw bytes) (+ variants: the same UTxO added again — add_input twice, "
                "add_input + add_script_input, add_script_input twice with another redeemer; a directly stored mint holding "
                "a zero-quantity policy), 0..2 script withdrawals (+ key withdrawals), certificate "
                "scripts between key certificates, V1/V2/V3 mixes, 0..3 key inputs and coin selection from an address pool "
                "with transaction ids whose first byte / shared id + index (0..100) land before, between and after the "
                "script inputs, shuffled call order (certificate-related calls keep their order), redeemer map/list, units "
                "supplied or evaluated; non-trivial = at least one script attachment, distinct scenario")
    ctx.assumptions = [
        "reward-redeemer rank is judged against the bytewise order of ALL withdrawal keys (equal to the ledger's map order "
        "when all accounts have one credential kind; mixed key/script sets are counted in the histogram, not asserted)",
        "UTxO contents (addresses, datum hashes, carried scripts) are chain data and read from the scenario's UTxO objects",
        "certificate redeemers are attached to the certificate that was last when add_certificate_script was called (API contract)"]
    ctx.extra["trusted"] = ["BLAKE2b (hashlib) for script / datum hashes", "coin selection and balancing are not modelled "
                            "(the model receives the selected inputs)"]
    for sc in corpus():
        evaluate(ctx, sc)
    n = ctx.budget(230, 3000)
    for _ in range(n):
        evaluate(ctx, P.gen(ctx.rng))


def replay(ctx, data):
    if "input" in data and isinstance(data["input"], dict) and "ops" in data["input"]:
        evaluate(ctx, data["input"])
    for d in data.get("correspondence", []):
        if isinstance(d.get("input"), dict) and "ops" in d["input"]:
            evaluate(ctx, d["input"])
