"""C01 extension `pool` — stake-pool registration data: relays (`SingleHostAddr` with its IPv4 / IPv6 text <-> bytes
conversion, `SingleHostName`, `MultiHostName`), `PoolMetadata`, `PoolParams`, `PoolId`, and the certificates
`PoolRegistration` (hand-written flattening `[3, *pool_params]`) and `PoolRetirement`.

Model: lean/Pyc/Model/Pool.lean; theorems: lean/Pyc/Props/C01_Pool.lean; driver ops `pool.*`.

Families (every case is regenerated from its own seed string):
  pool-relay     one relay through its public constructor (ports None / 0 / 65535 / out of range, addresses as bytes, as
                 canonical text, as non-canonical text, refused text, wrong length), `to_cbor`, `from_cbor`, re-encode
  pool-reg       PoolParams + PoolRegistration: owners as list / OrderedSet tagged / untagged with 0, 1, 3, 24, 25 elements and
                 duplicates, 0..25 relays or None, metadata or None, margins incl. non-reduced, 0/1, 1/1, negative
                 denominators, coins at the CBOR width boundaries, bignums and negatives, optional `id`
  pool-ret       PoolRetirement
  pool-ip        the four libc conversions of the model against the `socket` module (bytes of every zero-run shape, texts
                 in and outside the canonical form, damaged texts)
  pool-id        `is_bech32_cardano_pool_id` / `PoolId`: valid ids, other prefixes, upper / mixed case, Bech32m, bad checksums
  pool-body      the certificates inside `TransactionBody.certificates` (list, tagged set): decode, compare, re-encode
  pool-mal       damaged encodings (wrong relay code, arity, address length, port / dns of another type, owner-set forms,
                 rational forms, nested form, arity of the certificate, …): model and implementation must agree on
                 ok | DeserializeException | other exception, and on the decoded object and its re-encoding when ok

Judged on the implementation (independent of the model): the relay constructor raises exactly on address texts libc refuses
and on bytes of the wrong length, and stores the canonical text of the address (oracle: the `socket` module);
`PoolParams(...)` without relays holds `[]`; decode(encode(x)) == x for EVERY constructed object; re-encoding the decoded
object reproduces the bytes; bytes == the RFC 8949 reference encoding of `[code, port, addr bytes…]` / of the flattened
parameters.  The former counterexample witnesses (`01.2.3.4`, `0:0:0:0:0:0:0:1`, …) are replayed as ordinary cases."""
from __future__ import annotations

import random
import socket
from fractions import Fraction

from pycardano.exception import DeserializeException

from ref import bech32_ref
from ref import cbor_ref as R
from vlib import poolgen as P

EXT = "pool"


def classify(e):
    return "deser" if isinstance(e, DeserializeException) else "crash"


def attempt(f):
    try:
        return f(), None
    except Exception as e:  # noqa: BLE001 - the class of the exception is the observable
        return None, e


def mcall(ctx, req):
    ctx.traces += 1
    return ctx.driver().ok(req)


def relay_expect(j):
    """independent expectation for a constructor relay: (ctor_ok, expected_prim | None, canonical ctor json | None).
    The constructor raises iff an address argument is a text libc refuses or bytes of the wrong length (oracle: the socket
    module); otherwise it stores the canonical text of the address, and the relay is written as [code, port, address bytes…]."""
    if j["k"] != "addr":
        prim = [1, P.build_port(j["port"]), P.build_name(j["dns"])] if j["k"] == "name" else [2, P.build_name(j["dns"])]
        return True, prim, j
    out, texts = [], {}
    for key, v6 in (("ipv4", False), ("ipv6", True)):
        try:
            _, b, ct = P.canon_ip(j[key], v6)
        except (OSError, ValueError, UnicodeError):
            return False, None, None
        out.append(b)
        texts[key] = None if ct is None else {"t": P.hx(ct)}
    cj = {"k": "addr", "port": j["port"], "ipv4": texts["ipv4"], "ipv6": texts["ipv6"]}
    return True, [0, P.build_port(j["port"]), out[0], out[1]], cj


def noncanonical_args(j, cj):
    """does a relay (or any relay of the parameters) carry an address TEXT that is not in canonical form?"""
    if j is None or cj is None:
        return False
    if "relays" in j:
        return any(noncanonical_args(a, b) for a, b in zip(j["relays"] or [], cj["relays"] or []))
    return j["k"] == "addr" and any(j[k] is not None and "t" in j[k] and j[k] != cj[k] for k in ("ipv4", "ipv6"))


def arg_class(a):
    if a is None:
        return "none"
    if "b" in a:
        return "bytes"
    t = bytes.fromhex(a["t"]).decode("utf-8")
    return "text"


def check_relay(ctx, case):
    rng = random.Random(case.get("seed", ""))
    j = case["relay"] if "seed" not in case else P.gen_relay(rng)          # fixed witnesses carry the relay itself
    desc = {**case, "relay": j}
    ctor_ok, prim, cj = relay_expect(j)
    x, cerr = attempt(lambda: P.build_relay(j))
    ctx.count(f"pool-relay:{j['k']}")
    if j["k"] == "addr":
        ctx.count("pool-relay:addr:ipv4=" + arg_class(j["ipv4"]) + ",ipv6=" + arg_class(j["ipv6"]))
    if j.get("port") is not None:
        p = int(j["port"]["i"])
        if p in (0, 65535) or p > 65535 or p < 0:
            ctx.count("pool-relay:port:" + ("out-of-range" if p > 65535 or p < 0 else str(p)))
    m = mcall(ctx, {"op": "pool.relay.mk", "r": j}) if ctx.have_driver() else None
    if (cerr is None) != ctor_ok:
        ctx.violation("relay constructor: accepts / refuses against the socket oracle (a text libc refuses, bytes of the wrong "
                      "length must raise; everything else must construct)", desc, "ok" if ctor_ok else "raises",
                      "ok" if cerr is None else type(cerr).__name__)
    if m is not None and (("err" in m) != (cerr is not None)):
        ctx.diff("pool.relay.mk(ctor)", desc, m, "raises" if cerr else "ok")
    if cerr is not None or not ctor_ok:
        ctx.count("pool-relay:constructor-raises" if cerr is not None else "pool-relay:constructor-accepts-a-refused-address")
        ctx.case(case)
        return
    want = P.build_relay(cj) if ctor_ok else None
    if want is not None:
        if noncanonical_args(j, cj):
            ctx.count("pool-relay:noncanonical-text-argument")
        # the constructor stores the canonical text of the address (oracle: the socket module)
        if P.dump_relay(x) != P.dump_relay(want):
            ctx.violation("relay constructor: the stored address text is not the canonical text of the address", desc,
                          P.dump_relay(want), P.dump_relay(x))
    b, eerr = attempt(x.to_cbor)
    if eerr is not None:
        ctx.violation(f"relay: a constructed relay cannot be serialized ({type(eerr).__name__}: {str(eerr)[:100]})", desc, "bytes", "raises")
    if m is not None and "err" not in m:
        if P.unjunk(m["relay"]) != P.dump_relay(x):
            ctx.diff("pool.relay.mk(object)", desc, m["relay"], P.dump_relay(x))
        if (m["hex"] is None) != (eerr is not None) or (eerr is None and m["hex"] != b.hex()):
            ctx.diff("pool.relay.mk(hex)", desc, m["hex"], b.hex() if b else "raises")
        ctx.count("pool-relay:" + ("in_theorem_scope" if m["ok"] else "outside_theorem_scope"))
        if not m["ok"]:
            ctx.diff("pool.relay.mk(scope)", desc, m["ok"], "a constructed, well-typed relay")
    if eerr is not None:
        ctx.case(case)
        return
    desc["hex"] = b.hex()
    if prim is not None and b != R.enc(prim):
        ctx.violation("relay: bytes differ from the reference encoding of [code, port, address bytes…]", desc, R.enc(prim).hex(), b.hex())
    y, derr = attempt(lambda: type(x).from_cbor(b))
    if derr is not None:
        ctx.violation(f"relay: the encoded relay cannot be decoded ({type(derr).__name__}: {str(derr)[:100]})", desc, "a relay", classify(derr))
    else:
        if not (y == x) or not (x == y):
            ctx.violation("relay: decode(encode(x)) != x", desc, P.dump_relay(x), P.dump_relay(y))
        b2, e2 = attempt(y.to_cbor)
        if b2 != b:
            ctx.violation("relay: re-encoding the decoded relay gives different bytes", desc, b.hex(), b2.hex() if b2 else repr(e2))
    if m is not None and "err" not in m and m["dec"] is not None:
        d = m["dec"]
        if "err" in d:
            if derr is None:
                ctx.diff("pool.relay.dec", desc, d, "decoded")
        elif derr is not None:
            ctx.diff("pool.relay.dec", desc, "decoded", classify(derr))
        else:
            if P.unjunk(d["relay"]) != P.dump_relay(y):
                ctx.diff("pool.relay.dec(object)", desc, d["relay"], P.dump_relay(y))
            if d["reenc"] != b.hex():
                ctx.diff("pool.relay.dec(reenc)", desc, d["reenc"], b.hex())
    ctx.case(case)


def params_expect(j):
    """(constructible, canonical ctor json) by the socket oracle"""
    if j["relays"] is None:
        return True, j
    rs = []
    for r in j["relays"]:
        c, _, cj = relay_expect(r)
        if not c:
            return False, None
        rs.append(cj)
    return True, {**j, "relays": rs}


def compare_dec(ctx, op, desc, d, y, derr, b):
    """model decode result `d` against the implementation's (object `y` or error `derr`)"""
    if "err" in d:
        if derr is None:
            ctx.diff(op, desc, d, "decoded")
        elif d["err"] != classify(derr):
            ctx.diff(op, desc, d, classify(derr))
        return
    if derr is not None:
        ctx.diff(op, desc, "decoded", classify(derr))
        return
    pp = y.pool_params if hasattr(y, "pool_params") else y
    if P.unjunk(d["params"]) != P.dump_params(pp):
        ctx.diff(op + "(object)", desc, d["params"], P.dump_params(pp))
    b2, _ = attempt(y.to_cbor)
    if d["reenc"] != (b2.hex() if b2 is not None else None):
        ctx.diff(op + "(reenc)", desc, d["reenc"], b2.hex() if b2 is not None else "raises")


def check_reg(ctx, case):
    from pycardano.certificate import PoolRegistration
    from pycardano.pool_params import PoolParams
    rng = random.Random(case["seed"])
    j = P.gen_params(rng)
    whole = case.get("cls", "reg") == "reg"
    desc = {**case, "params": j}
    ctor_ok, cj = params_expect(j)
    pp, cerr = attempt(lambda: P.build_params(j))
    if (cerr is None) != ctor_ok:
        ctx.violation("PoolParams constructor arguments: a relay constructor accepts / refuses against the socket oracle", desc,
                      "ok" if ctor_ok else "raises", "ok" if cerr is None else type(cerr).__name__)
    op = "pool.reg.mk" if whole else "pool.params.mk"
    m = mcall(ctx, {"op": op, "p": j}) if ctx.have_driver() else None
    if m is not None and (("err" in m) != (cerr is not None)):
        ctx.diff(op + "(ctor)", desc, m, "raises" if cerr else "ok")
    if cerr is not None or not ctor_ok:
        ctx.count("pool-reg:constructor-raises" if cerr is not None else "pool-reg:constructor-accepts-a-refused-address")
        ctx.case(case)
        return
    x = PoolRegistration(pp) if whole else pp
    cls = type(x)
    ow = j["owners"]
    ctx.count(f"pool-reg:owners:{ow['kind']}{'-tagged' if ow['kind'] == 'oset' and ow['tagged'] else ''}:n={min(len(ow['xs']), 25)}"
              + (":dup" if len(set(ow["xs"])) < len(ow["xs"]) else ""))
    ctx.count("pool-reg:relays:" + ("None" if j["relays"] is None else f"n={len(j['relays'])}"))
    ctx.count("pool-reg:metadata:" + ("none" if j["metadata"] is None else "some") + ",id:" + ("none" if j["id"] is None else "some"))
    n, d = int(j["margin"][0]), int(j["margin"][1])
    ctx.count("pool-reg:margin:" + ("reduced" if Fraction(n, d).numerator == n and Fraction(n, d).denominator == d else "normalised-by-Fraction"))
    for c in (int(j["pledge"]), int(j["cost"])):
        if c < 0 or c >= 2**64:
            ctx.count("pool-reg:coin:" + ("negative" if c < 0 else "bignum"))
    if j["relays"] is None and pp.relays != []:
        ctx.violation("PoolParams(...) without relays does not hold the empty list", desc, [], repr(pp.relays))
    wp = P.build_params(cj)
    if P.dump_params(pp) != P.dump_params(wp):
        ctx.violation("PoolParams: a relay constructed from an address text does not hold the canonical text of the address", desc,
                      P.dump_params(wp), P.dump_params(pp))
    b, eerr = attempt(x.to_cbor)
    if eerr is not None:
        ctx.violation(f"{cls.__name__}.to_cbor raises on a constructed object ({type(eerr).__name__}: {str(eerr)[:100]})", desc, "bytes", "raises")
    if m is not None and "err" not in m:
        if P.unjunk(m["params"]) != P.dump_params(pp):
            ctx.diff(op + "(object)", desc, m["params"], P.dump_params(pp))
        if (m["hex"] is None) != (eerr is not None) or (eerr is None and m["hex"] != b.hex()):
            ctx.diff(op + "(hex)", desc, m["hex"], b.hex() if b else "raises")
        ctx.count("pool-reg:" + ("in_theorem_scope" if m["ok"] else "outside_theorem_scope"))
        if not m["ok"]:
            ctx.diff(op + "(scope)", desc, m["ok"], "a constructed, well-typed object")
    if eerr is not None:
        ctx.case(case)
        return
    desc["hex"] = b.hex()
    sp = P.spec_params({**j, "id": None}) if all(r["k"] == "addr" or r["dns"] is not None for r in (j["relays"] or [])) else None
    if sp is not None:
        # independent rendering of `[3, *pool_params]` from the CDDL text (no value ranges), plus the optional trailing id
        prim = P.free_registration(*sp) + ([] if j["id"] is None else [bytes.fromhex(j["id"]).decode("utf-8")])
        if not whole:
            prim = prim[1:]
        if b != R.enc(prim):
            ctx.violation(f"{cls.__name__}: bytes differ from the reference encoding of the flattened parameters", desc, R.enc(prim).hex(), b.hex())
    y, derr = attempt(lambda: cls.from_cbor(b))
    if derr is not None:
        ctx.violation(f"{cls.__name__}: the encoded object cannot be decoded ({type(derr).__name__}: {str(derr)[:100]})", desc,
                      "an object", classify(derr))
    else:
        ypp = y.pool_params if whole else y
        if noncanonical_args(j, cj):
            ctx.count("pool-reg:noncanonical-text-argument")
        if not (y == x) or not (x == y):
            ctx.violation(f"{cls.__name__}: decode(encode(x)) != x", desc, P.dump_params(pp), P.dump_params(ypp))
        # the owner field: a list comes back as a list, a tagged set as a tagged set, an untagged set as a list
        got = P.dump_params(ypp)["owners"]
        exp_kind = "oset" if (ow["kind"] == "oset" and ow["tagged"]) else "list"
        if got["kind"] != exp_kind or got["tagged"] != (exp_kind == "oset") or got["xs"] != P.dump_params(pp)["owners"]["xs"]:
            ctx.violation(f"{cls.__name__}: owner set restored in another form", desc, exp_kind, got)
        b2, e2 = attempt(y.to_cbor)
        if b2 != b:
            ctx.violation(f"{cls.__name__}: re-encoding the decoded object gives different bytes", desc, b.hex(),
                          b2.hex() if b2 else repr(e2))
    if m is not None and "err" not in m and m["dec"] is not None:
        compare_dec(ctx, op.replace(".mk", ".dec"), desc, m["dec"], y, derr, b)
        if derr is None and P.unjunk(m["norm"]) != P.dump_params(y.pool_params if whole else y) and m["ok"]:
            ctx.diff(op + "(norm)", desc, m["norm"], P.dump_params(y.pool_params if whole else y))
    ctx.case(case)


def check_ret(ctx, case):
    from pycardano.certificate import PoolRetirement
    from pycardano.hash import PoolKeyHash
    rng = random.Random(case["seed"])
    kh = P.rbytes(rng, 28)
    k = rng.random()
    epoch = rng.choice(P.INTS) if k < 0.7 else rng.choice(P.BIG) if k < 0.8 else rng.randint(0, 10**6)
    desc = {**case, "kh": kh.hex(), "epoch": str(epoch)}
    x = PoolRetirement(PoolKeyHash(kh), epoch)
    b = x.to_cbor()
    desc["hex"] = b.hex()
    ctx.count("pool-ret:epoch:" + ("negative" if epoch < 0 else "bignum" if epoch >= 2**64 else "uint"))
    if b != R.enc([4, kh, epoch]):
        ctx.violation("PoolRetirement: bytes differ from the reference encoding of [4, pool_keyhash, epoch]", desc, R.enc([4, kh, epoch]).hex(), b.hex())
    y, derr = attempt(lambda: PoolRetirement.from_cbor(b))
    if derr is not None:
        ctx.violation("PoolRetirement: the encoded certificate cannot be decoded", desc, "a certificate", classify(derr))
    else:
        if not (y == x):
            ctx.violation("PoolRetirement: decode(encode(x)) != x", desc, [kh.hex(), epoch], [y.pool_keyhash.payload.hex(), y.epoch])
        if y.to_cbor() != b:
            ctx.violation("PoolRetirement: re-encoding gives different bytes", desc, b.hex(), y.to_cbor().hex())
    if ctx.have_driver():
        m = mcall(ctx, {"op": "pool.ret.enc", "kh": kh.hex(), "epoch": str(epoch)})
        if m["hex"] != b.hex():
            ctx.diff("pool.ret.enc", desc, m["hex"], b.hex())
        d = mcall(ctx, {"op": "pool.ret.dec", "hex": b.hex()})
        if "err" in d:
            if derr is None:
                ctx.diff("pool.ret.dec", desc, d, "decoded")
        elif derr is not None or [d["kh"], d["epoch"], d["reenc"]] != [y.pool_keyhash.payload.hex(), str(y.epoch), y.to_cbor().hex()]:
            ctx.diff("pool.ret.dec", desc, d, "error" if derr else [y.pool_keyhash.payload.hex(), str(y.epoch)])
    ctx.case(case)


def mutate_text(rng, t):
    """a text near a valid address text"""
    if not t or rng.random() < 0.1:
        return t + rng.choice(["", ":", ".", " ", "0", "::", "x"])
    i = rng.randrange(len(t))
    k = rng.random()
    alphabet = "0123456789abcdefABCDEFx:. g"
    if k < 0.35:
        return t[:i] + rng.choice(alphabet) + t[i + 1:]
    if k < 0.6:
        return t[:i] + rng.choice(alphabet) + t[i:]
    if k < 0.8:
        return t[:i] + t[i + 1:]
    if k < 0.9:
        return t.upper()
    return t + rng.choice([" ", "\t", "\n", " x", ":", ".", "%eth0", ".1", ":1"])


def check_ip(ctx, case):
    """the libc model (ntoa / aton / ntop6 / pton6) against the socket module"""
    if not ctx.have_driver():
        return
    rng = random.Random(case["seed"])
    v6 = rng.random() < 0.6
    fam = socket.AF_INET6 if v6 else socket.AF_INET
    b = P.gen_ipv6_bytes(rng) if v6 else P.gen_ipv4_bytes(rng)
    if rng.random() < 0.05:
        b = P.rbytes(rng, rng.choice([0, 3, 5, 15, 17]))
    desc = {**case, "bytes": b.hex()}
    t, terr = attempt(lambda: socket.inet_ntop(fam, b) if v6 else socket.inet_ntoa(b))
    mt = mcall(ctx, {"op": "pool.ip", "f": "ntop6" if v6 else "ntoa", "x": b.hex()})
    ctx.count("pool-ip:" + ("ntop6" if v6 else "ntoa") + (":raises" if terr else ""))
    if mt != (None if terr else P.hx(t)):
        ctx.diff("pool.ip.ntop6" if v6 else "pool.ip.ntoa", desc, mt, None if terr else t)
    if terr is None and v6:
        ctx.count("pool-ip:ntop6:" + ("v4-embedded" if "." in t else "compressed" if "::" in t else "full"))
    texts = []
    if terr is None:
        texts.append(t)
        for _ in range(3):
            texts.append(mutate_text(rng, t))
    texts.append(rng.choice((P.IPV6_NONCANON + P.IPV6_BAD) if v6 else (P.IPV4_NONCANON + P.IPV4_BAD)))
    for s in texts:
        if "\x00" in s:
            continue
        r, rerr = attempt(lambda: socket.inet_pton(fam, s) if v6 else socket.inet_aton(s))
        mr = mcall(ctx, {"op": "pool.ip", "f": "pton6" if v6 else "aton", "x": P.hx(s)})
        ctx.count("pool-ip:" + ("pton6" if v6 else "aton") + (":refused" if rerr else ":accepted"))
        if mr != (None if rerr else r.hex()):
            ctx.diff("pool.ip.pton6" if v6 else "pool.ip.aton", {**desc, "text": s}, mr, None if rerr else r.hex())
    ctx.case(case)


def check_id(ctx, case):
    from pycardano.crypto import bech32 as B
    from pycardano.pool_params import PoolId, is_bech32_cardano_pool_id
    rng = random.Random(case["seed"])
    kh = P.rbytes(rng, rng.choice([28, 28, 28, 0, 1, 2, 27, 29, 32]))
    k = rng.random()
    good = bech32_ref.encode("pool", kh)
    if k < 0.4:
        s, kind = good, "valid"
    elif k < 0.5:
        s, kind = bech32_ref.encode(rng.choice(["pool_vk", "poolx", "pool1"]), kh), "valid-other-pool-prefix"
    elif k < 0.58:
        s, kind = bech32_ref.encode(rng.choice(["addr", "stake", "poo", "Pool", "drep"]), kh), "other-prefix"
    elif k < 0.64:
        s, kind = good.upper(), "upper-case"
    elif k < 0.7:
        i = rng.randrange(len(good))
        s, kind = good[:i] + good[i].upper() + good[i + 1:], "mixed-case"
    elif k < 0.78:
        s, kind = bech32_ref.encode("pool", kh, bech32_ref.BECH32M), "bech32m"
    elif k < 0.9:
        i = rng.randrange(5, len(good))
        c = rng.choice([x for x in bech32_ref.CHARSET if x != good[i]])
        s, kind = good[:i] + c + good[i + 1:], "substituted-character"
    elif k < 0.95:
        s, kind = rng.choice(["pool", "pool1", "", "pool1qqqqqq", "pool1é" + good[5:], good + " ", " " + good, good[:-1], "pool1b" + good[6:]]), "junk"
    else:
        s, kind = good[:4] + "1" + good[4:], "extra-separator"
    desc = {**case, "text": s}
    ctx.count("pool-id:" + kind)
    impl = bool(is_bech32_cardano_pool_id(s))
    # independent oracle: BIP-173 reference + the prefix test
    try:
        hrp, _ = bech32_ref.decode(s)
        ref_ok = True
    except Exception:  # noqa: BLE001
        ref_ok = False
    oracle = s.startswith("pool") and ref_ok
    if impl != oracle:
        ctx.violation("is_bech32_cardano_pool_id disagrees with the BIP-173 reference + prefix test", desc, oracle, impl)
    obj, cerr = attempt(lambda: PoolId(s))
    if (cerr is None) != impl:
        ctx.violation("PoolId(...) accepts / refuses differently from is_bech32_cardano_pool_id", desc, impl, cerr is None)
    if obj is not None:
        b = obj.to_cbor()
        y, derr = attempt(lambda: PoolId.from_cbor(b))
        if derr is not None or y != obj or y.to_cbor() != b or b != R.enc(s):
            ctx.violation("PoolId: CBOR round trip", desc, s, repr(derr) if derr else str(y))
        if kind == "valid" and len(kh) >= 2:
            # the text form of a pool key hash: bech32.encode("pool", kh) and back
            if B.encode("pool", list(kh)) != s or bytes(B.decode(s)) != kh:
                ctx.violation("pool id text round trip (bech32.encode / bech32.decode)", desc, kh.hex(), B.encode("pool", list(kh)))
    if ctx.have_driver():
        mv = mcall(ctx, {"op": "pool.id.check", "s": P.hx(s)})
        if mv != impl:
            ctx.diff("pool.id.check", desc, mv, impl)
        d = mcall(ctx, {"op": "pool.id.dec", "hex": R.enc(s).hex()})
        if ("err" in d) != (not impl) or (impl and d["s"] != P.hx(s)):
            ctx.diff("pool.id.dec", desc, d, impl)
        if kind == "valid" and len(kh) >= 2:
            mt = mcall(ctx, {"op": "pool.id.text", "kh": kh.hex()})
            mk = mcall(ctx, {"op": "pool.id.keyhash", "s": P.hx(s)})
            if mt != P.hx(s) or mk != kh.hex():
                ctx.diff("pool.id.text", desc, [mt, mk], [P.hx(s), kh.hex()])
    ctx.case(case)


def check_body(ctx, case):
    from pycardano import Address, Network, TransactionBody, TransactionId, TransactionInput, TransactionOutput
    from pycardano.certificate import PoolRegistration, PoolRetirement
    from pycardano.hash import PoolKeyHash, VerificationKeyHash
    from pycardano.serialization import NonEmptyOrderedSet
    rng = random.Random(case["seed"])
    j = P.gen_params(rng, allow_bad=False)
    _, cj = params_expect(j)
    reg = PoolRegistration(P.build_params(j))
    ret = PoolRetirement(PoolKeyHash(P.rbytes(rng, 28)), rng.choice([0, 1, 300, 2**32]))
    certs = [reg, ret] if rng.random() < 0.5 else [ret, reg]
    form = rng.choice(["list", "set"])
    desc = {**case, "params": j, "form": form}
    body = TransactionBody(
        inputs=[TransactionInput(TransactionId(P.rbytes(rng, 32)), rng.choice([0, 1, 255]))],
        outputs=[TransactionOutput(Address(VerificationKeyHash(P.rbytes(rng, 28)), network=Network.TESTNET), 2_000_000)],
        fee=rng.choice([0, 170_000, 2**32]), certificates=certs if form == "list" else NonEmptyOrderedSet(certs))
    bb, eerr = attempt(body.to_cbor)
    if eerr is not None:
        ctx.violation(f"TransactionBody with a pool registration cannot be serialized ({type(eerr).__name__})", desc, "bytes", str(eerr)[:160])
        return
    ctx.count(f"pool-body:{form}:" + ("noncanonical-text-argument" if noncanonical_args(j, cj) else "canonical"))
    desc["hex"] = bb.hex()
    item = R.dec(bb)
    field = dict((k, v) for k, v in item.pairs)[4]
    wire = field.value if isinstance(field, R.Tag) else field
    if isinstance(field, R.Tag) != (form == "set"):
        ctx.violation("TransactionBody.certificates: wire form of the set", desc, form, "tagged" if isinstance(field, R.Tag) else "list")
    for c, w in zip(certs, wire):
        if R.enc(w) != c.to_cbor():
            ctx.violation("certificate bytes inside the body differ from the certificate's own bytes", desc, c.to_cbor().hex(), R.enc(w).hex())
    y, derr = attempt(lambda: TransactionBody.from_cbor(bb))
    if derr is not None:
        ctx.violation(f"TransactionBody with a pool registration cannot be decoded ({type(derr).__name__}: {str(derr)[:100]})", desc,
                      "a body", classify(derr))
    else:
        want = [PoolRegistration(P.build_params(cj)) if c is reg else c for c in certs]
        got = list(y.certificates)
        if len(got) != 2 or not all(type(g) is type(w) and g == w for g, w in zip(got, want)):
            ctx.violation("certificates decoded inside a body differ from the originals", desc, [type(w).__name__ for w in want],
                          [type(g).__name__ for g in got])
        if y.to_cbor() != bb:
            ctx.violation("TransactionBody with a pool registration: re-encoding gives different bytes", desc, bb.hex(), y.to_cbor().hex())
    if ctx.have_driver():
        m = mcall(ctx, {"op": "pool.reg.mk", "p": j})
        if "err" in m or m["hex"] != reg.to_cbor().hex() or R.enc(wire[certs.index(reg)]).hex() != m["hex"]:
            ctx.diff("pool.reg.mk(in body)", desc, m.get("hex"), reg.to_cbor().hex())
    ctx.case(case)


def check_malformed(ctx, case):
    from pycardano.certificate import PoolRegistration, PoolRetirement
    rng = random.Random(case["seed"])
    kind = case["damage"]
    if case["target"] == "ret":
        prim = P.RET_DAMAGE[kind](rng)
        cls, op = PoolRetirement, "pool.ret.dec"
    else:
        prim = P.REG_DAMAGE[kind](rng, P.good_parts(rng))
        cls, op = PoolRegistration, "pool.reg.dec"
    b = R.enc(prim)
    desc = {**case, "hex": b.hex()}
    y, derr = attempt(lambda: cls.from_cbor(b))
    res = "ok" if derr is None else classify(derr)
    ctx.count(f"pool-mal:{case['target']}:{res}")
    ctx.extra.setdefault("pool_malformed_classes", {})[f"{case['target']}:{kind}"] = res
    if derr is None:
        # an accepted encoding: decoding what the object writes must give the same bytes again (if it can be written at all)
        b2, e2 = attempt(y.to_cbor)
        if b2 is not None:
            y2, d2 = attempt(lambda: cls.from_cbor(b2))
            b3 = None if d2 is not None else attempt(y2.to_cbor)[0]
            if b3 != b2:
                ctx.violation("accepted encoding: encode(decode(encode(decode(b)))) differs from encode(decode(b))", desc, b2.hex(),
                              b3.hex() if b3 else repr(d2))
    if ctx.have_driver():
        d = mcall(ctx, {"op": op, "hex": b.hex()})
        if case["target"] == "ret":
            if "err" in d:
                if res != d["err"]:
                    ctx.diff(op, desc, d, res)
            elif res != "ok" or [d["kh"], d["epoch"], d["reenc"]] != [y.pool_keyhash.payload.hex(), str(y.epoch), y.to_cbor().hex()]:
                ctx.diff(op, desc, d, res)
        else:
            compare_dec(ctx, op, desc, d, y, derr, b)
    ctx.case(case)


KINDS = {"pool-relay": check_relay, "pool-reg": check_reg, "pool-ret": check_ret, "pool-ip": check_ip, "pool-id": check_id,
         "pool-body": check_body, "pool-mal": check_malformed}


def dispatch(ctx, case):
    KINDS[case["kind"]](ctx, case)


WITNESSES = [
    # the former counterexamples of relay_roundtrip_goal (repaired by 68e1e96): ordinary cases now, judged like any other
    {"k": "addr", "port": {"i": "1"}, "ipv4": {"t": P.hx("01.2.3.4")}, "ipv6": None},
    {"k": "addr", "port": {"i": "1"}, "ipv4": None, "ipv6": {"t": P.hx("0:0:0:0:0:0:0:1")}},
    {"k": "addr", "port": None, "ipv4": {"t": P.hx("1.2.3")}, "ipv6": {"t": P.hx("ABCD::")}},
    {"k": "addr", "port": None, "ipv4": {"t": P.hx("1.2.3.4 x")}, "ipv6": {"t": P.hx("::ffff:102:304")}},
    # texts libc refuses: the constructor must raise
    {"k": "addr", "port": None, "ipv4": {"t": P.hx("1.2.3.256")}, "ipv6": None},
    {"k": "addr", "port": None, "ipv4": None, "ipv6": {"t": P.hx("1::2::3")}},
]


def witness_cases(ctx):
    for i, r in enumerate(WITNESSES):
        check_relay(ctx, {"ext": EXT, "kind": "pool-relay", "witness": i, "relay": r})


def run_ext(ctx):
    ctx.assumptions.append(
        "pool (C01_Pool): socket.inet_ntoa / inet_aton / inet_ntop / inet_pton are modelled after glibc 2.36 and compared with the "
        "socket module on every run; hash classes are byte strings of their fixed size (class invariant of ConstrainedBytes); a "
        "SingleHostAddr constructed from a non-canonical address TEXT ('01.2.3.4', '0:0:0:0:0:0:0:1') does not round-trip to an equal "
        "object (theorem relay_roundtrip_counterexample; same bytes) — such cases are judged against the canonical text instead")
    ctx.extra.setdefault("trusted", []).append("libc address conversions as modelled in Model/Pool.lean (glibc 2.36), compared with the socket module")
    n = ctx.budget(260, 8000)
    for i in range(2 * n):
        dispatch(ctx, {"ext": EXT, "kind": "pool-relay", "seed": f"{ctx.seed}/pool/relay{i}"})
    for i in range(n):
        dispatch(ctx, {"ext": EXT, "kind": "pool-reg", "seed": f"{ctx.seed}/pool/reg{i}", "cls": "reg" if i % 4 else "params"})
    for i in range(n // 4):
        dispatch(ctx, {"ext": EXT, "kind": "pool-ret", "seed": f"{ctx.seed}/pool/ret{i}"})
    for i in range(3 * n):
        dispatch(ctx, {"ext": EXT, "kind": "pool-ip", "seed": f"{ctx.seed}/pool/ip{i}"})
    for i in range(n):
        dispatch(ctx, {"ext": EXT, "kind": "pool-id", "seed": f"{ctx.seed}/pool/id{i}"})
    for i in range(n // 4):
        dispatch(ctx, {"ext": EXT, "kind": "pool-body", "seed": f"{ctx.seed}/pool/body{i}"})
    reps = ctx.budget(1, 5)
    for rep in range(reps):
        for kind in P.REG_DAMAGE:
            dispatch(ctx, {"ext": EXT, "kind": "pool-mal", "target": "reg", "damage": kind, "seed": f"{ctx.seed}/pool/mal/{kind}/{rep}"})
        for kind in P.RET_DAMAGE:
            dispatch(ctx, {"ext": EXT, "kind": "pool-mal", "target": "ret", "damage": kind, "seed": f"{ctx.seed}/pool/malret/{kind}/{rep}"})
    witness_cases(ctx)


def replay_ext(ctx, case):
    if "witness" in case:
        check_relay(ctx, {"ext": EXT, "kind": "pool-relay", "witness": case["witness"], "relay": WITNESSES[case["witness"]]})
        return
    c = {k: v for k, v in case.items() if k in ("ext", "kind", "seed", "cls", "target", "damage")}
    dispatch(ctx, c)
