"""C02 — emitted CBOR conforms to the Conway ledger wire format.

Direct evaluation: spec-level contents (vlib/txgen.py, content model of ref/conway.py) are built as pycardano objects
through public constructors; `x.to_cbor()` of the transaction and of every part that is a serializable object of its
own must equal, byte for byte, what the independent reference encoder ref/conway.py (written from the Conway CDDL over
ref/cbor_ref.py) prescribes for that content.  The reference itself is validated on every run against every byte-level
fixture of /repo/test (hex literals: decoded with cbor_ref, lifted into the content model, re-encoded, identical).
Correspondence: `model_hook` hands every compared part to the Lean driver (`spec.enc` / `codec.enc`) when it has them."""
from __future__ import annotations

import ast
import hashlib
import re

from ref import cbor_ref as R
from ref import conway as C
from vlib import core
from vlib import txgen as G

# ---- contents the library cannot serialize at all (counted, reported, not asserted) ------------------------------------
#   (name, predicate over (kind, part), exception class name): an exception of to_cbor() that is NOT matched here is a
#   violation ("refuses content the CDDL admits"), so that a regression that makes serialization raise is still caught.


def _walk(x):
    yield x
    if isinstance(x, dict):
        for v in x.values():
            yield from _walk(v)
    elif isinstance(x, (list, tuple)):
        for v in x:
            yield from _walk(v)


def has_cost_models(kind, part):
    if kind == "protocol_param_update":
        return any(k == 18 for k, _ in part)
    return any(isinstance(d, dict) and d.get("code") == 0 and "update" in d and any(k == 18 for k, _ in d["update"]) for d in _walk(part))


UNSERIALIZABLE = [
    # ("ProtocolParamUpdate.cost_models (annotated bare `Dict`: validate() reads __args__)", has_cost_models, "AttributeError"),
    #   -- repaired in /repo by b54419e; kept as the pattern for recording such a class
]


# ---- recorded finding -------------------------------------------------------------------------------------------------------
KF_DEDUP = "KF-C02-orderedset-str-dedup"


def _collision_key(c):
    if c["code"] in (0, 1):
        return ("a", c["cred"]["k"], c["cred"]["hash"])
    if c["code"] in (7, 8):
        return ("b", c["cred"]["k"], c["cred"]["hash"], c["coin"])
    return None


def dedup_explains(kind, part, wire, key, got):
    """the emitted bytes are exactly the prescribed bytes of the content with, in a TAGGED certificate set, every
    certificate removed whose fields equal those of an earlier certificate of the sibling code (0/1, 7/8)"""
    if kind not in ("body", "tx") or not wire.tagged("certs"):
        return False
    body = part if kind == "body" else part["body"]
    kept, seen, dropped = [], {}, 0
    for c in body.get("certs") or []:
        k = _collision_key(c)
        if k is not None and k in seen and seen[k] != c["code"]:
            dropped += 1
            continue
        if k is not None:
            seen.setdefault(k, c["code"])
        kept.append(c)
    if not dropped:
        return False
    b2 = {**body, "certs": kept}
    p2 = b2 if kind == "body" else {**part, "body": b2}
    return C.encode_part(kind, p2, wire, key) == got


# ---- Lean side -----------------------------------------------------------------------------------------------------------
_MODEL = {"probed": False, "on": False}


def model_available(ctx):
    if not _MODEL["probed"]:
        _MODEL["probed"] = True
        try:
            _MODEL["on"] = ctx.have_driver() and ctx.driver().call({"op": "codec.ping"})[0] == "ok"
        except core.Infra:
            _MODEL["on"] = False
    return _MODEL["on"]


def model_hook(ctx, part_kind, spec_part, pyc_obj, impl_bytes, wire=None, key=None):
    """Correspondence with the Lean model for one compared part.  No-op unless the driver answers `codec.ping`.

    part_kind  : kind string of vlib.txgen.parts ("tx", "body", "output", "certificate", ...)
    spec_part  : the spec-level content (ref/conway.py content model); JSON image: conway.to_json(spec_part)
    pyc_obj    : the pycardano object that was serialized
    impl_bytes : pyc_obj.to_cbor()
    wire       : conway.WireChoices used for the reference bytes (JSON image: wire.to_json()); key: output key"""
    if not model_available(ctx):
        return
    # `codec.enc` of the Lean generic codec model (run on the schema regenerated from /repo) on the value image of the
    # pycardano object must give the implementation's bytes: this is what ties `Pyc.C02.repo_refines` (a statement
    # about the table) to the bytes the code emits
    from vlib import typegen as T
    try:
        v = T.to_val(pyc_obj)
    except Exception as e:  # noqa: BLE001   objects outside the value image (typed PlutusData, ...)
        ctx.count("model:no-image:" + type(e).__name__)
        return
    k, m = ctx.driver().call({"op": "codec.enc", "v": v})
    ctx.traces += 1
    ctx.count("model:codec.enc:" + part_kind)
    if k != "ok" or m != impl_bytes.hex():
        ctx.diff("codec.enc", part_case(part_kind, spec_part, wire, key), m, impl_bytes.hex())


# ---- one part --------------------------------------------------------------------------------------------------------------
def part_case(kind, part, wire, key):
    return {"kind": "part", "part_kind": kind, "spec": C.to_json(part), "wire": wire.to_json(), "key": key or "0"}


def check_part(ctx, kind, part, wire, key):
    """returns 'ok' | 'diff' | 'inexpressible' | 'unserializable' | 'skipped'"""
    key = key or "0"
    try:
        exp = C.encode_part(kind, part, wire, key)
    except C.SpecError as e:      # generator produced something outside the CDDL: a harness defect, never silent
        raise core.Infra(f"reference refuses generated content ({kind}): {e}")
    try:
        obj = G.to_pycardano(kind, part, wire, key)
    except G.Inexpressible as e:
        ctx.count("inexpressible:" + str(e)[:70])
        return "inexpressible"
    except Exception as e:  # noqa: BLE001   a public constructor refusing valid content
        ctx.violation(f"constructing the {kind} from valid content raises {type(e).__name__}: {str(e)[:200]}",
                      part_case(kind, part, wire, key), exp.hex(), f"{type(e).__name__}")
        return "diff"
    if isinstance(obj, list):      # redeemers in list form: no serializable object of its own (covered by the witness set)
        return "skipped"
    try:
        got = obj.to_cbor()
    except Exception as e:  # noqa: BLE001
        for name, pred, exc in UNSERIALIZABLE:
            if type(e).__name__ == exc and pred(kind, part):
                ctx.count("unserializable:" + name[:70])
                return "unserializable"
        ctx.violation(f"to_cbor() of a {kind} holding valid content raises {type(e).__name__}: {str(e)[:200]}",
                      part_case(kind, part, wire, key), exp.hex(), f"{type(e).__name__}")
        return "diff"
    ctx.count("part:" + kind)
    if got != exp:
        fid = KF_DEDUP if dedup_explains(kind, part, wire, key, got) else None
        ctx.violation(f"{kind}: emitted bytes differ from the bytes the Conway CDDL prescribes for the content"
                      + first_difference(exp, got), part_case(kind, part, wire, key), exp.hex(), got.hex(), finding=fid)
        if fid:
            ctx.count("known:" + fid)
        return "diff"
    model_hook(ctx, kind, part, obj, got, wire, key)
    return "ok"


def first_difference(exp, got):
    try:
        a, b = R.dec(exp), R.dec(got)
    except Exception:  # noqa: BLE001
        return " (emitted bytes are not well-formed CBOR for the reference decoder)"
    path = []

    def go(x, y):
        if type(x) is not type(y):
            return f"{type(x).__name__} expected, {type(y).__name__} emitted"
        if isinstance(x, R.Tag):
            if x.tag != y.tag:
                return f"tag {x.tag} expected, tag {y.tag} emitted"
            return go(x.value, y.value)
        if isinstance(x, R.Map):
            kx, ky = [R.enc(k).hex() for k, _ in x.pairs], [R.enc(k).hex() for k, _ in y.pairs]
            if kx != ky:
                return f"map keys {kx[:8]} expected, {ky[:8]} emitted"
            for (k, v), (_, v2) in zip(x.pairs, y.pairs):
                path.append(f"key {R.enc(k).hex()[:16]}")
                r = go(v, v2)
                if r:
                    return r
                path.pop()
            return None
        if isinstance(x, list):
            if len(x) != len(y):
                return f"array of {len(x)} expected, of {len(y)} emitted"
            for i, (v, v2) in enumerate(zip(x, y)):
                path.append(f"[{i}]")
                r = go(v, v2)
                if r:
                    return r
                path.pop()
            return None
        if x != y:
            return f"{str(x)[:40]!r} expected, {str(y)[:40]!r} emitted"
        return None
    r = go(a, b)
    return f" (at {' '.join(path) or 'top'}: {r})" if r else " (same item tree, different framing / head widths)"


# ---- one generated transaction ------------------------------------------------------------------------------------------------
def check_tx(ctx, tx, wire, part_limit=None):
    feats = C.features(tx, wire)
    for f in feats:
        ctx.count("feat:" + f)
    plist = G.parts(tx)
    if part_limit is not None and len(plist) > part_limit:
        head = [p for p in plist if p[0] in ("tx", "body", "witness_set", "aux_data")]
        rest = [p for p in plist if p[0] not in ("tx", "body", "witness_set", "aux_data")]
        step = max(1, len(rest) // max(1, part_limit - len(head)))
        plist = rest[::step][:part_limit - len(head)] + head
    outcome = {}
    for kind, part, key in plist:
        r = check_part(ctx, kind, part, wire, key)
        outcome[kind] = r if outcome.get(kind) in (None, "ok") else outcome[kind]
    whole = outcome.get("tx")
    ctx.count("whole-tx:" + str(whole))
    ref = C.encode(tx, wire)
    ctx.case({"kind": "tx", "digest": hashlib.blake2b(ref.bytes, digest_size=8).hexdigest(), "size": len(ref.bytes),
              "parts": len(plist), "whole": whole, "features": [f for f in feats if not f.startswith(("int:", "count:", "addr:"))][:60]},
             nontrivial=whole == "ok" or any(v == "ok" for v in outcome.values()))


# ---- byte fixtures of /repo/test: validation of the REFERENCE (and a second look at the implementation) ------------------------
HEX = re.compile(r"^[0-9a-fA-F]+$")


def fixture_literals():
    """(file, line, hex) of every string literal of the test-suite that is an even-length hex string of >= 8 digits
    (adjacent literals are already concatenated by the parser)"""
    root = core.REPO / "test"
    out, seen = [], set()
    for f in sorted(root.rglob("*.py")):
        try:
            tree = ast.parse(f.read_text())
        except (SyntaxError, UnicodeDecodeError):
            continue
        for n in ast.walk(tree):
            if isinstance(n, ast.Constant) and isinstance(n.value, str):
                s = "".join(n.value.split())
                if len(s) >= 8 and len(s) % 2 == 0 and HEX.match(s) and s.lower() not in seen:
                    seen.add(s.lower())
                    out.append((str(f.relative_to(root)), n.lineno, s.lower()))
    return out


def tx_shaped(x):
    return isinstance(x, list) and len(x) == 4 and isinstance(x[0], R.Map) and isinstance(x[1], R.Map) and isinstance(x[2], bool)


def check_fixture(ctx, fx):
    """fx = {kind: fixture, file, line, hex}"""
    b = bytes.fromhex(fx["hex"])
    where = f"{fx['file']}:{fx['line']}"
    try:
        x = R.dec(b)
    except Exception:  # noqa: BLE001
        ctx.count("fixture:not-cbor")
        return
    if R.enc(x) != b:
        ctx.count("fixture:not-shortest-form")
        ctx.extra.setdefault("fixtures_not_lifted", []).append(f"{where}: heads not in shortest form / indefinite framing outside Plutus data")
        return
    if not isinstance(x, (list, R.Map, R.Tag)):
        ctx.count("fixture:scalar")
        return
    reasons = []
    for kind in C.LIFT_KINDS:
        try:
            content, wire = C.lift(kind, x)
        except C.NotExpressible as e:
            reasons.append(f"{kind}: {str(e)[:90]}")
            continue
        try:
            b2 = C.encode_part(kind, content, wire)
        except C.SpecError as e:
            ctx.diff("ref.fixture", fx, f"lifted as {kind} but the encoder refuses it: {e}", fx["hex"])
            return
        ctx.count("fixture:lifted:" + kind)
        ctx.extra.setdefault("fixtures_lifted", []).append(f"{where}: {kind} ({len(b)} bytes)")
        if b2 != b:
            # the reference disagrees with bytes of the test-suite: a defect of the reference (or of the fixture), not of /repo
            ctx.diff("ref.fixture", fx, b2.hex(), fx["hex"])
            return
        ctx.case({"kind": "fixture", "file": fx["file"], "line": fx["line"], "as": kind, "size": len(b)})
        # the same content through pycardano's constructors must give the fixture bytes again
        try:
            obj = G.to_pycardano(kind, content, wire)
        except G.Inexpressible as e:
            ctx.count("fixture:inexpressible:" + str(e)[:50])
            return
        except Exception as e:  # noqa: BLE001   e.g. a fixture address with a network nibble pycardano has no enum value for
            ctx.count("fixture:constructor-raised:" + type(e).__name__)
            return
        if isinstance(obj, list):
            return
        try:
            got = obj.to_cbor()
        except Exception as e:  # noqa: BLE001
            if any(type(e).__name__ == exc and pred(kind, content) for _, pred, exc in UNSERIALIZABLE):
                ctx.count("fixture:unserializable")
                return
            ctx.violation(f"fixture {where} ({kind}): to_cbor() of the same content raises {type(e).__name__}", fx, fx["hex"], type(e).__name__)
            return
        ctx.count("fixture:rebuilt:" + kind)
        if got != b:
            ctx.violation(f"fixture {where} ({kind}): the same content built through the constructors serializes differently"
                          + first_difference(b, got), fx, fx["hex"], got.hex())
        return
    ctx.count("fixture:not-lifted" + (":tx-shaped" if tx_shaped(x) else ""))
    ctx.extra.setdefault("fixtures_not_lifted", []).append(f"{where}: {reasons[0] if tx_shaped(x) else 'not a transaction part of the model'}")


# ---- corpus: hand-written contents pinning every rule once --------------------------------------------------------------------
def corpus():
    h28, h32 = bytes(range(28)), bytes(range(32))
    inp = {"txid": h32, "ix": 0}
    addr = b"\x61" + h28
    out = lambda **kw: {"addr": addr, "value": {"coin": 2_000_000, "assets": []}, "datum": None, "script": None, **kw}   # noqa: E731
    key = {"k": "key", "hash": h28}
    scr = {"k": "script", "hash": h28}
    anchor = {"url": "https://x.y", "hash": h32}
    pool = {"operator": h28, "vrf": h32, "pledge": 100, "cost": 340000000, "margin": [1, 50], "reward_account": b"\xe1" + h28,
            "owners": [h28], "relays": [{"k": "addr", "port": 3001, "ipv4": bytes([192, 168, 0, 1]), "ipv6": bytes(15) + b"\x01"},
                                        {"k": "addr", "port": None, "ipv4": None, "ipv6": None},
                                        {"k": "name", "port": None, "dns": "relay1.example.com"}, {"k": "multi", "dns": "r.example.com"}],
            "metadata": {"url": "https://meta1.example.com", "hash": h32}}
    certs = [{"code": 0, "cred": key}, {"code": 1, "cred": scr}, {"code": 2, "cred": key, "pool": h28}, {"code": 3, "params": pool},
             {"code": 4, "pool": h28, "epoch": 700}, {"code": 7, "cred": key, "coin": 2000000}, {"code": 8, "cred": scr, "coin": 2000000},
             {"code": 9, "cred": key, "drep": {"k": "abstain"}}, {"code": 10, "cred": key, "pool": h28, "drep": {"k": "no_confidence"}},
             {"code": 11, "cred": key, "pool": h28, "coin": 1}, {"code": 12, "cred": key, "drep": {"k": "key", "hash": h28}, "coin": 1},
             {"code": 13, "cred": key, "pool": h28, "drep": {"k": "script", "hash": h28}, "coin": 1}, {"code": 14, "cold": key, "hot": scr},
             {"code": 15, "cold": key, "anchor": None}, {"code": 16, "cred": key, "coin": 500000000, "anchor": anchor},
             {"code": 17, "cred": key, "coin": 500000000}, {"code": 18, "cred": scr, "anchor": None}]
    gaid = {"txid": h32, "ix": 1}
    actions = [{"code": 0, "prev": None, "update": [[0, 44], [9, [3, 10]], [19, [[577, 10000], [721, 10000000]]], [20, [14000000, 10000000000]],
                                                    [25, [[1, 2]] * 5], [26, [[2, 3]] * 10], [33, [15, 1]]], "policy": h28},
               {"code": 2, "withdrawals": [[b"\xe1" + h28, 1000]], "policy": None}, {"code": 3, "prev": gaid},
               {"code": 4, "prev": None, "remove": [key], "add": [[scr, 500]], "quorum": [2, 3]},
               {"code": 5, "prev": gaid, "anchor": anchor, "script_hash": None}, {"code": 6}]
    votes = [[{"code": c, "hash": h28}, [[gaid, {"vote": c % 3, "anchor": anchor if c % 2 else None}]]] for c in range(5)]
    constr = ["constr", 0, [["int", 1], ["bytes", b"\x01" * 65], ["list", []], ["list", [["int", 2]]], ["map", [[["int", 1], ["constr", 128, []]]]]]]
    native = {"k": "all", "scripts": [{"k": "pubkey", "hash": h28}, {"k": "n_of_k", "n": 1, "scripts": [{"k": "invalid_before", "slot": 5},
                                                                                                         {"k": "invalid_hereafter", "slot": 9}]},
                                      {"k": "any", "scripts": []}]}
    body = {"inputs": [inp], "outputs": [out(), out(datum={"k": "hash", "hash": h32}), out(datum={"k": "inline", "data": constr}),
                                         out(script={"k": "native", "script": native}),
                                         out(script={"k": "plutus", "v": 3, "bytes": b"\x01\x02"},
                                             value={"coin": 1, "assets": [[h28, [[b"", 1], [b"bb", 2], [b"a", 3]]]]})],
            "fee": 170000, "ttl": 1 << 32, "certs": certs, "withdrawals": [[b"\xe1" + h28, 5]], "aux_hash": h32, "validity_start": 24,
            "mint": [[h28, [[b"a", -1], [b"", 5]]]], "script_data_hash": h32, "collateral": [inp], "required_signers": [h28],
            "network_id": 1, "collateral_return": out(), "total_collateral": 5000000, "reference_inputs": [{"txid": h32, "ix": 65535}],
            "voting_procedures": votes, "proposals": [{"deposit": 100000000000, "reward_account": b"\xe1" + h28, "action": a, "anchor": anchor}
                                                      for a in actions], "treasury_value": 1 << 63, "donation": 1}
    red = lambda form: {"form": form, "items": [{"tag": t, "ix": t, "data": constr if t == 0 else ["int", t], "mem": 1000 + t, "steps": 2000}  # noqa: E731
                                                for t in range(6)]}
    wits = lambda form: {"vkeys": [{"vkey": h32, "sig": bytes(64)}], "native": [native],   # noqa: E731
                         "bootstrap": [{"vkey": h32, "sig": bytes(64), "chain_code": h32, "attrs": b"\xa0"}], "v1": [b"\x01"],
                         "data": [constr, ["int", 5]], "redeemers": red(form), "v2": [b"\x02"], "v3": [b"\x03"]}
    md = [[674, ["map", [[["text", "msg"], ["list", [["text", "hello"], ["int", -1], ["bytes", b"\x00" * 64]]]]]]], [0, ["int", 0]], [1 << 32, ["text", ""]]]
    auxs = [{"k": "shelley", "metadata": md}, {"k": "shelley_ma", "metadata": md, "native": [native]},
            {"k": "alonzo", "metadata": md, "native": [native], "v1": [b"\x01"], "v2": [b"\x02"], "v3": [b"\x03"]},
            {"k": "alonzo", "metadata": None, "native": None, "v1": None, "v2": None, "v3": None}]
    out_cases = []
    for i, aux in enumerate(auxs):
        tx = {"body": body, "wits": wits("list" if i % 2 else "map"), "valid": i != 1, "aux": aux}
        for tag in (True, False):
            w = C.WireChoices(default_tag=tag, sets={s: True for s in G.CTOR_TAGGED_SITES},
                              outputs={"0": "legacy" if tag else "map", "1": "map" if tag else "legacy", "collateral_return": "map"})
            out_cases.append({"kind": "tx", "spec": C.to_json(tx), "wire": w.to_json()})
    # KF-C02-orderedset-str-dedup witness: register + deregister the same credential, certificates as a tagged set
    small = {"inputs": [inp], "outputs": [out()], "fee": 1}
    for pair in ([{"code": 1, "cred": key}, {"code": 0, "cred": key}],
                 [{"code": 7, "cred": key, "coin": 2000000}, {"code": 8, "cred": key, "coin": 2000000}]):
        for tag in (True, False):
            out_cases.append({"kind": "tx", "spec": C.to_json({"body": {**small, "certs": pair}, "wits": {}, "valid": True, "aux": None}),
                              "wire": C.WireChoices(sets={"certs": tag}).to_json()})
    return out_cases


# ---- content reached by other construction routes --------------------------------------------------------------------------
def _a2spec(a):
    """C18's abstract datum (tuples) -> the reference model's Plutus data (lists)"""
    k = a[0]
    if k == "constr":
        return ["constr", a[1], [_a2spec(x) for x in a[2]]]
    if k == "list":
        return ["list", [_a2spec(x) for x in a[1]]]
    if k == "map":
        return ["map", [[_a2spec(x), _a2spec(y)] for x, y in a[1]]]
    return [k, a[1]]


def check_typed_datum(ctx, case):
    """case = {kind: typed-datum, tseed}: a PlutusData dataclass instance whose Dict field is keyed by constructors, carried as
    an inline datum, as a witness-set datum and as a redeemer: the bytes are those of the reference for that datum"""
    import pycardano as pc
    from checks.c18 import build_typedkey
    from pycardano.plutus import ExecutionUnits, Redeemer, RedeemerKey, RedeemerMap, RedeemerTag, RedeemerValue
    a, tobj, _, _, nf = build_typedkey(case["tseed"])
    data = _a2spec(a)
    w = C.WireChoices()
    addr = b"\x61" + bytes(28)
    o = {"addr": addr, "value": {"coin": 2_000_000, "assets": []}, "datum": {"k": "inline", "data": data}, "script": None}
    routes = []
    routes.append(("output", C.encode_part("output", o, w, "0"),
                   lambda: pc.TransactionOutput(pc.Address.from_primitive(addr), pc.Value(2_000_000), datum=tobj, post_alonzo=True).to_cbor()))
    routes.append(("plutus_data", C.encode_part("plutus_data", data, w, "0"), tobj.to_cbor))
    rk = RedeemerKey(RedeemerTag.SPEND, 0)
    routes.append(("redeemers", R.enc(R.Map([([0, 0], [C.t_pdata(data, w), [5, 7]])])),
                   lambda: RedeemerMap({rk: RedeemerValue(tobj, ExecutionUnits(5, 7))}).to_cbor()))
    for name, exp, f in routes:
        try:
            got = f()
        except Exception as e:  # noqa: BLE001
            got = None
            err = f"{type(e).__name__}: {str(e)[:120]}"
        ctx.count("typed-datum:" + name)
        if got != exp:
            ctx.violation(f"{name} carrying a typed datum with constructor map keys ({nf} key fields): bytes differ from the reference",
                          case, exp.hex(), got.hex() if got is not None else err)
    ctx.case(case)


def check_value_history(ctx, case):
    """case = {kind: value-history, seed}: the same value content reached through arithmetic / in-place edits (zero
    quantities and emptied policies left behind) is written as the CDDL prescribes for that content"""
    import random as _r
    import pycardano as pc
    rng = _r.Random(case["seed"])
    npol = rng.choice([0, 1, 1, 2])
    final = []
    v = pc.Value(rng.choice([0, 1, 23, 24, 10**6, 2**32]))
    for i in range(npol):
        pid = bytes([0xA0 + i]) * 28
        names = []
        for j in range(rng.choice([1, 2])):
            names.append((bytes([j + 1]) * rng.choice([0, 1, 4]) if j else b"", rng.choice([1, 5, 2**40])))
        names = list(dict(names).items())
        final.append([pid, [[n, q] for n, q in names]])
        v.multi_asset[pc.ScriptHash(pid)] = pc.Asset({pc.AssetName(n): q for n, q in names})
    # leftovers: entries driven to zero in place, an emptied policy, an added-and-removed token
    for i in range(rng.choice([1, 2, 3])):
        how = rng.choice(["isub", "zero-entry", "empty-policy", "add-sub"])
        pid = pc.ScriptHash(bytes([0xC0 + i]) * 28)
        nm = pc.AssetName(b"z")
        if how == "isub":
            v.multi_asset[pid] = pc.Asset({nm: 3})
            v.multi_asset[pid] -= pc.Asset({nm: 3}) if rng.random() < 0.5 else pc.Asset({nm: 3})
        elif how == "zero-entry":
            v.multi_asset[pid] = pc.Asset({nm: 0})
        elif how == "empty-policy":
            v.multi_asset[pid] = pc.Asset()
        else:
            extra = pc.Value(0, pc.MultiAsset({pid: pc.Asset({nm: 9})}))
            v = v + extra - extra
        ctx.count("value-history:" + how)
    spec = {"coin": v.coin, "assets": final}
    w = C.WireChoices(default_output="map")
    exp = C.encode_part("value", spec, w, "0")
    addr = b"\x61" + bytes(28)
    exp_o = C.encode_part("output", {"addr": addr, "value": spec, "datum": None, "script": None}, w, "0")
    for name, e, f in (("value", exp, v.to_cbor),
                       ("output", exp_o, lambda: pc.TransactionOutput(pc.Address.from_primitive(addr), v, post_alonzo=True).to_cbor())):
        try:
            got = f()
        except Exception as ex:  # noqa: BLE001
            got = None
            err = f"{type(ex).__name__}: {str(ex)[:120]}"
        if got != e:
            ctx.violation(f"{name} whose content was reached through arithmetic / in-place edits: bytes differ from the reference for that content",
                          {**case, "content": C.to_json(spec)}, e.hex(), got.hex() if got is not None else err)
    ctx.case(case)


def check_enc_history(ctx, case):
    """case = {kind: enc-history, cls, seed, depth}: two equal objects of the class (type-directed generator), one of them serialized
    first, both given the same in-place edit (vlib/history.py): their bytes must agree — the prescribed bytes are a function of the
    CONTENT, so a serializer that remembers something of an earlier serialization writes, for one of the two, bytes the CDDL does
    not prescribe for that content.  No reference encoder is involved."""
    import random
    from vlib import history as H
    from vlib import typegen as T
    mk = lambda: T.Gen(random.Random(case["seed"]), {}).obj(case["cls"], case["depth"])
    try:
        eh = H.encode_history(mk, case["seed"] + "/eh")
    except Exception:
        eh = None
    if eh is None:
        ctx.count("enc-history:not-applicable")
        ctx.case(case, nontrivial=False)
        return
    ctx.count("enc-history:" + eh["edit"].split("@")[0])
    if not eh["agree"]:
        ctx.violation(f"{case['cls']}: after the in-place edit {eh['edit']} an object that had been serialized before writes other bytes than "
                      "an equal object that had not: the bytes are not a function of the content", case, eh["fresh"], eh["serialized_before"])
    ctx.case(case)


def dispatch(ctx, case):
    k = case["kind"]
    if k == "enc-history":
        return check_enc_history(ctx, case)
    if k == "typed-datum":
        return check_typed_datum(ctx, case)
    if k == "value-history":
        return check_value_history(ctx, case)
    if k == "tx":
        check_tx(ctx, C.from_json(case["spec"]), C.WireChoices.from_json(case["wire"]))
    elif k == "part":
        r = check_part(ctx, case["part_kind"], C.from_json(case["spec"]), C.WireChoices.from_json(case["wire"]), case.get("key"))
        ctx.case({"kind": "part", "part_kind": case["part_kind"], "result": r})
    elif k == "fixture":
        check_fixture(ctx, case)


def run(ctx):
    ctx.rule = ("spec-level transactions from vlib/txgen.gen_spec_tx with a coverage table (every body key 0-22, certificate "
                "code 0-4 / 7-18, relay kind and null pattern, voter / DRep / vote kind, governance action 0-6, protocol "
                "parameter key, redeemer form and tag, auxiliary-data form, witness-set key 0-7, output form x datum option x "
                "script language, native-script constructor, metadatum kind, Plutus data node kind is forced while unhit, "
                "then drawn with decaying weight); integers from the CBOR width boundaries (0, 23, 24, 255, 256, 65535, "
                "65536, 2^32-1, 2^32, 2^63-1, 2^64-1); element counts 0..6; per set tagged / untagged, per output legacy / map; "
                "each transaction AND each part (output, value, multi-asset, certificate, pool parameters, relay, credential, "
                "DRep, anchor, voter, vote, voting procedures, proposal, governance action, parameter update, native script, "
                "redeemer(s), Plutus datum, metadata, auxiliary data, witness set, body) is compared with the reference bytes; "
                "typed PlutusData instances with constructor-keyed maps as inline datum / witness datum / redeemer; values whose content "
                "was reached through arithmetic and in-place edits (zero quantities, emptied policies left behind); "
                "plus a hand-written corpus pinning every rule and every hex fixture of /repo/test lifted and re-encoded; "
                "a case is non-trivial when at least one of its parts was serialized and compared")
    ctx.assumptions = [
        "ref/conway.py transcribes the Conway CDDL (conway.cddl of cardano-ledger) from memory; it is cross-checked on every run "
        "against the byte fixtures of /repo/test (captured cardano-cli / mainnet transactions among them) and, when the driver "
        "has it, against Spec/Conway.lean",
        "where the CDDL admits two encodings of one content (set with / without tag 258, legacy / map output) the compared "
        "reference bytes use the choice the pycardano object was constructed with (OrderedSet vs list, post_alonzo flag)",
        "table maps are compared in the length-first canonical order (C04); the ledger itself accepts any order",
        "Plutus data embedded in outputs / witnesses / redeemers is restricted to the domain on which C18 records no finding "
        "(|int| < 2^512, distinct atomic map keys) and is built from IndefiniteList / ByteString primitives",
        "rationals are generated in lowest terms (fractions.Fraction normalises)",
        "contents the library cannot hold (an inline datum / datum of its own that is the empty list or a byte string over 64 "
        "bytes; a hard-fork action with a major version outside 1..10 is not generated) are counted under inexpressible: and "
        "not judged; any other exception of a constructor or of to_cbor() on valid content is reported as a violation",
    ]
    ctx.extra["trusted"] = ["ref/cbor_ref.py (RFC 8949)", "ref/plutusdata_ref.py (C18 reference)", "hashlib.blake2b"]
    for c in corpus():
        dispatch(ctx, c)
    fxs = fixture_literals()
    for f, line, hx in fxs:
        check_fixture(ctx, {"kind": "fixture", "file": f, "line": line, "hex": hx})
    ctx.extra["fixture_literals"] = len(fxs)
    rng = ctx.rng
    cov = G.Coverage()
    n = ctx.budget(950, 40000)
    for i in range(n):
        tx = G.gen_spec_tx(rng, cov)
        wire = G.gen_wire(rng, tx, cov, "c02")
        check_tx(ctx, tx, wire, part_limit=None if i % 4 == 0 else 14)
    for i in range(ctx.budget(120, 3000)):
        dispatch(ctx, {"kind": "typed-datum", "tseed": f"{ctx.seed}-k{i}"})
    for i in range(ctx.budget(200, 5000)):
        dispatch(ctx, {"kind": "value-history", "seed": f"{ctx.seed}-v{i}"})
    from vlib import typegen as T
    hist_classes = T.top_level_classes()
    for i in range(ctx.budget(700, 15000)):
        dispatch(ctx, {"kind": "enc-history", "cls": hist_classes[i % len(hist_classes)], "seed": f"{ctx.seed}-h{i}",
                       "depth": rng.choice([2, 3, 3, 4])})
    missing = cov.missing(G.universe())
    ctx.extra["coverage_universe"] = len(G.universe())
    ctx.extra["coverage_missing"] = missing
    if missing:
        raise core.Infra("generator did not reach: " + ", ".join(missing[:10]))
    ctx.extra["model_hook_active"] = bool(_MODEL["on"])


def replay(ctx, data):
    if "input" in data:
        dispatch(ctx, data["input"])
    for d in data.get("correspondence", []):
        dispatch(ctx, d["input"])
