"""C17 — identifiers are the specified BLAKE2b digests of the exact bytes.

Direct evaluation: for objects of every identifier-bearing kind the library's identifier is compared with
`hashlib.blake2b(preimage, digest_size=n)` where the preimage is obtained without the library's hashing code path:
byte slices of serialized transactions / outputs / witness sets cut out with the independent reader
(ref/cbor_ref.py, ref/ledger_ref.py), native scripts re-encoded from the script tree by a reference encoder, key bytes,
policy ‖ name.  Builder: the shipped transaction's body key 7 against the hash of the auxiliary-data slice actually
shipped; `add_script_input` against the hashes of the offered / found scripts (accept exactly when a candidate hashes to
the input's payment credential; the script bound to the input, read off the witness set / reference inputs, must hash
to it).  Correspondence: the Lean model's `(digest length, preimage)` (`id` op) hashed with hashlib must be the library's
identifier; `script.gate` op against the builder's decision."""
import copy
import hashlib
import logging
import os
import random
import traceback
from dataclasses import dataclass
from typing import Dict, List

import cbor2
from cbor2 import CBORTag

import pycardano as pc
from pycardano import (Address, AlonzoMetadata, Asset, AssetName, AuxiliaryData, ExtendedVerificationKey,
                       IndefiniteList, InvalidBefore, InvalidHereAfter, Metadata, MultiAsset, Network,
                       PaymentExtendedVerificationKey, PaymentSigningKey, PaymentVerificationKey, PlutusData,
                       PlutusV1Script, PlutusV2Script, PlutusV3Script, RawPlutusData, ScriptAll, ScriptAny, ScriptHash,
                       ScriptNofK, ScriptPubkey, ShelleyMarryMetadata, StakeExtendedVerificationKey,
                       StakePoolVerificationKey, StakeVerificationKey, Transaction, TransactionBody,
                       TransactionBuilder, TransactionInput, TransactionOutput, TransactionWitnessSet, UTxO, Value,
                       VerificationKey, VerificationKeyHash, VerificationKeyWitness, Withdrawals, datum_hash,
                       plutus_script_hash, script_hash)
from pycardano import hash as pch
from pycardano.cip.cip14 import encode_asset
from pycardano.exception import InvalidArgumentException
from pycardano.hash import TransactionId
from pycardano.plutus import RawCBOR
from pycardano.serialization import default_encoder

from ref import bech32_ref
from ref import cbor_ref as R
from ref import ledger_ref as L
from vlib import scenario as S
from vlib.core import REPO, Infra

NET = Network.TESTNET
logging.getLogger("PyCardano").setLevel(logging.CRITICAL)   # the builder dumps its state on every refused build

# Speed only: pycardano's `validate()` recomputes `typing.get_type_hints(cls)` for every object on every `to_cbor()`
# (about 90 % of the run time of this check).  The function is pure in the (static) class, so it is memoised for this
# process; nothing the property observes depends on it.
import functools
import pycardano.serialization as _ser
if not hasattr(_ser.get_type_hints, "cache_info"):
    _ser.get_type_hints = functools.lru_cache(maxsize=None)(_ser.get_type_hints)


def b2(data: bytes, n: int) -> bytes:
    return hashlib.blake2b(bytes(data), digest_size=n).digest()


def rb(rng, n):
    return bytes(rng.randrange(256) for _ in range(n))


# ---- specification table (ledger spec / CIP-14), harness side -----------------------------------------------------
SPEC_SIZES = {"VerificationKeyHash": 28, "ScriptHash": 28, "PolicyHash": 28, "PolicyId": 28, "ScriptDataHash": 32,
              "TransactionId": 32, "DatumHash": 32, "AuxiliaryDataHash": 32, "PoolKeyHash": 28, "PoolMetadataHash": 32,
              "VrfKeyHash": 32, "RewardAccountHash": 29, "AnchorDataHash": 32}
LANG_TAG = {"native": 0, 1: 1, 2: 2, 3: 3}


# ---- independent slicing of serialized structures -------------------------------------------------------------------
def _head(b, i):
    ib = b[i]
    major, info = ib >> 5, ib & 31
    i += 1
    if info < 24:
        return major, info, i
    if info == 31:
        return major, None, i
    n = {24: 1, 25: 2, 26: 4, 27: 8}[info]
    return major, int.from_bytes(b[i:i + n], "big"), i + n


def map_slices(b, start=0):
    """{key: (start, end)} of the values of a definite map with integer keys"""
    major, n, i = _head(b, start)
    assert major == 5 and n is not None, "definite map expected"
    out = {}
    for _ in range(n):
        k, i2 = R.dec_prefix(b, i)
        _, i3 = R.dec_prefix(b, i2)
        out[k] = (i2, i3)
        i = i3
    return out


def array_slices(b, start):
    """[(start, end)] of the elements of an array (definite or indefinite, possibly wrapped in one tag, e.g. 258)"""
    major, n, i = _head(b, start)
    if major == 6:
        major, n, i = _head(b, i)
    assert major == 4, "array expected"
    out = []
    if n is None:
        while b[i] != 0xFF:
            _, j = R.dec_prefix(b, i)
            out.append((i, j))
            i = j
    else:
        for _ in range(n):
            _, j = R.dec_prefix(b, i)
            out.append((i, j))
            i = j
    return out


def bstr_content(b, s, e):
    x = R.dec(b[s:e])
    if isinstance(x, R.Chunked):
        return b"".join(x.chunks)
    assert isinstance(x, bytes), "byte string expected"
    return x


def ws_scripts(ws: bytes):
    """(language tag, script bytes) of every script shipped in a serialized witness set (Conway keys 1, 3, 6, 7)"""
    m = map_slices(ws)
    out = []
    if 1 in m:
        out += [(0, ws[s:e]) for s, e in array_slices(ws, m[1][0])]
    for key, tag in ((3, 1), (6, 2), (7, 3)):
        if key in m:
            out += [(tag, bstr_content(ws, s, e)) for s, e in array_slices(ws, m[key][0])]
    return out


def ws_datums(ws: bytes):
    m = map_slices(ws)
    return [ws[s:e] for s, e in array_slices(ws, m[4][0])] if 4 in m else []


def script_ref_parts(inner: bytes):
    """(language tag, script bytes) of the content of a `script_ref` (#6.24 byte string holding `[lang, script]`)"""
    major, n, i = _head(inner, 0)
    assert major == 4 and n == 2
    lang, j = R.dec_prefix(inner, i)
    if lang == 0:
        return 0, inner[j:]
    return lang, bstr_content(inner, j, len(inner))


# ---- scripts: description, library object, reference bytes -----------------------------------------------------------
def ref_native_obj(t):
    k = t[0]
    if k == "pk":
        return [0, bytes.fromhex(t[1])]
    if k == "all":
        return [1, [ref_native_obj(s) for s in t[1]]]
    if k == "any":
        return [2, [ref_native_obj(s) for s in t[1]]]
    if k == "nofk":
        return [3, int(t[1]), [ref_native_obj(s) for s in t[2]]]
    if k == "before":
        return [4, int(t[1])]
    if k == "after":
        return [5, int(t[1])]
    raise ValueError(k)


def lib_native(t):
    k = t[0]
    if k == "pk":
        return ScriptPubkey(VerificationKeyHash(bytes.fromhex(t[1])))
    if k == "all":
        return ScriptAll([lib_native(s) for s in t[1]])
    if k == "any":
        return ScriptAny([lib_native(s) for s in t[1]])
    if k == "nofk":
        return ScriptNofK(int(t[1]), [lib_native(s) for s in t[2]])
    if k == "before":
        return InvalidBefore(int(t[1]))
    if k == "after":
        return InvalidHereAfter(int(t[1]))
    raise ValueError(k)


def native_depth(t):
    if t[0] in ("all", "any"):
        return 1 + max([native_depth(s) for s in t[1]], default=0)
    if t[0] == "nofk":
        return 1 + max([native_depth(s) for s in t[2]], default=0)
    return 0


def native_in_cddl(t):
    k = t[0]
    if k == "pk":
        return True
    if k in ("before", "after"):
        return 0 <= int(t[1]) < 2**64
    subs = t[2] if k == "nofk" else t[1]
    return (k != "nofk" or -2**63 <= int(t[1]) < 2**63) and all(native_in_cddl(s) for s in subs)


def lib_script(d):
    if d["t"] == "native":
        return lib_native(d["s"])
    b = bytes.fromhex(d["bytes"])
    if d["t"] == "raw":
        return b
    return {1: PlutusV1Script, 2: PlutusV2Script, 3: PlutusV3Script}[d["lang"]](b)


def ref_script_parts(d):
    """(language tag, script bytes) from the description alone (reference encoder for native scripts)"""
    if d["t"] == "native":
        return 0, R.enc(ref_native_obj(d["s"]))
    if d["t"] == "raw":
        return 1, bytes.fromhex(d["bytes"])          # plain `bytes` is Plutus V1 by the library's convention
    return LANG_TAG[d["lang"]], bytes.fromhex(d["bytes"])


def ref_script_hash(d) -> bytes:
    tag, b = ref_script_parts(d)
    return b2(bytes([tag]) + b, 28)


def truthy(d):
    return d["t"] == "native" or len(d["bytes"]) > 0


INT_EDGES = [0, 1, 2, 3, 23, 24, 255, 256, 65535, 65536, 2**32 - 1, 2**32, 2**63 - 1, 2**63, 2**64 - 1]


def gen_native(rng, depth, spine=False):
    leaf = ["pk", "pk", "before", "after"]
    k = rng.choice(["all", "any", "nofk"]) if spine and depth > 0 else \
        rng.choice(leaf if depth == 0 else leaf + ["all", "any", "nofk", "all", "any", "nofk"])
    if k == "pk":
        return ["pk", rb(rng, 28).hex()]
    if k in ("before", "after"):
        r = rng.random()
        v = rng.choice(INT_EDGES) if r < 0.6 else rng.randrange(2**40) if r < 0.97 else 2**64 + rng.randrange(5)
        return [k, str(v)]
    n = rng.randint(1 if spine else 0, 3)
    subs = [gen_native(rng, depth - 1, spine and i == 0) for i in range(n)]
    if k == "nofk":
        r = rng.random()
        m = rng.randint(0, n) if r < 0.6 else rng.choice(INT_EDGES[:12]) if r < 0.95 else rng.choice([-1, -25, 2**64])
        return ["nofk", str(m), subs]
    return [k, subs]


def gen_script(rng, native_p=0.4):
    if rng.random() < native_p:
        d = rng.randint(0, 4)
        return {"t": "native", "s": gen_native(rng, d, spine=rng.random() < 0.5)}
    n = rng.choice([0, 1, 2, 23, 24, 31, 32, 63, 64, 65, 100, 255, 256, 300]) if rng.random() < 0.5 else rng.randint(1, 120)
    if rng.random() < 0.05:
        return {"t": "raw", "bytes": rb(rng, max(n, 1)).hex()}
    return {"t": "plutus", "lang": rng.choice([1, 2, 3]), "bytes": rb(rng, n).hex()}


def variants(rng, d):
    """scripts close to `d` that must NOT hash like it (other language / other bytes / other tree) — except `raw` of a V1"""
    out = []
    if d["t"] in ("plutus", "raw"):
        b = bytes.fromhex(d["bytes"])
        lang = d.get("lang", 1)
        for l in (1, 2, 3):
            if l != lang:
                out.append(("other-lang-same-bytes", {"t": "plutus", "lang": l, "bytes": b.hex()}))
        if b:
            i = rng.randrange(len(b))
            fb = b[:i] + bytes([b[i] ^ (1 << rng.randrange(8))]) + b[i + 1:]
            out.append(("same-lang-bit-flip", {"t": "plutus", "lang": lang, "bytes": fb.hex()}))
            out.append(("same-lang-truncated", {"t": "plutus", "lang": lang, "bytes": b[:-1].hex()}))
        out.append(("same-lang-extended", {"t": "plutus", "lang": lang, "bytes": (b + b"\x00").hex()}))
        out.append(("prefix-moved-into-bytes", {"t": "plutus", "lang": lang, "bytes": (bytes([lang]) + b).hex()}))
    else:
        t = d["s"]
        cb = R.enc(ref_native_obj(t))
        out.append(("plutus-holding-native-cbor", {"t": "plutus", "lang": rng.choice([1, 2, 3]), "bytes": cb.hex()}))
        out.append(("wrapped-in-all", {"t": "native", "s": ["all", [t]]}))
        if t[0] in ("all", "any"):
            out.append(("all<->any", {"t": "native", "s": ["any" if t[0] == "all" else "all", t[1]]}))
            out.append(("extra-sub-script", {"t": "native", "s": [t[0], t[1] + [["pk", rb(rng, 28).hex()]]]}))
        elif t[0] == "nofk":
            out.append(("n+1", {"t": "native", "s": ["nofk", str(int(t[1]) + 1), t[2]]}))
        elif t[0] == "pk":
            h = bytes.fromhex(t[1])
            out.append(("key-hash-bit-flip", {"t": "native", "s": ["pk", (bytes([h[0] ^ 1]) + h[1:]).hex()]}))
        else:
            out.append(("before<->after", {"t": "native", "s": ["after" if t[0] == "before" else "before", t[1]]}))
            out.append(("slot+1", {"t": "native", "s": [t[0], str(int(t[1]) + 1)]}))
    return out


# ---- model access ---------------------------------------------------------------------------------------------------
def model_id(ctx, what, case, lib_id: bytes, **req):
    """Lean `id` op: hash of the model's preimage at the model's digest length must be the library's identifier"""
    if not ctx.have_driver():
        return None
    m = ctx.driver().ok({"op": "id", **req})
    ctx.traces += 1
    if m is None:
        if lib_id is not None:
            ctx.diff("id:" + what, case, None, lib_id.hex())
        return None
    got = b2(bytes.fromhex(m["pre"]), int(m["len"]))
    if lib_id is None or got != lib_id:
        ctx.diff("id:" + what, case, {"len": m["len"], "pre": m["pre"], "digest": got.hex()},
                 None if lib_id is None else lib_id.hex())
    return m


def expect_id(ctx, what, case, exp: bytes, got, cls=None, finding=None):
    """`got`: library identifier object (ConstrainedBytes) or bytes"""
    payload = got if isinstance(got, (bytes, bytearray)) else got.payload
    if cls is not None and not isinstance(got, cls):
        ctx.violation(f"{what}: identifier is not a {cls.__name__}", case, cls.__name__, type(got).__name__)
    if bytes(payload) != exp:
        ctx.violation(f"{what} is not the specified BLAKE2b digest of the exact bytes", case, exp.hex(),
                      bytes(payload).hex(), finding=finding)
        return False
    return True


# ---- kind: script ----------------------------------------------------------------------------------------------------
def check_script_case(ctx, case):
    d = case["script"]
    tag, sb = ref_script_parts(d)
    exp = b2(bytes([tag]) + sb, 28)
    s = lib_script(d)
    kind = d["t"] if d["t"] != "plutus" else f"plutus-v{d['lang']}"
    ctx.count("script:" + kind)
    expect_id(ctx, f"script_hash({kind})", case, exp, script_hash(s), ScriptHash)
    expect_id(ctx, f"plutus_script_hash({kind})", case, exp, plutus_script_hash(s), ScriptHash)
    if d["t"] == "native":
        ctx.count(f"native-depth:{native_depth(d['s'])}")
        ctx.count("native-root:" + d["s"][0])
        if not native_in_cddl(d["s"]):
            ctx.count("native-outside-cddl-range")
        expect_id(ctx, "NativeScript.hash()", case, exp, s.hash(), ScriptHash)
        if s.to_cbor() != sb:
            ctx.violation("native script does not serialize to the CDDL bytes of its tree (the hash preimage)", case,
                          sb.hex(), s.to_cbor().hex())
        # a decoded copy holds the same script
        expect_id(ctx, "script_hash(NativeScript.from_cbor(..))", case, exp,
                  script_hash(pc.NativeScript.from_cbor(s.to_cbor())), ScriptHash)
    # policy id of a minting policy / payment credential of a script address / stake credential
    pid = script_hash(s)
    ma = MultiAsset({pid: Asset({AssetName(b"t"): 1})})
    pol = R.dec(ma.to_cbor()).pairs[0][0]
    if pol != exp:
        ctx.violation("policy id in a serialized bundle is not the script hash", case, exp.hex(), pol.hex())
    addr = Address(pid, network=NET)
    ab = bytes(addr)
    if ab[1:29] != exp or not (ab[0] >> 4) & 1:
        ctx.violation("script address does not carry the script hash as payment credential", case, exp.hex(), ab.hex())
    ab2 = bytes(Address(VerificationKeyHash(b"\x07" * 28), pid, NET))
    if ab2[29:57] != exp:
        ctx.violation("script stake credential of an address is not the script hash", case, exp.hex(), ab2.hex())
    # the bytes a transaction output / witness set ships for this script hash to the same identifier
    if d["t"] != "raw":
        out = TransactionOutput(addr, 3_000_000, script=s)
        ob = out.to_cbor()
        po = L.parse_output(R.dec(ob))
        if po["script_ref"] is None:
            if truthy(d):
                ctx.violation("script attached to an output is not shipped", case, sb.hex(), ob.hex())
            else:
                ctx.count("empty-script-not-shipped-in-output")   # zero-length Plutus script: Python-falsy, dropped
        else:
            etag, ebytes = script_ref_parts(po["script_ref"])
            if b2(bytes([etag]) + ebytes, 28) != exp:
                ctx.violation("script reference embedded in an output does not hash to script_hash(script)", case,
                              exp.hex(), {"tag": etag, "bytes": ebytes.hex()})
            back = TransactionOutput.from_cbor(ob).script
            expect_id(ctx, "script_hash(output decoded from its own bytes .script)", case, exp, script_hash(back),
                      ScriptHash)
        kw = {"native": "native_scripts", 1: "plutus_v1_script", 2: "plutus_v2_script", 3: "plutus_v3_script"}[
            "native" if d["t"] == "native" else d["lang"]]
        wsb = TransactionWitnessSet(**{kw: [s]}).to_cbor()
        shipped = ws_scripts(wsb)
        if len(shipped) != 1 or b2(bytes([shipped[0][0]]) + shipped[0][1], 28) != exp:
            ctx.violation("script shipped in a witness set does not hash to script_hash(script)", case, exp.hex(),
                          [(t, x.hex()) for t, x in shipped])
        # read back: from the set form (#6.258, what the library emits) and from the plain array form
        wkey = {"native_scripts": 1, "plutus_v1_script": 3, "plutus_v2_script": 6, "plutus_v3_script": 7}[kw]
        elem = ref_native_obj(d["s"]) if d["t"] == "native" else sb
        for form, wire in (("set", wsb), ("array", R.enc(R.Map([(wkey, [elem])])))):
            back = getattr(TransactionWitnessSet.from_cbor(wire), kw)[0]
            got = script_hash(back)
            ctx.count(f"witness-set-decoded:{form}:{type(back).__name__}")
            # regression of FX-C17-wset-plutus-lang (V2 / V3 scripts of the set form came back as plain bytes = V1)
            expect_id(ctx, f"script_hash(script decoded from a witness set, {form} form)", {**case, "witness_set": wire.hex()},
                      exp, got, ScriptHash)
    for k in ("script", "policy", "scriptaddr"):
        m = model_id(ctx, k, case, bytes(pid.payload), kind=k, script=d)
        if m is not None and bytes.fromhex(m["pre"]) != bytes([tag]) + sb:
            ctx.diff("id-preimage:" + k, case, m["pre"], (bytes([tag]) + sb).hex())
    ctx.case(case)


def check_script_pair_case(ctx, case):
    """a script and a near miss: the library must give them different hashes exactly when the reference does"""
    a, b = case["a"], case["b"]
    ha, hb = script_hash(lib_script(a)).payload, script_hash(lib_script(b)).payload
    ea, eb = ref_script_hash(a), ref_script_hash(b)
    ctx.count("pair:" + case["label"])
    if (ha == hb) != (ea == eb) or ha != ea or hb != eb:
        ctx.violation(f"script hashes of a script and its variant ({case['label']}) do not separate as specified", case,
                      {"a": ea.hex(), "b": eb.hex()}, {"a": ha.hex(), "b": hb.hex()})
    ctx.case(case)


# ---- kind: key ----------------------------------------------------------------------------------------------------------
ORD_CLASSES = {"VerificationKey": VerificationKey, "PaymentVerificationKey": PaymentVerificationKey,
               "StakeVerificationKey": StakeVerificationKey, "StakePoolVerificationKey": StakePoolVerificationKey}
EXT_CLASSES = {"ExtendedVerificationKey": ExtendedVerificationKey,
               "PaymentExtendedVerificationKey": PaymentExtendedVerificationKey,
               "StakeExtendedVerificationKey": StakeExtendedVerificationKey}


def check_key_case(ctx, case):
    """case = {kind: key, cls, payload} | {kind: key, derive: 'skey'|'hd', seed}"""
    if "derive" in case:
        seed = bytes.fromhex(case["seed"])
        if case["derive"] == "skey":
            cls = [PaymentSigningKey, pc.StakeSigningKey, pc.StakePoolSigningKey][seed[0] % 3]
            vk = cls(seed).to_verification_key()
            ext = False
        else:
            from pycardano.crypto.bip32 import HDWallet
            hd = HDWallet.from_seed(seed.hex()).derive_from_path(f"m/1852'/1815'/{seed[0] % 3}'/{seed[1] % 3}/{seed[2] % 5}")
            xsk = [pc.PaymentExtendedSigningKey, pc.StakeExtendedSigningKey][seed[3] % 2].from_hdwallet(hd)
            vk = xsk.to_verification_key()
            ext = True
            if vk.payload[:32] != hd.public_key:
                ctx.violation("extended verification key does not start with the wallet's public key", case,
                              hd.public_key.hex(), vk.payload.hex())
        payload = bytes(vk.payload)
        name = type(vk).__name__
    else:
        payload = bytes.fromhex(case["payload"])
        name = case["cls"]
        ext = name in EXT_CLASSES
        vk = (EXT_CLASSES if ext else ORD_CLASSES)[name](payload)
    ctx.count(f"key:{'extended' if ext else 'ordinary'}:{len(payload)}")
    h = vk.hash()
    if not ext and len(payload) != 32:
        # an ordinary key is 32 bytes; another length is outside the property (and the theorem's hypothesis): T2 only
        ctx.skipped += 1
        model_id(ctx, "vkey", case, h.payload, kind="vkey", bytes=payload.hex())
        ctx.case(case, nontrivial=False)
        return
    exp = b2(payload[:32], 28)
    expect_id(ctx, f"{name}.hash()", case, exp, h, VerificationKeyHash)
    if ext:
        expect_id(ctx, f"{name}.to_non_extended().hash()", case, exp, vk.to_non_extended().hash(), VerificationKeyHash)
        if bytes(vk.to_non_extended().payload) != payload[:32]:
            ctx.violation("to_non_extended() is not the first 32 bytes", case, payload[:32].hex(),
                          bytes(vk.to_non_extended().payload).hex())
    ab = bytes(Address(vk.hash(), network=NET))
    if ab[1:29] != exp:
        ctx.violation("key address does not carry the key hash", case, exp.hex(), ab.hex())
    # a witness built from this key, shipped and read back, identifies the same key
    wsb = TransactionWitnessSet(vkey_witnesses=[VerificationKeyWitness(vk, b"\x00" * 64)]).to_cbor()
    m = map_slices(wsb)
    s, e = array_slices(wsb, m[0][0])[0]
    shipped_vk = R.dec(wsb[s:e])[0]
    if b2(shipped_vk[:32], 28) != exp or len(shipped_vk) != 32:
        ctx.violation("verification key shipped in a witness is not the 32-byte key the hash is taken over", case,
                      payload[:32].hex(), shipped_vk.hex())
    model_id(ctx, "xvkey" if ext else "vkey", case, h.payload, kind="xvkey" if ext else "vkey", bytes=payload.hex())
    ctx.case(case)


# ---- kind: datum --------------------------------------------------------------------------------------------------------
@dataclass
class C17Inner(PlutusData):
    CONSTR_ID = 1
    a: int
    b: bytes


@dataclass
class C17Outer(PlutusData):
    CONSTR_ID = 9
    x: C17Inner
    y: List[int]
    z: Dict[bytes, int]
    w: bytes


def gen_pint(rng):
    r = rng.random()
    if r < 0.5:
        return rng.choice([0, 1, 23, 24, 255, 256, 65535, 65536, 2**32, 2**63, 2**64 - 1, -1, -24, -25, -256, -2**63, -2**64])
    if r < 0.9:
        return rng.randint(-10**6, 10**6)
    return rng.choice([2**64, 2**70 + 5, -2**64 - 1, -2**80])


def gen_pdata(rng, depth):
    r = rng.random()
    if depth <= 0 or r < 0.3:
        return gen_pint(rng) if rng.random() < 0.5 else rb(rng, rng.choice([0, 1, 28, 32, 63, 64, 65, 100, 130]))
    if r < 0.5:
        xs = [gen_pdata(rng, depth - 1) for _ in range(rng.randint(0, 3))]
        return IndefiniteList(xs) if xs and rng.random() < 0.8 else xs
    if r < 0.65:
        out = {}
        for _ in range(rng.randint(0, 3)):
            k = gen_pint(rng) if rng.random() < 0.5 else rb(rng, rng.randint(0, 8))
            out[k] = gen_pdata(rng, depth - 1)
        return out
    fields = [gen_pdata(rng, depth - 1) for _ in range(rng.randint(0, 3))]
    body = IndefiniteList(fields) if fields else []
    c = rng.choice([0, 1, 6, 7, 8, 127, 128, 500])
    if c < 7:
        return CBORTag(121 + c, body)
    if c < 128:
        return CBORTag(1280 + c - 7, body)
    return CBORTag(102, [c, body])


def gen_datum(rng):
    r = rng.random()
    if r < 0.45:
        x = gen_pdata(rng, rng.randint(1, 4))
        while not isinstance(x, CBORTag):
            x = CBORTag(121 + rng.randrange(7), IndefiniteList([x]))
        return "raw-plutus-data", RawPlutusData(x)
    if r < 0.55:
        return "int", gen_pint(rng)
    if r < 0.65:
        # plain bytes of every length (a datum is whatever the caller hands over): past the 64-byte chunk size of typed
        # Plutus data too — the hash must still be taken over exactly the bytes that are shipped
        return "bytes", rb(rng, rng.choice([0, 1, 32, 63, 64, 65, 66, 100, 127, 128, 129, 192, 200, 256, 300]))
    if r < 0.72:
        return "indefinite-list", IndefiniteList([gen_pint(rng) for _ in range(rng.randint(1, 4))])
    if r < 0.8:
        return "dict", {gen_pint(rng): gen_pint(rng) for _ in range(rng.randint(0, 3))}
    if r < 0.9:
        return "raw-cbor", RawCBOR(cbor2.dumps(gen_pdata(rng, 2), default=default_encoder))
    inner = C17Inner(gen_pint(rng), rb(rng, rng.randint(0, 64)))
    if rng.random() < 0.4:
        return "typed", inner
    return "typed", C17Outer(inner, [gen_pint(rng) for _ in range(rng.randint(0, 3))],
                             {rb(rng, rng.randint(0, 5)): gen_pint(rng) for _ in range(rng.randint(0, 3))},
                             rb(rng, rng.randint(0, 64)))


def check_datum_case(ctx, case):
    rng = random.Random(case["dseed"])
    kind, d = gen_datum(rng)
    ctx.count("datum:" + kind)
    wire = cbor2.dumps(d, default=default_encoder)
    info = {**case, "datum_kind": kind, "cbor": wire.hex()}
    h = datum_hash(d)
    exp = b2(wire, 32)
    expect_id(ctx, "datum_hash", info, exp, h, pch.DatumHash)
    if hasattr(d, "to_cbor") and d.to_cbor() != wire:
        ctx.violation("datum.to_cbor() differs from the bytes datum_hash is taken over", info, wire.hex(), d.to_cbor().hex())
    addr = Address(ScriptHash(b"\x05" * 28), network=NET)
    try:
        ob = TransactionOutput(addr, 2_000_000, datum=d).to_cbor()
        emb = L.parse_output(R.dec(ob))["inline_datum"]
    except Exception as e:
        ctx.count("datum-inline-raised:" + type(e).__name__)
        emb = None
    if emb is not None:
        ctx.count("datum-embedded:inline")
        if b2(emb, 32) != bytes(h.payload):
            ctx.violation("inline datum bytes shipped in an output do not hash to datum_hash(datum)", info,
                          h.payload.hex(), {"embedded": emb.hex(), "hash": b2(emb, 32).hex()})
    try:
        wsb = TransactionWitnessSet(plutus_data=[d]).to_cbor()
        shipped = ws_datums(wsb)
    except Exception as e:
        ctx.count("datum-witness-raised:" + type(e).__name__)
        shipped = None
    if shipped is not None:
        ctx.count("datum-embedded:witness")
        if len(shipped) != 1 or b2(shipped[0], 32) != bytes(h.payload):
            ctx.violation("datum bytes shipped in a witness set do not hash to datum_hash(datum)", info,
                          h.payload.hex(), [x.hex() for x in shipped])
    model_id(ctx, "datum", info, bytes(h.payload), kind="datum", bytes=wire.hex())
    ctx.case(case)


# ---- kind: auxiliary data --------------------------------------------------------------------------------------------------
def gen_meta_value(rng, depth):
    r = rng.random()
    if depth <= 0 or r < 0.5:
        c = rng.random()
        if c < 0.4:
            return rng.choice([0, 1, 23, 24, 255, 256, 2**32, 2**64 - 1, -1, -2**63])
        if c < 0.7:
            return "".join(rng.choice("abc xyz0189é") for _ in range(rng.choice([0, 1, 10, 30])))
        return rb(rng, rng.choice([0, 1, 32, 64]))
    if r < 0.75:
        return [gen_meta_value(rng, depth - 1) for _ in range(rng.randint(0, 3))]
    return {(rng.choice(["k", "name", "v"]) + str(i) if rng.random() < 0.7 else i): gen_meta_value(rng, depth - 1)
            for i in range(rng.randint(0, 3))}


def gen_metadata(rng):
    labels = rng.sample([0, 1, 20, 23, 24, 255, 256, 674, 721, 65535, 65536, 2**32, 2**63, 2**64 - 1], rng.randint(0, 4))
    return Metadata({l: gen_meta_value(rng, rng.randint(0, 3)) for l in labels})


def gen_aux(rng, era):
    md = gen_metadata(rng)
    natives = [lib_native(gen_native(rng, rng.randint(0, 3))) for _ in range(rng.randint(0, 2))]
    if era == "shelley":
        return AuxiliaryData(md)
    if era == "allegra":
        return AuxiliaryData(ShelleyMarryMetadata(md, natives))     # `None` would be emitted as null: not CDDL
    kw = {}
    if rng.random() < 0.8:
        kw["metadata"] = md
    if rng.random() < 0.6:
        kw["native_scripts"] = natives
    for k, cls in (("plutus_v1_scripts", PlutusV1Script), ("plutus_v2_scripts", PlutusV2Script),
                   ("plutus_v3_scripts", PlutusV3Script)):
        if rng.random() < 0.4:
            kw[k] = [cls(rb(rng, rng.choice([1, 10, 70]))) for _ in range(rng.randint(1, 2))]
    return AuxiliaryData(AlonzoMetadata(**kw))


ERAS = ["shelley", "allegra", "alonzo"]


def simple_body(rng, aux_hash=None):
    ins = [TransactionInput(TransactionId(rb(rng, 32)), rng.randrange(4)) for _ in range(rng.randint(1, 3))]
    outs = [TransactionOutput(Address(VerificationKeyHash(rb(rng, 28)), network=NET), rng.randint(10**6, 10**8))]
    return TransactionBody(inputs=ins, outputs=outs, fee=rng.randint(150000, 400000), auxiliary_data_hash=aux_hash)


def check_aux_case(ctx, case):
    rng = random.Random(case["aseed"])
    aux = gen_aux(rng, case["era"])
    ctx.count("aux:" + case["era"])
    h = aux.hash()
    own = aux.to_cbor()
    info = {**case, "aux_cbor": own.hex()}
    if not isinstance(h, pch.AuxiliaryDataHash):
        ctx.violation("AuxiliaryData.hash() is not an AuxiliaryDataHash", info, "AuxiliaryDataHash", type(h).__name__)
    tx = Transaction(simple_body(rng, h), TransactionWitnessSet(), True, aux)
    txb = tx.to_cbor()
    body_s, _, aux_s = L.tx_parts(txb)
    if aux_s is None:
        ctx.violation("auxiliary data handed to a transaction is not shipped", info, own.hex(), None)
        return
    exp = b2(aux_s, 32)
    expect_id(ctx, "AuxiliaryData.hash() vs the auxiliary data bytes shipped in the transaction", info, exp, h)
    k7 = L.Body(body_s).aux_hash
    if k7 != exp:
        ctx.violation("body key 7 is not the hash of the auxiliary data shipped in the same transaction", info,
                      exp.hex(), None if k7 is None else k7.hex())
    # a decoded copy re-serializes some auxiliary data: its hash must be the hash of what *it* ships
    try:
        tx2 = Transaction.from_cbor(txb)
        b2s, _, a2s = L.tx_parts(tx2.to_cbor())
        if tx2.auxiliary_data is None or a2s is None:
            ctx.violation("auxiliary data lost by decode / encode", info, aux_s.hex(), None)
        else:
            expect_id(ctx, "decoded AuxiliaryData.hash() vs the bytes the decoded transaction ships", info, b2(a2s, 32),
                      tx2.auxiliary_data.hash())
            ctx.count("aux-decoded-era:" + type(tx2.auxiliary_data.data).__name__)
    except Exception as e:
        ctx.count("aux-decode-raised:" + type(e).__name__)
    model_id(ctx, "tx.aux", info, bytes(h.payload), kind="tx.aux", tx=txb.hex())
    model_id(ctx, "aux", info, bytes(h.payload), kind="aux", bytes=own.hex())
    ctx.case(case)


# ---- kind: hand-made transaction ---------------------------------------------------------------------------------------------
def gen_assets(rng):
    m = MultiAsset()
    for _ in range(rng.randint(1, 3)):
        a = Asset()
        for _ in range(rng.randint(1, 3)):
            a[AssetName(rb(rng, rng.choice([0, 1, 8, 32])))] = rng.randint(1, 10**9)
        m[ScriptHash(rb(rng, 28))] = a
    return m


def gen_output(rng):
    pay = ScriptHash(rb(rng, 28)) if rng.random() < 0.3 else VerificationKeyHash(rb(rng, 28))
    stk = VerificationKeyHash(rb(rng, 28)) if rng.random() < 0.4 else None
    amount = Value(rng.randint(10**6, 10**9), gen_assets(rng)) if rng.random() < 0.4 else rng.randint(10**6, 10**9)
    kw = {}
    r = rng.random()
    if r < 0.2:
        kw["datum_hash"] = pch.DatumHash(rb(rng, 32))
    elif r < 0.45:
        kw["datum"] = gen_datum(rng)[1]
    if rng.random() < 0.2:
        kw["script"] = lib_script(gen_script(rng)) if rng.random() < 0.9 else None
        if isinstance(kw["script"], bytes) and type(kw["script"]) is bytes:
            kw["script"] = PlutusV1Script(kw["script"])
    if rng.random() < 0.2:
        kw["post_alonzo"] = True
    return TransactionOutput(Address(pay, stk, NET), amount, **kw)


def gen_tx(rng):
    n_in = rng.randint(1, 6)
    ins = [TransactionInput(TransactionId(rb(rng, 32)), rng.choice([0, 1, 2, 23, 24, 255, 256])) for _ in range(n_in)]
    if rng.random() < 0.3 and n_in > 1:     # shared transaction id, descending index: any re-sorting changes the bytes
        ins[1] = TransactionInput(ins[0].transaction_id, ins[0].index + 1)
        ins[0], ins[1] = ins[1], ins[0]
    kw = {}
    if rng.random() < 0.6:
        kw["ttl"] = rng.choice([0, 1, 1000, 2**32, 2**63])
    if rng.random() < 0.4:
        kw["validity_start"] = rng.randint(0, 10**8)
    if rng.random() < 0.4:
        kw["mint"] = gen_assets(rng)
    if rng.random() < 0.3:
        kw["required_signers"] = [VerificationKeyHash(rb(rng, 28)) for _ in range(rng.randint(1, 3))]
    if rng.random() < 0.3:
        kw["collateral"] = [TransactionInput(TransactionId(rb(rng, 32)), rng.randrange(3)) for _ in range(rng.randint(1, 2))]
        kw["total_collateral"] = rng.randint(10**6, 10**7)
        if rng.random() < 0.5:
            kw["collateral_return"] = gen_output(rng)
    if rng.random() < 0.3:
        kw["reference_inputs"] = [TransactionInput(TransactionId(rb(rng, 32)), rng.randrange(3)) for _ in range(rng.randint(1, 3))]
    if rng.random() < 0.3:
        kw["script_data_hash"] = pch.ScriptDataHash(rb(rng, 32))
    if rng.random() < 0.3:
        w = Withdrawals()
        for _ in range(rng.randint(1, 3)):
            w[bytes([0xE0]) + rb(rng, 28)] = rng.randint(0, 10**7)
        kw["withdraws"] = w
    if rng.random() < 0.2:
        kw["network_id"] = NET
    if rng.random() < 0.2:
        kw["donation"] = rng.randint(1, 10**6)
        kw["current_treasury_value"] = rng.randint(0, 10**12)
    aux = gen_aux(rng, rng.choice(ERAS)) if rng.random() < 0.4 else None
    if aux is not None:
        kw["auxiliary_data_hash"] = aux.hash()
    body = TransactionBody(inputs=ins, outputs=[gen_output(rng) for _ in range(rng.randint(1, 4))],
                           fee=rng.choice([0, 23, 24, 170000, 2**32]), **kw)
    ws = TransactionWitnessSet()
    if rng.random() < 0.6:
        ws.vkey_witnesses = [VerificationKeyWitness(VerificationKey(rb(rng, 32)), rb(rng, 64)) for _ in range(rng.randint(1, 3))]
    if rng.random() < 0.2:
        ws.native_scripts = [lib_native(gen_native(rng, 2))]
    return Transaction(body, ws, rng.random() < 0.9, aux), sorted(kw)


def check_tx_case(ctx, case):
    rng = random.Random(case["tseed"])
    tx, fields_present = gen_tx(rng)
    txb = tx.to_cbor()
    info = {**case, "tx_cbor": txb.hex()}
    body_s, _, aux_s = L.tx_parts(txb)
    exp = b2(body_s, 32)
    for f in fields_present:
        ctx.count("tx-field:" + f)
    ctx.count(f"tx-inputs:{len(tx.transaction_body.inputs)}")
    expect_id(ctx, "Transaction.id vs the body bytes of tx.to_cbor()", info, exp, tx.id, TransactionId)
    expect_id(ctx, "TransactionBody.id", info, exp, tx.transaction_body.id, TransactionId)
    expect_id(ctx, "TransactionBody.hash()", info, exp, tx.transaction_body.hash())
    if tx.transaction_body.to_cbor() != body_s:
        ctx.violation("the body inside the serialized transaction differs from body.to_cbor()", info, body_s.hex(),
                      tx.transaction_body.to_cbor().hex())
    dc = copy.deepcopy(tx)
    expect_id(ctx, "id of a deep copy", info, exp, dc.id)
    if aux_s is not None:
        k7 = L.Body(body_s).aux_hash
        if k7 != b2(aux_s, 32):
            ctx.violation("hand-made transaction: body key 7 (AuxiliaryData.hash()) is not the hash of the shipped "
                          "auxiliary data", info, b2(aux_s, 32).hex(), None if k7 is None else k7.hex())
    try:
        tx2 = Transaction.from_cbor(txb)
        t2b = tx2.to_cbor()
        expect_id(ctx, "id of a decoded transaction vs the body bytes it serializes", info, b2(L.tx_parts(t2b)[0], 32),
                  tx2.id, TransactionId)
        ctx.count("tx-decoded:" + ("same-bytes" if t2b == txb else "other-bytes"))
    except Exception as e:
        ctx.count("tx-decode-raised:" + type(e).__name__)
    model_id(ctx, "tx.body", info, bytes(tx.id.payload), kind="tx.body", tx=txb.hex())
    model_id(ctx, "body", info, bytes(tx.id.payload), kind="body", bytes=body_s.hex())
    ctx.case(case)


# ---- kind: CIP-14 ----------------------------------------------------------------------------------------------------------------
CIP14_VECTORS = [   # CIP-14 "Test Vectors"
    ("7eae28af2208be856f7a119668ae52a49b73725e326dc16579dcc373", "", "asset1rjklcrnsdzqp65wjgrg55sy9723kw09mlgvlc3"),
    ("7eae28af2208be856f7a119668ae52a49b73725e326dc16579dcc37e", "", "asset1nl0puwxmhas8fawxp8nx4e2q3wekg969n2auw3"),
    ("1e349c9bdea19fd6c147626a5260bc44b71635f398b67c59881df209", "", "asset1uyuxku60yqe57nusqzjx38aan3f2wq6s93f6ea"),
    ("7eae28af2208be856f7a119668ae52a49b73725e326dc16579dcc373", "504154415445", "asset13n25uv0yaf5kus35fm2k86cqy60z58d9xmde92"),
    ("1e349c9bdea19fd6c147626a5260bc44b71635f398b67c59881df209", "504154415445", "asset1hv4p5tv2a837mzqrst04d0dcptdjmluqvdx9k3"),
    ("1e349c9bdea19fd6c147626a5260bc44b71635f398b67c59881df209", "7eae28af2208be856f7a119668ae52a49b73725e326dc16579dcc373",
     "asset1aqrdypg669jgazruv5ah07nuyqe0wxjhe2el6f"),
    ("7eae28af2208be856f7a119668ae52a49b73725e326dc16579dcc373", "1e349c9bdea19fd6c147626a5260bc44b71635f398b67c59881df209",
     "asset17jd78wukhtrnmjh3fngzasxm8rck0l2r4hhyyt"),
    ("7eae28af2208be856f7a119668ae52a49b73725e326dc16579dcc373", "00" * 32, "asset1pkpwyknlvul7az0xx8czhl60pyel45rpje4z8w"),
]


def check_asset_case(ctx, case):
    p, n = bytes.fromhex(case["policy"]), bytes.fromhex(case["name"])
    digest = b2(p + n, 20)
    exp = bech32_ref.encode("asset", digest)
    if "vector" in case and exp != case["vector"]:
        raise Infra("reference fingerprint disagrees with a CIP-14 test vector")
    form = case["form"]
    pa = ScriptHash(p) if form[0] == "o" else p if form[0] == "b" else p.hex()
    na = AssetName(n) if form[1] == "o" else n if form[1] == "b" else n.hex()
    got = encode_asset(pa, na)
    ctx.count("asset-form:" + form)
    ctx.count("asset-name-len:" + ("0" if not n else "32" if len(n) == 32 else "1..31"))
    if got != exp:
        try:
            hrp, data = bech32_ref.decode(got)
        except Exception:
            hrp, data = None, b""
        ctx.violation("CIP-14 fingerprint is not bech32('asset', blake2b-160(policy ‖ name))", case, exp,
                      {"fingerprint": got, "hrp": hrp, "digest": data.hex(), "digest_len": len(data)})
    if ctx.have_driver():
        m = ctx.driver().ok({"op": "id", "kind": "asset", "policy": p.hex(), "name": n.hex()})
        ctx.traces += 1
        mg = bech32_ref.encode(m["hrp"], b2(bytes.fromhex(m["pre"]), int(m["len"])))
        if mg != got:
            ctx.diff("id:asset", case, {**m, "fingerprint": mg}, got)
    ctx.case(case)


# ---- kind: fixed sizes ----------------------------------------------------------------------------------------------------------------
def all_subclasses(c):
    out = []
    for s in c.__subclasses__():
        out.append(s)
        out += all_subclasses(s)
    return out


def check_sizes(ctx, case):
    classes = {c.__name__: c for c in all_subclasses(pch.ConstrainedBytes) if c.__module__ == "pycardano.hash"}
    for name in sorted(set(classes) | set(SPEC_SIZES)):
        c = classes.get(name)
        spec = SPEC_SIZES.get(name)
        ctx.count("size-class")
        if c is None:
            ctx.violation(f"hash class {name} of the specification table is missing from pycardano.hash", case, spec, None)
            continue
        if spec is not None and (c.MIN_SIZE != spec or c.MAX_SIZE != spec):
            ctx.violation(f"{name} does not have the specified fixed size", {**case, "size_cls": name}, spec,
                          [c.MIN_SIZE, c.MAX_SIZE])
        if spec is not None:
            for n in (spec - 1, spec + 1):
                try:
                    c(bytes(n))
                    ctx.violation(f"{name} accepts {n} bytes", {**case, "size_cls": name}, f"exactly {spec} bytes", n)
                except AssertionError:
                    pass
            if bytes(c(bytes(range(spec))).payload) != bytes(range(spec)):
                ctx.violation(f"{name} does not hold the bytes it was given", {**case, "size_cls": name}, None, None)
        if ctx.have_driver():
            m = ctx.driver().ok({"op": "id", "kind": "size", "cls": name})
            ctx.traces += 1
            if (None if m is None else int(m)) != (c.MAX_SIZE if c.MAX_SIZE == c.MIN_SIZE else None):
                ctx.diff("id:size", {**case, "size_cls": name}, m, [c.MIN_SIZE, c.MAX_SIZE])
    consts = {"VERIFICATION_KEY_HASH_SIZE": 28, "SCRIPT_HASH_SIZE": 28, "SCRIPT_DATA_HASH_SIZE": 32,
              "TRANSACTION_HASH_SIZE": 32, "DATUM_HASH_SIZE": 32, "AUXILIARY_DATA_HASH_SIZE": 32, "POOL_KEY_HASH_SIZE": 28,
              "POOL_METADATA_HASH_SIZE": 32, "VRF_KEY_HASH_SIZE": 32, "REWARD_ACCOUNT_HASH_SIZE": 29,
              "ANCHOR_DATA_HASH_SIZE": 32}
    for k, v in consts.items():
        if getattr(pch, k, None) != v:
            ctx.violation(f"pycardano.hash.{k} is not the specified digest size", {**case, "size_const": k}, v, getattr(pch, k, None))
    ctx.case(case)


# ---- kind: script gate, directly on add_script_input ---------------------------------------------------------------------------------
def gate_oracle(g):
    """independent reading of the rule: which (source, index) is bound, or reject; hashes by the reference"""
    cred = ref_script_hash(g["cred"])
    own = g["own"]
    if own is not None and truthy(own):
        cands = [("own", None, own)]
    else:
        o = g["offer"]
        if o["k"] == "none" or (o["k"] == "script" and not truthy(o["s"])):
            cands = [("addr", i, d) for i, d in enumerate(g["addr"]) if d is not None and truthy(d)]
        elif o["k"] == "ref":
            if o["s"] is None:
                return ("reject", "ref-without-script", [])
            cands = [("ref", None, o["s"])]
        else:
            cands = [("offered", None, o["s"])]
    matching = [(src, i) for src, i, d in cands if ref_script_hash(d) == cred]
    if matching:
        return ("accept", matching[0], matching)
    return ("reject", "no-valid-script", [])


def gate_objects(g):
    """library objects of a gate description: (context, spent utxo, offer object, {(txid, ix): script desc})"""
    cred = ref_script_hash(g["cred"])
    addr = Address(ScriptHash(cred), VerificationKeyHash(b"\x09" * 28) if g.get("stake") else None, NET)

    def mk(label, ix, script_desc, a=addr):
        out = TransactionOutput(a, 4_000_000 + ix)
        if script_desc is not None:
            s = lib_script(script_desc)
            out.script = PlutusV1Script(s) if type(s) is bytes else s
        return UTxO(TransactionInput(TransactionId(S.H("c17/" + label)), ix), out)
    spent = mk("spent", 0, g["own"])
    held = {(spent.input.transaction_id.payload.hex(), 0): g["own"]}
    at = []
    for i, d in enumerate(g["addr"]):
        if i == g.get("spent_pos"):
            at.append(spent)
        else:
            u = mk(f"at{i}", i + 1, d)
            held[(u.input.transaction_id.payload.hex(), i + 1)] = d
            at.append(u)
    cx = S.StubContext({})
    cx._by_addr[str(addr)] = at
    o = g["offer"]
    if o["k"] == "none":
        offer = None
    elif o["k"] == "ref":
        other = Address(VerificationKeyHash(b"\x0a" * 28), network=NET)
        offer = mk("ref", 7, o["s"], other)
        held[(offer.input.transaction_id.payload.hex(), 7)] = o["s"]
    else:
        offer = lib_script(o["s"])
    return cx, spent, offer, held, at


def to_model_script(d):
    return None if d is None else {"h": ref_script_hash(d).hex(), "truthy": truthy(d)}


def check_gate_case(ctx, case):
    g = case["g"]
    cred = ref_script_hash(g["cred"])
    cx, spent, offer, held, at = gate_objects(g)
    b = TransactionBuilder(cx)
    try:
        b.add_script_input(spent, offer)
        outcome = "accept"
    except InvalidArgumentException:
        outcome = "reject"
    except Exception as e:
        outcome = "crash:" + type(e).__name__
    exp = gate_oracle(g)
    ctx.count("gate:" + g["shape"])
    ctx.count("gate-expected:" + exp[0] + (":" + exp[1][0] if exp[0] == "accept" else ":" + exp[1]))
    if exp[0] == "accept" and exp[1][0] == "addr":
        earlier = sum(1 for d in g["addr"][:exp[1][1]] if d is not None and truthy(d))
        ctx.count(f"gate-address-match-after-{min(earlier, 3)}{'+' if earlier >= 3 else ''}-non-matching")
        if len(exp[2]) > 1:
            ctx.count("gate-address-several-matching")
    universe = [g["own"]] + list(g["addr"]) + ([g["offer"]["s"]] if g["offer"]["k"] != "none" else [])
    any_match = any(d is not None and ref_script_hash(d) == cred for d in universe)
    observed = None
    if outcome.startswith("crash"):
        ctx.violation("add_script_input neither accepts nor raises InvalidArgumentException", case, exp[0], outcome)
    elif outcome == "accept":
        wsb = b.build_witness_set().to_cbor()
        shipped = ws_scripts(wsb)
        refs = sorted((r.input if isinstance(r, UTxO) else r).transaction_id.payload.hex() + "#" +
                      str((r.input if isinstance(r, UTxO) else r).index) for r in b.reference_inputs)
        bound = [b2(bytes([t]) + x, 28) for t, x in shipped]
        for r in b.reference_inputs:
            i = r.input if isinstance(r, UTxO) else r
            d = held.get((i.transaction_id.payload.hex(), i.index))
            bound.append(ref_script_hash(d) if d is not None else b"")
        observed = {"witness_scripts": [(t, x.hex()) for t, x in shipped], "reference_inputs": refs}
        if not any_match:
            ctx.violation("add_script_input accepted although no offered / found script hashes to the input's payment "
                          "credential", case, "InvalidArgumentException", observed)
        elif not bound or any(h != cred for h in bound):
            ctx.violation("the script the builder bound to the input (witness set / reference input) does not hash to "
                          "the input's payment credential", case, cred.hex(), observed)
        elif exp[0] == "reject":
            ctx.violation("add_script_input accepted although no candidate of the documented search hashes to the "
                          "credential", case, "InvalidArgumentException", observed)
        if spent not in b.inputs:
            ctx.violation("accepted script input is not among the builder's inputs", case, None, None)
    else:
        if exp[0] == "accept":
            ctx.violation("add_script_input raised although a candidate hashes to the input's payment credential", case,
                          {"accept": exp[1]}, "InvalidArgumentException")
        if spent in b.inputs:
            ctx.violation("refused script input was added to the builder's inputs", case, None, None)
    if ctx.have_driver():
        m = ctx.driver().ok({"op": "script.gate", "cred": cred.hex(), "own": to_model_script(g["own"]),
                             "addr": [to_model_script(d) for d in g["addr"]],
                             "offer": {"k": g["offer"]["k"], **({"s": to_model_script(g["offer"]["s"])}
                                                                if g["offer"]["k"] != "none" else {})},
                             "same": [str(g["spent_pos"])] if g.get("spent_pos") is not None else []})
        ctx.traces += 1
        if "err" in m:
            if outcome != "reject":
                ctx.diff("script.gate", case, m, outcome)
        elif outcome != "accept":
            ctx.diff("script.gate", case, m, outcome)
        else:
            # which candidate: witness vs reference, and which reference UTxO
            want_refs = []
            if m["ref"]:
                u = at[int(m["i"])] if m["src"] == "addr" else offer
                want_refs = [u.input.transaction_id.payload.hex() + "#" + str(u.input.index)]
            want_ws = 0 if m["ref"] else 1
            if observed["reference_inputs"] != want_refs or len(observed["witness_scripts"]) != want_ws:
                ctx.diff("script.gate", case, m, observed)
    ctx.case(case)


def gen_gate(rng):
    cred = gen_script(rng)
    while cred["t"] == "raw":
        cred = gen_script(rng)
    vs = [d for _, d in variants(rng, cred)]
    other = gen_script(rng)

    def wrong():
        d = rng.choice(vs) if rng.random() < 0.8 else other
        return d if d["t"] != "raw" else other if other["t"] != "raw" else vs[0]

    def maybe(p):
        return copy.deepcopy(cred) if rng.random() < p else wrong()
    g = {"cred": cred, "own": None, "addr": [], "offer": {"k": "none"}, "stake": rng.random() < 0.3}
    shape = rng.choice(["own", "address", "address", "ref", "ref", "offered", "offered", "offered"])
    g["shape"] = shape
    if shape == "own":
        g["own"] = maybe(0.6)
        k = rng.choice(["none", "script", "ref"])
        if k == "script":
            g["offer"] = {"k": "script", "s": maybe(0.5)}
        elif k == "ref":
            g["offer"] = {"k": "ref", "s": maybe(0.5) if rng.random() < 0.8 else None}
        g["addr"] = [maybe(0.5) if rng.random() < 0.7 else None for _ in range(rng.randint(0, 2))]
    elif shape == "address":
        n = rng.randint(0, 5)
        g["addr"] = [None if rng.random() < 0.25 else maybe(0.35) for _ in range(n)]
        if rng.random() < 0.15:          # a falsy (empty) script offered: read as "no script offered"
            g["offer"] = {"k": "script", "s": {"t": "plutus", "lang": rng.choice([1, 2, 3]), "bytes": ""}}
            g["shape"] = "address-falsy-offer"
    elif shape == "ref":
        g["offer"] = {"k": "ref", "s": None if rng.random() < 0.15 else maybe(0.5)}
        g["addr"] = [maybe(0.5) for _ in range(rng.randint(0, 2))]
    else:
        if rng.random() < 0.05 and cred["t"] == "plutus" and cred["lang"] == 1:
            g["offer"] = {"k": "script", "s": {"t": "raw", "bytes": cred["bytes"]}}
        else:
            g["offer"] = {"k": "script", "s": maybe(0.45)}
        g["addr"] = [maybe(0.5) for _ in range(rng.randint(0, 2))]
        if not truthy(g["offer"]["s"]):
            g["shape"] = "address-falsy-offer"
    # the spent UTxO itself lives at the address
    if rng.random() < 0.7:
        pos = rng.randint(0, len(g["addr"]))
        g["addr"].insert(pos, g["own"])
        g["spent_pos"] = pos
    return {"kind": "gate", "g": g}


# ---- kind: full builder runs ------------------------------------------------------------------------------------------------------------
def _c17_utxo(b, cx, o, run, idx):
    """register a UTxO described with this module's script grammar: payment credential = reference hash of o['cred']"""
    if o.get("cred") is not None:
        addr = Address(ScriptHash(ref_script_hash(o["cred"])), None, NET)
    else:
        addr = S.address(o["addr"])
    out = TransactionOutput(addr, Value(int(o["coin"]), S.multi_asset(o.get("assets", []))))
    if o.get("own") is not None:
        s = lib_script(o["own"])
        out.script = PlutusV1Script(s) if type(s) is bytes else s
    if o.get("inline_datum") is not None:
        out.datum = S.datum(o["inline_datum"])
    u = UTxO(TransactionInput(TransactionId(bytes.fromhex(o["txid"])), int(o["ix"])), out)
    cx.utxo_objs[o["id"]] = u
    if o.get("listed", True):
        cx._by_addr.setdefault(str(addr), []).append(u)


def _c17_script_input(b, cx, o, run, idx):
    off = o["offer"]
    sc = None if off["k"] == "none" else cx.utxo_objs[off["u"]] if off["k"] == "ref" else lib_script(off["s"])
    r = S.redeemer(o["redeemer"]) if o.get("redeemer") is not None else None
    run.redeemer_objs[idx] = r
    b.add_script_input(cx.utxo_objs[o["u"]], sc, None, r)


def _c17_aux(b, cx, o, run, idx):
    rng = random.Random(o["aseed"])
    b.auxiliary_data = gen_aux(rng, o["era"])
    if o.get("peek"):
        b.auxiliary_data.hash()      # the user looks at the hash before the metadata is final


def _c17_aux_mutate(b, cx, o, run, idx):
    """change the auxiliary data object in place after it was handed to the builder"""
    d = b.auxiliary_data.data
    md = d if isinstance(d, Metadata) else d.metadata
    if md is None:
        d.metadata = Metadata({int(o["label"]): o["value"]})
    else:
        md[int(o["label"])] = o["value"]


def _c17_mint(b, cx, o, run, idx):
    s = lib_script(o["script"])
    ma = MultiAsset({script_hash(s): Asset({AssetName(bytes.fromhex(o["name"])): int(o["qty"])})})
    b.mint = ma if b.mint is None else b.mint + ma
    r = S.redeemer(o["redeemer"]) if o.get("redeemer") is not None else None
    run.redeemer_objs[idx] = r
    b.add_minting_script(cx.utxo_objs[o["ref_utxo"]] if o.get("ref_utxo") else s, r)


S.EXTRA_OPS.update({"c17_utxo": _c17_utxo, "c17_script_input": _c17_script_input, "c17_aux": _c17_aux,
                    "c17_aux_mutate": _c17_aux_mutate, "c17_mint": _c17_mint})


def T(label):
    return S.H("tx/" + label).hex()


def gen_build(rng):
    ops, meta = [], {"aux": None, "gate": None, "mint": None}
    utxos = [{"id": "w0", "txid": T("w0"), "ix": 0, "addr": "k0", "coin": 90_000_000},
             {"id": "w1", "txid": T("w1"), "ix": 3, "addr": "k0", "coin": 40_000_000},
             {"id": "c0", "txid": T("c0"), "ix": 1, "addr": "k0", "coin": 9_000_000}]
    ops.append({"op": "add_input", "u": "w0"})
    ops.append({"op": "add_input_address", "a": "k0"})
    plutus = False
    # auxiliary data
    r = rng.random()
    if r < 0.25:
        ops.append({"op": "metadata", "label": rng.choice([0, 674, 721, 2**32]), "value": rng.choice(["hi", "x" * 64, ""])})
        meta["aux"] = "alonzo-op"
    elif r < 0.85:
        era = rng.choice(ERAS)
        ops.append({"op": "c17_aux", "era": era, "aseed": f"b{rng.randrange(10**9)}", "peek": rng.random() < 0.5})
        meta["aux"] = era
        if rng.random() < 0.4:
            ops.append({"op": "c17_aux_mutate", "label": rng.choice([1, 99, 674]), "value": rng.choice(["late", 5, "z" * 40])})
            meta["aux"] += "+mutated-after-set"
        if rng.random() < 0.2:    # replaced by another object before build
            ops.append({"op": "c17_aux", "era": rng.choice(ERAS), "aseed": f"r{rng.randrange(10**9)}"})
            meta["aux"] += "+replaced"
    # script input through the gate
    if rng.random() < 0.75:
        case = gen_gate(rng)
        g = case["g"]
        exp = gate_oracle(g)
        pos = g.get("spent_pos")
        for i, d in enumerate(g["addr"]):
            if i == pos:
                ops.append({"op": "c17_utxo", "id": "spent", "txid": T("spent"), "ix": 0, "cred": g["cred"], "own": g["own"],
                            "coin": 7_000_000, "inline_datum": ["constr", 0, [1]]})
            else:
                ops.append({"op": "c17_utxo", "id": f"at{i}", "txid": T(f"at{i}"), "ix": i + 1, "cred": g["cred"], "own": d,
                            "coin": 3_000_000, "inline_datum": 5})
        if pos is None:
            ops.append({"op": "c17_utxo", "id": "spent", "txid": T("spent"), "ix": 0, "cred": g["cred"], "own": g["own"],
                        "coin": 7_000_000, "inline_datum": ["constr", 0, [1]], "listed": False})
        off = dict(g["offer"])
        if off["k"] == "ref":
            ops.append({"op": "c17_utxo", "id": "refu", "txid": T("refu"), "ix": 7, "addr": "k2", "own": off["s"],
                        "coin": 12_000_000})
            off = {"k": "ref", "u": "refu"}
        is_plutus = g["cred"]["t"] != "native"
        ops.append({"op": "c17_script_input", "u": "spent", "offer": off,
                    "redeemer": {"data": rng.randint(0, 50)} if is_plutus else None})
        plutus = plutus or is_plutus
        meta["gate"] = {"g": g, "expect": exp[0]}
    # minting policy
    if rng.random() < 0.4:
        pol = gen_script(rng)
        while pol["t"] == "raw" or not truthy(pol):
            pol = gen_script(rng)
        o = {"op": "c17_mint", "script": pol, "name": rb(rng, rng.randint(0, 8)).hex(), "qty": rng.randint(1, 1000),
             "redeemer": {"data": 1} if pol["t"] != "native" else None}
        if rng.random() < 0.3:
            ops.append({"op": "c17_utxo", "id": "mref", "txid": T("mref"), "ix": 2, "addr": "k3", "own": pol, "coin": 15_000_000})
            o["ref_utxo"] = "mref"
        ops.append(o)
        plutus = plutus or pol["t"] != "native"
        meta["mint"] = pol
    if plutus:
        ops.append({"op": "collateral", "u": "c0"})
    ops.append({"op": "add_output", "addr": "k1", "coin": rng.randint(2_000_000, 5_000_000)})
    if rng.random() < 0.3:
        ops.append({"op": "ttl", "v": rng.randint(3000, 10**6)})
    sc = {"utxos": utxos, "address_utxos": {"k0": ["w0", "w1"]}, "ops": ops, "build": {"change": "k0"}, "sign": ["k0"]}
    return {"kind": "build", "sc": sc, "meta": meta}


def check_build_case(ctx, case):
    sc, meta = case["sc"], case["meta"]
    r = S.run(sc)
    ctx.count("build-aux:" + str(meta["aux"]))
    gate = meta["gate"]
    if gate is not None:
        ctx.count("build-gate:" + gate["g"]["shape"] + ":" + gate["expect"])
    if r.error is not None and r.error_stage == "ops":
        if gate is not None and isinstance(r.exc, InvalidArgumentException):
            if gate["expect"] == "accept":
                ctx.violation("builder refused a script input although a candidate hashes to its payment credential",
                              case, "accept", "InvalidArgumentException")
            ctx.case(case)
            return
        ctx.violation("scenario operation failed unexpectedly", case, None, f"{r.error}: {type(r.exc).__name__}")
        return
    if gate is not None and gate["expect"] == "reject":
        ctx.violation("builder accepted a script input although no candidate hashes to its payment credential", case,
                      "InvalidArgumentException", "accepted")
        return
    if r.error is not None:
        ctx.count("build-error:" + r.error)      # selection / size problems of the scenario: not a C17 matter
        ctx.skipped += 1
        ctx.case(case, nontrivial=False)
        return
    txb = r.tx.to_cbor()
    info = {**case, "tx_cbor": txb.hex()}
    body_s, ws_s, aux_s = L.tx_parts(txb)
    B = L.Body(body_s)
    # transaction id
    expect_id(ctx, "built transaction: id vs the body bytes shipped", info, b2(body_s, 32), r.tx.id, TransactionId)
    # auxiliary data
    if meta["aux"] is None:
        if aux_s is not None or B.aux_hash is not None:
            ctx.violation("auxiliary data / hash shipped although none was set", info, None,
                          {"aux": aux_s and aux_s.hex(), "key7": B.aux_hash and B.aux_hash.hex()})
    else:
        if aux_s is None:
            ctx.violation("auxiliary data set on the builder is not shipped", info, "auxiliary data", None)
        elif B.aux_hash != b2(aux_s, 32):
            ctx.violation("built body key 7 is not the hash of the auxiliary data shipped in the transaction", info,
                          b2(aux_s, 32).hex(), None if B.aux_hash is None else B.aux_hash.hex())
        else:
            expect_id(ctx, "tx.auxiliary_data.hash()", info, b2(aux_s, 32), r.tx.auxiliary_data.hash())
    # every script credential spent / every minted policy is backed by a shipped script with that hash
    utx = {(u.input.transaction_id.payload.hex(), u.input.index): u for u in r.context.utxo_objs.values()}
    held = {}
    for o in sc["ops"]:
        if o["op"] == "c17_utxo":
            held[(o["txid"], int(o["ix"]))] = o.get("own")
    avail = {b2(bytes([t]) + x, 28) for t, x in ws_scripts(ws_s)}
    for ref in list(B.reference_inputs) + list(B.inputs):
        d = held.get(ref)
        if d is not None:
            avail.add(ref_script_hash(d))
    for ref in B.inputs:
        ab = bytes(utx[ref].output.address) if ref in utx else b""
        if ab and (ab[0] >> 4) & 1:
            ctx.count("build-script-input")
            if ab[1:29] not in avail:
                ctx.violation("built transaction spends a script input but ships no script (witness / reference / own) "
                              "hashing to its payment credential", info, ab[1:29].hex(), sorted(h.hex() for h in avail))
    for (p, _n) in B.mint:
        ctx.count("build-mint-policy")
        if bytes.fromhex(p) not in avail:
            ctx.violation("built transaction mints under a policy id that is not the hash of any shipped script", info, p,
                          sorted(h.hex() for h in avail))
        if meta["mint"] is not None and bytes.fromhex(p) != ref_script_hash(meta["mint"]):
            ctx.violation("policy id in the built body is not the reference hash of the minting script", info,
                          ref_script_hash(meta["mint"]).hex(), p)
    model_id(ctx, "tx.body", info, bytes(r.tx.id.payload), kind="tx.body", tx=txb.hex())
    if ctx.have_driver():
        m = ctx.driver().ok({"op": "id", "kind": "tx.aux", "tx": txb.hex()})
        ctx.traces += 1
        mh = None if m is None else b2(bytes.fromhex(m["pre"]), int(m["len"]))
        if mh != B.aux_hash:
            ctx.diff("id:tx.aux(body key 7)", info, m, None if B.aux_hash is None else B.aux_hash.hex())
    ctx.case(case)


# ---- dispatch ---------------------------------------------------------------------------------------------------------------------------
CHECKS = {"script": check_script_case, "pair": check_script_pair_case, "key": check_key_case, "datum": check_datum_case,
          "aux": check_aux_case, "tx": check_tx_case, "asset": check_asset_case, "sizes": check_sizes,
          "gate": check_gate_case, "build": check_build_case}
DETAIL_KEYS = ("datum_kind", "cbor", "aux_cbor", "tx_cbor", "size_cls", "size_const", "witness_set")


def dispatch(ctx, case):
    try:
        CHECKS[case["kind"]](ctx, case)
    except Infra:
        raise
    except Exception as e:
        # an exception that escapes from library code while an identifier is computed / serialized is a failure of the
        # property on this input (e.g. a digest of the wrong length refused by its own hash class); an exception
        # raised by the harness itself is an infrastructure error
        tb = traceback.extract_tb(e.__traceback__)
        repo = os.path.realpath(str(REPO)) + os.sep
        if tb and os.path.realpath(tb[-1].filename).startswith(repo):
            where = f"{os.path.relpath(os.path.realpath(tb[-1].filename), repo)}:{tb[-1].name}"
            ctx.violation(f"computing / serializing an identifier of kind '{case['kind']}' raised {type(e).__name__} in {where}",
                          case, "an identifier", type(e).__name__)
        else:
            raise


def validate_oracle():
    """hashlib's BLAKE2b (the oracle) against RFC 7693 appendix A and against libsodium (what pycardano calls)"""
    import nacl.encoding
    import nacl.hash
    if hashlib.blake2b(b"abc").hexdigest() != (
            "ba80a53f981c4d0d6a2797b69f12f6e94c212f14685ac4b74b12bb6fdbffa2d1"
            "7d87c5392aab792dc252d5de4533cc9518d38aa8dbf1925ab92386edd4009923"):
        raise Infra("hashlib.blake2b fails the RFC 7693 test vector")
    rng = random.Random("c17-oracle")
    for i in range(200):
        data = rb(rng, rng.choice([0, 1, 32, 64, 127, 128, 129, 300]))
        for n in (20, 28, 32):
            if nacl.hash.blake2b(data, digest_size=n, encoder=nacl.encoding.RawEncoder) != b2(data, n):
                raise Infra("hashlib.blake2b and libsodium disagree")


def corpus(ctx):
    v2 = {"t": "plutus", "lang": 2, "bytes": "4e4d01000033222220051200120011"}
    v3 = {"t": "plutus", "lang": 3, "bytes": "4e4d01000033222220051200120011"}
    nat = {"t": "native", "s": ["nofk", "2", [["pk", "01" * 28], ["all", [["any", [["before", "5"], ["after", "70000"]]]]],
                                              ["all", []]]]}
    cs = [{"kind": "sizes"}, {"kind": "script", "script": v2}, {"kind": "script", "script": v3},
          {"kind": "script", "script": nat}, {"kind": "script", "script": {"t": "plutus", "lang": 1, "bytes": ""}},
          {"kind": "pair", "label": "other-lang-same-bytes", "a": v2, "b": v3},
          # second UTxO at the address matches, the first holds the same bytes under another language
          {"kind": "gate", "g": {"cred": v2, "own": None, "addr": [v3, None, v2], "offer": {"k": "none"}, "stake": False,
                                 "shape": "address", "spent_pos": 1}},
          {"kind": "gate", "g": {"cred": v2, "own": None, "addr": [], "offer": {"k": "script", "s": v3}, "stake": False,
                                 "shape": "offered"}},
          {"kind": "gate", "g": {"cred": v2, "own": None, "addr": [v2], "offer": {"k": "ref", "s": v3}, "stake": True,
                                 "shape": "ref"}},
          {"kind": "gate", "g": {"cred": nat, "own": None, "addr": [], "offer": {"k": "script", "s": nat}, "stake": False,
                                 "shape": "offered"}},
          {"kind": "key", "cls": "PaymentExtendedVerificationKey", "payload": (bytes(range(32)) + b"\xcc" * 32).hex()},
          {"kind": "key", "cls": "PaymentVerificationKey", "payload": bytes(range(32)).hex()}]
    for p, n, fpr in CIP14_VECTORS:
        cs.append({"kind": "asset", "policy": p, "name": n, "form": "ss", "vector": fpr})
    return cs


def run(ctx):
    ctx.rule = ("per identifier kind: random keys (ordinary 32-byte, extended 64-byte, derived from signing keys and HD "
                "wallets, all key classes); native scripts of all six kinds nested to depth 4 with boundary slots / "
                "thresholds, Plutus V1/V2/V3 and plain-bytes scripts of 0..300 bytes, each with near-miss variants "
                "(same bytes other language, bit flip, truncation, all<->any, ...); datums (raw / typed / primitive, "
                "nesting to 4, integers beyond 64 bits, byte strings around 64); auxiliary data of the three eras; "
                "hand-made transactions with 1..6 unsorted inputs and random optional body fields; CIP-14 inputs in "
                "object / bytes / hex form plus the CIP's vectors; fixed sizes of every hash class; add_script_input "
                "over the four candidate sources with matching and non-matching candidates; full builder runs with "
                "auxiliary data (set, mutated in place, replaced), script inputs and minting policies; non-trivial = "
                "distinct case description")
    ctx.assumptions = [
        "BLAKE2b itself is not modelled: the Lean model is parametric in the hash function; hashlib.blake2b is the "
        "oracle (validated against RFC 7693 'abc' and against libsodium on 600 inputs per run)",
        "bodies, datums and auxiliary data enter the model as the CBOR item they serialize to (their serializers are the "
        "subject of C01/C04/C18); the native-script serializer is modelled and proved against the CDDL bytes",
        "reference CBOR reader / encoder harness/ref/cbor_ref.py (RFC 8949), transaction layout harness/ref/ledger_ref.py",
        "an ordinary VerificationKey object holding other than 32 bytes is outside the property (hashes its whole payload)",
        "a zero-length Plutus script offered to add_script_input is read as 'no script offered' (Python truthiness)",
        "the identifier of a transaction decoded from foreign bytes is judged against the bytes the decoded object "
        "serializes to (byte-exact re-serialization is the subject of C01/C02)",
        "typing.get_type_hints is memoised inside pycardano.serialization for the harness process (speed only)",
    ]
    ctx.extra["trusted"] = ["BLAKE2b modelled as an abstract function H (hashlib.blake2b validated against libsodium "
                            "and RFC 7693)", "harness/ref/bech32_ref.py (CIP-14 text form; validated on the CIP-14 vectors)"]
    validate_oracle()
    rng = ctx.rng
    for c in corpus(ctx):
        dispatch(ctx, c)
    q = ctx.budget
    for i in range(q(500, 12000)):
        d = gen_script(rng)
        dispatch(ctx, {"kind": "script", "script": d})
        if i % 2 == 0:
            label, v = rng.choice(variants(rng, d))
            dispatch(ctx, {"kind": "pair", "label": label, "a": d, "b": v})
    for i in range(q(200, 5000)):
        r = rng.random()
        if r < 0.3:
            dispatch(ctx, {"kind": "key", "cls": rng.choice(list(ORD_CLASSES)), "payload": rb(rng, 32).hex()})
        elif r < 0.6:
            dispatch(ctx, {"kind": "key", "cls": rng.choice(list(EXT_CLASSES)), "payload": rb(rng, 64).hex()})
        elif r < 0.8:
            dispatch(ctx, {"kind": "key", "derive": "skey", "seed": rb(rng, 32).hex()})
        elif r < 0.95:
            dispatch(ctx, {"kind": "key", "derive": "hd", "seed": rb(rng, 32).hex()})
        else:
            dispatch(ctx, {"kind": "key", "cls": rng.choice(list(ORD_CLASSES)), "payload": rb(rng, 64).hex()})
    for i in range(q(400, 15000)):
        dispatch(ctx, {"kind": "datum", "dseed": f"{ctx.seed}-d{i}"})
    for i in range(q(300, 8000)):
        dispatch(ctx, {"kind": "aux", "era": ERAS[i % 3], "aseed": f"{ctx.seed}-a{i}"})
    for i in range(q(450, 5000)):
        dispatch(ctx, {"kind": "tx", "tseed": f"{ctx.seed}-t{i}"})
    for i in range(q(200, 8000)):
        n = rng.choice([0, 1, 5, 31, 32]) if rng.random() < 0.5 else rng.randint(0, 32)
        dispatch(ctx, {"kind": "asset", "policy": rb(rng, 28).hex(), "name": rb(rng, n).hex(),
                       "form": rng.choice("obs") + rng.choice("obs")})
    for i in range(q(1500, 30000)):
        dispatch(ctx, gen_gate(rng))
    for i in range(q(150, 1500)):
        dispatch(ctx, gen_build(rng))
        if len(ctx.violations) > 20:
            break


def replay(ctx, data):
    validate_oracle()
    items = ([data["input"]] if "input" in data else []) + [d["input"] for d in data.get("correspondence", [])]
    for c in items:
        dispatch(ctx, {k: v for k, v in c.items() if k not in DETAIL_KEYS})
