"""C04 — map-like values encode canonically, independent of construction history.

For a generated content, several construction / arithmetic histories are executed on the implementation; all
must serialize to the bytes an independent reference encoder (harness/ref/cbor_ref.py) prescribes for that content
(keys shortest-encoding-first then bytewise, no zero quantity, no empty policy, bare integer without assets).
Correspondence: the Lean model (`enc.value`, `enc.rawmap`) is run on the *stored* dicts of every history."""
from __future__ import annotations

import copy

import cbor2

from pycardano import (Asset, AssetName, ExecutionUnits, MultiAsset, RedeemerKey, RedeemerMap, RedeemerTag,
                       RedeemerValue, ScriptHash, Value, VerificationKeyHash, Withdrawals)
from pycardano.hash import AnchorDataHash
from pycardano.governance import (Anchor, CommitteeColdCredential, CommitteeColdCredentialEpochMap,
                                  GovActionId, GovActionIdToVotingProcedure, TreasuryWithdrawal, Vote, Voter,
                                  VoterType, VotingProcedure, VotingProcedures)
from pycardano.hash import TransactionId
from pycardano.metadata import Metadata
from pycardano.serialization import default_encoder

from ref import cbor_ref as R
from vlib import values as V


# ---- reference (spec) encoding of a content -----------------------------------------------------------------
def ref_value_bytes(coin, content):
    pol = {}
    for (p, n), q in content.items():
        if q != 0:
            pol.setdefault(bytes.fromhex(p), []).append((bytes.fromhex(n), q))
    if not pol:
        return R.enc(coin)
    ma = R.sorted_map([(p, R.sorted_map(a)) for p, a in pol.items()])
    return R.enc([coin, ma])


def check_emitted_shape(b):
    """property read off the emitted bytes with the independent decoder: sorted, unique, no zero, no empty"""
    x = R.dec(b)
    if isinstance(x, int):
        return None
    if not (isinstance(x, list) and len(x) == 2 and isinstance(x[1], R.Map)):
        return "not [coin, map] nor bare integer"
    ma = x[1]
    if not ma.pairs:
        return "value without assets is not a bare integer"

    def sorted_unique(m):
        ks = [R.canonical_key(R.enc(k)) for k, _ in m.pairs]
        return all(a < b for a, b in zip(ks, ks[1:]))
    if not sorted_unique(ma):
        return "policy keys not in canonical order / repeated"
    for _, a in ma.pairs:
        if not isinstance(a, R.Map) or not a.pairs:
            return "empty policy emitted"
        if not sorted_unique(a):
            return "asset-name keys not in canonical order / repeated"
        if any(q == 0 for _, q in a.pairs):
            return "zero quantity emitted"
    return None


# ---- histories ------------------------------------------------------------------------------------------------
def h_insert(rng, coin, content):
    """fresh dicts, entries inserted one by one in random order"""
    m = MultiAsset()
    items = list(content.items())
    rng.shuffle(items)
    for (p, n), q in items:
        ph, nn = ScriptHash(bytes.fromhex(p)), AssetName(bytes.fromhex(n))
        if ph not in m:
            m[ph] = Asset()
        m[ph][nn] = q
    return Value(coin, m)


def h_zero(rng, coin, content):
    """like h_insert but with stored zero quantities and empty policies sprinkled in"""
    v = h_insert(rng, coin, content)
    for p in rng.sample(V.POLICIES, rng.randint(1, 3)):
        ph = ScriptHash(p)
        if ph not in v.multi_asset:
            v.multi_asset[ph] = Asset()
        if rng.random() < 0.6:
            n = AssetName(rng.choice(V.NAMES))
            if n not in v.multi_asset[ph]:
                v.multi_asset[ph][n] = 0
    return v


def split_content(rng, coin, content, k):
    parts = [[0, {}] for _ in range(k)]
    for key, q in content.items():
        i = rng.randrange(k)
        if rng.random() < 0.4 and k > 1:      # spread over two parts with overshoot (zero-crossing intermediate sums)
            j = rng.randrange(k)
            d = rng.randint(1, 50)
            parts[i][1][key] = parts[i][1].get(key, 0) + q + d
            parts[j][1][key] = parts[j][1].get(key, 0) - d
        else:
            parts[i][1][key] = parts[i][1].get(key, 0) + q
    c = coin
    for i in range(k - 1):
        parts[i][0] = rng.randint(-5, 50)
        c -= parts[i][0]
    parts[-1][0] = c
    return parts


def h_sum(rng, coin, content):
    """sum of several parts (pure +), parts built by insertion"""
    parts = split_content(rng, coin, content, rng.randint(2, 4))
    vs = [h_insert(rng, c, {k: q for k, q in d.items()}) for c, d in parts]
    acc = vs[0]
    for v in vs[1:]:
        acc = acc + v if rng.random() < 0.7 else acc.union(v)
    return acc


def h_iadd(rng, coin, content):
    parts = split_content(rng, coin, content, rng.randint(2, 4))
    acc = Value()
    for c, d in parts:
        acc += h_insert(rng, c, d)
    return acc


def h_sub(rng, coin, content):
    """(content + extra) - extra"""
    extra_c = {(rng.choice(V.POLICIES).hex(), rng.choice(V.NAMES).hex()): V.gen_qty(rng, negatives=True) for _ in range(rng.randint(1, 4))}
    extra = h_insert(rng, rng.randint(0, 9), extra_c)
    big_content = dict(content)
    for k, q in extra_c.items():
        big_content[k] = big_content.get(k, 0) + q
    big = h_insert(rng, coin + extra.coin, {k: q for k, q in big_content.items()})
    return big - extra


def h_copy(rng, coin, content):
    return copy.deepcopy(h_insert(rng, coin, content))


def h_decode(rng, coin, content):
    """decode/encode step: a value received from the wire (un-normalised stored form goes through from_cbor)"""
    return Value.from_cbor(h_zero(rng, coin, content).to_cbor())


HISTORIES = {"insert": h_insert, "zero": h_zero, "sum": h_sum, "iadd": h_iadd, "sub": h_sub, "copy": h_copy,
             "decode": h_decode}


def gen_content(rng, maxp=6, maxn=6):
    content = {}
    for p in rng.sample(V.POLICIES, rng.randint(0, maxp)):
        for n in rng.sample(V.NAMES, rng.randint(1, min(maxn, len(V.NAMES)))):
            content[(p.hex(), n.hex())] = V.gen_qty(rng, negatives=rng.random() < 0.2)
    return content


def check_value_case(ctx, case):
    """case = {kind: value, coin, content: [[p, n, q]...], hist: [names], hseed}"""
    import random
    coin = int(case["coin"])
    content = {(p, n): int(q) for p, n, q in case["content"]}
    exp = ref_value_bytes(coin, content)
    seen = {}
    for idx, hname in enumerate(case["hist"]):
        rng = random.Random(f"{case['hseed']}/{idx}")
        try:
            v = HISTORIES[hname](rng, coin, content)
        except Exception as e:  # a history the implementation refuses is not a C04 matter
            ctx.count("history-raised:" + type(e).__name__)
            continue
        stored = V.dump_value(v)
        if V.content_value(stored) != (coin, {k: q for k, q in content.items() if q != 0}):
            ctx.count("history-content-mismatch")   # arithmetic wrong: C05's business, not judged here
            continue
        b = v.to_cbor()
        seen[hname] = b.hex()
        ctx.count("hist:" + hname)
        if b != exp:
            fid = None
            ctx.violation(f"history '{hname}' does not encode to the canonical bytes of its content"
                          + (f" ({check_emitted_shape(b)})" if check_emitted_shape(b) else ""),
                          {**case, "hist": [hname], "stored": stored}, exp.hex(), b.hex(), finding=fid)
        if ctx.have_driver():
            m = ctx.driver().ok({"op": "enc.value", "a": stored})
            ctx.traces += 1
            if m != b.hex():
                ctx.diff("enc.value", {**case, "hist": [hname], "stored": stored}, m, b.hex())
        # the bundle and each asset dict on their own (they are serializable objects too)
        mb = v.multi_asset.to_cbor()
        pol = {}
        for (p, n), q in content.items():
            if q != 0:
                pol.setdefault(bytes.fromhex(p), []).append((bytes.fromhex(n), q))
        exp_ma = R.enc(R.sorted_map([(p, R.sorted_map(a)) for p, a in pol.items()]))
        if mb != exp_ma:
            ctx.violation(f"history '{hname}': MultiAsset does not encode to the canonical bytes of its content",
                          {**case, "hist": [hname], "stored": stored}, exp_ma.hex(), mb.hex())
        for ph, a in list(v.multi_asset.data.items())[:3]:
            ab = a.to_cbor()
            exp_a = R.enc(R.sorted_map(pol.get(bytes(ph.payload), [])))
            if ab != exp_a:
                ctx.violation(f"history '{hname}': Asset does not encode to the canonical bytes of its content",
                              {**case, "hist": [hname], "stored": stored}, exp_a.hex(), ab.hex())
            if ctx.have_driver():
                m = ctx.driver().ok({"op": "enc.asset", "a": V.dump_asset(a)})
                ctx.traces += 1
                if m != ab.hex():
                    ctx.diff("enc.asset", {**case, "hist": [hname], "stored": stored}, m, ab.hex())
    if len(set(seen.values())) > 1:
        ctx.violation("two histories reaching the same content yield different bytes", case, exp.hex(), seen)
    ctx.case(case)


# ---- other dict-like classes ------------------------------------------------------------------------------------
def rb(rng, n):
    return bytes(rng.randrange(256) for _ in range(n))


def gen_dict_entries(rng, kind):
    """returns list of (key object, value object) with distinct keys"""
    n = rng.randint(0, 7)
    out, seen = [], set()
    for _ in range(n * 3):
        if len(out) >= n:
            break
        if kind == "Withdrawals":
            k = bytes([0xE0 | rng.randrange(2)]) + rb(rng, rng.choice([28, 28, 1, 30]))
            v = rng.choice([0, 1, 23, 24, 255, 256, 2**32, 2**63])
        elif kind == "TreasuryWithdrawal":
            k = rb(rng, rng.choice([29, 1, 57]))
            v = rng.randint(0, 10**9)
        elif kind == "Metadata":
            k = rng.choice([0, 1, 23, 24, 255, 256, 674, 721, 65535, 65536, 2**32, 2**63, 2**64 - 1])
            v = rng.choice([1, "a", b"\x01\x02", [1, "x"], {"k": 1}])
        elif kind == "RedeemerMap":
            k = RedeemerKey(rng.choice(list(RedeemerTag)), rng.choice([0, 1, 23, 24, 255, 256, 65536]))
            v = RedeemerValue(rng.choice([1, b"\x00", [1, 2]]), ExecutionUnits(rng.randint(0, 10**6), rng.randint(0, 10**9)))
        elif kind == "CommitteeColdCredentialEpochMap":
            k = CommitteeColdCredential(rng.choice([VerificationKeyHash, ScriptHash])(rb(rng, 28)))
            v = rng.randint(0, 1000)
        elif kind == "GovActionIdToVotingProcedure":
            k = GovActionId(TransactionId(rb(rng, 32)), rng.choice([0, 1, 23, 24, 255, 256]))
            v = VotingProcedure(rng.choice(list(Vote)), None if rng.random() < 0.5 else Anchor("https://x.y", AnchorDataHash(rb(rng, 32))))
        elif kind == "VotingProcedures":
            t = rng.choice(list(VoterType))
            cred = VerificationKeyHash(rb(rng, 28)) if t == VoterType.STAKING_POOL or rng.random() < 0.5 else ScriptHash(rb(rng, 28))
            k = Voter(cred, t)
            inner = GovActionIdToVotingProcedure()
            for ik, iv in gen_dict_entries(rng, "GovActionIdToVotingProcedure"):
                inner[ik] = iv
            v = inner
        else:
            raise ValueError(kind)
        kb = k.to_cbor() if hasattr(k, "to_cbor") else cbor2.dumps(k)
        if kb in seen:
            continue
        seen.add(kb)
        out.append((k, v))
    return out


DICT_CLASSES = {"Withdrawals": Withdrawals, "TreasuryWithdrawal": TreasuryWithdrawal, "Metadata": Metadata,
                "RedeemerMap": RedeemerMap, "CommitteeColdCredentialEpochMap": CommitteeColdCredentialEpochMap,
                "GovActionIdToVotingProcedure": GovActionIdToVotingProcedure, "VotingProcedures": VotingProcedures}


def check_dict_case(ctx, case):
    """case = {kind: dict, cls, dseed}: same entries in several insertion orders"""
    import random
    rng = random.Random(case["dseed"])
    cls = DICT_CLASSES[case["cls"]]
    entries = gen_dict_entries(rng, case["cls"])
    kv = [((k.to_cbor() if hasattr(k, "to_cbor") else cbor2.dumps(k)), cbor2.dumps(v, default=default_encoder))
          for k, v in entries]
    exp = R.head(5, len(kv)) + b"".join(k + v for k, v in sorted(kv, key=lambda p: R.canonical_key(p[0])))
    outs = set()
    for _ in range(3):
        order = list(range(len(entries)))
        rng.shuffle(order)
        d = cls()
        for i in order:
            d[entries[i][0]] = entries[i][1]
        if rng.random() < 0.3:
            d = copy.deepcopy(d)
        b = d.to_cbor()
        outs.add(b)
        if b != exp:
            ctx.violation(f"{case['cls']} does not encode canonically (keys shortest-encoding-first, then bytewise)",
                          {**case, "order": order, "keys": [k.hex() for k, _ in kv]}, exp.hex(), b.hex())
        if ctx.have_driver():
            m = ctx.driver().ok({"op": "enc.rawmap", "a": [[kv[i][0].hex(), kv[i][1].hex()] for i in order]})
            ctx.traces += 1
            if m != b.hex():
                ctx.diff("enc.rawmap", {**case, "order": order}, m, b.hex())
    if len(outs) > 1:
        ctx.violation(f"{case['cls']}: insertion order changes the bytes", case, exp.hex(), [o.hex() for o in outs])
    ctx.count("dict:" + case["cls"])
    ctx.count(f"dict-size:{len(entries)}")
    ctx.case(case, nontrivial=len(entries) >= 2)


def dispatch(ctx, case):
    if case["kind"] == "value":
        check_value_case(ctx, case)
    else:
        check_dict_case(ctx, case)


def corpus():
    p = V.POLICIES[0].hex()
    return [
        # empty content reached through stored zeros / empty policies: must be the bare integer
        {"kind": "value", "coin": "5", "content": [], "hist": ["zero", "insert", "decode"], "hseed": "corpus-0"},
        {"kind": "value", "coin": "0", "content": [[p, "", "1"], [p, "00", "2"], [p, "6161", "3"], [p, "ff", "4"]],
         "hist": list(HISTORIES), "hseed": "corpus-1"},
    ]


def run(ctx):
    ctx.rule = ("contents of 0..6 policies x 1..6 names (name lengths 0..32 so that length-first and bytewise order "
                "disagree; quantities incl. negatives and > 2^64); each content reached by 3..7 histories (random "
                "insertion order, stored zeros / empty policies, sums of parts with overshoot, +=, subtraction of "
                "an extra, deepcopy, decode/encode); six other dict-like classes with shuffled insertion orders; "
                "non-trivial = distinct (content, histories) with at least 2 entries")
    ctx.assumptions = ["reference encoder harness/ref/cbor_ref.py transcribes RFC 8949 + RFC 7049 3.9 key order"]
    for c in corpus():
        dispatch(ctx, c)
    rng = ctx.rng
    for i in range(ctx.budget(700, 40000)):
        content = gen_content(rng) if rng.random() < 0.85 else {}
        hist = rng.sample(list(HISTORIES), rng.randint(3, len(HISTORIES)))
        coin = rng.choice([0, 1, 23, 24, 2_000_000, 2**32, 2**64, -3])
        dispatch(ctx, {"kind": "value", "coin": str(coin), "content": [[p, n, str(q)] for (p, n), q in content.items()],
                       "hist": hist, "hseed": f"{ctx.seed}-{i}"})
    for i in range(ctx.budget(700, 30000)):
        dispatch(ctx, {"kind": "dict", "cls": rng.choice(list(DICT_CLASSES)), "dseed": f"{ctx.seed}-d{i}"})


def replay(ctx, data):
    if "input" in data:
        c = {k: v for k, v in data["input"].items() if k not in ("stored", "order", "keys")}
        dispatch(ctx, c)
    for d in data.get("correspondence", []):
        c = {k: v for k, v in d["input"].items() if k not in ("stored", "order", "keys")}
        dispatch(ctx, c)
