"""C02 (extension) — native scripts are written as the Conway CDDL rule `native_script` prescribes.

Specification in Lean: Pyc/Spec/NativeScript.lean (`specNS`, `matchNS`, `inRangeB`) and Pyc/Spec/Ids.lean (`nativeBytes`);
theorems: Props/C02_NativeScript.lean.  Here the bytes `to_cbor()` emits for scripts built through the public constructors
(generator of checks/c01_ext_nativescript.py: nesting up to 5, 0 … 256 children, boundary slots / n) are compared, byte for
byte, with

  * the independent reference encoder harness/ref/conway.py (`encode_part("native_script", …)`), which refuses content
    outside the CDDL ranges (`int64`, `uint .size 8`, `hash28`) — such scripts are counted and skipped: the constructors do
    not check the ranges (theorem `ns_cddl_all_counterexample`);
  * a second, 10-line reference of the rule written in this extension (`ref_prim`, encoded by harness/ref/cbor_ref.py);
  * a structural walk of the emitted bytes: definite lengths only, every head in its shortest form;
  * the model: its bytes, the bytes of the specification item `specNS`, the written-out CDDL bytes `nativeBytes`, and the
    recogniser `matchNS` evaluated on the emitted bytes (must accept exactly the scripts within the ranges);
  * the same script inside a `TransactionOutput` (reference script), a `TransactionWitnessSet`, `AlonzoMetadata` and
    `ShelleyMarryMetadata`: the container's bytes against the reference encoder's bytes for that container.
"""
from __future__ import annotations

import random

from ref import cbor_ref as R
from ref import conway as C

from checks import c01_ext_nativescript as N

EXT = "nativescript"


def ref_native(d):
    """the content description harness/ref/conway.py speaks"""
    k = d["k"]
    if k == "pubkey":
        return {"k": "pubkey", "hash": bytes.fromhex(d["h"])}
    if k in ("all", "any"):
        return {"k": k, "scripts": [ref_native(x) for x in d["s"]]}
    if k == "nofk":
        return {"k": "n_of_k", "n": int(d["n"]), "scripts": [ref_native(x) for x in d["s"]]}
    return {"k": "invalid_before" if k == "before" else "invalid_hereafter", "slot": int(d["t"])}


def indefinite_inside(t):
    if isinstance(t, (R.IndefList, R.Chunked)):
        return True
    if isinstance(t, R.Tag):
        return indefinite_inside(t.value)
    if isinstance(t, R.Map):
        return any(indefinite_inside(k) or indefinite_inside(v) for k, v in t.pairs)
    if isinstance(t, (list, tuple)):
        return any(indefinite_inside(x) for x in t)
    return False


ADDR = bytes([0x61]) + bytes(range(28))


def container_pairs(x, d, other_d, which):
    """(name, pycardano object, content for the reference encoder)"""
    from pycardano import (Address, AlonzoMetadata, AuxiliaryData, Metadata, ShelleyMarryMetadata, TransactionOutput,
                           TransactionWitnessSet, Value)
    other = N.build(other_d)
    rn, ro = ref_native(d), ref_native(other_d)
    if which == 0:
        return ("output", "output", TransactionOutput(Address.from_primitive(ADDR), Value(2_000_000), script=x),
                {"addr": ADDR, "value": {"coin": 2_000_000, "assets": []}, "datum": None, "script": {"k": "native", "script": rn}})
    if which == 1:
        return ("witness_set", "witness_set", TransactionWitnessSet(native_scripts=[other, x]), {"native": [ro, rn]})
    if which == 2:
        return ("alonzo_aux", "aux_data", AuxiliaryData(AlonzoMetadata(metadata=Metadata({1: "m"}), native_scripts=[x, other])),
                {"k": "alonzo", "metadata": [(1, ("text", "m"))], "native": [rn, ro]})
    return ("shelley_ma_aux", "aux_data", AuxiliaryData(ShelleyMarryMetadata(Metadata({2: 7}), [other, x])),
            {"k": "shelley_ma", "metadata": [(2, ("int", 7))], "native": [ro, rn]})


def check_bytes(ctx, case):
    rng = random.Random(case["seed"])
    stats = {}
    d = N.gen_case(rng, stats)
    cost = N.cost_of(d)
    small = N.size_of(d) <= 40
    desc = {**case, "script": d if small else "(large: regenerate from the seed)"}
    x = N.build(d)
    try:
        b = x.to_cbor()
    except Exception as e:
        ctx.violation(f"NativeScript: a script built through the constructors cannot be serialized ({type(e).__name__})", desc,
                      "bytes", type(e).__name__)
        return
    desc["hex"] = b.hex() if len(b) <= 400 else b[:400].hex() + "…"
    inr = N.in_range(d)
    for k, n in stats.items():
        ctx.count("ns:" + k, n)
    ctx.count(f"ns:depth:{N.depth_of(d)}")
    # ---- reference encoder (harness/ref/conway.py)
    try:
        rb = C.encode_part("native_script", ref_native(d))
        refused = None
    except C.SpecError as e:
        rb, refused = None, str(e)
    if rb is None:
        ctx.count("ns:reference-refuses(outside the CDDL ranges)")
        if inr:
            ctx.diff("ns.reference-refusal", desc, "in range", refused)
        ctx.skipped += 1
    else:
        ctx.count("ns:reference-encodes")
        if not inr:
            ctx.diff("ns.reference-accepts", desc, "out of range", "encoded")
        if rb != b:
            ctx.violation("NativeScript.to_cbor(): not the bytes the CDDL rule native_script prescribes (reference encoder)", desc,
                          rb.hex()[:400], b.hex()[:400])
        # second reference, written here
        rb2 = R.enc(N.ref_prim(d))
        if rb2 != b:
            ctx.violation("NativeScript.to_cbor(): not the bytes of [code, fields…] of the CDDL rule (second reference)", desc,
                          rb2.hex()[:400], b.hex()[:400])
    # ---- definite lengths, shortest heads (structural walk; holds for every script, in range or not)
    try:
        tree = R.dec(b)
        canon = R.enc(tree)
        indef = indefinite_inside(tree)
    except Exception as e:
        tree, canon, indef = None, None, None
    if tree is None or indef or canon != b:
        ctx.violation("NativeScript.to_cbor(): an indefinite length or a head that is not in its shortest form", desc,
                      "definite, shortest heads", "undecodable" if tree is None else "indefinite" if indef else canon.hex()[:400])
    # ---- the script inside the structures of a transaction, against the reference encoder of that structure
    if rb is not None and cost <= 400:
        other_d = {"k": "before", "t": str(rng.randint(1, 10**6))}
        name, kind, obj, content = container_pairs(x, d, other_d, rng.randrange(4))
        try:
            cb = obj.to_cbor()
            cr = C.encode_part(kind, content)
        except Exception as e:
            cb = cr = None
            ctx.violation(f"NativeScript inside {name}: {type(e).__name__}: {str(e)[:100]}", desc, "bytes", type(e).__name__)
        if cb is not None:
            ctx.count("ns:embedded:" + name)
            if cb != cr:
                ctx.violation(f"NativeScript inside {name}: not the bytes the CDDL prescribes for that structure", desc,
                              cr.hex()[:400], cb.hex()[:400])
            if b not in cb:
                ctx.violation(f"NativeScript inside {name}: the stand-alone bytes of the script do not occur in the structure", desc,
                              b.hex()[:400], cb.hex()[:400])
    # ---- correspondence with the model and the Lean specification
    if ctx.have_driver():
        m = ctx.driver().ok({"op": "ns.enc", "s": d})
        ctx.traces += 1
        if m["hex"] != b.hex():
            ctx.diff("ns.enc", desc, m["hex"][:400], b.hex()[:400])
        if m["inrange"] != inr:
            ctx.diff("ns.inrange", desc, m["inrange"], inr)
        if m["matches"] != inr:
            ctx.diff("ns.matchNS", desc, m["matches"], inr)
        if inr:
            # theorems ns_cddl_item / ns_cddl_bytes evaluated
            if m["spec"] != b.hex():
                ctx.diff("ns.specNS", desc, m["spec"][:400], b.hex()[:400])
            if m["cddl"] != b.hex():
                ctx.diff("ns.nativeBytes", desc, m["cddl"][:400], b.hex()[:400])
        k, mm = ctx.driver().call({"op": "ns.match", "hex": b.hex()})
        ctx.traces += 1
        if k != "ok" or mm is not inr:
            ctx.diff("ns.match(bytes)", desc, mm, inr)
    ctx.case({k: v for k, v in case.items()})


# items near the rule: the Lean recogniser `matchNS` against the reference decoder of harness/ref/conway.py (Lifter.native)
def check_recogniser(ctx, case):
    rng = random.Random(case["seed"])
    if "damage" in case:
        prim = N.damage(case["damage"])
    else:
        good = N.ref_prim(N.gen_desc(rng, rng.choice([1, 2, 3]), None, False))
        prim = good if rng.random() < 0.3 else N.mutate_prim(rng, good)
    mb = R.enc(prim)
    desc = {**case, "hex": mb.hex()[:600]}
    try:
        tree = R.dec(mb)
        content, _ = C.lift("native_script", tree)
        # ranges; and the wire form: the reference decoder reads a bignum tag as an int and an indefinite array as a list,
        # which the CDDL types `uint` / `int64` / `[* native_script]` written by this rule are not
        ref = C.encode_part("native_script", content) == mb
    except (C.NotExpressible, C.SpecError):
        ref = False
    ctx.count(f"ns-recognise:{'accepted' if ref else 'refused'}")
    if ctx.have_driver():
        k, mm = ctx.driver().call({"op": "ns.match", "hex": mb.hex()})
        ctx.traces += 1
        if k != "ok" or mm is not ref:
            ctx.diff("ns.match(recogniser vs reference lifter)", desc, mm, ref)
    ctx.case({k: v for k, v in case.items()}, nontrivial=False)


def dispatch(ctx, case):
    if case["kind"] == "ns-bytes":
        check_bytes(ctx, case)
    elif case["kind"] == "ns-recognise":
        check_recogniser(ctx, case)
    else:
        raise ValueError(case["kind"])


def run_ext(ctx):
    ctx.assumptions.append(
        "native scripts (extension): conformance is judged for scripts within the CDDL ranges (int64 n, uint64 slots); the "
        "constructors do not check the ranges, scripts outside them are counted (ns:reference-refuses) and skipped")
    for i in range(ctx.budget(300, 3000)):
        dispatch(ctx, {"ext": EXT, "kind": "ns-bytes", "seed": f"{ctx.seed}/nb{i}"})
    for kind in N.DAMAGE:
        dispatch(ctx, {"ext": EXT, "kind": "ns-recognise", "seed": f"{ctx.seed}/nrd", "damage": kind})
    for i in range(ctx.budget(300, 5000)):
        dispatch(ctx, {"ext": EXT, "kind": "ns-recognise", "seed": f"{ctx.seed}/nr{i}"})


def replay_ext(ctx, case):
    c = {k: v for k, v in case.items() if k in ("ext", "kind", "seed", "damage")}
    dispatch(ctx, c)
