"""C01 (extension `metadata`) — transaction metadata and auxiliary data: `Metadata`, `ShelleyMarryMetadata`, `AlonzoMetadata`,
`AuxiliaryData` (pycardano/metadata.py), modelled in lean/Pyc/Model/Metadata.lean; theorems in Props/C01_Metadata.lean.

The REAL classes and the driver ops `md.*` run on the same inputs and are compared on the encoding, on the decoded object
and on its re-encoding; in the same pass the property itself is judged on the implementation without the model
(decode∘encode returns an equal object of the same era, re-encoding reproduces the bytes, insertion order of the labels is not
on the wire, the constructor refuses nothing the CDDL allows and no over-long string in a value position).

Families (each case is regenerated from its own seed, so every case replays):
  md-aux        the three eras x every subset of the Alonzo fields x metadatum trees (depth <= 5; integers at every CBOR
                width boundary, negative, beyond 64 bits; strings of 0 / 1 / 23 / 24 / 63 / 64 bytes incl. multi-byte UTF-8 at
                the boundary; collections of 0 / 1 / 23 / 24 / 25 / 256 entries; keys of every kind; labels in random order)
  md-validate   dicts handed to `Metadata(...)`, valid and invalid (65-byte strings in value / key position, 33 two-byte
                characters, non-int labels, None / float / tuple / ByteString values): accept / reject
  md-mal        damaged encodings (wrong tag, kind, arity, label kind, null fields, indefinite lists, chunked strings,
                duplicate labels): ok | deser | crash of every decoder, decoded value and re-encoding
"""
from __future__ import annotations

import random

import cbor2
from cbor2 import CBORTag, FrozenDict

from pycardano.exception import DeserializeException, InvalidArgumentException
from pycardano.hash import VerificationKeyHash
from pycardano.metadata import AlonzoMetadata, AuxiliaryData, Metadata, ShelleyMarryMetadata
from pycardano.nativescript import InvalidBefore, InvalidHereAfter, ScriptAll, ScriptAny, ScriptNofK, ScriptPubkey
from pycardano.plutus import PlutusV1Script, PlutusV2Script, PlutusV3Script
from pycardano.serialization import ByteString, IndefiniteList, default_encoder

from ref import cbor_ref as R

EXT = "metadata"

INTS64 = [0, 1, 23, 24, 255, 256, 65535, 65536, 2**32 - 1, 2**32, 2**63 - 1, 2**63, 2**64 - 1,
          -1, -24, -25, -256, -257, -65537, -(2**32), -(2**63), -(2**64)]
BIGINTS = [2**64, 2**64 + 1, -(2**64) - 1, 3 * 2**70, -(2**100)]
TEXT_OK = ["", "a", "msg", "x" * 23, "x" * 24, "x" * 63, "x" * 64, "é" * 32, "é" * 31 + "a", "日" * 21,
           "日" * 21 + "a", "\U0001F600" * 16, "é" * 12, "hello world"]
TEXT_BAD = ["x" * 65, "é" * 33, "é" * 32 + "a", "日" * 22, "é" * 64, "\U0001F600" * 16 + "a", "y" * 200]
BYTES_OK = [0, 1, 23, 24, 63, 64, 32, 28]
BYTES_BAD = [65, 66, 100, 256]
LABELS = [0, 1, 23, 24, 255, 256, 674, 721, 65535, 65536, 2**32 - 1, 2**32, 2**63, 2**64 - 1, 1000, 20]
LABELS_OFF = [-1, -25, 2**64, -(2**64) - 1]
SIZES = [0, 1, 1, 2, 2, 3]
BIG_SIZES = [23, 24, 25, 256]


def rb(rng, n):
    return bytes(rng.randrange(256) for _ in range(n))


def classify(e):
    return "deser" if isinstance(e, DeserializeException) else "crash"


# ------------------------------------------------------------------------------------------------ metadatum trees
# a tree node is ("i", int) | ("t", bool) | ("b", bytes) | ("s", str) | ("l", [node]) | ("m", [(node, node)]) |
# ("x", python object) — "x": a value of a kind `_validate` does not know (None, float, tuple, ByteString)
def py(n, frozen=False):
    """the Python object a caller writes: inside a dict key lists are tuples and dicts are FrozenDicts (hashable)"""
    k = n[0]
    if k in ("i", "t", "b", "s", "x"):
        return n[1]
    if k == "l":
        xs = [py(x, frozen) for x in n[1]]
        return tuple(xs) if frozen else xs
    d = {py(a, True): py(b, frozen) for a, b in n[1]}
    return FrozenDict(d) if frozen else d


def dumps(x):
    return cbor2.dumps(x, default=default_encoder)


def dj(n):
    """driver JSON of a tree"""
    k = n[0]
    if k == "i":
        return {"i": str(n[1])}
    if k == "t":
        return {"t": bool(n[1])}
    if k == "b":
        return {"b": n[1].hex()}
    if k == "s":
        return {"s": n[1].encode("utf-8").hex()}
    if k == "l":
        return {"l": [dj(x) for x in n[1]]}
    if k == "m":
        return {"m": [[dj(a), dj(b)] for a, b in n[1]]}
    return {"raw": R.enc(X_WIRE[n[2]]).hex()}


X_KINDS = ["none", "float", "tuple", "bytestring"]
X_WIRE = {"none": None, "float": R.Tag(4, [0, 15]), "tuple": R.Tag(258, [1, 2]), "bytestring": R.Tag(24, b"x")}   # any foreign item


def x_node(kind):
    v = {"none": None, "float": 1.5, "tuple": (1, 2), "bytestring": ByteString(b"x" * 70)}[kind]
    return ("x", v, kind)


def of_py(x):
    """driver JSON of a decoded Python object (kinds by type; anything else as the item the library writes for it)"""
    if isinstance(x, bool):
        return {"t": x}
    if isinstance(x, int):
        return {"i": str(x)}
    if isinstance(x, bytes):
        return {"b": x.hex()}
    if isinstance(x, str):
        return {"s": x.encode("utf-8").hex()}
    if isinstance(x, (list, tuple)):
        return {"l": [of_py(i) for i in x]}
    if isinstance(x, (dict, FrozenDict)):
        return {"m": [[of_py(k), of_py(v)] for k, v in x.items()]}
    return {"raw": dumps(x).hex()}


def spec_ok(n):
    """the node is a `transaction_metadatum` of the CDDL (independent of the model): 64-bit ints, no bools, <= 64 bytes everywhere"""
    k = n[0]
    if k == "i":
        return -(2**64) <= n[1] < 2**64
    if k == "b":
        return len(n[1]) <= 64
    if k == "s":
        return len(n[1].encode("utf-8")) <= 64
    if k == "l":
        return all(spec_ok(x) for x in n[1])
    if k == "m":
        return all(spec_ok(a) and spec_ok(b) for a, b in n[1])
    return False


def oversize_value(n):
    """a string of more than 64 bytes / a foreign kind in a position reached through list items and map VALUES"""
    k = n[0]
    if k == "b":
        return len(n[1]) > 64
    if k == "s":
        return len(n[1].encode("utf-8")) > 64
    if k == "l":
        return any(oversize_value(x) for x in n[1])
    if k == "m":
        return any(oversize_value(b) for _, b in n[1])
    return k == "x"


def depth_of(n):
    if n[0] == "l":
        return 1 + max([depth_of(x) for x in n[1]] or [0])
    if n[0] == "m":
        return 1 + max([max(depth_of(a), depth_of(b)) for a, b in n[1]] or [0])
    return 0


class G:
    """tree generator; `mode`: 'spec' (inside the CDDL), 'lib' (whatever the constructor accepts: also booleans, bignums,
    over-long KEYS), 'any' (also over-long strings and foreign kinds in value positions)"""

    def __init__(self, rng, mode, ctx=None):
        self.rng, self.mode, self.ctx = rng, mode, ctx

    def hit(self, k):
        if self.ctx is not None:
            self.ctx.count("md-gen:" + k)

    def leaf(self, in_key=False, bad_ok=False):
        rng = self.rng
        r = rng.random()
        if r < 0.4:
            if self.mode != "spec" and rng.random() < 0.12:
                self.hit("int:bignum")
                return ("i", rng.choice(BIGINTS))
            if rng.random() < 0.75:
                v = rng.choice(INTS64)
                self.hit("int:boundary")
            else:
                v = rng.randint(-10**6, 10**9)
            return ("i", v)
        if r < 0.45 and self.mode != "spec":
            self.hit("bool")
            return ("t", rng.random() < 0.5)
        bad = (self.mode != "spec" and in_key and rng.random() < 0.1) or (bad_ok and rng.random() < 0.25)
        if r < 0.72:
            s = rng.choice(TEXT_BAD if bad else TEXT_OK)
            nb = len(s.encode("utf-8"))
            self.hit(f"text:{'>64' if nb > 64 else nb if nb in (0, 1, 63, 64) else 'mid'}{':multibyte' if nb != len(s) else ''}")
            return ("s", s)
        nb = rng.choice(BYTES_BAD if bad else BYTES_OK)
        self.hit(f"bytes:{'>64' if nb > 64 else nb if nb in (0, 1, 63, 64) else 'mid'}")
        return ("b", rb(rng, nb))

    def size(self, depth):
        rng = self.rng
        if depth <= 1 and rng.random() < 0.07:
            n = rng.choice(BIG_SIZES)
            self.hit(f"size:{n}")
            return n, True
        return rng.choice(SIZES), False

    def node(self, depth, in_key=False, bad_ok=False):
        rng = self.rng
        if bad_ok and rng.random() < 0.08:
            k = rng.choice(X_KINDS)
            self.hit("foreign:" + k)
            return x_node(k)
        if depth <= 0 or rng.random() < 0.45:
            return self.leaf(in_key, bad_ok)
        n, big = self.size(depth)
        if rng.random() < 0.5:
            self.hit("list")
            if big:
                return ("l", [("i", rng.choice(INTS64)) for _ in range(n)])
            return ("l", [self.node(depth - 1, in_key, bad_ok and not in_key) for _ in range(n)])
        self.hit("map")
        pairs, seen = [], {}
        for j in range(n):
            if big:
                kn = ("i", j * 7 - 3)
            else:
                r = rng.random()
                kn = self.leaf(True) if r < 0.85 or self.mode == "spec" and depth <= 1 else self.node(min(depth - 1, 2), True)
                if kn[0] in ("l", "m"):
                    self.hit("key:" + ("tuple" if kn[0] == "l" else "frozendict"))
            try:
                pk = py(kn, True)
                if pk in seen:
                    continue
                seen[pk] = 1
            except TypeError:
                continue
            pairs.append((kn, ("i", j) if big else self.node(depth - 1, in_key, bad_ok and not in_key)))
        return ("m", pairs)

    def labels(self, off=False):
        rng = self.rng
        n = rng.choice([0, 1, 1, 2, 3, 4, 6])
        pool = LABELS + (LABELS_OFF if off and rng.random() < 0.3 else [])
        ls = rng.sample(pool, min(n, len(pool)))
        rng.shuffle(ls)
        return ls

    def metadata(self, bad_ok=False):
        """[(label, node)] in the insertion order the dict is built in"""
        rng = self.rng
        out = []
        for l in self.labels(off=self.mode != "spec"):
            d = rng.choice([0, 1, 2, 2, 3, 4, 5])
            out.append((l, self.node(d, False, bad_ok)))
        return out


def lib_metadata(md):
    return Metadata({l: py(n) for l, n in md})


def md_json(md):
    return [[str(l), dj(n)] for l, n in md]


def md_of_obj(m):
    return [[str(k), of_py(v)] for k, v in m.items()]


# ------------------------------------------------------------------------------------------------ scripts
def gen_native(rng, depth):
    """a native script in the content model of ref/conway.py"""
    if depth <= 0 or rng.random() < 0.45:
        k = rng.choice(["pubkey", "invalid_before", "invalid_hereafter"])
        if k == "pubkey":
            return {"k": k, "hash": rb(rng, 28)}
        return {"k": k, "slot": rng.choice([0, 1, 23, 24, 255, 65536, 2**32, 2**63])}
    k = rng.choice(["all", "any", "n_of_k"])
    subs = [gen_native(rng, depth - 1) for _ in range(rng.choice([0, 1, 2, 3]))]
    if k == "n_of_k":
        return {"k": k, "n": rng.randint(0, 3), "scripts": subs}
    return {"k": k, "scripts": subs}


def lib_native(s):
    k = s["k"]
    if k == "pubkey":
        return ScriptPubkey(VerificationKeyHash(s["hash"]))
    if k == "invalid_before":
        return InvalidBefore(s["slot"])
    if k == "invalid_hereafter":
        return InvalidHereAfter(s["slot"])
    subs = [lib_native(x) for x in s["scripts"]]
    if k == "all":
        return ScriptAll(subs)
    if k == "any":
        return ScriptAny(subs)
    return ScriptNofK(s["n"], subs)


def gen_plutus(rng):
    return [rb(rng, rng.choice([0, 1, 23, 24, 64, 65, 300])) for _ in range(rng.choice([0, 1, 1, 2, 3]))]


# ------------------------------------------------------------------------------------------------ auxiliary data
ERAS = ["shelley", "shelley_ma", "alonzo"]
PL = {"v1": ("plutus_v1_scripts", PlutusV1Script), "v2": ("plutus_v2_scripts", PlutusV2Script), "v3": ("plutus_v3_scripts", PlutusV3Script)}


def gen_aux(rng, era, mask, mode, ctx=None):
    """content description: {"k", "md": [(label, node)] | None, "native": [native] | None, "v1" / "v2" / "v3": [bytes] | None}.
    `mask`: which of the five Alonzo fields are present (bit 0 = metadata … bit 4 = v3); for the Shelley-MA form bit 1
    clear means `native_scripts` is left at its default `None`."""
    g = G(rng, mode, ctx)
    a = {"k": era, "md": None, "native": None, "v1": None, "v2": None, "v3": None}
    natives = lambda: [gen_native(rng, rng.choice([0, 1, 2])) for _ in range(rng.choice([0, 1, 1, 2]))]
    if era == "shelley":
        a["md"] = g.metadata()
    elif era == "shelley_ma":
        a["md"] = g.metadata()
        a["native"] = natives() if mask & 2 else None
    else:
        if mask & 1:
            a["md"] = g.metadata()
        if mask & 2:
            a["native"] = natives()
        for bit, name in ((4, "v1"), (8, "v2"), (16, "v3")):
            if mask & bit:
                a[name] = gen_plutus(rng)
    return a


def lib_aux(a, order=None):
    """the object, through the public constructors (`order`: a permutation of the label positions)"""
    md = a["md"]
    if md is not None and order is not None:
        md = [md[i] for i in order]
    if a["k"] == "shelley":
        return AuxiliaryData(lib_metadata(md))
    if a["k"] == "shelley_ma":
        if a["native"] is None:
            return AuxiliaryData(ShelleyMarryMetadata(lib_metadata(md)))
        return AuxiliaryData(ShelleyMarryMetadata(lib_metadata(md), [lib_native(s) for s in a["native"]]))
    kw = {}
    if md is not None:
        kw["metadata"] = lib_metadata(md)
    if a["native"] is not None:
        kw["native_scripts"] = [lib_native(s) for s in a["native"]]
    for name, (f, cls) in PL.items():
        if a[name] is not None:
            kw[f] = [cls(s) for s in a[name]]
    return AuxiliaryData(AlonzoMetadata(**kw))


def aux_json(a, natives_hex):
    """driver JSON of a content description; `natives_hex`: the CBOR the implementation wrote for each native script"""
    j = {"k": a["k"], "md": None if a["md"] is None else md_json(a["md"])}
    if a["k"] == "shelley":
        return j
    j["native"] = natives_hex
    if a["k"] == "alonzo":
        for name in PL:
            j[name] = None if a[name] is None else [s.hex() for s in a[name]]
    return j


def obj_json(x):
    """driver JSON of an era object the implementation holds (decoded or constructed)"""
    nat = lambda ns: None if ns is None else [dumps(s).hex() for s in ns]
    if isinstance(x, Metadata):
        return {"k": "shelley", "md": md_of_obj(x)}
    if isinstance(x, ShelleyMarryMetadata):
        return {"k": "shelley_ma", "md": md_of_obj(x.metadata), "native": nat(x.native_scripts)}
    if isinstance(x, AlonzoMetadata):
        j = {"k": "alonzo", "md": None if x.metadata is None else md_of_obj(x.metadata), "native": nat(x.native_scripts)}
        for name, (f, _) in PL.items():
            v = getattr(x, f)
            j[name] = None if v is None else [bytes(s).hex() for s in v]
        return j
    raise TypeError(type(x))


def era_of(x):
    return {Metadata: "shelley", ShelleyMarryMetadata: "shelley_ma", AlonzoMetadata: "alonzo"}.get(type(x), type(x).__name__)


def build_aux_case(ctx, case, mode="lib"):
    rng = random.Random(case["seed"])
    a = gen_aux(rng, case["era"], case["mask"], mode, ctx)
    return rng, a


def check_aux(ctx, case):
    rng, a = build_aux_case(ctx, case)
    try:
        x = lib_aux(a)
    except Exception as e:
        # the generator stays inside what the constructor accepts: a refusal here is a refusal of valid input
        ctx.violation(f"auxiliary data the generator built from accepted parts is refused ({type(e).__name__}: {str(e)[:100]})",
                      case, "an object", type(e).__name__)
        return
    desc = dict(case)
    try:
        b = x.to_cbor()
    except Exception as e:
        ctx.violation(f"a constructed AuxiliaryData cannot be serialized ({type(e).__name__}: {str(e)[:100]})", desc, "bytes",
                      type(e).__name__)
        return
    desc["hex"] = b.hex() if len(b) < 600 else b[:300].hex() + "..."
    none_scripts = a["k"] == "shelley_ma" and a["native"] is None
    ctx.count(f"md-aux:{a['k']}" + (f":mask={case['mask']:05b}" if a["k"] == "alonzo" else ":native-omitted" if none_scripts else ""))
    if a["md"]:
        ctx.count("md-aux:labels:" + str(len(a["md"])))
        ctx.count("md-aux:depth:" + str(max(depth_of(n) for _, n in a["md"])))
    # ---- the property on the implementation
    try:
        y = AuxiliaryData.from_cbor(b)
        err = None
    except Exception as e:
        y, err = None, e
    if none_scripts:
        # `ShelleyMarryMetadata(metadata)`: the constructor makes the script list `[]` (68fc5c3); judged like every other case
        ctx.count("md-aux:shelley_ma-native-omitted:" + ("decodes" if err is None else classify(err)))
    if err is not None:
        ctx.violation(f"AuxiliaryData: the encoded object cannot be decoded ({type(err).__name__}: {str(err)[:120]})", desc,
                      "an object", classify(err))
    else:
        if type(y.data) is not type(x.data):
            ctx.violation("AuxiliaryData: decoded as another era", desc, era_of(x.data), era_of(y.data))
        elif not (y == x) or not (x == y):
            ctx.violation("AuxiliaryData: decode(encode(x)) != x", desc, obj_json(x.data), obj_json(y.data))
        try:
            b2 = y.to_cbor()
        except Exception:
            b2 = None
        if b2 != b:
            ctx.violation("AuxiliaryData: re-encoding the decoded object gives different bytes", desc, b.hex(),
                          b2.hex() if b2 else None)
        # the era class itself, without the dispatch
        try:
            z = type(x.data).from_cbor(b)
            if not (z == x.data):
                ctx.violation(f"{type(x.data).__name__}: decode(encode(x)) != x", desc, obj_json(x.data), obj_json(z))
        except Exception as e:
            ctx.violation(f"{type(x.data).__name__}.from_cbor refuses its own encoding ({type(e).__name__})", desc, "an object",
                          classify(e))
        # the other two era classes must refuse it with DeserializeException (the dispatch relies on it)
        for cls in (Metadata, ShelleyMarryMetadata, AlonzoMetadata):
            if cls is type(x.data):
                continue
            try:
                cls.from_cbor(b)
                ctx.violation(f"{cls.__name__} accepts the encoding of a {type(x.data).__name__}", desc, "deser", "ok")
            except DeserializeException:
                pass
            except Exception as e:
                ctx.violation(f"{cls.__name__} on the encoding of a {type(x.data).__name__}: {type(e).__name__} instead of "
                              "DeserializeException (AuxiliaryData.from_primitive would not reach the next era)", desc,
                              "deser", "crash")
    # insertion order of the labels is not on the wire
    if a["md"] and len(a["md"]) > 1:
        order = list(range(len(a["md"])))
        rng.shuffle(order)
        try:
            bo = lib_aux(a, order).to_cbor()
        except Exception:
            bo = None
        if bo != b:
            ctx.violation("the same labels inserted in another order are written differently", {**desc, "order": order}, b.hex(),
                          bo.hex() if bo else None)
        ctx.count("md-aux:reordered")
    # ---- correspondence with the model
    if ctx.have_driver():
        d = ctx.driver()
        # the driver is given the constructor ARGUMENTS (a script list that was not given stays `null`) and normalises itself
        nat = None if a["native"] is None else [dumps(s).hex() for s in x.data.native_scripts]
        m = d.ok({"op": "md.enc", "aux": aux_json(a, nat)})
        if m["constructed"] != obj_json(x.data):
            ctx.diff("md.constructor", desc, m["constructed"], obj_json(x.data))
        ctx.traces += 1
        if m["hex"] != b.hex():
            ctx.diff("md.enc", desc, m["hex"], b.hex())
        ctx.count("md-aux:" + ("in_theorem_scope" if m["inscope"] else "outside_theorem_scope"))
        ctx.count("md-aux:" + ("in_cddl_ranges" if m["specok"] else "outside_cddl_ranges"))
        if not m["inscope"]:
            ctx.diff("md.enc.inscope", desc, m["inscope"], True)
        k, md = d.call({"op": "md.dec", "hex": b.hex(), "as": "aux"})
        ctx.traces += 1
        if k != "ok":
            ctx.diff("md.dec", desc, md, "ok")
        elif "err" in md:
            if err is None or classify(err) != md["err"]:
                ctx.diff("md.dec", desc, md, "decoded" if err is None else classify(err))
        elif err is not None:
            ctx.diff("md.dec", desc, "decoded", classify(err))
        else:
            impl = obj_json(y.data)
            if md["val"] != impl:
                ctx.diff("md.dec", desc, md["val"], impl)
            if m["canon"] != impl:                               # the closed form of the theorem (`canonAux`)
                ctx.diff("md.dec(canonAux)", desc, m["canon"], impl)
            if md["reenc"] != y.to_cbor().hex():
                ctx.diff("md.reenc", desc, md["reenc"], y.to_cbor().hex())
    ctx.case(case)


# ------------------------------------------------------------------------------------------------ validation
def gen_validate_args(rng, ctx=None):
    """[(key node, value node)] for `Metadata({...})`: mostly int labels, values of every kind, good and bad"""
    g = G(rng, "any", ctx)
    n = rng.choice([1, 1, 2, 3])
    out, seen = [], set()
    style = rng.random()
    for l in rng.sample(LABELS + LABELS_OFF, n):
        kn = ("i", l)
        if style < 0.12 and not out:
            kn = rng.choice([("s", "label"), ("b", b"\x01"), x_node("none"), x_node("tuple"), ("s", "")])
        if repr(kn[1]) in seen:
            continue
        seen.add(repr(kn[1]))
        r = rng.random()
        if r < 0.35:
            v = G(rng, "spec", ctx).node(rng.choice([0, 1, 2, 3]))
        elif r < 0.55:
            v = G(rng, "lib", ctx).node(rng.choice([0, 1, 2, 3]))
        else:
            v = g.node(rng.choice([0, 0, 1, 2, 3, 4]), False, True)
        out.append((kn, v))
    return out


def check_validate(ctx, case):
    rng = random.Random(case["seed"])
    args = gen_validate_args(rng, ctx)
    d = {py(k, True): py(v) for k, v in args}
    desc = {**case, "args": repr(d)[:400]}
    try:
        obj = Metadata(d)
        impl = "accept"
    except InvalidArgumentException:
        obj, impl = None, "reject"
    except Exception as e:
        obj, impl = None, "crash:" + type(e).__name__
    ctx.count("md-validate:" + impl.split(":")[0])
    labels_int = all(k[0] == "i" for k, _ in args)
    in_spec = labels_int and all(0 <= k[1] < 2**64 and spec_ok(v) for k, v in args)
    over = any(oversize_value(v) for _, v in args)
    # ---- judged without the model, against the CDDL
    if in_spec and impl != "accept":
        ctx.violation("Metadata(...) refuses metadata inside the CDDL ranges (strings of at most 64 bytes, 64-bit integers)", desc,
                      "accept", impl)
    if (over or not labels_int) and impl == "accept":
        ctx.violation("Metadata(...) accepts " + ("a string of more than 64 bytes / a foreign kind in a value position" if over
                                                   else "a label that is not an int"), desc, "reject", impl)
    if impl.startswith("crash"):
        ctx.violation("Metadata(...) fails with an exception other than InvalidArgumentException", desc, "accept | reject", impl)
    ctx.count("md-validate:" + ("in_cddl" if in_spec else "oversize_value" if over else "non_int_label" if not labels_int else "lib_only"))
    if impl == "accept" and labels_int:
        # what the constructor lets through must serialize and come back (C01 on a bare Metadata)
        try:
            b = obj.to_cbor()
            y = Metadata.from_cbor(b)
            if not (y == obj) or y.to_cbor() != b:
                ctx.violation("Metadata: decode(encode(m)) != m or re-encoding differs", desc, b.hex(), y.to_cbor().hex())
        except Exception as e:
            ctx.violation(f"an accepted Metadata does not survive to_cbor / from_cbor ({type(e).__name__}: {str(e)[:100]})", desc,
                          "round trip", type(e).__name__)
    # ---- correspondence with the model
    if ctx.have_driver():
        m = ctx.driver().ok({"op": "md.validate", "args": [[dj(k), dj(v)] for k, v in args]})
        ctx.traces += 1
        if m != (impl == "accept"):
            ctx.diff("md.validate", desc, "accept" if m else "reject", impl)
    ctx.case(case)


# ------------------------------------------------------------------------------------------------ malformed stream
M = R.Map
NS_OK = [0, bytes(range(28))]
S65 = "x" * 65


def damage(kind):
    """a primitive (cbor_ref data model) near the image of the encoders"""
    md = M([(1, "a"), (674, M([("msg", ["hi", 5])]))])
    T259 = lambda x: R.Tag(259, x)
    table = {
        "good-shelley": md,
        "good-shelley-empty": M([]),
        "good-shelley-ma": [md, [NS_OK]],
        "good-shelley-ma-empty": [M([]), []],
        "good-alonzo-all": T259(M([(0, md), (1, [NS_OK]), (2, [b"ab"]), (3, [b"cd", b""]), (4, [])])),
        "good-alonzo-empty": T259(M([])),
        "alonzo-order-reversed": T259(M([(4, []), (2, [b"ab"]), (0, md)])),
        # values the decoder does not look at
        "md-text65": M([(1, S65)]),
        "md-bytes65": M([(1, b"y" * 65)]),
        "md-multibyte66": M([(1, "é" * 33)]),
        "md-null-value": M([(1, None)]),
        "md-bool-value": M([(1, True), (2, False)]),
        "md-tag-value": M([(1, R.Tag(99, [1, 2]))]),
        "md-bignum": M([(1, 2**64), (2, -(2**64) - 1)]),
        "md-bignum-short": M([(1, R.Tag(2, b"\x05")), (2, R.Tag(3, b"\x00"))]),
        "md-indef-list": M([(1, R.IndefList([1, R.Chunked([b"ab", b"c"]), R.IndefList([])]))]),
        "md-chunked": M([(1, R.Chunked([b"ab", b"c"])), (2, R.Chunked([]))]),
        "md-nested-key-kinds": M([(1, M([([1, 2], M([(M([(1, 2)]), 3)])), (b"k", [M([])])]))]),
        "md-unsorted": M([(2**32, 1), (24, 2), (0, 3), (23, 4)]),
        "md-dup-label": M([(1, 1), (1, 2)]),
        "md-dup-label-far": M([(2, 1), (1, 2), (2, 5)]),
        # labels
        "md-text-label": M([("a", 1)]),
        "md-bytes-label": M([(b"a", 1)]),
        "md-null-label": M([(None, 1)]),
        "md-list-label": M([([1], 1)]),
        "md-neg-label": M([(-1, 1)]),
        "md-bignum-label": M([(2**64, 1)]),
        "md-second-label-text": M([(1, 1), ("b", 2)]),
        # wrong kinds at the top
        "top-int": 5, "top-text": "x", "top-bytes": b"\x01", "top-null": None, "top-true": True, "top-empty-list": [],
        "top-tag24": R.Tag(24, b"\xa0"), "top-tag258": R.Tag(258, M([])), "top-tag1000": R.Tag(1000, M([])),
        # Shelley-MA
        "sma-1": [md], "sma-3": [md, [NS_OK], 7], "sma-null-scripts": [md, None], "sma-int-scripts": [md, 5],
        "sma-map-scripts": [md, M([])], "sma-bytes-scripts": [md, b"ab"], "sma-empty-bytes-scripts": [md, b""],
        "sma-text-scripts": [md, "ab"], "sma-empty-text-scripts": [md, ""],
        "sma-md-int": [5, []], "sma-md-list": [[], []], "sma-md-null": [None, []], "sma-md-text-label": [M([("a", 1)]), []],
        "sma-script-int": [md, [5]], "sma-script-unknown-type": [md, [[9, 1]]], "sma-script-empty": [md, [[]]],
        "sma-script-text": [md, ["x"]], "sma-script-indef": [md, [R.IndefList(NS_OK)]],
        "sma-indef": R.IndefList([md, [NS_OK]]), "sma-scripts-indef": [md, R.IndefList([NS_OK])],
        "sma-bad-then-crash": [5, None],
        # Alonzo
        "alz-key5": T259(M([(5, 1)])), "alz-key-text": T259(M([("0", M([]))])), "alz-key-neg": T259(M([(-1, 1)])),
        "alz-key-bignum0": T259(M([(R.Tag(2, b"\x00"), M([]))])),
        "alz-md-null": T259(M([(0, None)])), "alz-md-int": T259(M([(0, 5)])), "alz-md-list": T259(M([(0, [])])),
        "alz-md-text-label": T259(M([(0, M([("a", 1)]))])),
        "alz-native-null": T259(M([(1, None)])), "alz-native-int": T259(M([(1, 5)])), "alz-native-map": T259(M([(1, M([]))])),
        "alz-native-bytes": T259(M([(1, b"ab")])), "alz-native-elem-int": T259(M([(1, [5])])),
        "alz-native-unknown-type": T259(M([(1, [[9, 1]])])), "alz-native-empty-script": T259(M([(1, [[]])])),
        "alz-native-indef": T259(M([(1, R.IndefList([NS_OK]))])),
        "alz-v1-null": T259(M([(2, None)])), "alz-v1-int": T259(M([(2, 5)])), "alz-v1-elem-int": T259(M([(2, [5])])),
        "alz-v1-elem-text": T259(M([(2, ["ab"])])), "alz-v1-indef": T259(M([(2, R.IndefList([b"ab"]))])),
        "alz-v1-chunked": T259(M([(2, [R.Chunked([b"ab", b"c"])])])), "alz-v1-map": T259(M([(2, M([]))])),
        "alz-v2-bytes": T259(M([(3, b"ab")])), "alz-v3-text": T259(M([(4, "ab")])),
        "alz-v2v3-swapped-content": T259(M([(3, [b"v2"]), (2, [b"v1"]), (4, [b"v3"])])),
        "alz-inner-list": T259([1]), "alz-inner-int": T259(5), "alz-inner-null": T259(None),
        "alz-inner-pair": T259([M([]), []]),
        "alz-crash-before-deser": T259(M([(1, 5), (5, 1)])), "alz-deser-before-crash": T259(M([(5, 1), (1, 5)])),
        "alz-tag258": R.Tag(258, M([(0, md)])), "alz-tag-nested": T259(T259(M([]))),
    }
    return table[kind]


DAMAGE = ["good-shelley", "good-shelley-empty", "good-shelley-ma", "good-shelley-ma-empty", "good-alonzo-all", "good-alonzo-empty",
          "alonzo-order-reversed", "md-text65", "md-bytes65", "md-multibyte66", "md-null-value", "md-bool-value", "md-tag-value",
          "md-bignum", "md-bignum-short", "md-indef-list", "md-chunked", "md-nested-key-kinds", "md-unsorted", "md-dup-label",
          "md-dup-label-far", "md-text-label", "md-bytes-label", "md-null-label", "md-list-label", "md-neg-label",
          "md-bignum-label", "md-second-label-text", "top-int", "top-text", "top-bytes", "top-null", "top-true", "top-empty-list",
          "top-tag24", "top-tag258", "top-tag1000", "sma-1", "sma-3", "sma-null-scripts", "sma-int-scripts", "sma-map-scripts",
          "sma-bytes-scripts", "sma-empty-bytes-scripts", "sma-text-scripts", "sma-empty-text-scripts", "sma-md-int", "sma-md-list",
          "sma-md-null", "sma-md-text-label", "sma-script-int", "sma-script-unknown-type", "sma-script-empty", "sma-script-text",
          "sma-script-indef", "sma-indef", "sma-scripts-indef", "sma-bad-then-crash", "alz-key5", "alz-key-text", "alz-key-neg",
          "alz-key-bignum0", "alz-md-null", "alz-md-int", "alz-md-list", "alz-md-text-label", "alz-native-null", "alz-native-int",
          "alz-native-map", "alz-native-bytes", "alz-native-elem-int", "alz-native-unknown-type", "alz-native-empty-script",
          "alz-native-indef", "alz-v1-null", "alz-v1-int", "alz-v1-elem-int", "alz-v1-elem-text", "alz-v1-indef", "alz-v1-chunked",
          "alz-v1-map", "alz-v2-bytes", "alz-v3-text", "alz-v2v3-swapped-content", "alz-inner-list", "alz-inner-int",
          "alz-inner-null", "alz-inner-pair", "alz-crash-before-deser", "alz-deser-before-crash", "alz-tag258", "alz-tag-nested"]

FORMS = {"aux": AuxiliaryData, "metadata": Metadata, "shelley_ma": ShelleyMarryMetadata, "alonzo": AlonzoMetadata}


def check_malformed(ctx, case):
    kind = case["damage"]
    mb = R.enc(damage(kind))
    desc = {**case, "hex": mb.hex()}
    for form, cls in FORMS.items():
        try:
            y = cls.from_cbor(mb)
            impl = "ok"
        except DeserializeException:
            y, impl = None, "deser"
        except Exception:
            y, impl = None, "crash"
        if form == "aux":
            ctx.count(f"md-mal:{kind}:{impl}")
        if not ctx.have_driver():
            continue
        k, m = ctx.driver().call({"op": "md.dec", "hex": mb.hex(), "as": form})
        ctx.traces += 1
        mod = "fail" if k != "ok" else m.get("err", "ok")
        fdesc = {**desc, "decoder": form}
        if mod != impl:
            ctx.diff("md.dec(malformed)", fdesc, mod, impl)
        elif impl == "ok":
            yj = obj_json(y.data if form == "aux" else y)
            if m["val"] != yj:
                ctx.diff("md.dec(malformed).val", fdesc, m["val"], yj)
            try:
                rb_ = y.to_cbor().hex()
            except Exception as e:
                rb_ = "unserializable:" + type(e).__name__
            if m["reenc"] != rb_:
                ctx.diff("md.dec(malformed).reenc", fdesc, m["reenc"], rb_)
            md_obj = y.data if form == "aux" else y
            md_obj = md_obj if isinstance(md_obj, Metadata) else md_obj.metadata
            if md_obj is not None:
                # would the constructor accept what the decoder returned? (theorem decode_skips_validation)
                try:
                    Metadata(dict(md_obj.data))
                    ok = True
                except InvalidArgumentException:
                    ok = False
                except Exception:
                    ok = None
                if ok is not None and m["valid"] != ok:
                    ctx.diff("md.dec(malformed).valid", fdesc, m["valid"], ok)
                if ok is False and form == "aux":
                    ctx.count("md-mal:decoded-object-the-constructor-refuses")
    ctx.case(case, nontrivial=False)



# ------------------------------------------------------------------------------------------------ the Lean witnesses
def check_witnesses(ctx, case):
    """the concrete witnesses of the `_counterexample` theorems of Props/C01_Metadata.lean / C02_Metadata.lean, replayed on the
    implementation: each must still behave as the theorem says (otherwise model and code have drifted apart)"""
    def note(name, model, impl):
        ctx.count(f"md-witness:{name}:{'reproduces' if model == impl else 'DIFFERS'}")
        ctx.traces += 1
        if model != impl:
            ctx.diff("md.witness." + name, {**case, "witness": name}, model, impl)

    # the former counterexample of the round trip (repaired by 68fc5c3), now a NORMAL round-trip case, judged:
    # `AuxiliaryData(ShelleyMarryMetadata(Metadata()))` is `82 a0 80`, decodes to an equal object, re-encodes to the same bytes
    wdesc = {**case, "witness": "shelley_ma_default"}
    x = AuxiliaryData(ShelleyMarryMetadata(Metadata()))
    try:
        b = x.to_cbor()
        y = AuxiliaryData.from_cbor(b)
        if b.hex() != "82a080":
            ctx.violation("AuxiliaryData(ShelleyMarryMetadata(Metadata())) is not written [{}, []]", wdesc, "82a080", b.hex())
        if not (y == x) or type(y.data) is not ShelleyMarryMetadata or y.to_cbor() != b:
            ctx.violation("AuxiliaryData(ShelleyMarryMetadata(Metadata())): decode(encode(x)) != x or re-encoding differs", wdesc,
                          obj_json(x.data), obj_json(y.data))
    except Exception as e:
        ctx.violation(f"AuxiliaryData(ShelleyMarryMetadata(Metadata())) does not survive to_cbor / from_cbor ({type(e).__name__}: "
                      f"{str(e)[:100]})", wdesc, "round trip", type(e).__name__)
    ctx.count("md-witness:shelley_ma_default:judged")
    # shelley_ma_foreign_null_crashes: a foreign `82 a0 f6` (null where the list is prescribed) raises a non-Deserialize exception
    try:
        AuxiliaryData.from_cbor(bytes.fromhex("82a0f6"))
        r = "ok"
    except Exception as e:
        r = classify(e)
    note("shelley_ma_foreign_null", "crash", r)
    # validation_sound_counterexample: a 65-byte key of a nested map, a boolean, an integer beyond 64 bits are accepted
    for name, v, hexp in (("nested_key_65", {"x" * 65: 1}, "a100a17841" + "78" * 65 + "01"), ("bool_value", True, "a100f5"),
                          ("bignum_value", 2**64, "a100c249010000000000000000")):
        try:
            got = Metadata({0: v}).to_cbor().hex()
        except Exception as e:
            got = type(e).__name__
        note(name, hexp, got)
    # decode_skips_validation: a 65-byte text is decoded although the constructor refuses it
    mb = R.enc(M([(1, S65)]))
    try:
        y = Metadata.from_cbor(mb)
        dec = "ok"
    except Exception as e:
        y, dec = None, classify(e)
    try:
        Metadata({1: S65})
        con = "accept"
    except InvalidArgumentException:
        con = "reject"
    note("decode_skips_validation", ["ok", "reject"], [dec, con])
    # constructed_conforms_counterexample: a negative label is written as a `nint` key
    try:
        got = Metadata({-1: 0}).to_cbor().hex()
    except Exception as e:
        got = type(e).__name__
    note("negative_label", "a12000", got)
    ctx.case(case, nontrivial=False)

# ------------------------------------------------------------------------------------------------ entry points
def dispatch(ctx, case):
    k = case["kind"]
    if k == "md-aux":
        check_aux(ctx, case)
    elif k == "md-validate":
        check_validate(ctx, case)
    elif k == "md-mal":
        check_malformed(ctx, case)
    elif k == "md-witness":
        check_witnesses(ctx, case)
    else:
        raise ValueError(k)


def aux_cases(ctx, n, tag):
    """eras in turn; the Alonzo mask runs through all 32 subsets; `native_scripts` omitted in the Shelley-MA form now and then"""
    j = 0
    for i in range(n):
        era = ERAS[i % 3]
        mask = 0
        if era == "alonzo":
            mask = j % 32
            j += 1
        elif era == "shelley_ma":
            mask = 0 if i % 30 == 1 else 2
        yield {"ext": EXT, "kind": "md-aux", "seed": f"{ctx.seed}/{tag}{i}", "era": era, "mask": mask}


def run_ext(ctx):
    ctx.assumptions.append("metadata / auxiliary data: native scripts inside auxiliary data are a leaf of the model (the bytes the "
                           "library wrote are handed to the driver), Plutus scripts are byte strings; "
                           "the driver is given the constructor arguments and applies the model of the constructor (normAux)")
    for case in aux_cases(ctx, ctx.budget(720, 15000), "mda"):
        dispatch(ctx, case)
    for i in range(ctx.budget(900, 15000)):
        dispatch(ctx, {"ext": EXT, "kind": "md-validate", "seed": f"{ctx.seed}/mdv{i}"})
    for kind in DAMAGE:
        dispatch(ctx, {"ext": EXT, "kind": "md-mal", "damage": kind})
    dispatch(ctx, {"ext": EXT, "kind": "md-witness"})


def replay_ext(ctx, case):
    dispatch(ctx, {k: v for k, v in case.items() if k in ("kind", "seed", "era", "mask", "damage", "ext")})
