"""C05 — value arithmetic is exact component-wise integer arithmetic.

T2 correspondence of the Lean model (Pyc/Model/Value.lean, via the driver) with pycardano's Asset / MultiAsset /
Value on generated operand pairs and on random operation histories over a shared environment, plus direct
evaluation of the property on the implementation against a dict-of-int oracle."""
from __future__ import annotations

import copy

from pycardano import Asset, AssetName, MultiAsset, ScriptHash, Value

from vlib import values as V

CRITS = {
    "pos": lambda p, n, v: v > 0,
    "neg": lambda p, n, v: v < 0,
    "gt": lambda p, n, v: v > 5,
    "evenname": lambda p, n, v: len(n.payload) % 2 == 0,
    "polfirst": lambda p, n, v: p.payload[0] % 2 == 0,
    "all": lambda p, n, v: True,
}


def crit_json(name, p, n, v):
    return CRITS[name](ScriptHash(bytes.fromhex(p)), AssetName(bytes.fromhex(n)), v)


# ---------------------------------------------------------------------------------------------------------------
# oracle: the underlying map from asset to integer
def o_add(a, b, sign=1):
    c = dict(a)
    for k, q in b.items():
        c[k] = c.get(k, 0) + sign * q
    return {k: q for k, q in c.items() if q != 0}


def o_le(a, b):
    return all(a.get(k, 0) <= b.get(k, 0) for k in set(a) | set(b))


def stored_keys(j):
    return {(p, n) for p, x in j["ma"] for n, _ in x}


def key_directed_le(ja, jb):
    """`<=` as the code computed it before the repair of KF-C05-le-negative (keys of the left operand only, a key
    missing on the right = "not <="); used ONLY to measure how many generated pairs tell the two semantics apart"""
    if int(ja["coin"]) > int(jb["coin"]):
        return False
    right = {p: {n: int(q) for n, q in x} for p, x in jb["ma"]}
    for p, x in ja["ma"]:
        if p not in right:
            return False
        for n, q in x:
            if n not in right[p] or int(q) > right[p][n]:
                return False
    return True


def stored_dict_eq(ja, jb):
    """what `==` answered before it was made component-wise: coins and the stored dicts (zeros and empty policies visible)"""
    return ja["coin"] == jb["coin"] and V.canon_ma(ja["ma"]) == V.canon_ma(jb["ma"])


def le_patterns(ja, jb):
    """the operand shapes on which a key-directed `<=` is not component-wise (stored entries, not contents)"""
    ka, kb = stored_keys(ja), stored_keys(jb)
    pa, pb = {p for p, _ in ja["ma"]}, {p for p, _ in jb["ma"]}
    out = set()
    for p, x in ja["ma"]:
        if not x and p not in pb:
            out.add("left-empty-policy-missing-right")
        for n, q in x:
            if (p, n) not in kb:
                if int(q) < 0:
                    out.add("left-neg-missing-right")
                    out.add("left-neg-missing-right:" + ("name" if p in pb else "policy"))
                elif int(q) == 0:
                    out.add("left-zero-missing-right")
                    out.add("left-zero-missing-right:" + ("name" if p in pb else "policy"))
    for p, x in jb["ma"]:
        for n, q in x:
            if (p, n) not in ka and int(q) < 0:
                out.add("right-neg-missing-left")
                out.add("right-neg-missing-left:" + ("name" if p in pa else "policy"))
    return out


# ---------------------------------------------------------------------------------------------------------------
def check_binop(ctx, case):
    """case = {kind: binop, op, a, b}; evaluates implementation, model and oracle on one operand pair"""
    op, ja, jb = case["op"], case["a"], case["b"]
    A, B = V.load_value(ja), V.load_value(jb)
    if op in ("add", "sub", "union"):
        R = A + B if op == "add" else A - B if op == "sub" else A.union(B)
        jr = V.dump_value(R)
        # operands untouched
        if V.dump_value(A) != ja or V.dump_value(B) != jb:
            ctx.violation(f"{op} altered an operand", case, {"a": ja, "b": jb},
                          {"a": V.dump_value(A), "b": V.dump_value(B)})
        ca, cb = V.content_value(ja), V.content_value(jb)
        sign = -1 if op == "sub" else 1
        exp = (ca[0] + sign * cb[0], o_add(ca[1], cb[1], sign))
        got = V.content_value(jr)
        if got != exp:
            ctx.violation(f"{op} is not exact component-wise arithmetic", case,
                          {"coin": exp[0], "assets": {f"{k[0]}.{k[1]}": v for k, v in exp[1].items()}}, jr)
        elif not V.is_normal_ma(jr["ma"]):
            ctx.violation(f"{op} result stores a zero quantity or an empty policy", case, "normal result", jr)
        if ctx.have_driver():
            m = ctx.driver().ok({"op": "value.sub" if op == "sub" else "value.add", "a": ja, "b": jb})
            ctx.traces += 1
            if V.canon_value(m) != V.canon_value(jr):
                ctx.diff("value." + op, case, m, jr)
        ctx.count(op)
        if set(ca[1]) & set(cb[1]):
            ctx.count("overlap")
        if any(ca[1].get(k, 0) + sign * cb[1].get(k, 0) == 0 for k in set(ca[1]) & set(cb[1])):
            ctx.count("zero-crossing")
    else:  # comparisons
        r = {"eq": lambda: A == B, "le": lambda: A <= B, "lt": lambda: A < B}[op]()
        ca, cb = V.content_value(ja), V.content_value(jb)
        if ctx.have_driver():
            m = ctx.driver().ok({"op": "value." + op, "a": ja, "b": jb})
            ctx.traces += 1
            if m != r:
                ctx.diff("value." + op, case, m, r)
        normal = V.is_normal_ma(ja["ma"]) and V.is_normal_ma(jb["ma"])
        e_eq = ca == cb
        e_le = ca[0] <= cb[0] and o_le(ca[1], cb[1])
        # C05.le_iff / eq_iff / lt_iff: every comparison is the component-wise relation on contents (absent = 0) on EVERY
        # operand pair — stored zeros, empty policies, negative quantities on either side included
        exp = {"eq": e_eq, "le": e_le, "lt": e_le and not e_eq}[op]
        if op in ("eq", "lt"):
            ctx.count(f"{op}:operands-" + ("normal" if normal else "storing-zeros-or-empty-policies"))
            if op == "eq":
                ctx.count("eq:" + ("true" if e_eq else "false"))
                if e_eq and V.canon_value(ja) != V.canon_value(jb):
                    ctx.count("eq:same-content-different-stored-dicts")
                if stored_dict_eq(ja, jb) != e_eq:
                    ctx.count("eq:stored-dict-comparison-would-differ")
        if exp is not None and r != exp:
            ctx.violation(f"{op} is not the component-wise relation", case, exp, r)
        if op in ("le", "lt"):
            for k in le_patterns(ja, jb):
                ctx.count("le-pattern:" + k)
            ctx.count("le:" + ("true" if e_le else "false"))
            if key_directed_le(ja, jb) != e_le:
                ctx.count("le:key-directed-would-differ")
        ctx.count(op)
    ctx.case(case)


def check_laws(ctx, case):
    """algebraic laws evaluated on the implementation itself (pure forms)"""
    a, b, c = (V.load_value(case[k]) for k in ("a", "b", "c"))
    ok = {
        "comm": (a + b) == (b + a),
        "assoc": ((a + b) + c) == (a + (b + c)),
        "sub_self": (a - a) == Value(0),
        "union": a.union(b) == a + b,
    }
    ok["cancel"] = (a + b - b) == a          # C05.add_sub_cancel: for every well-formed a, normal or not
    ok["eq_refl"] = (a == a) and (a == copy.deepcopy(a))
    ok["eq_symm"] = (a == b) == (b == a)
    if not V.is_normal_ma(case["a"]["ma"]):
        ctx.count("laws:cancel-on-operand-storing-zeros")
    x = copy.deepcopy(a)
    x += b
    ok["iadd=add"] = V.canon_value(V.dump_value(x)) == V.canon_value(V.dump_value(a + b))
    for k, v in ok.items():
        if not v:
            ctx.violation(f"law {k} fails", case, True, False)
    ctx.count("laws")
    ctx.case(case)


# ---------------------------------------------------------------------------------------------------------------
def run_history(ctx, case):
    """case = {kind: history, init: [Vjson...], ops: [...]}; implementation on real (possibly shared) objects,
    model on a sharing-free environment, every variable compared after every step"""
    env = [V.load_value(j) for j in case["init"]]
    menv = [copy.deepcopy(j) for j in case["init"]]                       # model environment (driver results)
    senv = [{"coin": int(j["coin"]), "c": V.content_ma(j["ma"]), "normal": False} for j in case["init"]]  # oracle
    drv = ctx.driver() if ctx.have_driver() else None

    def m_call(op, **kw):
        return drv.ok({"op": op, **kw}) if drv else None

    for step, o in enumerate(case["ops"]):
        k = o["k"]
        i, j, l = o.get("i"), o.get("j"), o.get("l")
        if k in ("add", "sub", "union"):
            env[i] = env[j] + env[l] if k == "add" else env[j] - env[l] if k == "sub" else env[j].union(env[l])
            if drv:
                menv[i] = m_call("value.sub" if k == "sub" else "value.add", a=menv[j], b=menv[l])
            s = -1 if k == "sub" else 1
            senv[i] = {"coin": senv[j]["coin"] + s * senv[l]["coin"], "c": o_add(senv[j]["c"], senv[l]["c"], s),
                       "normal": True}
        elif k == "iadd":
            x = env[i]
            x += env[j]
            env[i] = x
            if drv:
                menv[i] = m_call("value.add", a=menv[i], b=menv[j])
            senv[i] = {"coin": senv[i]["coin"] + senv[j]["coin"], "c": o_add(senv[i]["c"], senv[j]["c"]), "normal": True}
        elif k == "addint":
            env[i] = env[j] + o["n"]
            if drv:
                menv[i] = m_call("value.add", a=menv[j], b={"coin": str(o["n"]), "ma": []})
            senv[i] = {"coin": senv[j]["coin"] + o["n"], "c": o_add(senv[j]["c"], {}), "normal": True}
        elif k == "ma_iadd":
            m = env[i].multi_asset
            m += env[j].multi_asset
            env[i].multi_asset = m
            if drv:
                menv[i] = {"coin": menv[i]["coin"], "ma": m_call("ma.add", a=menv[i]["ma"], b=menv[j]["ma"])}
            senv[i] = {"coin": senv[i]["coin"], "c": o_add(senv[i]["c"], senv[j]["c"]), "normal": True}
        elif k == "ma_sub":
            env[i] = Value(env[i].coin, env[j].multi_asset - env[l].multi_asset)
            if drv:
                menv[i] = {"coin": menv[i]["coin"], "ma": m_call("ma.sub", a=menv[j]["ma"], b=menv[l]["ma"])}
            senv[i] = {"coin": senv[i]["coin"], "c": o_add(senv[j]["c"], senv[l]["c"], -1), "normal": True}
        elif k == "filter":
            env[i] = Value(env[i].coin, env[j].multi_asset.filter(CRITS[o["crit"]]))
            if drv:
                menv[i] = {"coin": menv[i]["coin"],
                           "ma": m_call("ma.filter", a=menv[j]["ma"], crit=o["crit"], thr="5")}
            # oracle on the *stored* entries of the implementation's operand is not meaningful for zeros; use content
            senv[i] = {"coin": senv[i]["coin"],
                       "c": {kk: q for kk, q in senv[j]["c"].items() if crit_json(o["crit"], kk[0], kk[1], q)},
                       "normal": False}
        elif k == "deepcopy":
            env[i] = copy.deepcopy(env[j])
            menv[i] = copy.deepcopy(menv[j])
            senv[i] = copy.deepcopy(senv[j])
        elif k == "asset_iadd":
            # v[i].multi_asset[p] += v[j].multi_asset[q]  for existing policies p, q (chosen by index)
            pi = list(env[i].multi_asset.data.keys())
            pj = list(env[j].multi_asset.data.keys())
            if not pi or not pj:
                continue
            p, q = pi[o["p"] % len(pi)], pj[o["q"] % len(pj)]
            a = env[i].multi_asset[p]
            a += env[j].multi_asset[q]
            env[i].multi_asset[p] = a
            ph, qh = p.payload.hex(), q.payload.hex()
            if drv:
                ai = dict((x, y) for x, y in menv[i]["ma"])[ph]
                aj = dict((x, y) for x, y in menv[j]["ma"])[qh]
                r = m_call("asset.add", a=ai, b=aj)
                menv[i] = {"coin": menv[i]["coin"], "ma": [[x, (r if x == ph else y)] for x, y in menv[i]["ma"]]}
            ci = dict(senv[i]["c"])
            addend = {(ph, n): v for (pp, n), v in senv[j]["c"].items() if pp == qh}
            senv[i] = {"coin": senv[i]["coin"], "c": o_add(ci, addend), "normal": False}
        else:
            raise ValueError(k)
        ctx.count("h:" + k)
        # --- compare every variable
        for v in range(len(env)):
            jr = V.dump_value(env[v])
            got = V.content_value(jr)
            if got != (senv[v]["coin"], senv[v]["c"]):
                what = (f"history step {step} ({k}): variable v{v} "
                        + ("has the wrong content" if v == i else "was altered although it is not the target"))
                ctx.violation(what, {**case, "ops": case["ops"][: step + 1]},
                              {"coin": senv[v]["coin"], "assets": {f"{a}.{b}": q for (a, b), q in senv[v]["c"].items()}},
                              jr)
                return
            if v == i and senv[v]["normal"] and not V.is_normal_ma(jr["ma"]):
                ctx.violation(f"history step {step} ({k}): result stores a zero quantity or an empty policy",
                              {**case, "ops": case["ops"][: step + 1]}, "normal result", jr)
                return
            if drv and V.canon_value(menv[v]) != V.canon_value(jr):
                ctx.diff(f"history:{k}", {**case, "ops": case["ops"][: step + 1]}, menv[v], jr)
                return
        ctx.traces += 1
    ctx.case(case)


def gen_history(rng, nvars=4, nops=10):
    init = [V.gen_value_json(rng, npol=3, nname=4, zeros=True, empties=rng.random() < 0.3) for _ in range(nvars)]
    ops = []
    kinds = ["add", "sub", "union", "iadd", "iadd", "addint", "ma_iadd", "ma_sub", "filter", "deepcopy", "asset_iadd"]
    for _ in range(nops):
        k = rng.choice(kinds)
        o = {"k": k, "i": rng.randrange(nvars), "j": rng.randrange(nvars), "l": rng.randrange(nvars)}
        if k == "addint":
            o["n"] = rng.choice([0, 1, -1, 2**64, -(2**63), 1000000])
        if k == "filter":
            o["crit"] = rng.choice(list(CRITS))
        if k == "asset_iadd":
            o["p"], o["q"] = rng.randrange(8), rng.randrange(8)
        ops.append(o)
    return {"kind": "history", "init": init, "ops": ops}


def derived_pair(rng):
    """operand pairs aimed at overlap and zero-crossing"""
    a = V.gen_value_json(rng, npol=3, nname=4, zeros=rng.random() < 0.3, empties=rng.random() < 0.2)
    r = rng.random()
    if r < 0.25:
        # b = negation / copy of part of a  -> zero-crossing sums and differences
        sign = rng.choice([1, -1])
        b = {"coin": str(sign * int(a["coin"])),
             "ma": [[p, [[n, str(sign * int(q))] for n, q in x if rng.random() < 0.7]] for p, x in a["ma"] if rng.random() < 0.8]}
        b["ma"] = [[p, x] for p, x in b["ma"] if x or rng.random() < 0.2]
    elif r < 0.4:
        b = {"coin": a["coin"], "ma": V.content_to_ma_json(V.content_ma(a["ma"]), rng)}  # same content, other order
    else:
        b = V.gen_value_json(rng, npol=3, nname=4, zeros=rng.random() < 0.3, empties=rng.random() < 0.2)
    return a, b


def set_entry(j, p, n, q):
    """`j[p][n] = q` on the JSON image (the policy is created when absent)"""
    for pp, x in j["ma"]:
        if pp == p:
            x.append([n, str(q)])
            return
    j["ma"].append([p, [[n, str(q)]]])


EQ_KINDS = ["same-order", "zero-left", "zero-right", "empty-left", "empty-right", "zeros-both", "one-off", "one-off-hidden",
            "coin-off", "missing-vs-nonzero"]


def eq_pair(rng):
    """operand pairs for `==` with equal content up to ONE injected feature: the same content in another insertion order,
    a zero quantity / an empty policy stored on one side only (still equal), on both sides under different keys (still
    equal), one quantity off by one, a non-zero entry on one side only, the coin off (unequal)"""
    a = V.gen_value_json(rng, npol=3, nname=4, zeros=rng.random() < 0.3, empties=rng.random() < 0.2)
    b = {"coin": a["coin"], "ma": V.content_to_ma_json(V.content_ma(a["ma"]), rng)}
    kind = rng.choice(EQ_KINDS)
    used = stored_keys(a) | stored_keys(b)
    free = [(p.hex(), n.hex()) for p in V.POLICIES[:5] for n in V.NAMES[:6] if (p.hex(), n.hex()) not in used]
    rng.shuffle(free)
    absent = [p.hex() for p in V.POLICIES if p.hex() not in {q for q, _ in a["ma"]} | {q for q, _ in b["ma"]}]
    if kind in ("zero-left", "zeros-both"):
        set_entry(a, *free.pop(), 0)
    if kind in ("zero-right", "zeros-both"):
        set_entry(b, *free.pop(), 0)
    if kind == "empty-left" and absent:
        a["ma"].append([rng.choice(absent), []])
    if kind == "empty-right" and absent:
        b["ma"].append([rng.choice(absent), []])
    if kind in ("one-off", "one-off-hidden"):
        cells = [(i, k) for i, (_, x) in enumerate(b["ma"]) for k in range(len(x))]
        if cells:
            i, k = rng.choice(cells)
            b["ma"][i][1][k][1] = str(int(b["ma"][i][1][k][1]) + rng.choice([1, -1]))
        else:
            set_entry(b, *free.pop(), rng.choice([1, -1]))
        if kind == "one-off-hidden":                     # same number of stored entries on both sides
            set_entry(a, *free.pop(), 0)
    if kind == "missing-vs-nonzero":
        set_entry(rng.choice([a, b]), *free.pop(), rng.choice([1, -3, 2**64]))
    if kind == "coin-off":
        b["coin"] = str(int(b["coin"]) + rng.choice([1, -1]))
    if rng.random() < 0.5:
        a, b = b, a
    return a, b, kind


LE_KINDS = ["plain", "greater", "left-neg", "left-zero", "right-neg", "left-neg", "left-zero", "right-neg",
            "left-empty-policy", "two"]


def le_pair(rng):
    """operand pairs for `<=` / `<` that are component-wise ordered (a <= b) up to ONE injected feature, so that the
    feature decides the answer: a negative / zero quantity stored on the left under a key (name or whole policy) the
    right lacks (answer stays True), a negative quantity stored on the right under a key the left lacks (False), an
    empty policy on the left the right lacks (True), one component pushed above (False)"""
    a = V.gen_value_json(rng, npol=3, nname=4, zeros=rng.random() < 0.3, empties=rng.random() < 0.2)
    bump = lambda: rng.choice([0, 0, 0, 1, 7, 2**63])
    b = {"coin": str(int(a["coin"]) + bump()),
         "ma": [[p, [[n, str(int(q) + bump())] for n, q in x]] for p, x in a["ma"]]}
    for p, x in V.gen_ma_json(rng, npol=4, nname=5, negatives=False, maxp=2, maxn=2):
        for n, q in x:
            if (p, n) not in stored_keys(b):
                set_entry(b, p, n, q)
    if rng.random() < 0.5:
        rng.shuffle(b["ma"])
    kind = rng.choice(LE_KINDS)
    used = stored_keys(a) | stored_keys(b)
    free = [(p.hex(), n.hex()) for p in V.POLICIES[:5] for n in V.NAMES[:6] if (p.hex(), n.hex()) not in used]
    rng.shuffle(free)
    neg = lambda: -(rng.choice(V.QTYS) if rng.random() < 0.3 else rng.randint(1, 40))
    if kind in ("left-neg", "two"):
        set_entry(a, *free.pop(), neg())
    if kind in ("left-zero", "two"):
        set_entry(a, *free.pop(), 0)
    if kind == "right-neg":
        set_entry(b, *free.pop(), neg())
    if kind == "left-empty-policy":
        absent = [p.hex() for p in V.POLICIES if p.hex() not in {q for q, _ in a["ma"]} | {q for q, _ in b["ma"]}]
        if absent:
            a["ma"].append([rng.choice(absent), []])
    if kind == "greater":
        cells = [(i, k) for i, (_, x) in enumerate(b["ma"]) for k in range(len(x))]
        if cells and rng.random() < 0.8:
            i, k = rng.choice(cells)
            p, (n, q) = b["ma"][i][0], b["ma"][i][1][k]
            if (p, n) in stored_keys(a):
                for pp, x in a["ma"]:
                    if pp == p:
                        x[:] = [[nn, str(int(q) + 1) if nn == n else qq] for nn, qq in x]
            else:
                set_entry(a, p, n, int(q) + 1)
        else:
            a["coin"] = str(int(b["coin"]) + 1)
    return a, b, kind


def dispatch(ctx, case):
    k = case["kind"]
    if k == "binop":
        check_binop(ctx, case)
    elif k == "laws":
        check_laws(ctx, case)
    elif k == "history":
        run_history(ctx, case)


def corpus():
    p, n = V.POLICIES[0].hex(), V.NAMES[2].hex()
    neg = {"coin": "0", "ma": [[p, [[n, "-5"]]]]}
    zq = {"coin": "0", "ma": [[p, [[n, "0"]]]]}
    zero = {"coin": "0", "ma": []}
    return [
        # the witnesses of the repaired KF-C05-le-negative: True, False, True (key-directed: False, True, False)
        {"kind": "binop", "op": "le", "a": neg, "b": zero},
        {"kind": "binop", "op": "le", "a": zero, "b": neg},
        {"kind": "binop", "op": "le", "a": zq, "b": zero},
        {"kind": "binop", "op": "lt", "a": neg, "b": zero},
        {"kind": "binop", "op": "lt", "a": zero, "b": neg},
        {"kind": "binop", "op": "le", "a": {"coin": "0", "ma": [[p, []]]}, "b": zero},
        {"kind": "binop", "op": "add", "a": {"coin": "5", "ma": [[p, [[n, "7"]]]]}, "b": {"coin": "1", "ma": [[p, [[n, "-7"]]]]}},
        # `==` by content (before the repair of `==`: False, False, False): a stored zero, an empty policy, on either side
        {"kind": "binop", "op": "eq", "a": zq, "b": zero},
        {"kind": "binop", "op": "eq", "a": zero, "b": zq},
        {"kind": "binop", "op": "eq", "a": {"coin": "0", "ma": [[p, []]]}, "b": zero},
        {"kind": "binop", "op": "eq", "a": neg, "b": zero},
        {"kind": "binop", "op": "lt", "a": zq, "b": zero},
    ]


def run(ctx):
    ctx.rule = ("operand pairs/triples over 3 policies x 4 names (name lengths 0..32) with negatives, stored zeros, "
                "empty policies, magnitudes beyond 2^64, pairs derived from one another to force overlap and "
                "zero-crossing; `<=` / `<` additionally on pairs ordered component-wise up to one injected feature "
                "(negative / zero quantity stored on the left under a name or policy the right lacks, negative quantity "
                "stored on the right under a key the left lacks, empty policy, one component above), `==` on pairs with "
                "equal content up to one injected feature (other insertion order, a zero quantity / an empty policy stored on "
                "one side or on both under different keys, one quantity or the coin off by one, a non-zero entry on one side "
                "only); `==`, `<=`, `<` judged component-wise on EVERY pair; random histories of 10 operations over 4 shared variables with every variable "
                "compared after every step; a case is non-trivial if it is a distinct (op, operands) / history")
    ctx.assumptions = ["aliasing freedom of the implementation is established by the differential run only "
                       "(the Lean model has no sharing)", "Python int = Lean Int (unbounded)"]
    for c in corpus():
        dispatch(ctx, c)
    n_pairs = ctx.budget(2500, 120000)
    n_hist = ctx.budget(600, 30000)
    rng = ctx.rng
    for _ in range(n_pairs):
        a, b = derived_pair(rng)
        op = rng.choice(["add", "sub", "union", "eq", "le", "lt", "add", "sub"])
        dispatch(ctx, {"kind": "binop", "op": op, "a": a, "b": b})
    for _ in range(ctx.budget(1500, 60000)):
        a, b, kind = le_pair(rng)
        if rng.random() < 0.1:
            a, b = b, a
            kind += ":swapped"
        ctx.count("le-gen:" + kind)
        dispatch(ctx, {"kind": "binop", "op": rng.choice(["le", "le", "lt"]), "a": a, "b": b})
    for _ in range(ctx.budget(1500, 60000)):
        a, b, kind = eq_pair(rng)
        ctx.count("eq-gen:" + kind)
        dispatch(ctx, {"kind": "binop", "op": rng.choice(["eq", "eq", "eq", "lt", "le"]), "a": a, "b": b})
    for _ in range(n_pairs // 10):
        a, b = derived_pair(rng)
        c = V.gen_value_json(rng, npol=3, nname=4)
        dispatch(ctx, {"kind": "laws", "a": a, "b": b, "c": c})
    for _ in range(n_hist):
        dispatch(ctx, gen_history(rng))
        if ctx.violations:
            break


def replay(ctx, data):
    dispatch(ctx, data["input"]) if "input" in data else None
    for d in data.get("correspondence", []):
        dispatch(ctx, d["input"])
