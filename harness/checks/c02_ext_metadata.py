"""C02 (extension `metadata`) — the bytes `AuxiliaryData.to_cbor()` writes against the ledger CDDL.

Oracle independent of pycardano AND of the model: the reference encoder harness/ref/conway.py (`t_aux`, written from
conway.cddl over the RFC 8949 codec ref/cbor_ref.py).  For every generated object inside the CDDL ranges the implementation's
bytes must be the reference bytes; the model's bytes (`md.enc`) and its transliterated CDDL recogniser
(`Spec/Metadata.lean`, op `md.conforms`) are compared in the same pass, the recogniser also on the damaged stream against the
reference DECODER.  Objects the constructors accept outside the CDDL (booleans, bignums, over-long nested keys, negative /
bignum labels: theorem constructed_conforms_counterexample) are counted, compared with the model's verdict, and not judged;
a Shelley-MA form built without a script list is inside the CDDL (`[metadata, []]`) and judged."""
from __future__ import annotations

import random

from ref import cbor_ref as R
from ref import conway as C

from checks import c01_ext_metadata as X

EXT = "metadata"


def ref_md(n):
    k = n[0]
    if k == "i":
        return ["int", n[1]]
    if k == "b":
        return ["bytes", n[1]]
    if k == "s":
        return ["text", n[1]]
    if k == "l":
        return ["list", [ref_md(x) for x in n[1]]]
    if k == "m":
        return ["map", [[ref_md(a), ref_md(b)] for a, b in n[1]]]
    raise C.SpecError("not a metadatum")


def ref_aux(a):
    md = None if a["md"] is None else [[l, ref_md(n)] for l, n in a["md"]]
    if a["k"] == "shelley":
        return {"k": "shelley", "metadata": md}
    if a["k"] == "shelley_ma":
        # no script list given: the content is the empty list (the constructor's normalisation; the CDDL has no other way to say it)
        return {"k": "shelley_ma", "metadata": md, "native": a["native"] or []}
    return {"k": "alonzo", "metadata": md, "native": a["native"], "v1": a["v1"], "v2": a["v2"], "v3": a["v3"]}


def in_cddl(a):
    md_ok = a["md"] is None or all(0 <= l < 2**64 and X.spec_ok(n) for l, n in a["md"])
    return md_ok


def check_conf(ctx, case):
    rng = random.Random(case["seed"])
    a = X.gen_aux(rng, case["era"], case["mask"], case["mode"], ctx)
    try:
        x = X.lib_aux(a)
        b = x.to_cbor()
    except Exception as e:
        # a refusal of generated content is judged by C01 (c01_ext_metadata.check_aux); here there are no bytes to look at
        ctx.count("md-conf:refused:" + type(e).__name__)
        ctx.skipped += 1
        return
    desc = {**case, "hex": b.hex() if len(b) < 600 else b[:300].hex() + "..."}
    inside = in_cddl(a)
    ctx.count(f"md-conf:{a['k']}:" + ("in_cddl" if inside else "outside_cddl"))
    exp = None
    if inside:
        try:
            exp = R.enc(C.t_aux(ref_aux(a), C.WireChoices()))
        except C.SpecError as e:
            ctx.diff("md.ref(in_cddl)", desc, "inside the CDDL by the harness's predicate", f"reference refuses: {e}")
        if exp is not None and exp != b:
            ctx.violation("AuxiliaryData.to_cbor() differs from the reference encoding of the same content", desc, exp.hex(), b.hex())
        # the reference DECODER (written from the CDDL) reads the implementation's bytes, and writes them back unchanged
        try:
            back = R.enc(C.t_aux(C.Lifter().aux(R.dec(b)), C.WireChoices()))
        except (C.SpecError, C.NotExpressible) as e:
            back = None
            ctx.violation(f"the reference decoder refuses AuxiliaryData.to_cbor() of content inside the CDDL ({str(e)[:100]})", desc,
                          "auxiliary_data", "refused")
        if back is not None and back != b:
            ctx.violation("reference decode / encode of AuxiliaryData.to_cbor() gives other bytes", desc, b.hex(), back.hex())
    else:
        ctx.skipped += 1
    if ctx.have_driver():
        d = ctx.driver()
        nat = None if a["native"] is None else [X.dumps(X.lib_native(s)).hex() for s in a["native"]]
        m = d.ok({"op": "md.enc", "aux": X.aux_json(a, nat)})          # constructor arguments; the driver applies `normAux`
        ctx.traces += 1
        if m["hex"] != b.hex():
            ctx.diff("md.enc", desc, m["hex"], b.hex())
        if exp is not None and m["hex"] != exp.hex():
            ctx.diff("md.enc vs reference", desc, m["hex"], exp.hex())
        if m["specok"] != inside:
            ctx.diff("md.enc.specok", desc, m["specok"], inside)
        if m["conforms"] != inside:
            # the transliterated CDDL accepts exactly what the harness's own reading of the CDDL accepts
            ctx.diff("md.conforms(own encoding)", desc, m["conforms"], inside)
    ctx.case(case)


def check_conf_mal(ctx, case):
    kind = case["damage"]
    mb = R.enc(X.damage(kind))
    desc = {**case, "hex": mb.hex()}
    if ctx.have_driver():
        m = ctx.driver().ok({"op": "md.conforms", "hex": mb.hex()})
        ctx.traces += 1
        ctx.count(f"md-conf-mal:{kind}:{'conforms' if m is True else 'refused'}")
        exp = EXPECT.get(kind)
        if exp is not None and m != exp:
            ctx.diff("md.conforms(malformed)", desc, m, exp)
    ctx.case(case, nontrivial=False)


# the harness's own reading of the CDDL on the damaged stream (kinds not listed: not judged — they hinge on how a native script
# or an indefinite / chunked wire form is read)
EXPECT = {
    "good-shelley": True, "good-shelley-empty": True, "good-shelley-ma": True, "good-shelley-ma-empty": True,
    "good-alonzo-all": True, "good-alonzo-empty": True, "alonzo-order-reversed": True, "md-unsorted": True,
    "md-text65": False, "md-bytes65": False, "md-multibyte66": False, "md-null-value": False, "md-bool-value": False,
    "md-tag-value": False, "md-bignum": False, "md-text-label": False, "md-bytes-label": False, "md-null-label": False,
    "md-list-label": False, "md-neg-label": False, "md-bignum-label": False, "md-second-label-text": False,
    "md-nested-key-kinds": True,
    "top-int": False, "top-text": False, "top-bytes": False, "top-null": False, "top-true": False, "top-empty-list": False,
    "top-tag24": False, "top-tag258": False, "top-tag1000": False,
    "sma-1": False, "sma-3": False, "sma-null-scripts": False, "sma-int-scripts": False, "sma-map-scripts": False,
    "sma-bytes-scripts": False, "sma-text-scripts": False, "sma-md-int": False, "sma-md-list": False, "sma-md-null": False,
    "sma-md-text-label": False, "sma-script-int": False, "sma-script-unknown-type": False, "sma-script-empty": False,
    "alz-key5": False, "alz-key-text": False, "alz-key-neg": False, "alz-md-null": False, "alz-md-int": False,
    "alz-md-list": False, "alz-md-text-label": False, "alz-native-null": False, "alz-native-int": False,
    "alz-native-map": False, "alz-native-bytes": False, "alz-native-elem-int": False, "alz-native-unknown-type": False,
    "alz-v1-null": False, "alz-v1-int": False, "alz-v1-elem-int": False, "alz-v1-elem-text": False, "alz-v1-map": False,
    "alz-v2-bytes": False, "alz-v3-text": False, "alz-v2v3-swapped-content": True, "alz-inner-list": False,
    "alz-inner-int": False, "alz-inner-null": False, "alz-inner-pair": False, "alz-crash-before-deser": False,
    "alz-deser-before-crash": False, "alz-tag258": False, "alz-tag-nested": False,
}


def dispatch(ctx, case):
    if case["kind"] == "md-conf":
        check_conf(ctx, case)
    elif case["kind"] == "md-conf-mal":
        check_conf_mal(ctx, case)
    else:
        raise ValueError(case["kind"])


def run_ext(ctx):
    ctx.assumptions.append("metadata / auxiliary data: judged against harness/ref/conway.py (t_aux) inside the CDDL ranges only; "
                           "what the constructors accept beyond them (booleans, bignums, over-long nested keys, non-uint labels) "
                           "is the content of theorem "
                           "constructed_conforms_counterexample and is compared with the model's verdict only")
    n = ctx.budget(720, 15000)
    j = 0
    for i in range(n):
        era = X.ERAS[i % 3]
        mask = 2
        if era == "alonzo":
            mask = j % 32
            j += 1
        elif era == "shelley_ma" and i % 40 == 1:
            mask = 0
        mode = "spec" if i % 4 else "lib"
        dispatch(ctx, {"ext": EXT, "kind": "md-conf", "seed": f"{ctx.seed}/mdc{i}", "era": era, "mask": mask, "mode": mode})
    for kind in X.DAMAGE:
        dispatch(ctx, {"ext": EXT, "kind": "md-conf-mal", "damage": kind})


def replay_ext(ctx, case):
    dispatch(ctx, {k: v for k, v in case.items() if k in ("kind", "seed", "era", "mask", "mode", "damage", "ext")})
