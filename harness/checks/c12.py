"""C12 — the script integrity hash matches the witnesses actually shipped.

Direct evaluation: for every built scenario (vlib/plutus_scen.py: the C11 scenarios crossed with redeemer map/list,
units supplied / evaluated with buffers, datums of every Plutus data shape, cost-model tables present / missing /
with unsorted names and negative or > 64-bit values) the hash is recomputed with hashlib.blake2b over the BYTE SLICES
of the redeemers (witness key 5) and datums (key 4) as shipped in `tx.to_cbor()`, followed by the language views
encoded by the independent reference (ref/langviews_ref.py) for the languages of the scripts the transaction needs,
and compared with body key 11; the hash must be absent iff there are neither redeemers nor datums.
Correspondence: Lean model (`rd.build` preimage / witness bytes, `sdh.preimage`, `views`) vs implementation."""
from __future__ import annotations

import copy
import hashlib

import cbor2

from pycardano.plutus import CostModels
from pycardano.serialization import default_encoder

from ref import langviews_ref as LV
from vlib import plutus_scen as P
from vlib import scenario as S


def used_languages(sc, run, tv):
    """language ids (0 = PlutusV1 …) of the Plutus scripts the transaction needs, read from where the script is supplied:
    the witness-set key it sits under or the script_ref of the reference / spent UTxO carrying it"""
    cx = run.context
    by_ref = {(bytes(u.input.transaction_id.payload).hex(), int(u.input.index)): uid for uid, u in cx.utxo_objs.items()}
    carried = {}
    for ref in list(tv.body.reference_inputs) + list(tv.body.inputs):
        uid = by_ref.get(ref)
        if uid is not None:
            s = P.utxo_script(cx, uid)
            if s is not None:
                carried[s[1]] = s[0]
    langs = set()
    for a in sc["x"]["attach"]:
        h = P.spec_hash(a["script"])
        if h in tv.wit_scripts:
            lang = tv.wit_scripts[h][0]
        elif h in carried:
            lang = carried[h]
        else:
            continue            # not supplied at all: C11's business
        if lang >= 1:
            langs.add(lang - 1)
    return langs


def judge(ctx, sc, run):
    tv = P.TxView(run.tx.to_cbor())
    got = tv.body.script_data_hash
    x = sc["x"]
    has_r, has_d = tv.red_bytes is not None, tv.datum_bytes is not None
    ctx.count("witness:" + ("redeemers" if has_r else "no-redeemers") + "+" + ("datums" if has_d else "no-datums"))
    if not has_r and not has_d:
        if got is not None:
            ctx.violation("script data hash present although the witness set has neither redeemers nor datums", sc, None, got.hex())
        return tv
    if got is None:
        ctx.violation("script data hash absent although the witness set has redeemers or datums", sc, "a hash", None)
        return tv
    langs = used_languages(sc, run, tv) if has_r else set()
    tables = P.cost_tables(run.context)
    views = LV.language_views(langs, tables)
    exp = LV.script_data_hash(tv.red_bytes, tv.datum_bytes, views)
    ctx.count("langs:" + ",".join(str(l) for l in sorted(langs)))
    ctx.count("redeemers:" + str(tv.red_form))
    if has_d:
        ctx.count("datums:%d" % min(len(tv.datum_hashes), 4))
    if got != exp:
        ctx.violation("script data hash differs from BLAKE2b-256(redeemer bytes ‖ datum bytes ‖ canonical language views) "
                      "recomputed from the shipped witness-set bytes", sc,
                      {"hash": exp.hex(), "redeemers": (tv.red_bytes or b"\xa0").hex(), "datums": (tv.datum_bytes or b"").hex(),
                       "views": views.hex()}, got.hex())
    # units in the shipped redeemers are the final ones (evaluated + buffered when estimating)
    if x["estimate"] and has_r:
        for key, lst in tv.redeemers.items():
            for data, mem, steps in lst:
                if (mem, steps) == (0, 0) and sc.get("eval_units", [1, 1])[1] > 0:
                    ctx.violation("shipped redeemer still carries the placeholder execution units (0, 0) after evaluation",
                                  sc, "evaluated units", [key, mem, steps])
    return tv


def correspond(ctx, sc, run, tv):
    if not ctx.have_driver():
        return
    b = run.builder
    req = P.model_request(sc, run)
    m = ctx.driver().ok(req)
    ctx.traces += 1
    if "error" in m:
        ctx.diff("rd.build", sc, m, "implementation built the transaction")
        return
    got = tv.body.script_data_hash
    model = {"wit_redeemer": m["wit_redeemer"], "wit_datums": m["wit_datums"],
             "sdh": None if m["sdh"] is None else hashlib.blake2b(bytes.fromhex(m["sdh"]), digest_size=32).hexdigest()}
    impl = {"wit_redeemer": None if tv.red_bytes is None else tv.red_bytes.hex(),
            "wit_datums": None if tv.datum_bytes is None else tv.datum_bytes.hex(),
            "sdh": None if got is None else got.hex()}
    if model != impl:
        ctx.diff("rd.build:sdh", sc, model, impl)
    # `sdh.preimage` from the final redeemer objects, datum dict and script versions of the builder
    versions = []
    for s in b.all_scripts:
        v = getattr(s, "version", None) if not type(s) is bytes else 1
        if isinstance(v, int):
            versions.append(str(v))
    tabs = P.cost_tables(run.context)
    rq = {"op": "sdh.preimage", "use_map": not sc["x"]["use_list"],
          "redeemers": [[str(r.tag.value), str(r.index), P.data_cbor(r.data).hex(), str(r.ex_units.mem), str(r.ex_units.steps)]
                        for r in b._redeemer_list],
          "datums": [P.data_cbor(d).hex() for d in b.datums.values()], "versions": versions,
          "cost_models": [[str(l), [[n.encode().hex(), str(v)] for n, v in t.items()]] for l, t in tabs.items()],
          "dflt": req["dflt"]}
    pre = ctx.driver().ok(rq)
    ctx.traces += 1
    mh = None if pre is None else hashlib.blake2b(bytes.fromhex(pre), digest_size=32).hexdigest()
    if mh != impl["sdh"]:
        ctx.diff("sdh.preimage", sc, mh, impl["sdh"])


def evaluate(ctx, sc):
    run = S.run(copy.deepcopy(sc))
    x = sc["x"]
    if run.error is not None:
        ctx.count("refused:" + run.error + "@" + str(run.error_stage))
        ctx.skipped += 1
        ctx.case(sc, nontrivial=False)
        return
    tv = judge(ctx, sc, run)
    correspond(ctx, sc, run, tv)
    ctx.count("units:" + ("evaluated" if x["estimate"] else "supplied"))
    ctx.count("cost-models:" + x["cm_mode"])
    ctx.count("versions:" + "".join(str(v) for v in sorted(set(x["versions"]))))
    ctx.case(sc, nontrivial=tv.red_bytes is not None or tv.datum_bytes is not None)


def check_views(ctx, rng):
    """`views` op / reference encoder / CostModels.to_shallow_primitive on random language sets and tables"""
    langs = rng.sample([0, 1, 2], rng.randint(0, 3))
    tables = {}
    for l in langs:
        n = rng.randint(0, 12)
        names = ["%s%d" % (rng.choice(["a", "B", "cek-", "z", "é", "add_"]), i) for i in range(n)]
        rng.shuffle(names)
        tables[l] = {nm: rng.choice([0, 1, 23, 24, 255, 65535, 65536, -1, -24, -25, 2**32, 2**63, 2**64, -(2**64) - 1, 4])
                     for nm in names}
    case = {"kind": "views", "langs": langs, "tables": {str(l): [[k, str(v)] for k, v in t.items()] for l, t in tables.items()}}
    impl = cbor2.dumps(CostModels({l: dict(tables[l]) for l in langs}), default=default_encoder)
    ref = LV.language_views(langs, tables)
    ctx.count("views:langs=" + ",".join(str(l) for l in sorted(langs)))
    if impl != ref:
        ctx.violation("CostModels encodes to something other than the canonical language views", case, ref.hex(), impl.hex())
    if ctx.have_driver():
        m = ctx.driver().ok({"op": "views", "langs": [str(l) for l in langs],
                             "cost_models": [[str(l), [[n.encode().hex(), str(v)] for n, v in tables[l].items()]] for l in langs]})
        ctx.traces += 1
        if m != impl.hex():
            ctx.diff("views", case, m, impl.hex())
    ctx.case(case, nontrivial=len(langs) > 0)


def corpus():
    import random
    out = []
    forces = [
        # PlutusV1 together with V2 / V3 (the repaired defect FX KF-C12-views-order: a regression is a plain violation)
        {"n_si": 2, "n_key": 1, "n_mint": 2, "n_wd": 0, "n_cert": 0, "versions": [1, 2], "cm_mode": "default"},
        {"n_si": 3, "n_key": 0, "n_mint": 2, "n_wd": 1, "n_cert": 1, "versions": [1, 2, 3], "cm_mode": "tables", "estimate": True},
        # evaluated units, list form, several datums
        {"n_si": 4, "n_key": 1, "n_mint": 1, "n_wd": 0, "n_cert": 0, "versions": [2], "estimate": True, "use_list": True},
        {"n_si": 3, "n_key": 1, "n_mint": 2, "n_wd": 2, "n_cert": 2, "versions": [2, 3], "estimate": True, "use_list": False},
        {"n_si": 3, "n_key": 1, "n_mint": 0, "n_wd": 0, "n_cert": 0, "versions": [3], "estimate": False, "use_list": True},
        # datum only / nothing at all
        {"n_si": 0, "n_key": 1, "n_mint": 0, "n_wd": 0, "n_cert": 0, "out_datum": True},
        {"n_si": 0, "n_key": 2, "n_mint": 0, "n_wd": 0, "n_cert": 0, "out_datum": False},
        {"n_si": 2, "n_key": 1, "n_mint": 1, "n_wd": 1, "n_cert": 1, "versions": [1], "cm_mode": "missing"},
    ]
    out.append(V1_WITH_V2)
    for i, f in enumerate(forces):
        for j in range(2):
            out.append(P.gen(random.Random(f"c12-corpus/{i}/{j}"), force=f))
    out.append(NATIVE_REF_ONLY)
    return out


# regression witness of the repaired KF-C12-views-order: a PlutusV1 script input and a PlutusV2 minting policy in one
# transaction (the views must come out as {01: …, 4100: …})
V1_WITH_V2 = {
    "slot": 5000,
    "utxos": [{"id": "s0", "txid": "5c" + "11" * 31, "ix": 0, "addr": ["script", "p1:a"], "coin": 5000000},
              {"id": "w0", "txid": "ff" + "33" * 31, "ix": 0, "addr": "k0", "coin": 60000000}],
    "address_utxos": {"k0": ["w0"]},
    "ops": [{"op": "x_script_input", "u": "s0", "script": "p1:a", "script_in": "witness", "datum": 42, "datum_mode": "hash",
             "redeemer": {"data": 7000001, "units": [1000, 2000]}},
            {"op": "x_minting_script", "script": "p2:m", "redeemer": {"data": 7000002, "units": [1000, 2000]}},
            {"op": "mint", "assets": [["p2:m", "61", 1]]},
            {"op": "add_input", "u": "w0"}, {"op": "add_output", "addr": "k1", "coin": 3000000}],
    "build": {"change": "k0", "selectors": [["largest"]], "pyseed": 1}, "sign": ["k0"],
    "x": {"attach": [{"kind": "spend", "u": "s0", "script": "p1:a", "raw": False, "loc": "witness", "native": False,
                      "datum_mode": "hash", "marker": 7000001},
                     {"kind": "mint", "script": "p2:m", "raw": False, "loc": "witness", "native": False, "marker": 7000002}],
          "estimate": False, "use_list": False, "versions": [1, 2], "cm_mode": "default", "mixed_wd": False},
}


# a native script input whose script sits on a reference UTxO: scripts are involved, but there are neither redeemers
# nor datums — the hash must be absent
NATIVE_REF_ONLY = {
    "slot": 5000,
    "utxos": [
        {"id": "s0", "txid": "5c" + "11" * 31, "ix": 0, "addr": ["script", ["pk", "k0"]], "coin": 6000000},
        {"id": "r0", "txid": "0a" + "22" * 31, "ix": 1, "addr": "k2", "coin": 2500000, "script": ["pk", "k0"]},
        {"id": "w0", "txid": "ff" + "33" * 31, "ix": 0, "addr": "k0", "coin": 60000000},
    ],
    "address_utxos": {"k0": ["w0"]},
    "ops": [{"op": "x_script_input", "u": "s0", "script": ["pk", "k0"], "script_in": "ref", "ref_utxo": "r0"},
            {"op": "add_input", "u": "w0"}, {"op": "add_output", "addr": "k1", "coin": 3000000}],
    "build": {"change": "k0", "selectors": [["largest"]], "pyseed": 1}, "sign": ["k0"],
    "x": {"attach": [{"kind": "spend", "u": "s0", "script": ["pk", "k0"], "raw": False, "loc": "ref", "native": True}],
          "estimate": False, "use_list": False, "versions": [2], "cm_mode": "default", "mixed_wd": False},
}


def run(ctx):
    ctx.rule = ("the Plutus builder scenarios of C11 (script inputs in 4 script locations x datum by hash / inline / none, "
                "policies, script withdrawals, certificate scripts, V1/V2/V3 mixes, key inputs and coin selection, shuffled "
                "calls) crossed with redeemer map / list form, execution units supplied vs evaluated (with 0..150 % buffers), "
                "datums and redeemer data of every Plutus data shape (ints beyond 64 bits, byte strings of 0/64/65/140 "
                "bytes, constructors 0..50 and tag 102, definite and indefinite lists, maps, typed PlutusData, RawCBOR), "
                "cost-model tables default / missing / unsorted names with negative and > 64-bit values, datum-only and "
                "script-only transactions; plus language-view encodings of random language sets; non-trivial = the witness "
                "set has redeemers or datums")
    ctx.assumptions = [
        "the languages entering the hash are those of the Plutus scripts the transaction needs (all attached scripts are needed)",
        "a missing cost model is treated as an empty table (the ledger would refuse to run that language at all)",
        "Conway form: absent redeemers stand for the empty map a0, with no redeemers the language views are a0"]
    ctx.extra["trusted"] = ["BLAKE2b-256 (hashlib)", "ref/langviews_ref.py transcribes the CDDL comment on script_data_hash and "
                            "encodeLangViews (shortLex key order)"]
    for sc in corpus():
        evaluate(ctx, sc)
    for _ in range(ctx.budget(210, 3000)):
        evaluate(ctx, P.gen(ctx.rng))
    for _ in range(ctx.budget(400, 20000)):
        check_views(ctx, ctx.rng)


def replay(ctx, data):
    items = ([data["input"]] if "input" in data else []) + [d.get("input") for d in data.get("correspondence", [])]
    for c in items:
        if isinstance(c, dict) and "ops" in c:
            evaluate(ctx, c)
        elif isinstance(c, dict) and c.get("kind") == "views":
            langs = c["langs"]
            tables = {int(l): {k: int(v) for k, v in t} for l, t in c["tables"].items()}
            impl = cbor2.dumps(CostModels({l: dict(tables[l]) for l in langs}), default=default_encoder)
            ref = LV.language_views(langs, tables)
            if impl != ref:
                ctx.violation("CostModels encodes to something other than the canonical language views", c, ref.hex(),
                              impl.hex())
            ctx.case(c)
