"""C08 extension `packfit` — the change outputs fit `max_val_size`.

Theorems: lean/Pyc/Props/C08_PackFit.lean (model: the packing / change functions of Model/Builder.lean, measures of
Model/PackFit.lean).  This module ties them to /repo and evaluates the clause on the implementation:

A. `pack`   `TransactionBuilder._pack_tokens_for_change(addr, value, max_val_size)` called directly.
            Judged WITHOUT the model (independent encoder `ref/cbor_ref`, cross-checked with `cbor2.dumps` of a plain structure;
            independent min-UTxO formula `ref/ledger_ref`):
              * every chunk fits with the coin it has to be measured with: the larger of the change coin and the minimum ADA
                of the chunk in an output holding the change coin                              [pack_fit]
              * nothing lost / duplicated                                                      [pack_preserves_of_fit]
            both whenever no single asset alone exceeds the limit (decided independently); when one does, every chunk that is
            over the limit must be one asset on its own                                        [oversized_chunk_is_single]
            Against the model (`pfit.pack`): chunks, `noSingleOver`, the measured sizes, chunk bound, non-emptiness.
B. `probe`  `_adding_asset_make_output_overflow` against `pfit.probe` and against the independent measure    [probe_measures]
C. `change` `_calc_change` directly, change coins on every CBOR width boundary, and
D. `build`  whole `build()` runs: every change output that carries tokens is measured independently with the coin it finally
            carries; one over `max_val_size` is a VIOLATION [change_fit / final_changes_fit] — except when a single asset alone
            exceeds the limit (outside the hypothesis; counted), or `_calc_change` was called directly WITHOUT the minimum-ADA
            requirement and returned several outputs (a result `_add_change_and_fee` never keeps; counted).
E. `witness` the Lean witness of `pack_preserves_counterexample` replayed on the implementation: it must reproduce (a witness
            that no longer reproduces makes the theorem stale: ctx.diff).  The inputs on which the clause FAILED before the repair
            8c81354 (a last change output of 2^32 lovelace or more) are regular corpus cases of C and D now.
"""
from __future__ import annotations

import random

import cbor2
from pycardano import (Address, AssetName, ScriptHash, TransactionBuilder, TransactionInput, TransactionOutput, UTxO)
from pycardano.hash import TransactionId

from ref import cbor_ref as R
from ref import ledger_ref as L
from vlib import scenario as S
from vlib import values as V

EXT = "packfit"
COINS = [0, 1, 23, 24, 255, 256, 65535, 65536, 1_000_000, 1_500_000, 2_000_000, 50_000_000, 2**32 - 1, 2**32, 2**32 + 1,
         5 * 10**9, 45 * 10**15, 2**63, 2**64 - 1, 2**64, 2**64 + 12345]
QTYS = [1, 2, 23, 24, 255, 256, 1000, 65535, 65536, 2**31, 2**32 - 1, 2**32, 2**62, 2**63 - 1, 2**64 - 1]
CPBS = [4310, 4310, 4310, 1000, 34482, 1, 0, 400, 2**36]


# ---- independent measures --------------------------------------------------------------------------------------------------
def vlen(coin, content):
    """len(cbor(Value(coin, content))) by the harness's own encoder, cross-checked with cbor2 on a plain structure"""
    n = len(L.value_bytes({"coin": coin, "assets": content}))
    pol = {}
    for (p, a), q in content.items():
        pol.setdefault(bytes.fromhex(p), {})[bytes.fromhex(a)] = q
    n2 = len(cbor2.dumps([coin, pol] if pol else coin))
    if n != n2:
        raise RuntimeError(f"oracle disagreement: ref encoder {n} bytes, cbor2 {n2} bytes")
    return n


def wlen(coin):
    return len(R.enc(coin))


def min_ada(addr_bytes, coin, content, cpb):
    o = {"addr": addr_bytes, "coin": coin if coin != 0 else 1_000_000, "assets": content, "datum_hash": None,
         "inline_datum": None, "script_ref": None}
    return L.min_utxo(o, cpb)


def probe(addr_bytes, c_out, content, cpb):
    """(coin, size) the code has to measure a bundle with while the output under construction holds `c_out`: the larger of
    the minimum ADA of that output and `c_out` itself"""
    c = max(min_ada(addr_bytes, c_out, content, cpb), c_out)
    return c, vlen(c, content)


def singles_over(addr_bytes, change, mvs, cpb):
    """assets (policy, name) that alone exceed the limit, measured like every output: under the change coin"""
    over = []
    c0 = int(change["coin"])
    for p, a in change["ma"]:
        for n, q in a:
            if int(q) == 0:
                continue
            if probe(addr_bytes, c0, {(p, n): int(q)}, cpb)[1] > mvs:
                over.append((p, n))
    return over


def model_params(p):
    return {"cpb": str(p["cpb"]), "max_val_size": str(p["max_val_size"]), "key_deposit": str(p["key_deposit"]),
            "pool_deposit": str(p["pool_deposit"])}


def fmt(content):
    return {f"{k[0][:8]}…{k[0][-2:]}.{k[1]}": v for k, v in content.items()}


# ---- A. packing ------------------------------------------------------------------------------------------------------------
def check_pack(ctx, case):
    p = {**S.DEFAULT_PARAMS, **case["params"]}
    mvs, cpb = int(p["max_val_size"]), int(p["cpb"])
    cx = S.StubContext({"params": case["params"]})
    b = TransactionBuilder(cx)
    addr = S.address("k0")
    ab = bytes(addr.to_primitive())
    val = V.load_value(case["change"])
    c0 = int(case["change"]["coin"])
    arr = b._pack_tokens_for_change(addr, val, mvs)
    got = [V.dump_ma(m) for m in arr]
    conts = [V.content_ma(m) for m in got]
    exp = V.content_ma(case["change"]["ma"])
    over = singles_over(ab, case["change"], mvs, cpb)
    positive = all(int(q) > 0 for _, a in case["change"]["ma"] for _, q in a) and all(a for _, a in case["change"]["ma"])
    total = {}
    for c in conts:
        for k, q in c.items():
            total[k] = total.get(k, 0) + q
    lost = total != exp
    ctx.count("packfit:pack:" + ("single-over" if over else "no-single-over") + (":lost" if lost else ""))
    ctx.count("packfit:pack:how:" + case.get("how", "?"))
    if not over and positive:
        if lost:
            ctx.violation("token packing lost or duplicated assets although no single asset alone exceeds max_val_size", case,
                          fmt(exp), fmt(total))
    elif lost:
        # outside the hypothesis of pack_preserves_of_fit: the `break` drops the oversized asset and every later policy
        # (pack_preserves_counterexample).  Reported in the evidence, not a violation of the clause as stated.
        ctx.skipped += 1
    sizes = []
    for i, c in enumerate(conts):
        pc, n = probe(ab, c0, c, cpb) if c else (None, 0)
        sizes.append(n)
        if c and n > mvs:
            own = vlen(min_ada(ab, 0, c, cpb), c)
            if len(c) == 1 and list(c)[0] in over:
                ctx.count("packfit:pack:oversized-single-emitted-alone")
            elif own > mvs:
                # over the limit even with the smallest coin `_calc_change` can put next to it (its minimum ADA)
                ctx.violation(f"packed chunk {i} of {len(conts)} takes {own} bytes with its own minimum ADA: over max_val_size {mvs}, "
                              f"and it is not a single asset that alone exceeds the limit", case, mvs, own)
            else:
                # fits with its minimum ADA but not next to the whole change coin (which it receives if it ends up last):
                # theorem pack_fit no longer describes the code; the over-limit OUTPUT, if any, is found by C / D
                ctx.diff("pfit.pack:fit-under-change-coin", case, f"<= {mvs} bytes next to coin {pc} (pack_fit)", n)
        if c and not over:
            d = mvs - n
            ctx.count("packfit:pack:slack:" + ("0" if d == 0 else "1" if d == 1 else "2-4" if d <= 4 else "5-40" if d <= 40 else ">40"))
    ctx.count(f"packfit:pack:chunks:{min(len(got), 6)}")
    if ctx.have_driver():
        m = ctx.driver().ok({"op": "pfit.pack", "p": model_params(p), "addr": ab.hex(), "change": case["change"]})
        ctx.traces += 1
        if [V.canon_ma(x) for x in m["arr"]] != [V.canon_ma(x) for x in got]:
            ctx.diff("pfit.pack", case, m["arr"], got)
        else:
            if m["no_single_over"] != (not over):
                ctx.diff("pfit.pack:noSingleOver", case, m["no_single_over"], [list(x) for x in over])
            msz = [int(c["probe_len"]) if V.content_ma(c["ma"]) else 0 for c in m["chunks"]]
            if msz != sizes:
                ctx.diff("pfit.pack:probe_len", case, msz, sizes)
            for i, c in enumerate(m["chunks"]):
                own = vlen(min_ada(ab, 0, conts[i], cpb), conts[i]) if conts[i] else 0
                if conts[i] and int(c["own_len"]) != own:
                    ctx.diff("pfit.pack:own_len", case, c["own_len"], own)
            if len(got) > int(m["pairs"]) + 1:
                ctx.diff("pfit.pack:bound", case, f"at most {int(m['pairs']) + 1} chunks (pack_chunks_bounded)", len(got))
            if m["no_single_over"] and positive and exp and any(not c for c in conts):
                ctx.diff("pfit.pack:nonempty", case, "no empty chunk (pack_nonempty)", got)
            if m["no_single_over"] and positive and m["break"]:
                ctx.diff("pfit.pack:nobreak", case, "break not taken (pack_no_break)", "model took the break")
            if m["break"]:
                ctx.count("packfit:pack:break-taken")
    ctx.case(case)


def gen_names(rng, k):
    out = set()
    while len(out) < k:
        ln = rng.choice([0, 0, 1, 2, 4, 8, 16, 23, 24, 31, 32, 32])
        out.add(bytes(rng.randrange(256) for _ in range(ln)).hex())
    return sorted(out, key=lambda _: rng.random())


def gen_bundle(rng, tag=0xC0):
    """1..60 assets over 1..6 policies, names 0..32 bytes, quantities on CBOR width boundaries"""
    npol = rng.randint(1, 6)
    nassets = max(npol, rng.choice([1, 2, 3, 5, 8, 13, 23, 24, 25, 40, 60]))
    cuts = sorted(rng.sample(range(1, nassets), npol - 1)) if nassets > 1 and npol > 1 else []
    parts = [b - a for a, b in zip([0] + cuts, cuts + [nassets])]
    ma = []
    for i, k in enumerate(parts):
        pol = bytes([tag + i]) * 28
        ma.append([pol.hex(), [[n, str(rng.choice(QTYS) if rng.random() < 0.5 else rng.randint(1, 30))] for n in gen_names(rng, k)]])
    return ma


def aim(rng, ab, ma, c0, cpb, k=None):
    """a max_val_size that puts a closing point within ±4 bytes of the limit: the size (measured as the code must) of a
    prefix of the bundle in packing order, plus a small offset"""
    flat = [(p, n, int(q)) for p, a in ma for n, q in a]
    k = rng.randint(1, len(flat)) if k is None else k
    content = {(p, n): q for p, n, q in flat[:k]}
    n = probe(ab, c0, content, cpb)[1]
    return max(60, min(5000, n + rng.choice([-4, -3, -2, -1, -1, 0, 0, 0, 1, 1, 2, 3, 4])))


def aim_cpb(rng, ab, ma, c0):
    """coins-per-byte chosen so that the minimum ADA of a prefix of the bundle sits on a CBOR width boundary (24, 256, 65536,
    2^32): the coin the probe writes then changes width with the slightest change of what it is computed from"""
    flat = [(p, n, int(q)) for p, a in ma for n, q in a]
    k = rng.randint(1, len(flat))
    content = {(p, n): q for p, n, q in flat[:k]}
    base = min_ada(ab, c0, content, 1)          # 160 + |output|
    B = rng.choice([256, 256, 65536, 65536, 2**32])
    return max(1, B // base + rng.choice([0, 0, 1, -1])), k


def gen_pack(rng):
    cpb = rng.choice(CPBS)
    c0 = rng.choice(COINS)
    ma = gen_bundle(rng)
    r = rng.random()
    params = {"cpb": cpb, "max_val_size": 5000}
    how = "aimed"
    if r < 0.12:
        params["max_val_size"] = rng.choice([60, 64, 72, 80, 100, 150, 300, 600, 1500, 5000])
        how = "free"
    elif r < 0.22:
        # a single asset that alone exceeds the limit (32-byte name, wide quantity), at a random position
        pi = rng.randrange(len(ma))
        ma[pi][1].insert(rng.randint(0, len(ma[pi][1])), [(bytes([0xEE]) * 32).hex(), str(rng.choice([1, 2**32, 2**64 - 1]))])
        params["max_val_size"] = rng.choice([60, 66, 70, 72, 76, 80])
        how = "single-over"
    if how == "aimed":
        # (the network byte of the address is a function of the parameters; its length, all that matters here, is not)
        S.StubContext({"params": params})
        ab = bytes(S.address("k0").to_primitive())
        k = None
        if rng.random() < 0.3:
            c0 = rng.choice([0, 0, c0])
            cpb, k = aim_cpb(rng, ab, ma, c0)
            params["cpb"] = cpb
            how = "aimed+coin-boundary"
        params["max_val_size"] = aim(rng, ab, ma, c0, cpb, k)
    return {"ext": EXT, "kind": "pack", "how": how, "params": params, "change": {"coin": str(c0), "ma": ma}}


# ---- B. the probe ----------------------------------------------------------------------------------------------------------
def check_probe(ctx, case):
    p = {**S.DEFAULT_PARAMS, **case["params"]}
    mvs, cpb = int(p["max_val_size"]), int(p["cpb"])
    cx = S.StubContext({"params": case["params"]})
    b = TransactionBuilder(cx)
    addr = S.address("k0")
    ab = bytes(addr.to_primitive())
    out = TransactionOutput(addr, V.load_value(case["out"]))
    cur = V.load_asset(case["cur"])
    before = (V.dump_value(out.amount), V.dump_asset(cur))
    impl = b._adding_asset_make_output_overflow(out, cur, ScriptHash(bytes.fromhex(case["pol"])),
                                                 AssetName(bytes.fromhex(case["name"])), int(case["q"]), mvs)
    if (V.dump_value(out.amount), V.dump_asset(cur)) != before:
        ctx.diff("pfit.probe:aliasing", case, before, (V.dump_value(out.amount), V.dump_asset(cur)))
    content = V.content_ma(case["out"]["ma"] + [[case["pol"], case["cur"] + [[case["name"], case["q"]]]]])
    pc, n = probe(ab, int(case["out"]["coin"]), content, cpb)
    ctx.count(f"packfit:probe:{'over' if impl else 'fits'}:d={max(-5, min(5, n - mvs))}")
    if impl != (n > mvs):
        # the probe is the mechanism, not the clause: a wrong probe shows as an oversized / lost chunk in A, C, D
        ctx.diff("pfit.probe:oracle", case, {"size": n, "coin": pc, "max": mvs, "overflow": n > mvs}, impl)
    if ctx.have_driver():
        m = ctx.driver().ok({"op": "pfit.probe", "p": model_params(p), "addr": ab.hex(), "out": case["out"], "cur": case["cur"],
                             "pol": case["pol"], "name": case["name"], "q": case["q"]})
        ctx.traces += 1
        if m["overflow"] != impl or int(m["len"]) != n or int(m["coin"]) != pc:
            ctx.diff("pfit.probe", case, m, {"overflow": impl, "len": n, "coin": pc})
    ctx.case(case)


def gen_probe(rng):
    cpb = rng.choice(CPBS)
    ma = gen_bundle(rng, tag=0xA0)
    pi = rng.randrange(len(ma))
    pol, assets = ma[pi]
    k = rng.randrange(len(assets))
    out = {"coin": str(rng.choice(COINS)), "ma": ma[:pi] if rng.random() < 0.7 else []}
    case = {"ext": EXT, "kind": "probe", "params": {"cpb": cpb, "max_val_size": 5000}, "out": out, "cur": assets[:k], "pol": pol,
            "name": assets[k][0], "q": assets[k][1]}
    S.StubContext({"params": case["params"]})
    ab = bytes(S.address("k0").to_primitive())
    content = V.content_ma(out["ma"] + [[pol, assets[:k + 1]]])
    n = probe(ab, int(out["coin"]), content, cpb)[1]
    case["params"]["max_val_size"] = max(20, n + rng.choice([-3, -2, -1, -1, 0, 0, 0, 1, 1, 2, 3, 40, -40]))
    return case


# ---- C / D. change outputs ---------------------------------------------------------------------------------------------------
def judge_change_outputs(ctx, case, ab, outs, mvs, cpb, where, hyp_ok):
    """`outs`: [(coin, content)] of the change outputs in order.  What must hold (change_fit): every output that carries tokens
    fits max_val_size with the coin it finally carries."""
    for i, (coin, content) in enumerate(outs):
        if not content:
            continue
        n = vlen(coin, content)
        last = i == len(outs) - 1
        if n <= mvs:
            ctx.count(f"packfit:{where}:fits" + (":last" if last else ":first" if i == 0 else ":middle")
                      + (f":coin{wlen(coin)}B" if last else ""))
            ctx.count(f"packfit:{where}:slack:" + ("0" if n == mvs else "1-4" if mvs - n <= 4 else ">4"))
            continue
        if not hyp_ok:
            ctx.count(f"packfit:{where}:over-limit:single-asset-over")
            ctx.skipped += 1
            continue
        ctx.violation(f"{where}: change output {i} of {len(outs)} carries a value of {n} bytes, over max_val_size {mvs} "
                      f"(final coin {coin}, {len(content)} assets)", case, mvs, n)


def check_change(ctx, case):
    p = {**S.DEFAULT_PARAMS, **case["params"]}
    mvs, cpb = int(p["max_val_size"]), int(p["cpb"])
    cx = S.StubContext({"params": case["params"]})
    b = TransactionBuilder(cx)
    addr = S.address("k0")
    ab = bytes(addr.to_primitive())
    ins = [UTxO(TransactionInput(TransactionId(bytes([i + 1]) * 32), 0), TransactionOutput(S.address("k2"), V.load_value(v)))
           for i, v in enumerate(case["inputs"])]
    outs = [TransactionOutput(S.address("k1"), V.load_value(v)) for v in case["outputs"]]
    try:
        res = b._calc_change(case["fee"], ins, outs, addr, True, case["respect"])
        err = None
    except Exception as e:
        res, err = None, S.classify(e)
    impl = None
    if res is not None:
        impl = [[str(o.amount.coin), V.canon_ma(V.dump_ma(o.amount.multi_asset))] for o in res]
        co = [(int(o.amount.coin), V.content_ma(V.dump_ma(o.amount.multi_asset))) for o in res]
        # the change value, computed from the arguments: inputs - outputs (- fee), positive token entries only
        want = {}
        for v in case["inputs"]:
            for k, q in V.content_ma(v["ma"]).items():
                want[k] = want.get(k, 0) + q
        for v in case["outputs"]:
            for k, q in V.content_ma(v["ma"]).items():
                want[k] = want.get(k, 0) - q
        want = {k: q for k, q in want.items() if q > 0}
        chv = {"coin": str(sum(int(v["coin"]) for v in case["inputs"]) - sum(int(v["coin"]) for v in case["outputs"]) - case["fee"]),
               "ma": V.content_to_ma_json(want)}
        over = singles_over(ab, chv, mvs, cpb)
        tot = {}
        for _, c in co:
            for k, v in c.items():
                tot[k] = tot.get(k, 0) + v
        if tot != want:
            if over:
                ctx.count("packfit:change:tokens-lost:single-asset-over")
                ctx.skipped += 1
            else:
                ctx.violation("_calc_change: the change outputs do not hold inputs - outputs (tokens lost or duplicated)", case,
                              fmt(want), fmt(tot))
        if not case["respect"] and len(co) > 1:
            # several outputs computed WITHOUT the minimum-ADA requirement: `_add_change_and_fee` never keeps such a result
            # (it recomputes with the requirement); the coins need not lie between 0 and the change coin: outside change_fit
            ctx.count("packfit:change:relaxed-and-split(not judged)")
            ctx.skipped += 1
        else:
            judge_change_outputs(ctx, case, ab, co, mvs, cpb, "change", not over)
    ctx.count("packfit:change:" + (err or f"ok{min(len(res), 5)}"))
    if ctx.have_driver():
        req = {"op": "pfit.change", "p": model_params(p), "fee": str(case["fee"]), "inputs": case["inputs"], "mint": [],
               "withdrawals": [], "certs": [], "initial_pool": False, "proposals": [], "donation": "0", "addr": ab.hex(),
               "out_values": case["outputs"], "respect": case["respect"]}
        m = ctx.driver().ok(req)
        ctx.traces += 1
        if "err" in m:
            if err != m["err"]:
                ctx.diff("pfit.change", case, m, err or impl)
        else:
            mod = [[o["amount"]["coin"], V.canon_ma(o["amount"]["ma"])] for o in m["outs"]]
            if mod != impl:
                ctx.diff("pfit.change", case, mod, err or impl)
            else:
                lens = [vlen(c, cont) for c, cont in co]
                if [int(x) for x in m["lens"]] != lens:
                    ctx.diff("pfit.change:lens", case, m["lens"], lens)
                fit = all(not cont or n <= mvs for (c, cont), n in zip(co, lens))
                if m["all_fit"] != fit:
                    ctx.diff("pfit.change:all_fit", case, m["all_fit"], fit)
                if m["no_single_over"] != (not singles_over(ab, m["change"], mvs, cpb)):
                    ctx.diff("pfit.change:noSingleOver", case, m["no_single_over"], singles_over(ab, m["change"], mvs, cpb))
    ctx.case(case)


def gen_change(rng):
    cpb = rng.choice(CPBS)
    ma = gen_bundle(rng, tag=0xD0)
    coin = rng.choice([c for c in COINS if c >= 10**6] + [2**32, 2**32 - 1, 2**32 + 1])
    fee = rng.choice([0, 170_000, 200_000])
    out_coin = rng.choice([0, 1_000_000])
    params = {"cpb": cpb, "max_val_size": 5000}
    S.StubContext({"params": params})
    ab = bytes(S.address("k0").to_primitive())
    # aim at the LAST closing point as well: the whole bundle, or a suffix
    flat = [(p, n, int(q)) for p, a in ma for n, q in a]
    r = rng.random()
    if r < 0.45:
        n = probe(ab, coin, {(p, a): q for p, a, q in flat}, cpb)[1]
        params["max_val_size"] = max(60, min(5000, n + rng.choice([-2, -1, 0, 0, 0, 1, 2, 3, 4])))
    elif r < 0.9:
        params["max_val_size"] = aim(rng, ab, ma, coin, cpb)
    else:
        params["max_val_size"] = rng.choice([100, 150, 300, 5000])
    inp = {"coin": str(coin + fee + out_coin), "ma": ma}
    outs = [{"coin": str(out_coin), "ma": []}] if out_coin else []
    return {"ext": EXT, "kind": "change", "params": params, "fee": fee, "inputs": [inp], "outputs": outs,
            "respect": rng.random() < 0.8}


def check_build(ctx, case):
    sc = case["sc"]
    run = S.run(sc, sign=False)
    if run.error:
        ctx.count("packfit:build:refused:" + run.error)
        ctx.case(case, nontrivial=False)
        return
    p = {**S.DEFAULT_PARAMS, **sc.get("params", {})}
    mvs, cpb = int(p["max_val_size"]), int(p["cpb"])
    try:
        B = L.Body(run.body.to_cbor())
    except Exception as e:
        ctx.count("packfit:build:unserializable:" + type(e).__name__)
        ctx.case(case)
        return
    nreq = sum(1 for o in sc["ops"] if o["op"] == "add_output")
    ch = B.outputs[nreq:]
    ctx.count(f"packfit:build:change-outputs:{min(len(ch), 6)}")
    if ch:
        ab = ch[0]["addr"]
        co = [(o["coin"], dict(o["assets"])) for o in ch]
        tot = {}
        for _, c in co:
            for k, v in c.items():
                tot[k] = tot.get(k, 0) + v
        # nothing lost: every token of the inputs that is not sent is in the change
        want = {}
        used = {(i[0], i[1]) for i in B.inputs}
        for u in sc["utxos"]:
            if (u["txid"], u["ix"]) in used:
                for pp, nn, q in u["assets"]:
                    want[(pp, nn)] = want.get((pp, nn), 0) + int(q)
        sent = {}
        for o in B.outputs[:nreq]:
            for k, v in o["assets"].items():
                sent[k] = sent.get(k, 0) + v
        want = {k: v - sent.get(k, 0) for k, v in want.items() if v - sent.get(k, 0) != 0}
        chv = {"coin": str(sum(c for c, _ in co)), "ma": V.content_to_ma_json(want)}
        over = singles_over(ab, chv, mvs, cpb)
        judge_change_outputs(ctx, case, ab, co, mvs, cpb, "build", not over)
        if tot != want:
            if over:
                ctx.count("packfit:build:tokens-lost:single-asset-over")
                ctx.skipped += 1
            else:
                ctx.violation("build(): the change outputs do not hold the tokens of the inputs that are not sent (lost or duplicated)",
                              case, fmt(want), fmt(tot))
    ctx.case(case)


def gen_build(rng):
    cpb = rng.choice([4310, 4310, 1000, 34482, 400])
    ma = gen_bundle(rng, tag=0xB0)
    coin = rng.choice([3_000_000, 10_000_000, 50_000_000, 2**32 - 200_000, 2**32 + 150_000, 2**32 + 1_000_000, 6 * 10**9, 45 * 10**15])
    params = {"cpb": cpb, "max_val_size": 5000}
    S.StubContext({"params": params})
    ab = bytes(S.address("k0").to_primitive())
    flat = [(p, n, int(q)) for p, a in ma for n, q in a]
    if rng.random() < 0.5:
        n = probe(ab, coin, {(p, a): q for p, a, q in flat}, cpb)[1]
        params["max_val_size"] = max(100, min(5000, n + rng.choice([-2, -1, 0, 0, 0, 1, 2, 3, 4])))
    else:
        params["max_val_size"] = max(100, aim(rng, ab, ma, coin, cpb))
    alist = [[p, n, str(q)] for p, n, q in flat]
    u = {"id": "u0", "txid": bytes(rng.randrange(256) for _ in range(32)).hex(), "ix": 0, "addr": "k0", "coin": coin, "assets": alist}
    sc = {"params": params, "utxos": [u], "address_utxos": {}, "ops": [{"op": "add_input", "u": "u0"}],
          "build": {"change": "k0", "merge_change": False, "selectors": [["largest"]]}}
    if rng.random() < 0.5:
        sc["ops"].append({"op": "add_output", "addr": "k1", "coin": 1_500_000})
    return {"ext": EXT, "kind": "build", "sc": sc}


# ---- E. witnesses of the Lean counterexamples ---------------------------------------------------------------------------------
W_ADDR = bytes([0x60]) + bytes([0x11]) * 28
W_POL = (bytes([0xC0]) * 28).hex()


def check_witness(ctx, case):
    """the concrete input of `pack_preserves_counterexample` on the implementation: the defect must reproduce exactly as the
    model says"""
    w = case["w"]
    if w == "pack-break":
        params = {"max_val_size": 45, "cpb": 4310}
        cx = S.StubContext({"params": params})
        b = TransactionBuilder(cx)
        addr = Address.from_primitive(W_ADDR)
        val = V.load_value({"coin": "5000000", "ma": [[W_POL, [["aa" * 32, "7"]]]]})
        got = [V.dump_ma(m) for m in b._pack_tokens_for_change(addr, val, 45)]
        if got == [[], []]:
            ctx.count("packfit:witness:pack-break:reproduced(tokens dropped by the break)")
        else:
            ctx.diff("pfit.witness:pack-break", case, [[], []], got)
        ctx.case(case)


def dispatch(ctx, case):
    k = case.get("kind")
    if k == "pack":
        check_pack(ctx, case)
    elif k == "probe":
        check_probe(ctx, case)
    elif k == "change":
        check_change(ctx, case)
    elif k == "build":
        check_build(ctx, case)
    elif k == "witness":
        check_witness(ctx, case)


def corpus():
    pol = W_POL
    big = [[W_POL, [[f"{i:04x}" + "00" * 30, "1"] for i in range(141)] + [["ff" * 21, "1"]]]]
    return [
        {"ext": EXT, "kind": "witness", "w": "pack-break"},
        # the inputs on which the clause failed before repair 8c81354: a last change output of 2^32 lovelace or more next to a
        # bundle measured within 4 bytes of the limit (5001 bytes under max_val_size 5000) — directly and through build()
        {"ext": EXT, "kind": "change", "params": {"max_val_size": 5000, "cpb": 4310}, "fee": 170000,
         "inputs": [{"coin": str(2**32 + 170000), "ma": big}], "outputs": [], "respect": True},
        {"ext": EXT, "kind": "change", "params": {"max_val_size": 48, "cpb": 4310}, "fee": 170000,
         "inputs": [{"coin": str(2**32 + 170000), "ma": [[W_POL, [["01020304", "1"]]]]}], "outputs": [], "respect": True},
        {"ext": EXT, "kind": "build", "sc": {
            "params": {"max_val_size": 5000, "cpb": 4310}, "net": 0,
            "utxos": [{"id": "u0", "txid": "11" * 32, "ix": 0, "addr": "k0", "coin": 2**32 + 1_000_000,
                       "assets": [[p, n, q] for p, a in big for n, q in a]}],
            "address_utxos": {}, "ops": [{"op": "add_input", "u": "u0"}],
            "build": {"change": "k0", "merge_change": False, "selectors": [["largest"]]}}},
        # a single asset over the limit that is not the last of its policy: emitted alone, nothing lost
        {"ext": EXT, "kind": "pack", "how": "corpus", "params": {"max_val_size": 60, "cpb": 4310},
         "change": {"coin": "5000000", "ma": [[pol, [["aa" * 32, "7"], ["bb", "1"]]]]}},
        # … and as the last of its policy: dropped with every later policy
        {"ext": EXT, "kind": "pack", "how": "corpus", "params": {"max_val_size": 60, "cpb": 4310},
         "change": {"coin": "5000000", "ma": [[pol, [["bb", "1"], ["aa" * 32, "7"]]], ["c1" * 28, [["cc", "3"]]]]}},
    ]


def run_ext(ctx):
    ctx.rule += (" | ext packfit: bundles of 1..60 assets over 1..6 policies (names 0..32 bytes, quantities and change coins on "
                 "every CBOR width boundary, coins-per-byte 0 .. 2^36) with max_val_size (60..5000) aimed so that a chunk closes "
                 "within ±4 bytes of the limit: `_pack_tokens_for_change`, `_adding_asset_make_output_overflow`, `_calc_change` "
                 "and whole build() runs, every chunk / change output measured with an independent encoder; single assets that "
                 "alone exceed the limit; replay of the Lean counterexample witness")
    ctx.assumptions.append("packfit: change_fit assumes coins-per-byte >= 0 and that no single asset alone exceeds max_val_size "
                           "(such cases are counted under packfit:*:single-asset-over, and the token loss of the `break` under "
                           "packfit:*:tokens-lost:single-asset-over, not flagged)")
    for c in corpus():
        dispatch(ctx, c)
    for i in range(ctx.budget(90, 1200)):
        dispatch(ctx, gen_pack(random.Random(f"C08/{ctx.seed}/packfit/pack/{i}")))
    for i in range(ctx.budget(240, 4000)):
        dispatch(ctx, gen_probe(random.Random(f"C08/{ctx.seed}/packfit/probe/{i}")))
    for i in range(ctx.budget(50, 600)):
        dispatch(ctx, gen_change(random.Random(f"C08/{ctx.seed}/packfit/change/{i}")))
    for i in range(ctx.budget(18, 200)):
        dispatch(ctx, gen_build(random.Random(f"C08/{ctx.seed}/packfit/build/{i}")))


def replay_ext(ctx, case):
    dispatch(ctx, case)
